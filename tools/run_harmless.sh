#!/bin/bash
# usage: run_harmless.sh <dir-with-patch.diff> <Cxx> [...]  -- apply a behaviour-preserving rewrite to /repo, run quick checks, undo.
# Prints one line per check: "<name> <Cxx> clean|ALARM ..." ; any ALARM is to be examined as a possible false alarm.
set -u
D=$1; shift
name=$(basename $D)
cd /repo && git status --short | grep -q . && { echo "/repo not clean"; exit 2; }
git -C /repo apply $D/patch.diff || { echo "$name patch does not apply"; exit 2; }
for p in "$@"; do
  out=$(cd /verif && ./check $p --tier quick 2>&1)
  rc=$?
  v=$(echo "$out" | grep -E "VIOLATION|INTERNAL|failed" | cut -c1-400)
  if [ $rc -eq 0 ] && [ -z "$v" ]; then echo "$name $p clean"; else echo "$name $p ALARM rc=$rc"; echo "$v" | sed 's/^/    /'; fi
done
git -C /repo checkout -- .
git -C /repo status --short | grep -v '^??' 
git -C /repo clean -fdq src 2>/dev/null
git -C /verif checkout -- evidence 2>/dev/null
