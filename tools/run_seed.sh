#!/bin/bash
# usage: run_seed.sh <patch.diff> <Cxx> [<Cyy> ...]  -- apply a seeded change to /repo, run the quick checks, undo
set -u
PATCH=$1; shift
cd /repo && git status --short | grep -q . && { echo "/repo not clean"; exit 2; }
git -C /repo apply $PATCH || { echo "patch does not apply"; exit 2; }
for p in "$@"; do
  (cd /verif && ./check $p --tier quick 2>&1 | grep -E "VIOLATION|KNOWN|^\[|INTERNAL|failed" | cut -c1-300)
done
git -C /repo checkout -- .
# evidence files are written by every run; the ones just written describe the changed tree: put the committed ones back
git -C /verif checkout -- evidence 2>/dev/null
