#!/bin/bash
# usage: coverage.sh  -- how much of /repo/src the correspondence runs exercise (an analysis aid, not a check).
# Builds the harness with source-based coverage (nightly toolchain: llvm-tools are installed there only),
# runs every property's quick harness once and prints llvm-cov's per-file report for the crate's sources,
# followed by the lines never executed. Scratch goes to /tmp/verif-cov and is removed at the end.
set -u
W=/tmp/verif-cov; rm -rf $W; mkdir -p $W
LT=$(ls -d ~/.rustup/toolchains/nightly-x86_64-unknown-linux-gnu/lib/rustlib/x86_64-unknown-linux-gnu/bin)
cd /verif/harness && cp /repo/Cargo.lock Cargo.lock
LLVM_PROFILE_FILE=$W/build-%p.profraw CARGO_TARGET_DIR=$W/target RUSTFLAGS="-C instrument-coverage" CARGO_NET_OFFLINE=true cargo +nightly build --release --offline >/dev/null 2>&1 || { echo "coverage build failed"; exit 2; }
(cd /verif/lean && lake build driver >/dev/null 2>&1)
for p in C01 C02 C03 C04 C05 C06 C07 C08 C09 C10 C11 C12 C13 C14 C15 C16; do
  corpus=""; [ -d /verif/corpus/$p ] && corpus="--corpus /verif/corpus/$p"
  LLVM_PROFILE_FILE=$W/$p-%p.profraw timeout 900 $W/target/release/vharness $p --tier quick --seed ${VERIF_SEED:-1} \
    --driver /verif/lean/.lake/build/bin/driver --out $W/$p.json $corpus >/dev/null 2>&1
done
$LT/llvm-profdata merge -sparse $W/C*.profraw -o $W/all.profdata
SRC=$(ls /repo/src/*.rs /repo/src/algorithm/*.rs)
$LT/llvm-cov report $W/target/release/vharness -instr-profile=$W/all.profdata $SRC 2>/dev/null | cut -c1-160
echo; echo "lines never executed:"
$LT/llvm-cov show $W/target/release/vharness -instr-profile=$W/all.profdata $SRC -show-line-counts-or-regions 2>/dev/null | grep -E "^/repo|^\s+[0-9]+\|\s+0\|" | grep -B1 -E "^\s+[0-9]+\|\s+0\|" | grep -v "^--"
rm -rf $W
