#!/bin/bash
# usage: seed_matrix.sh [<seed-id> ...]  -- every seeded change (default: all) against the quick check of
# the property it was written for; prints one line per seed: <id> caught|MISSED <summary line>
set -u
cd /verif
ids=("$@"); [ ${#ids[@]} -eq 0 ] && ids=($(ls seeded))
for id in "${ids[@]}"; do
  p=${id%%-*}
  out=$(tools/run_seed.sh /verif/seeded/$id/patch.diff $p 2>&1)
  if echo "$out" | grep -q "^VIOLATION property=$p "; then r=caught; else r=MISSED; fi
  echo "$id $r $(echo "$out" | grep -E '^\[' | tail -1 | cut -c1-160)"
done
