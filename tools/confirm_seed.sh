#!/bin/bash
# usage: confirm_seed.sh <Cxx> <A|B>   -- confirms a seeded change in its scratch worktree:
#   (1) existing suite passes with the change, (2) demo fails with it, (3) demo passes without it
set -u
P=$1; X=$2; W=${MUTROOT:-/tmp/mut}/$P; O=$W/out/$X
export CARGO_TARGET_DIR=$W/target CARGO_NET_OFFLINE=true
cd $W || exit 2
git checkout -q -- . && git clean -qfd -e out -e target
git apply $O/patch.diff || { echo "RESULT $P $X patch-does-not-apply"; exit 1; }
cargo test --offline > $O/confirm_suite.log 2>&1; s1=$?
cp $O/demo.rs tests/demo_seed.rs
cargo test --offline --test demo_seed > $O/confirm_demo_with.log 2>&1; s2=$?
git checkout -q -- src
cargo test --offline --test demo_seed > $O/confirm_demo_without.log 2>&1; s3=$?
rm -f tests/demo_seed.rs
git checkout -q -- . && git clean -qfd -e out -e target
echo "RESULT $P $X suite_with_change=$s1 demo_with_change=$s2 demo_without_change=$s3"
