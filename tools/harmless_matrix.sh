#!/bin/bash
# usage: harmless_matrix.sh [dir ...]  -- every behaviour-preserving rewrite under /verif/harmless against all 16 quick checks.
# Output: one line per (rewrite, check) that is not clean, and a summary line per rewrite.
set -u
cd /verif
DIRS=${@:-$(ls -d /verif/harmless/C*)}
for D in $DIRS; do
  name=$(basename $D)
  (cd /repo && git status --short | grep -v '^??' | grep -q .) && { echo "/repo not clean"; exit 2; }
  git -C /repo apply $D/patch.diff || { echo "$name patch does not apply"; continue; }
  for p in C01 C02 C03 C04 C05 C06 C07 C08 C09 C10 C11 C12 C13 C14 C15 C16; do echo $p; done | \
    xargs -P 8 -I{} sh -c 'out=$(./check {} --tier quick 2>&1); rc=$?; v=$(echo "$out" | grep -E "VIOLATION|INTERNAL|failed" | cut -c1-300); if [ $rc -ne 0 ] || [ -n "$v" ]; then echo "'$name' {} ALARM rc=$rc"; echo "$v" | sed "s/^/    /"; fi' > /tmp/hm_$name.log 2>&1
  n=$(grep -c ALARM /tmp/hm_$name.log)
  echo "== $name alarms=$n"; cat /tmp/hm_$name.log
  git -C /repo checkout -- .
  git -C /repo clean -fdq src tests 2>/dev/null
  git -C /verif checkout -- evidence 2>/dev/null
done
