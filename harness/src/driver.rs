//! Pipe to the compiled Lean driver: one JSON request per line, one JSON response per line.
use serde_json::Value;
use std::io::{BufRead, BufReader, Write};
use std::process::{Child, ChildStdin, ChildStdout, Command, Stdio};

pub struct Driver {
    child: Child,
    stdin: ChildStdin,
    stdout: BufReader<ChildStdout>,
    pub requests: u64,
}

impl Driver {
    pub fn spawn(path: &str) -> Driver {
        let mut child = Command::new(path)
            .stdin(Stdio::piped())
            .stdout(Stdio::piped())
            .spawn()
            .unwrap_or_else(|e| panic!("cannot start Lean driver {}: {}", path, e));
        let stdin = child.stdin.take().unwrap();
        let stdout = BufReader::new(child.stdout.take().unwrap());
        Driver { child, stdin, stdout, requests: 0 }
    }

    pub fn ask(&mut self, req: &Value) -> Value {
        let line = serde_json::to_string(req).unwrap();
        self.stdin.write_all(line.as_bytes()).unwrap();
        self.stdin.write_all(b"\n").unwrap();
        self.stdin.flush().unwrap();
        let mut resp = String::new();
        let n = self.stdout.read_line(&mut resp).unwrap();
        if n == 0 {
            panic!("Lean driver closed its output on request {}", line);
        }
        self.requests += 1;
        serde_json::from_str(&resp).unwrap_or_else(|e| panic!("driver response is not JSON ({}): {}", e, resp))
    }

    pub fn hash(&mut self, alg: &str, s: &str) -> String {
        let r = self.ask(&serde_json::json!({"op":"hash","alg":alg,"s":s}));
        r["h"].as_str().unwrap_or("").to_string()
    }
}

impl Drop for Driver {
    fn drop(&mut self) {
        let _ = self.child.kill();
        let _ = self.child.wait();
    }
}
