//! What a run produces: counts, the three kinds of difference (reported separately), the input
//! distribution, samples. The Python `check` turns this into evidence / VIOLATION lines.
use serde_json::{json, Value};
use std::collections::hash_map::DefaultHasher;
use std::collections::{BTreeMap, HashSet};
use std::hash::{Hash, Hasher};

pub const MAX_RECORDED: usize = 40;

pub struct Report {
    pub property: String,
    pub tier: String,
    pub seed: u64,
    pub evaluations: u64,
    pub nontrivial: HashSet<u64>,
    pub rule: String,
    pub diffs: Vec<Value>,
    pub diff_counts: BTreeMap<String, u64>,
    pub hist: BTreeMap<String, u64>,
    pub samples: Vec<Value>,
    pub notes: Vec<String>,
    pub exhaustive: bool,
}

pub fn hash_of(v: &Value) -> u64 {
    let mut h = DefaultHasher::new();
    v.to_string().hash(&mut h);
    h.finish()
}

impl Report {
    pub fn new(property: &str, tier: &str, seed: u64) -> Report {
        Report {
            property: property.to_string(),
            tier: tier.to_string(),
            seed,
            evaluations: 0,
            nontrivial: HashSet::new(),
            rule: String::new(),
            diffs: Vec::new(),
            diff_counts: BTreeMap::new(),
            hist: BTreeMap::new(),
            samples: Vec::new(),
            notes: Vec::new(),
            exhaustive: false,
        }
    }

    pub fn bump(&mut self, key: &str) {
        *self.hist.entry(key.to_string()).or_insert(0) += 1;
    }

    pub fn bump_by(&mut self, key: &str, n: u64) {
        *self.hist.entry(key.to_string()).or_insert(0) += n;
    }

    pub fn nontrivial_case(&mut self, canonical: &Value) {
        self.nontrivial.insert(hash_of(canonical));
    }

    pub fn sample(&mut self, v: Value) {
        if self.samples.len() < 5 {
            self.samples.push(v);
        }
    }

    /// kind: "property" (real code vs spec oracle), "correspondence" (real code vs Impl model),
    /// "internal" (Impl model vs spec oracle: hypotheses not met / machinery error)
    pub fn diff(&mut self, kind: &str, entry: &str, signature: &str, case: &Value, detail: Value) {
        *self.diff_counts.entry(kind.to_string()).or_insert(0) += 1;
        let same_sig = self
            .diffs
            .iter()
            .filter(|d| d["kind"] == kind && d["signature"] == signature)
            .count();
        if self.diffs.len() < MAX_RECORDED && same_sig < 3 {
            self.diffs.push(json!({
                "kind": kind, "entry": entry, "signature": signature, "case": case, "detail": detail,
            }));
        }
    }

    pub fn to_json(&self, wall_s: f64, driver_requests: u64) -> Value {
        json!({
            "property": self.property, "tier": self.tier, "seed": self.seed,
            "evaluations": self.evaluations,
            "distinct_nontrivial": self.nontrivial.len(),
            "rule": self.rule,
            "diffs": self.diffs, "diff_counts": self.diff_counts,
            "histogram": self.hist, "samples": self.samples, "notes": self.notes,
            "exhaustive": self.exhaustive,
            "wall_s": wall_s, "driver_requests": driver_requests,
        })
    }
}
