//! Fixture keys (generated with openssl, PKCS#8 / SPKI PEM), embedded at build time.
use sdjwt::{Algorithm, KeyForDecoding, KeyForEncoding};
use serde_json::Value;

pub const RSA_A: &str = include_str!("../keys/rsa_a.pem");
pub const RSA_A_PUB: &str = include_str!("../keys/rsa_a.pub.pem");
pub const RSA_B: &str = include_str!("../keys/rsa_b.pem");
pub const RSA_B_PUB: &str = include_str!("../keys/rsa_b.pub.pem");
pub const RSA_A_JWK: &str = include_str!("../keys/rsa_a.jwk.json");
pub const RSA_B_JWK: &str = include_str!("../keys/rsa_b.jwk.json");
pub const P256: &str = include_str!("../keys/ec_prime256v1.pem");
pub const P256_PUB: &str = include_str!("../keys/ec_prime256v1.pub.pem");
pub const P256_2: &str = include_str!("../keys/ec2_prime256v1.pem");
pub const P256_2_PUB: &str = include_str!("../keys/ec2_prime256v1.pub.pem");
pub const K256: &str = include_str!("../keys/ec_secp256k1.pem");
pub const K256_PUB: &str = include_str!("../keys/ec_secp256k1.pub.pem");
pub const K256_2: &str = include_str!("../keys/ec2_secp256k1.pem");
pub const K256_2_PUB: &str = include_str!("../keys/ec2_secp256k1.pub.pem");
pub const P384: &str = include_str!("../keys/ec_secp384r1.pem");
pub const P384_PUB: &str = include_str!("../keys/ec_secp384r1.pub.pem");
pub const P384_2: &str = include_str!("../keys/ec2_secp384r1.pem");
pub const P384_2_PUB: &str = include_str!("../keys/ec2_secp384r1.pub.pem");
pub const P521: &str = include_str!("../keys/ec_secp521r1.pem");
pub const P521_PUB: &str = include_str!("../keys/ec_secp521r1.pub.pem");
pub const P521_2: &str = include_str!("../keys/ec2_secp521r1.pem");
pub const P521_2_PUB: &str = include_str!("../keys/ec2_secp521r1.pub.pem");

pub const HS_SECRET_A: &[u8] = b"correspondence-secret-A-0123456789abcdef0123456789abcdef0123456789abcdef";
pub const HS_SECRET_B: &[u8] = b"correspondence-secret-B-0123456789abcdef0123456789abcdef0123456789abcdef";

pub const ALL_ALGS: [Algorithm; 13] = [
    Algorithm::HS256, Algorithm::HS384, Algorithm::HS512,
    Algorithm::RS256, Algorithm::RS384, Algorithm::RS512,
    Algorithm::PS256, Algorithm::PS384, Algorithm::PS512,
    Algorithm::ES256, Algorithm::ES256K, Algorithm::ES384, Algorithm::ES512,
];

pub fn alg_name(a: &Algorithm) -> &'static str {
    match a {
        Algorithm::HS256 => "HS256", Algorithm::HS384 => "HS384", Algorithm::HS512 => "HS512",
        Algorithm::RS256 => "RS256", Algorithm::RS384 => "RS384", Algorithm::RS512 => "RS512",
        Algorithm::PS256 => "PS256", Algorithm::PS384 => "PS384", Algorithm::PS512 => "PS512",
        Algorithm::ES256 => "ES256", Algorithm::ES256K => "ES256K", Algorithm::ES384 => "ES384",
        Algorithm::ES512 => "ES512",
    }
}

/// key family an algorithm belongs to: 0 = HMAC, 1 = RSA, 2 = P-256, 3 = secp256k1, 4 = P-384, 5 = P-521
pub fn family(a: &Algorithm) -> usize {
    match a {
        Algorithm::HS256 | Algorithm::HS384 | Algorithm::HS512 => 0,
        Algorithm::RS256 | Algorithm::RS384 | Algorithm::RS512 | Algorithm::PS256 | Algorithm::PS384 | Algorithm::PS512 => 1,
        Algorithm::ES256 => 2,
        Algorithm::ES256K => 3,
        Algorithm::ES384 => 4,
        Algorithm::ES512 => 5,
    }
}

/// signing key `which` (0 or 1) of a family
pub fn enc_key(family: usize, which: usize) -> KeyForEncoding {
    match (family, which) {
        (0, 0) => KeyForEncoding::from_secret(HS_SECRET_A),
        (0, _) => KeyForEncoding::from_secret(HS_SECRET_B),
        (1, 0) => KeyForEncoding::from_rsa_pem(RSA_A.as_bytes()).unwrap(),
        (1, _) => KeyForEncoding::from_rsa_pem(RSA_B.as_bytes()).unwrap(),
        (2, 0) => KeyForEncoding::from_ec_pem(P256.as_bytes()).unwrap(),
        (2, _) => KeyForEncoding::from_ec_pem(P256_2.as_bytes()).unwrap(),
        (3, 0) => KeyForEncoding::from_ec_pem(K256.as_bytes()).unwrap(),
        (3, _) => KeyForEncoding::from_ec_pem(K256_2.as_bytes()).unwrap(),
        (4, 0) => KeyForEncoding::from_ec_pem(P384.as_bytes()).unwrap(),
        (4, _) => KeyForEncoding::from_ec_pem(P384_2.as_bytes()).unwrap(),
        (5, 0) => KeyForEncoding::from_ec_pem(P521.as_bytes()).unwrap(),
        (_, _) => KeyForEncoding::from_ec_pem(P521_2.as_bytes()).unwrap(),
    }
}

pub fn dec_key(family: usize, which: usize) -> KeyForDecoding {
    match (family, which) {
        (0, 0) => KeyForDecoding::from_secret(HS_SECRET_A),
        (0, _) => KeyForDecoding::from_secret(HS_SECRET_B),
        (1, 0) => KeyForDecoding::from_rsa_pem(RSA_A_PUB.as_bytes()).unwrap(),
        (1, _) => KeyForDecoding::from_rsa_pem(RSA_B_PUB.as_bytes()).unwrap(),
        (2, 0) => KeyForDecoding::from_ec_pem(P256_PUB.as_bytes()).unwrap(),
        (2, _) => KeyForDecoding::from_ec_pem(P256_2_PUB.as_bytes()).unwrap(),
        (3, 0) => KeyForDecoding::from_ec_pem(K256_PUB.as_bytes()).unwrap(),
        (3, _) => KeyForDecoding::from_ec_pem(K256_2_PUB.as_bytes()).unwrap(),
        (4, 0) => KeyForDecoding::from_ec_pem(P384_PUB.as_bytes()).unwrap(),
        (4, _) => KeyForDecoding::from_ec_pem(P384_2_PUB.as_bytes()).unwrap(),
        (5, 0) => KeyForDecoding::from_ec_pem(P521_PUB.as_bytes()).unwrap(),
        (_, _) => KeyForDecoding::from_ec_pem(P521_2_PUB.as_bytes()).unwrap(),
    }
}

pub fn holder_jwk() -> Value {
    serde_json::from_str(RSA_B_JWK).unwrap()
}
