//! C04 — only the exact issuer-signed JWT, the right key and the configured algorithm verify.
use crate::keys;
use crate::prng::Rng;
use crate::real::{self, Out};
use crate::Ctx;
use sdjwt::{Algorithm, Header, KeyForDecoding, Validation};
use serde_json::{json, Value};

fn payload() -> Value {
    // the odd string makes sure the payload segment contains '-' and '_' (base64url of '>' '?' '~')
    json!({"_sd_alg": "sha-256", "sub": "user_42", "_sd": [], "n": [1, 2, 3], "odd": "???>>>~~~ ?>~?>~"})
}

fn sign_with(alg: &Algorithm, which: usize) -> Option<String> {
    let mut h = Header::new(alg.clone());
    h.typ = Some("sd-jwt".into());
    real::sign(&h, &payload(), &keys::enc_key(keys::family(alg), which)).ok()
}

fn famname(f: usize) -> &'static str {
    match f { 0 => "secret", 1 => "rsa", _ => "ec" }
}

/// the three entry points on one (token, key, configured algorithm)
fn three(ctx: &mut Ctx, jwt: &str, key: &KeyForDecoding, cfg: &Algorithm, expect: bool, label: &str, case: &Value, model: Option<&Value>) {
    let v = Validation::default().without_expiry().with_algorithm(cfg.clone());
    let token = format!("{}~", jwt);
    let outs: Vec<(&str, Out<()>)> = vec![
        ("decode", real::guard(|| sdjwt::decode(jwt, key, &v).map(|_| ()))),
        ("Holder::verify", real::holder_verify(&token, key, &v).map(|_| ())),
        ("Verifier::verify", real::verifier_verify(&token, key, &v, None).map(|_| ())),
    ];
    for (entry, out) in outs {
        ctx.report.bump(&format!("{}:{}", label, out.class()));
        match (&out, expect) {
            (Out::Ok(_), false) => ctx.report.diff("property", entry, &format!("{}:accepts:{}", entry, label), case, json!({})),
            (Out::Err(c, m), true) => ctx.report.diff("property", entry, &format!("{}:rejects-genuine:{}", entry, label), case, json!({"err": c, "msg": m})),
            (Out::Panic(site), _) => ctx.report.diff("property", entry, &format!("{}:panic:{}", entry, site.split(' ').next().unwrap_or("")), case, json!({"panic": site})),
            _ => {}
        }
        if let Some(m) = model {
            let mclass = if m.get("ok").is_some() { "ok" } else if m.get("err").is_some() { "err" } else { "panic" };
            if mclass != out.class() {
                ctx.report.diff("correspondence", entry, &format!("{}:class:real-{}:model-{}:{}", entry, out.class(), mclass, label), case, json!({"model": m}));
            }
        }
    }
}

/// HMAC-SHA-256 (RFC 2104) over `sha2`, for tokens the harness signs itself
fn hmac_sha256(key: &[u8], msg: &[u8]) -> Vec<u8> {
    use sha2::{Digest, Sha256};
    let mut k = [0u8; 64];
    if key.len() > 64 { k[..32].copy_from_slice(&Sha256::digest(key)); } else { k[..key.len()].copy_from_slice(key); }
    let ipad: Vec<u8> = k.iter().map(|b| b ^ 0x36).collect();
    let opad: Vec<u8> = k.iter().map(|b| b ^ 0x5c).collect();
    let inner = Sha256::digest([ipad.as_slice(), msg].concat());
    Sha256::digest([opad.as_slice(), inner.as_slice()].concat()).to_vec()
}

/// "The byte-exact issuer-signed JWT" is whatever bytes the issuer signed: a header whose JSON text is laid out
/// differently (blanks, line breaks, another member order) is as good as a compact one when the signature is over
/// exactly these bytes. Signed here with HS256 (first checked to reproduce the crate's own signature).
fn foreign_layout_headers(ctx: &mut Ctx) {
    let secret = keys::HS_SECRET_A;
    let payload_json = serde_json::to_string(&payload()).unwrap();
    let p64 = real::b64url_encode(payload_json.as_bytes());
    let sign = |h: &str| -> String {
        let input = format!("{}.{}", real::b64url_encode(h.as_bytes()), p64);
        format!("{}.{}", input, real::b64url_encode(&hmac_sha256(secret, input.as_bytes())))
    };
    // the harness's signer is the crate's signer on the crate's own header text
    let mut h = Header::new(Algorithm::HS256);
    h.typ = Some("sd-jwt".into());
    if let Out::Ok(own) = real::sign(&h, &payload(), &keys::enc_key(0, 0)) {
        let own_header = real::b64url_decode(own.split('.').next().unwrap_or("")).map(|b| String::from_utf8_lossy(&b).to_string()).unwrap_or_default();
        let own_payload = own.split('.').nth(1).unwrap_or("").to_string();
        let input = format!("{}.{}", own.split('.').next().unwrap_or(""), own_payload);
        let again = format!("{}.{}", input, real::b64url_encode(&hmac_sha256(secret, input.as_bytes())));
        if again != own { ctx.report.bump("foreign-layout:own-signer-differs"); return; }
        let _ = own_header;
    } else { return; }
    let headers = [
        "{ \"alg\": \"HS256\", \"typ\": \"sd-jwt\" }", "{\n  \"alg\": \"HS256\",\n  \"typ\": \"sd-jwt\"\n}", " {\"alg\":\"HS256\",\"typ\":\"sd-jwt\"}",
        "{\"typ\":\"sd-jwt\",\"alg\":\"HS256\"}", "{\"alg\":\"HS256\"}", "{\t\"alg\":\"HS256\"}\n", "{\"alg\":\"HS256\",\"typ\":\"sd-jwt\",\"x\":[1, 2]}",
    ];
    for (i, htext) in headers.iter().enumerate() {
        ctx.report.evaluations += 1;
        let jwt = sign(htext);
        let case = json!({"kind":"foreign-layout-header","header_text":htext});
        three(ctx, &jwt, &keys::dec_key(0, 0), &Algorithm::HS256, true, "foreign-layout-header:genuine", &case, None);
        // and still only these bytes, this key, this algorithm
        three(ctx, &jwt, &keys::dec_key(0, 1), &Algorithm::HS256, false, "foreign-layout-header:other-key", &case, None);
        three(ctx, &jwt, &keys::dec_key(0, 0), &Algorithm::HS384, false, "foreign-layout-header:other-alg", &case, None);
        if i == 0 { ctx.report.nontrivial_case(&case); }
    }
}

fn matrix(ctx: &mut Ctx) {
    // token algorithm x configured algorithm x key (6 families x 2 keys, + public-key bytes as HMAC secret)
    let mut keys_list: Vec<(usize, usize, KeyForDecoding, String)> = Vec::new();
    for f in 0..6 { for w in 0..2 { keys_list.push((f, w, keys::dec_key(f, w), format!("fam{}key{}", f, w))); } }
    let pem_secrets: Vec<(&str, &str)> = vec![("rsa-pub-as-secret", keys::RSA_A_PUB), ("p256-pub-as-secret", keys::P256_PUB), ("p384-pub-as-secret", keys::P384_PUB)];
    for a in keys::ALL_ALGS.iter() {
        let jwt = match sign_with(a, 0) { Some(j) => j, None => continue };
        for b in keys::ALL_ALGS.iter() {
            for (f, w, key, kname) in &keys_list {
                ctx.report.evaluations += 1;
                let right_key = *f == keys::family(a) && *w == 0;
                let expect = keys::alg_name(a) == keys::alg_name(b) && right_key;
                let case = json!({"kind":"matrix","token_alg":keys::alg_name(a),"configured":keys::alg_name(b),"key":kname});
                let kf = match f { 0 => 0, 1 => 1, _ => 2 };
                let m = ctx.driver.ask(&json!({"op":"decide","start":keys::alg_name(b),"steps":[["withoutExpiry"]],"fam":famname(kf),
                    "hdr_alg":keys::alg_name(a),"sig_ok":right_key,"payload":payload(),"now":0}));
                three(ctx, &jwt, key, b, expect, if expect { "matrix:genuine" } else { "matrix:mismatch" }, &case, Some(&m));
                ctx.report.nontrivial_case(&case);
            }
            // RSA / EC public-key bytes used as an HMAC secret (classic algorithm confusion)
            for (label, pem) in &pem_secrets {
                ctx.report.evaluations += 1;
                let case = json!({"kind":"confusion","token_alg":keys::alg_name(a),"configured":keys::alg_name(b),"key":label});
                three(ctx, &jwt, &KeyForDecoding::from_secret(pem.as_bytes()), b, false, "confusion", &case, None);
            }
        }
        // secrets that differ from the signing secret only at the end (a line ending, a blank, one byte
        // less): other keys, however similar - also the other way round (token signed with the longer one)
        if keys::family(a) == 0 {
            let base = keys::HS_SECRET_A;
            let mut near: Vec<(String, Vec<u8>)> = Vec::new();
            for (label, tail) in [("lf", &b"\n"[..]), ("crlf", &b"\r\n"[..]), ("blank", &b" "[..]), ("tab", &b"\t"[..]), ("ff", &b"\x0c"[..])] {
                let mut k = base.to_vec(); k.extend_from_slice(tail); near.push((format!("secret+{}", label), k));
            }
            near.push(("secret-minus-last-byte".to_string(), base[..base.len() - 1].to_vec()));
            for (label, k) in &near {
                ctx.report.evaluations += 1;
                let case = json!({"kind":"near-miss-secret","token_alg":keys::alg_name(a),"key":label});
                three(ctx, &jwt, &KeyForDecoding::from_secret(k), a, false, "near-miss-secret", &case, None);
                let mut h = Header::new(a.clone());
                h.typ = Some("sd-jwt".into());
                if let Out::Ok(other) = real::sign(&h, &payload(), &sdjwt::KeyForEncoding::from_secret(k)) {
                    let case = json!({"kind":"near-miss-secret","token_alg":keys::alg_name(a),"signed_with":label});
                    three(ctx, &other, &keys::dec_key(0, 0), a, false, "near-miss-secret:signed-with-it", &case, None);
                }
                ctx.report.nontrivial_case(&case);
            }
        }
        // an attacker who knows the public key signs an HS token with it as secret
        if keys::family(a) != 0 {
            for hs in [Algorithm::HS256, Algorithm::HS384, Algorithm::HS512] {
                let pubpem = match keys::family(a) { 1 => keys::RSA_A_PUB, 2 => keys::P256_PUB, 3 => keys::K256_PUB, 4 => keys::P384_PUB, _ => keys::P521_PUB };
                let mut h = Header::new(hs.clone());
                h.typ = Some("sd-jwt".into());
                if let Out::Ok(forged) = real::sign(&h, &payload(), &sdjwt::KeyForEncoding::from_secret(pubpem.as_bytes())) {
                    ctx.report.evaluations += 1;
                    let case = json!({"kind":"forged-with-public-key","configured":keys::alg_name(a),"forged_alg":keys::alg_name(&hs)});
                    three(ctx, &forged, &keys::dec_key(keys::family(a), 0), a, false, "forged-hs-with-public-key", &case, None);
                    ctx.report.nontrivial_case(&case);
                }
            }
        }
    }
}

fn mutations(ctx: &mut Ctx, rng: &mut Rng, per_segment: usize, all_positions: bool) {
    let b64: Vec<u8> = b"ABCDEFGHIJKLMNOPQRSTUVWXYZabcdefghijklmnopqrstuvwxyz0123456789-_".to_vec();
    for a in keys::ALL_ALGS.iter() {
        let jwt = match sign_with(a, 0) { Some(j) => j, None => continue };
        let key = keys::dec_key(keys::family(a), 0);
        // the genuine token verifies
        three(ctx, &jwt, &key, a, true, "mutation:baseline", &json!({"kind":"baseline","alg":keys::alg_name(a)}), None);
        let segs: Vec<&str> = jwt.split('.').collect();
        let mut offset = 0usize;
        for (si, seg) in segs.iter().enumerate() {
            let positions: Vec<usize> = if all_positions { (0..seg.len()).collect() } else { (0..per_segment).map(|_| rng.below(seg.len())).collect() };
            for pos in positions {
                // single-character substitution
                let mut bytes = jwt.clone().into_bytes();
                let old = bytes[offset + pos];
                let mut new = *rng.pick(&b64);
                if new == old { new = if old == b'A' { b'B' } else { b'A' }; }
                bytes[offset + pos] = new;
                let mutated = String::from_utf8(bytes).unwrap();
                ctx.report.evaluations += 1;
                let case = json!({"kind":"char-substitution","alg":keys::alg_name(a),"segment":si,"pos":pos,"jwt":mutated});
                three(ctx, &mutated, &key, a, false, "mutation:char", &case, None);
                ctx.report.nontrivial_case(&json!(["char", keys::alg_name(a), si, pos, new]));
                // single-bit flip of the decoded segment
                if let Some(mut raw) = real::b64url_decode(seg) {
                    if !raw.is_empty() {
                        let bit = rng.below(raw.len() * 8);
                        raw[bit / 8] ^= 1 << (bit % 8);
                        let reenc = real::b64url_encode(&raw);
                        let mut parts: Vec<String> = segs.iter().map(|s| s.to_string()).collect();
                        parts[si] = reenc;
                        let mutated = parts.join(".");
                        ctx.report.evaluations += 1;
                        let case = json!({"kind":"bit-flip","alg":keys::alg_name(a),"segment":si,"bit":bit,"jwt":mutated});
                        three(ctx, &mutated, &key, a, false, "mutation:bit", &case, None);
                        ctx.report.nontrivial_case(&json!(["bit", keys::alg_name(a), si, bit]));
                    }
                }
            }
            offset += seg.len() + 1;
        }
        // characters outside the base64url alphabet: standard-alphabet twins, padding, whitespace
        let mut o2 = 0usize;
        for (si, seg) in segs.iter().enumerate() {
            let mut variants: Vec<(String, String)> = Vec::new();
            for (from, to) in [('-', '+'), ('_', '/')] {
                let hits: Vec<usize> = seg.char_indices().filter(|(_, c)| *c == from).map(|(i, _)| i).collect();
                for pos in hits.iter().take(4) {
                    let mut b = jwt.clone().into_bytes();
                    b[o2 + pos] = to as u8;
                    variants.push((format!("twin:{}->{}", from, to), String::from_utf8(b).unwrap()));
                }
            }
            for pad in ["=", "==", " ", "%3D", "\n"] {
                let mut parts: Vec<String> = segs.iter().map(|s| s.to_string()).collect();
                parts[si] = format!("{}{}", parts[si], pad);
                variants.push((format!("appended:{:?}", pad), parts.join(".")));
                let mut parts: Vec<String> = segs.iter().map(|s| s.to_string()).collect();
                parts[si] = format!("{}{}", pad, parts[si]);
                variants.push((format!("prepended:{:?}", pad), parts.join(".")));
            }
            for _ in 0..8 {
                let pos = rng.below(seg.len());
                let mut b = jwt.clone().into_bytes();
                b[o2 + pos] = *rng.pick(&[b'+', b'/', b'=', b' ', b'.', b'~', b'%', b'*']);
                if let Ok(m) = String::from_utf8(b) { if m != jwt { variants.push(("non-alphabet-char".to_string(), m)); } }
            }
            for (label, m) in variants {
                ctx.report.evaluations += 1;
                let case = json!({"kind":"non-alphabet","alg":keys::alg_name(a),"segment":si,"edit":label,"jwt":m});
                three(ctx, &m, &key, a, false, "mutation:non-alphabet", &case, None);
                ctx.report.nontrivial_case(&case);
            }
            o2 += seg.len() + 1;
        }
        // structural edits
        for (label, m) in [("sig-stripped", format!("{}.{}.", segs[0], segs[1])), ("sig-dropped", format!("{}.{}", segs[0], segs[1])),
                           ("alg-none", format!("{}.{}.", real::b64url_encode(b"{\"alg\":\"none\",\"typ\":\"sd-jwt\"}"), segs[1])),
                           ("sig-of-other-token", { let other = sign_with(a, 1).unwrap_or_default(); format!("{}.{}.{}", segs[0], segs[1], other.split('.').nth(2).unwrap_or("")) }),
                           ("extra-dot", format!("{}.", jwt)), ("trailing-space", format!("{} ", jwt))] {
            ctx.report.evaluations += 1;
            let case = json!({"kind":"structural","alg":keys::alg_name(a),"edit":label,"jwt":m});
            three(ctx, &m, &key, a, false, &format!("structural:{}", label), &case, None);
        }
    }
}

pub fn run(ctx: &mut Ctx, replay: Option<&Value>) {
    ctx.report.rule = "exhaustive 13 token algorithms x 13 configured algorithms x 12 keys (6 families x right/other key) through decode / Holder::verify / Verifier::verify, accept iff same algorithm and the signer's key, compared with the model's decision (signature verdict by construction); RSA/EC public-key PEM bytes as HMAC secret and HS tokens forged with the public key as secret; per algorithm: single-character substitutions and single-bit flips (after base64 decoding) at 64 sampled (thorough: all) positions of each of the three segments, signature stripped / dropped / taken from another key's token, alg none; non-trivial = distinct matrix cell or mutation".to_string();
    if let Some(case) = replay {
        if let Some(j) = case["jwt"].as_str() {
            let a = keys::ALL_ALGS.iter().find(|x| keys::alg_name(x) == case["alg"].as_str().unwrap_or("")).cloned().unwrap_or(Algorithm::HS256);
            three(ctx, j, &keys::dec_key(keys::family(&a), 0), &a, false, "replay", case, None);
        } else {
            matrix(ctx);
        }
        return;
    }
    matrix(ctx);
    foreign_layout_headers(ctx);
    let mut rng = Rng::fork(ctx.seed, 0xC04);
    mutations(ctx, &mut rng, 64, ctx.tier_thorough);
    ctx.report.exhaustive = false;
}
