//! Issuing a generated case (own issuer or reference issuer) and the pieces every flow needs.
use super::common::*;
use crate::keys;
use crate::prng::Rng;
use crate::real::{self, IssueReq, Out};
use crate::tree::{descendants_first_order, gen_tree, GenCfg, MarkInfo, Node};
use crate::Ctx;
use sdjwt::{Algorithm, Header, Validation};
use serde_json::{json, Value};

pub struct IssuedCase {
    pub tree: Node,
    pub marks: Vec<MarkInfo>,
    pub token: String,
    pub jwt: String,
    pub discs: Vec<String>,
    pub payload: Value,
    pub claims: Value,
    pub alg: Algorithm,
    pub sd_alg: String,
    pub kb: bool,
    pub exp: bool,
    /// response of the driver's `tree` op for the tree with its disclosure strings
    pub spec: Value,
    pub reference: bool,
    /// mark id -> the path `Holder::verify` reports for that node's disclosure on the real token (what a holder
    /// application passes to `redact`); empty when the holder rejects the token
    pub reported: std::collections::HashMap<usize, String>,
}

impl IssuedCase {
    pub fn validation(&self) -> Validation {
        if self.exp {
            Validation::default().with_algorithm(self.alg.clone())
        } else {
            Validation::default().without_expiry().with_algorithm(self.alg.clone())
        }
    }
    pub fn disc_of(&self, id: usize) -> String {
        self.spec["discs"].as_array().and_then(|a| a.iter().find(|d| d["id"] == json!(id)))
            .and_then(|d| d["str"].as_str()).unwrap_or("").to_string()
    }
    pub fn spec_disc(&self, id: usize) -> Value {
        self.spec["discs"].as_array().and_then(|a| a.iter().find(|d| d["id"] == json!(id))).cloned().unwrap_or(Value::Null)
    }
    /// path the holder reports for mark `id`: as reported on the real token, else the pointer in the payload
    pub fn holder_path(&self, id: usize) -> String {
        match self.reported.get(&id) {
            Some(p) => p.clone(),
            None => self.spec_disc(id)["path"].as_str().unwrap_or("").to_string(),
        }
    }
    pub fn learn_reported_paths(&mut self) {
        let dec = keys::dec_key(keys::family(&self.alg), 0);
        if let Out::Ok((_, _, ps)) = real::holder_verify(&self.token, &dec, &self.validation()) {
            let by_disc: std::collections::HashMap<String, String> = ps.into_iter().map(|p| (p.disc, p.path)).collect();
            let ids: Vec<usize> = self.marks.iter().map(|m| m.id).collect();
            for id in ids {
                // taken over only when it is one of the two pointers a holder can legitimately report for this
                // node (its place in the signed payload / in the claims): a path that is neither is not used, so
                // that redacting the right pointer shows the holder does not know the claim by it
                let payload_ptr = self.spec_disc(id)["path"].as_str().unwrap_or("").to_string();
                let claims_ptr = self.marks.iter().find(|m| m.id == id).map(|m| m.path.clone()).unwrap_or_default();
                if let Some(p) = by_disc.get(&self.disc_of(id)) {
                    if *p == payload_ptr || *p == claims_ptr { self.reported.insert(id, p.clone()); }
                }
            }
        }
    }
}

pub fn alg_by_name(name: &str) -> Algorithm {
    keys::ALL_ALGS.iter().find(|a| keys::alg_name(a) == name).cloned().unwrap_or(Algorithm::HS256)
}

pub fn gen_own_case(rng: &mut Rng, thorough: bool, index: u64, sentinels: bool, kb_pct: u32) -> Value {
    gen_own_case_min(rng, thorough, index, sentinels, kb_pct, 1)
}

pub fn gen_own_case_min(rng: &mut Rng, thorough: bool, index: u64, sentinels: bool, kb_pct: u32, min_marks: usize) -> Value {
    let cfg = GenCfg {
        max_depth: if thorough { 5 } else { 4 },
        max_fanout: if thorough { 5 } else { 4 },
        mark_pct: *rng.pick(&[10u32, 30, 60, 90]),
        unsafe_keys: !sentinels && rng.chance(1, 5),
        reference: false,
        sentinels,
    };
    let mut cfg = cfg;
    if min_marks == 0 && rng.chance(1, 2) { cfg.mark_pct = 0; }
    let mut tree = gen_tree(rng, &cfg, min_marks);
    // one token in eight says it was issued in the future (`iat` ahead of every clock involved)
    if !sentinels && rng.chance(1, 8) { tree.set_top_member("iat", json!(4_102_444_800u64)); }
    let marks = tree.marks();
    let order = descendants_first_order(&marks, rng);
    let decoy: Value = match rng.below(4) {
        0 => json!(1 + rng.below(5)),
        _ => Value::Null,
    };
    let alg = if index % 50 == 49 { keys::alg_name(&keys::ALL_ALGS[(index / 50) as usize % 13]) } else { "HS256" };
    let mut case = json!({
        "issuer": "own", "tree": tree.to_wire(), "order": order, "decoy": decoy,
        "kb": rng.chance(kb_pct, 100), "exp": rng.chance(1, 4), "alg": alg,
    });
    // explicit in the case (a function of the tree as generated), so that a reduced case replays the same way
    let wire = case["tree"].clone();
    case["reissue"] = json!([0u64, 0, 0, 1, 2][(crate::report::hash_of(&wire) % 5) as usize]);
    case["pre_cnf"] = match derive_pre_cnf(&case) { Some(v) => json!({"v": v}), None => json!({"none": true}) };
    case
}

pub fn gen_ref_case(rng: &mut Rng, thorough: bool, kb_pct: u32) -> Value {
    let cfg = GenCfg {
        max_depth: if thorough { 5 } else { 4 },
        max_fanout: if thorough { 5 } else { 4 },
        mark_pct: *rng.pick(&[10u32, 30, 60, 90]),
        unsafe_keys: rng.chance(1, 6),
        reference: true,
        sentinels: false,
    };
    let mut cfg = cfg;
    // one reference token in ten hides nothing (digest lists hold decoys only): nothing for the holder to place
    let none_hidden = rng.chance(1, 10);
    if none_hidden { cfg.mark_pct = 0; }
    let mut tree = gen_tree(rng, &cfg, if none_hidden { 0 } else { 1 });
    if rng.chance(1, 8) { tree.set_top_member("iat", json!(4_102_444_800u64)); }
    let n = tree.marks().len();
    let mut perm: Vec<usize> = (0..n).collect();
    rng.shuffle(&mut perm);
    json!({
        "issuer": "ref", "tree": tree.to_wire(), "perm": perm,
        "sd_alg": *rng.pick(&["sha-256", "sha-384", "sha-512"]),
        "kb": rng.chance(kb_pct, 100), "alg": "HS256",
    })
}

/// one bound case in four starts from claims that already carry a top-level `cnf`
pub fn derive_pre_cnf(case: &Value) -> Option<Value> {
    match crate::report::hash_of(&json!([case["order"], case["decoy"], case["alg"]])) % 16 {
        0 => Some(Value::Null), 1 => Some(json!({})), 2 => Some(json!("none")),
        3 => Some(json!({"kty":"RSA","n":"AQAB","e":"AQAB"})), _ => None,
    }
}

/// issue with the real issuer; `None` (and a recorded difference) when issuing fails
pub fn issue_own(ctx: &mut Ctx, case: &Value, entry_prop: &str) -> Option<IssuedCase> {
    let _ = entry_prop;
    let mut tree = Node::from_wire(&case["tree"]);
    let marks = tree.marks();
    let order: Vec<usize> = case["order"].as_array().cloned().unwrap_or_default().iter().map(|v| v.as_u64().unwrap_or(0) as usize).collect();
    let mut paths: Vec<String> = order.iter().map(|id| mark_by_id(&marks, *id).path.clone()).collect();
    // C06 only: now and then an array element is addressed by a padded or signed index (`/list/01`, `/list/+1`), which
    // this issuer takes for the element. An issuer may decline such a path (RFC 6901 does not know them); one that
    // accepts it must hide the element like any other.
    let mut padded = false;
    if entry_prop == "C06" {
        for (k, id) in order.iter().enumerate() {
            let m = mark_by_id(&marks, *id);
            if m.in_array && crate::report::hash_of(&json!([case["tree"], k, "pad"])) % 5 == 0 {
                if let Some(i) = paths[k].rfind('/') {
                    let (head, idx) = paths[k].split_at(i + 1);
                    if !idx.is_empty() && idx.bytes().all(|b| b.is_ascii_digit()) {
                        paths[k] = format!("{}{}{}", head, if k % 2 == 0 { "0" } else { "+" }, idx);
                        padded = true;
                    }
                }
            }
        }
        if padded { ctx.report.bump("issued-with-padded-or-signed-index"); }
    }
    let claims = tree.plain();
    let alg = alg_by_name(case["alg"].as_str().unwrap_or("HS256"));
    let fam = keys::family(&alg);
    let enc = keys::enc_key(fam, 0);
    let jwk = keys::holder_jwk();
    let kb = case["kb"].as_bool().unwrap_or(false);
    let exp = case["exp"].as_bool().unwrap_or(false);
    let mut header = Header::new(alg.clone());
    header.typ = Some("sd-jwt".to_string());
    // two cases in five issue once or twice more from the same issuer object first (a function of
    // the case itself, so that a replay does the same)
    let reissue = case.get("reissue").and_then(|v| v.as_u64())
        .unwrap_or_else(|| [0u64, 0, 0, 1, 2][(crate::report::hash_of(&case["tree"]) % 5) as usize]) as usize;
    ctx.report.bump(&format!("issued-after-{}-earlier-encodes", reissue));
    // one bound case in four starts from claims that already carry a top-level `cnf` (null, an empty
    // object, a string, another key): require_key_binding must still decide the bound key
    let pre_cnf: Option<Value> = if kb && !paths.iter().any(|p| p == "/cnf" || p.starts_with("/cnf/")) {
        match case.get("pre_cnf") {
            Some(v) if v.get("v").is_some() => Some(v["v"].clone()),
            Some(v) if v.get("none").is_some() => None,
            _ => derive_pre_cnf(case),
        }
    } else { None };
    let mut claims_in = claims.clone();
    if let (Some(v), Some(o)) = (&pre_cnf, claims_in.as_object_mut()) { o.insert("cnf".into(), v.clone()); ctx.report.bump("claims-with-own-cnf"); }
    let req = IssueReq {
        claims: &claims_in, paths: &paths,
        decoy: case["decoy"].as_i64().map(|n| n as i32),
        cnf: if kb { Some(&jwk) } else { None },
        header: Some(header),
        exp_in: if exp { Some(3600) } else { None },
        repeats: 1 + reissue,
        // every other re-issuing case marks only some of the paths before the earlier encode() calls
        late_marks: if reissue >= 1 && paths.len() >= 2 && crate::report::hash_of(&json!(paths)) % 2 == 0 { 1 + (crate::report::hash_of(&json!(paths)) / 2) as usize % (paths.len() - 1) } else { 0 },
    };
    let issued = real::issue(&req, &enc);
    let token = match &issued {
        // the token looked at is the LAST one issued from the same issuer object
        Out::Ok(ts) => ts[ts.len() - 1].clone(),
        Out::Err(..) if padded => { ctx.report.bump("padded-or-signed-index:issuer-declines"); return None; }
        other => {
            ctx.report.diff("property", "Issuer::encode", &format!("Issuer::encode:valid-marking:{}", out_sig(other)), case,
                json!({"real": other.describe(|_| Value::Null), "claims": claims, "paths": paths}));
            return None;
        }
    };
    let (jwt, discs, last) = split_token(&token);
    if !last.is_empty() || discs.len() != paths.len() {
        ctx.report.diff("property", "Issuer::encode", "Issuer::encode:framing", case, json!({"token": token, "paths": paths}));
        return None;
    }
    let payload = match real::peek_jwt(&jwt) {
        Some(x) => x.1,
        None => {
            ctx.report.diff("property", "Issuer::encode", "Issuer::encode:jwt-not-decodable", case, json!({"token": token}));
            return None;
        }
    };
    // digests are judged under the algorithm the payload declares (the statements say "the declared _sd_alg")
    let sd_alg = match crate::tree::declared_sd_alg(&payload) {
        Some(a) => a,
        None => {
            ctx.report.diff("property", "Issuer::encode", "Issuer::encode:_sd_alg-unsupported", case, json!({"_sd_alg": payload.get("_sd_alg")}));
            return None;
        }
    };
    if sd_alg != "sha-256" { ctx.report.bump(&format!("issued:_sd_alg:{}", sd_alg)); }
    attach_issued(ctx, &mut tree, &order, &payload, &discs, &sd_alg);
    let marks = tree.marks();
    // the members the issuer adds on request
    if kb && !cnf_is_key(payload.get("cnf"), &jwk) {
        ctx.report.diff("property", "Issuer::encode", "Issuer::encode:cnf-is-not-the-required-key", case,
            json!({"cnf": payload.get("cnf"), "claims_cnf": pre_cnf, "earlier_encodes": reissue}));
    }
    if !kb && payload.get("cnf").is_some() && claims.get("cnf").is_none() {
        ctx.report.diff("property", "Issuer::encode", "Issuer::encode:cnf-without-key-binding", case, json!({"cnf": payload.get("cnf")}));
    }
    if exp && !payload.get("exp").map_or(false, |e| e.is_i64() || e.is_u64()) {
        ctx.report.diff("property", "Issuer::encode", "Issuer::encode:exp-missing", case, json!({"exp": payload.get("exp")}));
    }
    let spec = tree_op(ctx, &sd_alg, &tree, None, &[]);
    Some(IssuedCase { tree, marks, token, jwt, discs, payload, claims, alg, sd_alg, kb, exp, spec, reference: false, reported: Default::default() })
}

/// Tie the disclosures and digests of an own-issued token to the marked tree: which disclosure hides
/// which node is read off the digests (`Node::harvest`), not off the order of the disclosures in the
/// token, and digests of no disclosure are kept as decoys wherever they stand. A node the digests do
/// not lead to gets the disclosure at its position in the path list, so that the comparison of the
/// payload with the specified one shows what is wrong.
pub fn attach_issued(ctx: &mut Ctx, tree: &mut Node, order: &[usize], payload: &Value, discs: &[String], sd_alg: &str) -> crate::tree::Harvest {
    let h = tree.harvest(payload, discs, sd_alg);
    let un = tree.unassigned();
    let mut positional = h.assigned == 0;
    for (i, id) in order.iter().enumerate() {
        if un.contains(id) {
            if let Some(d) = discs.get(i) { tree.set_disc(*id, d); }
        } else if !positional {
            let mut same = false;
            tree.for_each_mark_mut(&mut |m| if let crate::tree::Mark::Marked { id: j, disc: Some(d), .. } = m { if j == id && discs.get(i) == Some(d) { same = true; } });
            if !same { positional = true; ctx.report.bump("issued:disclosures-not-in-path-order"); }
        }
    }
    if !un.is_empty() { ctx.report.bump("issued:mark-not-found-by-digest"); }
    if h.decoys_not_top > 0 { ctx.report.bump("issued:decoys-outside-top-level-sd"); }
    h
}

/// issue with the Lean reference issuer (payload and disclosure strings computed by the driver),
/// signed here through the crate's public `encode`
pub fn issue_ref(ctx: &mut Ctx, case: &Value) -> Option<IssuedCase> {
    let tree = Node::from_wire(&case["tree"]);
    let marks = tree.marks();
    let sd_alg = case["sd_alg"].as_str().unwrap_or("sha-256").to_string();
    let kb = case["kb"].as_bool().unwrap_or(false);
    let spec = tree_op(ctx, &sd_alg, &tree, None, &[]);
    if spec["wf"] != json!(true) || spec["nodup"] != json!(true) {
        // generator produced a non-conformant tree (e.g. colliding fake digests): skip, counted
        ctx.report.bump("ref:hypotheses-not-met");
        return None;
    }
    let mut payload = spec["payload"].clone();
    payload["_sd_alg"] = json!(sd_alg);
    if kb {
        payload["cnf"] = keys::holder_jwk();
    }
    let alg = alg_by_name(case["alg"].as_str().unwrap_or("HS256"));
    let mut header = Header::new(alg.clone());
    header.typ = Some("sd-jwt".to_string());
    let jwt = match real::sign(&header, &payload, &keys::enc_key(keys::family(&alg), 0)) {
        Out::Ok(j) => j,
        other => {
            ctx.report.diff("property", "encode", &format!("encode:{}", out_sig(&other)), case, json!({"payload": payload}));
            return None;
        }
    };
    let all: Vec<Value> = spec["discs"].as_array().cloned().unwrap_or_default();
    let perm: Vec<usize> = case["perm"].as_array().cloned().unwrap_or_default().iter().map(|v| v.as_u64().unwrap_or(0) as usize).collect();
    let mut discs: Vec<String> = Vec::new();
    for i in &perm {
        if let Some(d) = all.get(*i) {
            discs.push(d["str"].as_str().unwrap_or("").to_string());
        }
    }
    let token = format!("{}~{}{}", jwt, discs.join("~"), if discs.is_empty() { "" } else { "~" });
    let claims = tree.plain();
    Some(IssuedCase { tree, marks, token, jwt, discs, payload, claims, alg, sd_alg, kb, exp: false, spec, reference: true, reported: Default::default() })
}

pub fn issue_any(ctx: &mut Ctx, case: &Value) -> Option<IssuedCase> {
    let mut ic = if case["issuer"] == json!("ref") { issue_ref(ctx, case) } else { issue_own(ctx, case, "") }?;
    ic.learn_reported_paths();
    Some(ic)
}

/// the ids a redaction list leaves visible: path not redacted and no marked ancestor redacted
pub fn kept_ids(ic: &IssuedCase, redacted: &[String]) -> Vec<usize> {
    ic.marks.iter()
        .filter(|m| {
            let own = ic.holder_path(m.id);
            !redacted.contains(&own) && !m.ancestors.iter().any(|a| redacted.contains(&ic.holder_path(*a)))
        })
        .map(|m| m.id)
        .collect()
}

/// expected verifier claims for a set of shown ids: projection + the members the issuer added
pub fn expected_projection(ic: &IssuedCase, shown: &[usize]) -> Value {
    let p = ic.tree.project(&|id| shown.contains(&id));
    let mut e = p;
    for k in ["cnf", "exp"] {
        if let Some(v) = ic.payload.get(k) {
            if ic.claims.get(k).is_none() {
                e[k] = v.clone();
            }
        }
    }
    e
}

pub fn holder_kb_key() -> sdjwt::KeyForEncoding {
    keys::enc_key(1, 1)
}

pub fn kb_policy(aud: &str, alg: Algorithm) -> Validation {
    Validation::default().without_expiry().with_algorithm(alg).with_audience(aud)
}
