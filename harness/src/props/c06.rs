//! C06 — undisclosed claims stay confidential in the issuer JWT and in presentations.
use super::c02::gen_redactions;
use super::common::*;
use super::flowkit::*;
use crate::prng::Rng;
use crate::real::{self, KbParams, Out};
use crate::tree::{Mark, Node};
use crate::Ctx;
use sdjwt::Algorithm;
use serde_json::{json, Value};

/// sentinels (unique strings containing '*', which is not a base64url character), each attributed
/// to the innermost marked node whose name or subtree it occurs in
fn sentinels(node: &Node, owner: Option<usize>, out: &mut Vec<(usize, String)>) {
    match node {
        Node::Leaf(v) => {
            if let (Some(o), Some(s)) = (owner, v.as_str()) { out.push((o, s.to_string())); }
        }
        Node::Arr(xs) => {
            for e in xs {
                let o = match &e.mark { Mark::Marked { id, .. } => Some(*id), _ => owner };
                sentinels(&e.node, o, out);
            }
        }
        Node::Obj(ms, _) => {
            for m in ms {
                let o = match &m.mark { Mark::Marked { id, .. } => Some(*id), _ => owner };
                // names are sentinels only when they are unique ones (`KEY*n*`); a business claim named like a
                // registered claim (`status`, `iss`, ...) may share its name with a clear one: its value is searched
                if let Some(o) = o { if m.key.contains('*') { out.push((o, m.key.clone())); } }
                sentinels(&m.node, o, out);
            }
        }
    }
}

/// every decoded byte string a recipient can look at: JWT header and payload, each disclosure,
/// the key-binding JWT's header and payload — plus the raw string itself
fn decoded_segments(presentation: &str) -> Vec<String> {
    let mut out = vec![presentation.to_string()];
    for seg in presentation.split('~') {
        if seg.contains('.') {
            for part in seg.split('.').take(2) {
                if let Some(b) = real::b64url_decode(part) { out.push(String::from_utf8_lossy(&b).to_string()); }
            }
        } else if let Some(b) = real::b64url_decode(seg) {
            out.push(String::from_utf8_lossy(&b).to_string());
        }
    }
    out
}

pub fn run_case(ctx: &mut Ctx, case: &Value) {
    crate::real::set_current(case);
    ctx.report.evaluations += 1;
    let mut ic = match issue_own(ctx, case, "C06") {
        Some(ic) => ic,
        None => return,
    };
    ic.learn_reported_paths();
    if is_nontrivial(&ic.marks) { ctx.report.nontrivial_case(&json!([case["tree"], case["order"]])); }
    ctx.report.sample(json!({"claims": ic.claims, "marked": ic.marks.iter().map(|m| m.path.clone()).collect::<Vec<_>>()}));
    // --- issuer JWT: no sentinel of any marked node in the decoded header / payload
    let jwt_view = decoded_segments(&ic.jwt);
    let mut per_mark: Vec<(usize, Vec<String>)> = Vec::new();
    let mut all = Vec::new();
    sentinels(&ic.tree, None, &mut all);
    for m in &ic.marks {
        per_mark.push((m.id, all.iter().filter(|(o, _)| *o == m.id).map(|(_, s)| s.clone()).collect()));
    }
    for (id, sents) in &per_mark {
        ctx.report.bump_by("sentinels-searched", sents.len() as u64);
        for s in sents {
            // a sentinel is looked for as a whole JSON string (`"…"`): a clear member may be named after a
            // hidden sibling plus a suffix, which contains the sibling's name without being it
            let s = &format!("\"{}\"", s);
            if jwt_view.iter().any(|seg| seg.contains(s.as_str())) {
                ctx.report.diff("property", "Issuer::encode", "Issuer::encode:plaintext-of-disclosable-claim-in-jwt", case, json!({"sentinel": s, "mark": id}));
            }
            // …and in a disclosure only if it is the node's own or an enclosing node's
            let m = mark_by_id(&ic.marks, *id);
            for other in &ic.marks {
                if other.id == *id || m.ancestors.contains(&other.id) { continue; }
                let d = ic.disc_of(other.id);
                let dec = real::b64url_decode(&d).map(|b| String::from_utf8_lossy(&b).to_string()).unwrap_or_default();
                if dec.contains(s.as_str()) {
                    ctx.report.diff("property", "Issuer::encode", "Issuer::encode:plaintext-in-unrelated-disclosure", case, json!({"sentinel": s, "mark": id, "found_in": other.id}));
                }
            }
        }
    }
    // --- presentations
    let mut rng = Rng::fork(ctx.seed ^ 0xC06, crate::report::hash_of(&case["tree"]));
    let sets = gen_redactions(&mut rng, &ic, false);
    let kbkey = holder_kb_key();
    let kbp = KbParams { aud: "aud", key: &kbkey, alg: Algorithm::RS256 };
    for r in sets.iter().take(7) {
        let mut c2 = case.clone();
        c2["redactions"] = json!([r]);
        let kept = kept_ids(&ic, r);
        let built = real::holder_present(&ic.token, r, if ic.kb { Some(&kbp) } else { None }, 1);
        let pres = match &built {
            Out::Ok(p) => p[0].clone(),
            other => {
                ctx.report.diff("property", "Holder::build", &format!("Holder::build:valid-token:{}", out_sig(other)), &c2, json!({"real": other.describe(|_| Value::Null)}));
                continue;
            }
        };
        let (_, pdiscs, _) = split_token(&pres);
        ctx.report.bump("presentations");
        if pdiscs.len() != kept.len() {
            ctx.report.diff("property", "Holder::build", "Holder::build:disclosure-count", &c2, json!({"presented": pdiscs.len(), "expected": kept.len(), "redacted": r}));
        }
        let view = decoded_segments(&pres);
        for (id, sents) in &per_mark {
            if kept.contains(id) { continue; }
            for s in sents {
                let s = &format!("\"{}\"", s);
                if view.iter().any(|seg| seg.contains(s.as_str())) {
                    ctx.report.diff("property", "Holder::build", "Holder::build:withheld-claim-in-presentation", &c2, json!({"sentinel": s, "mark": id, "redacted": r}));
                }
            }
        }
    }
}

pub fn run(ctx: &mut Ctx, replay: Option<&Value>) {
    ctx.report.rule = "own-issued tokens over random trees in which every member name and every scalar is a unique sentinel containing '*' (not a base64url character); the decoded header/payload of the issuer JWT and every decoded segment of Holder::build output (5 redaction lists per token, bound and unbound) are searched for the sentinels (as whole JSON strings; one member in six is named after a sibling plus a suffix, arrays of 11-13 elements occur) that must be absent; disclosure count = marks neither redacted nor below a redacted one; non-trivial = distinct (tree, order) with a nested or positional mark".to_string();
    if let Some(case) = replay {
        run_case(ctx, case);
        return;
    }
    let n = ctx.count(3_000, 30_000);
    for i in 0..n {
        let mut rng = Rng::fork(ctx.seed, i);
        let case = gen_own_case(&mut rng, ctx.tier_thorough, i, true, 25);
        run_case(ctx, &case);
    }
}
