//! C14 — issuing is total, side-effect free and repeatable.
use super::common::*;
use super::flowkit::*;
use crate::keys;
use crate::prng::Rng;
use crate::real::{self, Out};
use crate::tree::{descendants_first_order, gen_tree, GenCfg, Mark, Node};
use crate::Ctx;
use sdjwt::{Algorithm, Header, Issuer, Validation};
use serde_json::{json, Value};

fn gen_case(rng: &mut Rng, thorough: bool) -> Value {
    let cfg = GenCfg {
        max_depth: if thorough { 5 } else { 4 }, max_fanout: 4,
        mark_pct: *rng.pick(&[10u32, 30, 60, 90]), unsafe_keys: rng.chance(1, 6), reference: false, sentinels: false,
    };
    let tree = gen_tree(rng, &cfg, 1);
    let marks = tree.marks();
    let order = descendants_first_order(&marks, rng);
    let decoy: Value = if rng.chance(2, 3) { json!(rng.below(54) as i64 - 3) } else { Value::Null };
    json!({"tree": tree.to_wire(), "order": order, "decoy": decoy, "exp_in": if rng.chance(1, 3) { json!(*rng.pick(&[0i64, 1, 60, 3600, -5, 1_000_000_000])) } else { Value::Null },
           "invalid": rng.below(3) != 0, "invalid_seed": rng.next() % 1_000_000,
           // an `exp` already among the claims, an earlier expiry request that the later one must replace, and a
           // new request between the second and the third encode()
           "kb": rng.chance(1, 4),
           "exp_pre": if rng.chance(1, 5) { json!(*rng.pick(&[1_570_000_000i64, 4_000_000_000, 0])) } else { Value::Null },
           "exp_first": if rng.chance(1, 5) { json!(*rng.pick(&[5i64, 86_400, 7])) } else { Value::Null },
           "exp_mid": if rng.chance(1, 5) { json!(*rng.pick(&[120i64, 86_400, 3])) } else { Value::Null }})
}

/// (array pointer, length) and (object pointer) sites of the claims, for crafting invalid paths
fn sites(node: &Node, path: &str, arrays: &mut Vec<(String, usize)>, objects: &mut Vec<String>) {
    match node {
        Node::Leaf(_) => {}
        Node::Arr(xs) => {
            arrays.push((path.to_string(), xs.len()));
            for (i, e) in xs.iter().enumerate() { sites(&e.node, &format!("{}/{}", path, i), arrays, objects); }
        }
        Node::Obj(ms, _) => {
            objects.push(path.to_string());
            for m in ms { sites(&m.node, &format!("{}/{}", path, crate::tree::escape(&m.key)), arrays, objects); }
        }
    }
}

fn children_of(node: &Node, id: usize) -> Option<Vec<String>> {
    fn kids(n: &Node) -> Vec<String> {
        match n {
            Node::Leaf(_) => vec![],
            Node::Arr(xs) => (0..xs.len()).map(|i| i.to_string()).collect(),
            Node::Obj(ms, _) => ms.iter().map(|m| crate::tree::escape(&m.key)).collect(),
        }
    }
    match node {
        Node::Leaf(_) => None,
        Node::Arr(xs) => xs.iter().find_map(|e| if matches!(&e.mark, Mark::Marked { id: i, .. } if *i == id) { Some(kids(&e.node)) } else { children_of(&e.node, id) }),
        Node::Obj(ms, _) => ms.iter().find_map(|m| if matches!(&m.mark, Mark::Marked { id: i, .. } if *i == id) { Some(kids(&m.node)) } else { children_of(&m.node, id) }),
    }
}

/// one invalid path of a random kind, and the position to insert it; `must_err` = the property
/// lists this kind among the errors (otherwise only the model decides)
fn invalid_path(rng: &mut Rng, tree: &Node, valid: &[String], order: &[usize]) -> (String, usize, &'static str, bool) {
    let (mut arrays, mut objects) = (Vec::new(), Vec::new());
    sites(tree, "", &mut arrays, &mut objects);
    let pos = rng.below(valid.len() + 1);
    for _ in 0..20 {
        match rng.below(9) {
            0 => { let o = rng.pick(&objects).clone(); let p = format!("{}/no-such-member", o); return (p, pos, "unknown-member", true); }
            1 => { if arrays.is_empty() { continue; } let (a, n) = rng.pick(&arrays).clone(); return (format!("{}/{}", a, n + rng.below(3)), pos, "index-out-of-range", true); }
            2 => { if arrays.is_empty() { continue; } let (a, _) = rng.pick(&arrays).clone(); let bad = *rng.pick(&["x", "-1", " 1", "1.0", "", "0x0", "99999999999999999999999", "１"]); return (format!("{}/{}", a, bad), pos, "non-numeric-index", true); }
            3 => {
                // no leading slash: a bare name, or (every other time) a pointer of two or more segments without
                // its first character - an existing one, or an existing member name in front of an existing pointer,
                // so that whatever follows the first '/' addresses something
                if rng.chance(1, 2) {
                    let mut cands: Vec<String> = valid.iter().chain(objects.iter()).filter(|p| p.matches('/').count() >= 2).map(|p| p[1..].to_string()).collect();
                    for v in valid.iter().chain(objects.iter()).filter(|p| p.matches('/').count() == 1) {
                        for o in objects.iter().filter(|o| o.matches('/').count() == 1) { cands.push(format!("{}{}", &o[1..], v)); }
                        cands.push(format!("x{}", v));
                    }
                    // (a member named "" makes `/` + name start with a slash again: those are pointers, not this kind)
                    cands.retain(|c| !c.starts_with('/'));
                    if cands.is_empty() { continue; }
                    return (rng.pick(&cands).clone(), pos, "no-leading-slash", true);
                }
                let p = rng.pick(&["name", "", "0"]).to_string();
                return (p, pos, "no-leading-slash", true);
            }
            4 => {
                // a path inside a claim that an earlier path has already hidden
                if valid.is_empty() { continue; }
                let k = rng.below(valid.len());
                let kids = children_of(tree, order[k]).unwrap_or_default();
                let child = if kids.is_empty() { "x".to_string() } else { rng.pick(&kids).clone() };
                let p = format!("{}/{}", valid[k], child);
                // must come after position k; if that path is itself listed earlier it was valid then
                let pos2 = k + 1 + rng.below(valid.len() - k);
                return (p, pos2, "inside-disclosed-claim", true);
            }
            5 => { if valid.is_empty() { continue; } let k = rng.below(valid.len()); let pos2 = k + 1 + rng.below(valid.len() - k); return (valid[k].clone(), pos2, "repeated-path", false); }
            6 => { if arrays.is_empty() { continue; } let (a, n) = rng.pick(&arrays).clone(); if n == 0 { continue; } return (format!("{}/+{}", a, rng.below(n)), pos, "plus-index", false); }
            7 => { if arrays.is_empty() { continue; } let (a, n) = rng.pick(&arrays).clone(); if n == 0 { continue; } return (format!("{}/0{}", a, rng.below(n)), pos, "leading-zero-index", false); }
            _ => { let o = rng.pick(&objects).clone(); return (format!("{}/~2x", o), pos, "bad-escape", true); }
        }
    }
    ("nope".to_string(), pos, "no-leading-slash", true)
}

/// every digest of a payload: `_sd` entries and array placeholders, at any depth
fn all_digests(v: &Value, out: &mut Vec<String>) {
    match v {
        Value::Object(m) => {
            for (k, x) in m {
                if k == "_sd" { if let Value::Array(a) = x { out.extend(a.iter().filter_map(|d| d.as_str().map(|s| s.to_string()))); continue; } }
                all_digests(x, out);
            }
        }
        Value::Array(a) => {
            for x in a {
                match x.as_object().filter(|o| o.len() == 1).and_then(|o| o.get("...")).and_then(|d| d.as_str()) {
                    Some(d) => out.push(d.to_string()),
                    None => all_digests(x, out),
                }
            }
        }
        _ => {}
    }
}

pub fn run_case(ctx: &mut Ctx, case: &Value) {
    crate::real::set_current(case);
    ctx.report.evaluations += 1;
    let tree = Node::from_wire(&case["tree"]);
    let marks = tree.marks();
    let order: Vec<usize> = case["order"].as_array().cloned().unwrap_or_default().iter().map(|v| v.as_u64().unwrap_or(0) as usize).collect();
    let mut paths: Vec<String> = order.iter().map(|id| mark_by_id(&marks, *id).path.clone()).collect();
    let mut claims = tree.plain();
    let decoy = case["decoy"].as_i64().map(|n| n as i32);
    let exp_in = case["exp_in"].as_i64();
    let exp_pre = case["exp_pre"].as_i64();
    let exp_first = case["exp_first"].as_i64().filter(|_| exp_in.is_some());
    let exp_mid = case["exp_mid"].as_i64();
    let kb = case["kb"].as_bool().unwrap_or(false);
    let jwk = keys::holder_jwk();
    if let (Some(e), Some(o)) = (exp_pre, claims.as_object_mut()) {
        // only when no path addresses the member
        if !paths.iter().any(|p| p == "/exp" || p.starts_with("/exp/")) { o.insert("exp".into(), json!(e)); }
    }
    let mut must_err = false;
    let mut kind = "valid";
    if case["invalid"].as_bool().unwrap_or(false) {
        let (p, pos, k, me) = match case.get("invalid_path").and_then(|p| p.as_str()) {
            Some(p) => (p.to_string(), case["invalid_pos"].as_u64().unwrap_or(0) as usize, "replay", case["must_err"].as_bool().unwrap_or(false)),
            None => { let mut r = Rng::fork(case["invalid_seed"].as_u64().unwrap_or(0), 7); invalid_path(&mut r, &tree, &paths, &order) }
        };
        // a crafted path that happens to be valid here (e.g. escapes to an existing name) is left to the model
        let pos = pos.min(paths.len());
        paths.insert(pos, p);
        must_err = me;
        kind = k;
    }
    ctx.report.bump(&format!("kind:{}", kind));
    if let Some(d) = decoy { ctx.report.bump(&format!("decoy-max:{}", if d < 1 { "<1".to_string() } else if d <= 5 { d.to_string() } else { ">5".to_string() })); }
    let mut c2 = case.clone();
    c2["paths_used"] = json!(paths);
    ctx.report.nontrivial_case(&json!([case["tree"], paths, decoy]));
    ctx.report.sample(json!({"claims": claims, "paths": paths, "decoy_max": decoy, "kind": kind}));

    // --- real: three encodes on one issuer object, Debug rendering before/after
    let enc = keys::enc_key(0, 0);
    let dec = keys::dec_key(0, 0);
    // one case in six signs with another algorithm of the family (whatever follows the header algorithm must
    // follow it for every kind of node)
    let sign_alg = match crate::report::hash_of(&case["tree"]) % 12 { 0 => Algorithm::HS384, 1 => Algorithm::HS512, _ => Algorithm::HS256 };
    // a valid list in which only the first `late` paths are marked before two extra early encode() calls
    let late: usize = if kind == "valid" && paths.len() >= 2 && crate::report::hash_of(&json!(paths)) % 3 == 0 { 1 + (crate::report::hash_of(&json!(paths)) / 3) as usize % (paths.len() - 1) } else { 0 };
    if late > 0 { ctx.report.bump("late-marking"); }
    let t0 = std::time::SystemTime::now().duration_since(std::time::UNIX_EPOCH).unwrap().as_secs() as i64;
    let out = real::guard(|| {
        let mut issuer = Issuer::new(claims.clone())?;
        let mut early: Vec<Result<String, (String, String)>> = Vec::new();
        if late > 0 {
            for p in &paths[..late] { issuer.disclosable(p); }
            let mut h = Header::new(sign_alg.clone());
            h.typ = Some("sd-jwt".into());
            issuer.header(h);
            for _ in 0..2 { early.push(issuer.encode(&enc).map_err(|e| (real::err_class(&e).to_string(), e.to_string()))); }
            for p in &paths[late..] { issuer.disclosable(p); }
        } else {
            for p in &paths { issuer.disclosable(p); }
        }
        if let Some(d) = decoy { issuer.decoy(d); }
        if kb { issuer.require_key_binding(sdjwt::Jwk::from_value(jwk.clone())?); }
        let mut h = Header::new(sign_alg.clone());
        h.typ = Some("sd-jwt".into());
        issuer.header(h);
        if let Some(n) = exp_first { issuer.expires_in_seconds(n); }
        if let Some(n) = exp_in { issuer.expires_in_seconds(n); }
        let mut before = format!("{:?}", issuer);
        let mut outs = Vec::new();
        for round in 0..3 {
            if let (2, Some(n)) = (round, exp_mid) { issuer.expires_in_seconds(n); before = format!("{:?}", issuer); }
            let r = issuer.encode(&enc);
            let after = format!("{:?}", issuer);
            outs.push((r.map_err(|e| (real::err_class(&e).to_string(), e.to_string())), after == before));
        }
        Ok((outs, early))
    });
    let t1 = std::time::SystemTime::now().duration_since(std::time::UNIX_EPOCH).unwrap().as_secs() as i64;
    let (outs, early) = match out {
        Out::Ok(o) => o,
        Out::Panic(site) => {
            ctx.report.bump("encode:panic");
            ctx.report.diff("property", "Issuer::encode", &format!("Issuer::encode:panic:{}", site.split(' ').next().unwrap_or("")), &c2, json!({"panic": site, "kind": kind}));
            // the model must predict it too
            let m = ctx.driver.ask(&json!({"op":"issue","claims":claims,"paths":paths,"discs":Value::Null,"decoys":Value::Null,"cnf":if kb { jwk.clone() } else { Value::Null }}));
            if m.get("panic").is_none() {
                ctx.report.diff("correspondence", "Issuer::encode", "Issuer::encode:real-panic:model-not", &c2, json!({"model": m}));
            }
            return;
        }
        Out::Err(c, m) => {
            ctx.report.diff("property", "Issuer::new", &format!("Issuer::new:err:{}", c), &c2, json!({"msg": m}));
            return;
        }
    };
    let first_ok = outs[0].0.is_ok();
    ctx.report.bump(if first_ok { "encode:ok" } else { "encode:err" });
    if outs.iter().any(|o| !o.1) {
        ctx.report.diff("property", "Issuer::encode", "Issuer::encode:issuer-object-changed", &c2, json!({}));
    }
    if outs.iter().any(|o| o.0.is_ok() != first_ok) {
        ctx.report.diff("property", "Issuer::encode", "Issuer::encode:repeat-differs", &c2, json!({"results": outs.iter().map(|o| o.0.is_ok()).collect::<Vec<_>>()}));
    }
    if must_err && first_ok {
        ctx.report.diff("property", "Issuer::encode", &format!("Issuer::encode:accepts:{}", kind), &c2, json!({"paths": paths}));
    }
    if kind == "valid" && !first_ok {
        ctx.report.diff("property", "Issuer::encode", &format!("Issuer::encode:valid-marking:err:{}", outs[0].0.as_ref().err().map(|e| e.0.clone()).unwrap_or_default()), &c2, json!({"paths": paths}));
    }
    // --- model: same class; same payload (up to `_sd` order) for the first output
    let (discs0, payload0): (Value, Value) = match &outs[0].0 {
        Ok(tok) => {
            let (jwt, ds, _) = split_token(tok);
            (json!(ds), real::peek_jwt(&jwt).map(|x| x.1).unwrap_or(Value::Null))
        }
        Err(_) => (Value::Null, Value::Null),
    };
    // decoys actually drawn: the digests of the payload (any `_sd` list or array placeholder) that belong to
    // none of the token's disclosures; the model is then given exactly those
    let ds0: Vec<String> = discs0.as_array().map(|a| a.iter().filter_map(|d| d.as_str().map(|s| s.to_string())).collect()).unwrap_or_default();
    // the model is told the `cnf` value as written when it names the requested key in either accepted form
    let cnf_j = if kb { if cnf_is_key(payload0.get("cnf"), &jwk) { payload0["cnf"].clone() } else { jwk.clone() } } else { Value::Null };
    // the digest algorithm is none of C14's business (C07: "under the declared `_sd_alg`"): the model recomputes the
    // digests under the algorithm the real payload declares and is compared modulo the value of `_sd_alg`
    let alg_decl = crate::tree::declared_sd_alg(&payload0).filter(|a| a == "sha-384" || a == "sha-512").unwrap_or_else(|| "sha-256".to_string());
    if alg_decl != "sha-256" { ctx.report.bump("issued:digest-algorithm-other-than-model"); }
    let probe = ctx.driver.ask(&json!({"op":"issue","alg":alg_decl,"claims":claims,"paths":paths,"discs":discs0,"decoys":Value::Null,"cnf":cnf_j}));
    let mut drawn: Vec<String> = Vec::new();
    let model_first = if first_ok {
        let alg0 = crate::tree::declared_sd_alg(&payload0).unwrap_or_else(|| "sha-256".to_string());
        let own: Vec<String> = ds0.iter().map(|d| crate::tree::digest_b64(&alg0, d)).collect();
        all_digests(&payload0, &mut drawn);
        drawn.retain(|d| !own.contains(d));
        if let Some(d) = decoy {
            let ok = if d >= 1 { !drawn.is_empty() && drawn.len() as i32 <= d } else { drawn.is_empty() };
            if !ok {
                ctx.report.diff("property", "Issuer::encode", "Issuer::encode:decoy-count", &c2, json!({"max": d, "drawn": drawn.len()}));
            }
        } else if !drawn.is_empty() {
            ctx.report.diff("property", "Issuer::encode", "Issuer::encode:decoy-count", &c2, json!({"max": Value::Null, "drawn": drawn.len()}));
        }
        ctx.driver.ask(&json!({"op":"issue","alg":alg_decl,"claims":claims,"paths":paths,"discs":discs0,"decoys":drawn,"cnf":cnf_j}))
    } else { probe };
    let mclass = if model_first.get("ok").is_some() { "ok" } else if model_first.get("err").is_some() { "err" } else { "panic" };
    if (mclass == "ok") != first_ok {
        ctx.report.diff("correspondence", "Issuer::encode", &format!("Issuer::encode:class:real-{}:model-{}", if first_ok { "ok" } else { "err" }, mclass), &c2,
            json!({"real": outs[0].0.as_ref().err(), "model": model_first, "kind": kind}));
    } else if first_ok {
        let with_exp = |m: &Value| { let mut mp = m["ok"]["payload"].clone(); if let (Some(e), Some(o)) = (payload0.get("exp"), mp.as_object_mut()) { o.insert("exp".into(), e.clone()); if alg_decl != "sha-256" && o.contains_key("_sd_alg") { o.insert("_sd_alg".into(), json!(alg_decl)); } } else if let Some(o) = mp.as_object_mut() { if alg_decl != "sha-256" && o.contains_key("_sd_alg") { o.insert("_sd_alg".into(), json!(alg_decl)); } } mp };
        let mut mp = with_exp(&model_first);
        // the model puts the decoys into the top-level `_sd`; the property does not say where they go
        let same = |a: &Value, b: &Value, drawn: &[String]| real::canon_sd(a) == real::canon_sd(b)
            || real::canon_sd(&crate::tree::strip_decoys(a, drawn)) == real::canon_sd(&crate::tree::strip_decoys(b, drawn));
        static SEARCHES: std::sync::atomic::AtomicUsize = std::sync::atomic::AtomicUsize::new(0);
        // (the search is for the harmless case; a run in which it keeps failing stops searching after 40 cases)
        if !same(&mp, &payload0, &drawn) && SEARCHES.load(std::sync::atomic::Ordering::Relaxed) < 40 {
            SEARCHES.fetch_add(1, std::sync::atomic::Ordering::Relaxed);
            // the disclosures need not come in the order of the paths: which one hides which node is read off the digests
            let mut t2 = tree.clone();
            t2.harvest(&payload0, &ds0, &crate::tree::declared_sd_alg(&payload0).unwrap_or_else(|| "sha-256".to_string()));
            let found: std::collections::HashMap<String, String> = t2.marks().iter().filter_map(|m| t2.disc_of_mark(m.id).map(|d| (m.path.clone(), d))).collect();
            let mut left: std::collections::VecDeque<String> = ds0.iter().filter(|d| !found.values().any(|f| &f == d)).cloned().collect();
            let by_digest: Vec<String> = paths.iter().map(|p| found.get(p).cloned().or_else(|| left.pop_front()).unwrap_or_default()).collect();
            // (a crafted extra path that addresses an already hidden element makes two placeholders nest, and the
            // digests then lead to the outer disclosure first: also try the list with two entries exchanged)
            let mut candidates: Vec<Vec<String>> = vec![by_digest.clone()];
            for a in 0..by_digest.len() { for b in a + 1..by_digest.len() { let mut c = by_digest.clone(); c.swap(a, b); candidates.push(c); } }
            for cand in candidates.into_iter().take(200) {
                if cand == ds0 { continue; }
                let again = ctx.driver.ask(&json!({"op":"issue","alg":alg_decl,"claims":claims,"paths":paths,"discs":cand,"decoys":drawn,"cnf":cnf_j}));
                if again.get("ok").is_some() && same(&with_exp(&again), &payload0, &drawn) {
                    ctx.report.bump("issued:disclosures-not-in-path-order");
                    mp = with_exp(&again);
                    SEARCHES.fetch_sub(1, std::sync::atomic::Ordering::Relaxed);
                    break;
                }
            }
        }
        if real::canon_sd(&mp) != real::canon_sd(&payload0) && same(&mp, &payload0, &drawn) { ctx.report.bump("issued:decoys-outside-top-level-sd"); }
        if !same(&mp, &payload0, &drawn) {
            ctx.report.diff("correspondence", "Issuer::encode", "Issuer::encode:payload-differs-from-model", &c2, json!({"real": payload0, "model": mp}));
        }
    }
    // the early outputs (fewer markings) are valid SD-JWTs for the same claims too
    for e in &early {
        match e {
            Ok(t) => {
                let v = Validation::default().without_expiry().with_algorithm(sign_alg.clone());
                match real::holder_verify(t, &dec, &v) {
                    Out::Ok((_, c, ps)) => {
                        let mut expected = claims.clone();
                        let p = real::peek_jwt(&split_token(t).0).map(|x| x.1).unwrap_or(Value::Null);
                        for k in ["cnf", "exp"] { if let Some(v) = p.get(k) { if claims.get(k).is_none() || k == "exp" { expected[k] = v.clone(); } } }
                        if c != expected || ps.len() != late {
                            ctx.report.diff("property", "Holder::verify", "Holder::verify:early-output-claims", &c2, json!({"real": c, "expected": expected, "paths": ps.len(), "marked": late}));
                        }
                    }
                    other => ctx.report.diff("property", "Holder::verify", &format!("Holder::verify:early-output:{}", out_sig(&other)), &c2, json!({})),
                }
            }
            Err(e) => ctx.report.diff("property", "Issuer::encode", &format!("Issuer::encode:valid-prefix-of-marking:err:{}", e.0), &c2, json!({"marked": &paths[..late]})),
        }
    }
    // --- every output is a fresh valid SD-JWT for the same claims (C01 per output), distinct from the others
    if first_ok && kind == "valid" {
        let toks: Vec<String> = outs.iter().filter_map(|o| o.0.as_ref().ok().cloned()).collect();
        let validation = if exp_in.is_some() && exp_in.unwrap() > 10 && exp_mid.map_or(true, |m| m > 10) { Validation::default().with_algorithm(sign_alg.clone()) } else { Validation::default().without_expiry().with_algorithm(sign_alg.clone()) };
        let mut all_discs: Vec<String> = Vec::new();
        for (round, t) in toks.iter().enumerate() {
            // the expiry request in force for this output
            let exp_in = if round == 2 && exp_mid.is_some() { exp_mid } else { exp_in };
            let hv = real::holder_verify(t, &dec, &validation);
            let mut expected = claims.clone();
            let p = real::peek_jwt(&split_token(t).0).map(|x| x.1).unwrap_or(Value::Null);
            if kb {
                expected["cnf"] = if cnf_is_key(p.get("cnf"), &jwk) { p["cnf"].clone() } else { jwk.clone() };
                if !cnf_is_key(p.get("cnf"), &jwk) {
                    ctx.report.diff("property", "Issuer::encode", "Issuer::encode:repeat-output-cnf", &c2, json!({"encode": round + 1, "cnf": p.get("cnf")}));
                }
            }
            if let Some(e) = p.get("exp") {
                if claims.get("exp").is_none() || exp_in.is_some() { expected["exp"] = e.clone(); }
                if let (Some(n), Some(ev)) = (exp_in, e.as_i64()) {
                    if ev < t0 + n || ev > t1 + n {
                        ctx.report.diff("property", "Issuer::expires_in_seconds", "Issuer::expires_in_seconds:not-now-plus-n", &c2, json!({"exp": ev, "t0": t0, "t1": t1, "n": n}));
                    }
                }
            } else if exp_in.is_some() {
                ctx.report.diff("property", "Issuer::expires_in_seconds", "Issuer::expires_in_seconds:exp-missing", &c2, json!({}));
            }
            match &hv {
                Out::Ok((_, c, _)) => {
                    if c != &expected {
                        ctx.report.diff("property", "Holder::verify", "Holder::verify:repeat-output-claims", &c2, json!({"real": c, "expected": expected}));
                    }
                }
                other => ctx.report.diff("property", "Holder::verify", &format!("Holder::verify:repeat-output:{}", out_sig(other)), &c2, json!({"real": other.describe(|_| Value::Null)})),
            }
            all_discs.extend(split_token(t).1);
        }
        let n = all_discs.len();
        all_discs.sort();
        all_discs.dedup();
        if all_discs.len() != n {
            ctx.report.diff("property", "Issuer::encode", "Issuer::encode:repeat-reuses-salts", &c2, json!({}));
        }
    }
}

pub fn run(ctx: &mut Ctx, replay: Option<&Value>) {
    ctx.report.rule = "random claims objects x valid descendants-first markings (incl. only-nested / only-array) x decoy maxima in [-3,50] x key binding (1 in 4) x optional expiry (also on claims that already carry an `exp`, requested twice, and requested anew between the second and third encode()), one third unchanged and two thirds with exactly one extra path of a random kind at a random position (unknown member, index out of range, non-numeric / overflowing index, no leading slash, path inside an already disclosed claim, bad escape; and repeated path, '+' and leading-zero indices which only the model decides); 3 encode() calls per issuer object with its Debug rendering compared before/after, every valid output verified by Holder::verify; Ok/Err class and payload compared with the Impl model of the issuer; non-trivial = distinct (tree, path list, decoy maximum)".to_string();
    if let Some(case) = replay {
        run_case(ctx, case);
        return;
    }
    let n = ctx.count(8_000, 60_000);
    for i in 0..n {
        let mut rng = Rng::fork(ctx.seed, i);
        let case = gen_case(&mut rng, ctx.tier_thorough);
        run_case(ctx, &case);
    }
}

#[allow(dead_code)]
fn _u(_: &IssuedCase) {}
