//! Steps shared by the tree-based properties (C01, C02, C03, C06, C07, C08, C12, C14, C15).
use crate::real::{self, Out, PathOut};
use crate::tree::{MarkInfo, Node};
use crate::Ctx;
use serde_json::{json, Value};

pub fn split_token(token: &str) -> (String, Vec<String>, String) {
    let parts: Vec<&str> = token.split('~').collect();
    let jwt = parts[0].to_string();
    if parts.len() < 2 {
        return (jwt, vec![], String::new());
    }
    let discs = parts[1..parts.len() - 1].iter().map(|s| s.to_string()).collect();
    (jwt, discs, parts[parts.len() - 1].to_string())
}

/// a presentation prefix `jwt~d1~…~dn~` up to the order of its disclosures (which no property fixes)
pub fn canon_prefix(p: &str) -> (String, Vec<String>, bool) {
    let parts: Vec<&str> = p.split('~').collect();
    let mut ds: Vec<String> = parts[1..parts.len().max(2) - 1].iter().map(|s| s.to_string()).collect();
    ds.sort();
    (parts[0].to_string(), ds, p.ends_with('~'))
}

/// the `cnf` member names the key the issuer was asked to bind: the key itself (what this crate writes) or
/// RFC 7800's `{"jwk": key}`; no property fixes which
pub fn cnf_is_key(cnf: Option<&Value>, jwk: &Value) -> bool {
    match cnf {
        Some(c) => c == jwk || (c.as_object().map_or(false, |o| o.len() == 1) && c.get("jwk") == Some(jwk)),
        None => false,
    }
}

pub fn tree_op(ctx: &mut Ctx, alg: &str, tree: &Node, root_sd_actual: Option<&Value>, shows: &[Vec<usize>]) -> Value {
    let mut wire = tree.to_wire();
    if let Some(sd) = root_sd_actual {
        wire["sd_actual"] = sd.clone();
    }
    ctx.driver.ask(&json!({"op":"tree","alg":alg,"tree":wire,"shows":shows}))
}

pub fn restore_op(ctx: &mut Ctx, alg: &str, payload: &Value, discs: &[String]) -> Value {
    ctx.driver.ask(&json!({"op":"restore","alg":alg,"payload":payload,"discs":discs}))
}

/// multiset comparison of path lists
pub fn paths_canon(ps: &[Value]) -> Vec<String> {
    let mut v: Vec<String> = ps.iter().map(|p| real::canon_sd(p).to_string()).collect();
    v.sort();
    v
}

pub fn real_paths_json(ps: &[PathOut]) -> Vec<Value> {
    ps.iter().map(|p| p.to_json()).collect()
}

/// claims members the issuer adds on its own (`cnf`, `exp`), taken from the real payload
pub fn with_issuer_members(expected: &Value, payload: &Value) -> Value {
    let mut e = expected.clone();
    for k in ["cnf", "exp"] {
        if let Some(v) = payload.get(k) {
            if expected.get(k).is_none() {
                e[k] = v.clone();
            }
        }
    }
    e
}

pub fn strip_issuer_members(payload: &Value, original: &Value) -> Value {
    let mut p = payload.clone();
    if let Some(m) = p.as_object_mut() {
        m.remove("_sd_alg");
        for k in ["cnf", "exp"] {
            if original.get(k).is_none() {
                m.remove(k);
            }
        }
    }
    p
}

pub fn has_bookkeeping(v: &Value, top: bool) -> bool {
    match v {
        Value::Object(m) => {
            if m.contains_key("_sd") || (top && m.contains_key("_sd_alg")) {
                return true;
            }
            m.values().any(|x| has_bookkeeping(x, false))
        }
        Value::Array(a) => a.iter().any(|x| {
            (x.is_object() && x.get("...").map_or(false, |d| d.is_string()) && x.as_object().unwrap().len() == 1)
                || has_bookkeeping(x, false)
        }),
        _ => false,
    }
}

pub struct Compare<'a> {
    pub prop: &'a str,
    pub entry: &'a str,
    pub case: &'a Value,
}

pub fn out_sig<T>(o: &Out<T>) -> String {
    match o {
        Out::Ok(_) => "ok".to_string(),
        Out::Err(c, _) => format!("err:{}", c),
        Out::Panic(site) => format!("panic:{}", site.split(' ').next().unwrap_or("")),
    }
}

/// Compare the result of a real restoration (`Holder::verify` / `Verifier::verify`) with the
/// Impl model and the reference verifier run by the driver on the same payload and strings,
/// and with the expected claims computed from the spec (`expected`, `None` = must be rejected…
/// `Some(Err)` handled by callers).
#[allow(clippy::too_many_arguments)]
pub fn compare_restoration(
    ctx: &mut Ctx,
    cmp: &Compare,
    alg: &str,
    payload: &Value,
    discs: &[String],
    real: &Out<(Value, Option<Vec<Value>>)>,
    expected_claims: Option<&Value>,
    expected_paths: Option<&[Value]>,
    ref_must_agree: bool,
) {
    let resp = restore_op(ctx, alg, payload, discs);
    let model = &resp["model"];
    let reff = &resp["ref"];
    // --- real vs model (correspondence)
    match real {
        Out::Ok((claims, paths)) => {
            if model.get("ok").is_none() {
                ctx.report.diff("correspondence", cmp.entry, &format!("{}:real-ok:model-{}", cmp.entry, short(model)), cmp.case,
                    json!({"real": {"ok": claims}, "model": model}));
            } else {
                if &model["ok"]["claims"] != claims {
                    ctx.report.diff("correspondence", cmp.entry, &format!("{}:claims-differ", cmp.entry), cmp.case,
                        json!({"real": claims, "model": model["ok"]["claims"]}));
                }
                if let Some(ps) = paths {
                    let mp = model["ok"]["paths"].as_array().cloned().unwrap_or_default();
                    if paths_canon(ps) != paths_canon(&mp) {
                        ctx.report.diff("correspondence", cmp.entry, &format!("{}:paths-differ", cmp.entry), cmp.case,
                            json!({"real": ps, "model": mp}));
                    }
                }
            }
        }
        Out::Err(c, m) => {
            if model.get("err").is_none() {
                ctx.report.diff("correspondence", cmp.entry, &format!("{}:real-err:model-{}", cmp.entry, short(model)), cmp.case,
                    json!({"real": {"err": c, "msg": m}, "model": model}));
            }
        }
        Out::Panic(site) => {
            if model.get("panic").is_none() {
                ctx.report.diff("correspondence", cmp.entry, &format!("{}:real-panic:model-{}", cmp.entry, short(model)), cmp.case,
                    json!({"real": {"panic": site}, "model": model}));
            }
        }
    }
    // --- real vs spec (property)
    if let Some(exp) = expected_claims {
        match real {
            Out::Ok((claims, paths)) => {
                if claims != exp {
                    ctx.report.diff("property", cmp.entry, &format!("{}:claims-not-as-specified", cmp.entry), cmp.case,
                        json!({"real": claims, "expected": exp}));
                }
                if let (Some(ps), Some(eps)) = (paths, expected_paths) {
                    if paths_canon(ps) != paths_canon(eps) {
                        ctx.report.diff("property", cmp.entry, &format!("{}:paths-not-as-specified", cmp.entry), cmp.case,
                            json!({"real": ps, "expected": eps}));
                    }
                }
            }
            other => {
                ctx.report.diff("property", cmp.entry, &format!("{}:rejected-valid:{}", cmp.entry, out_sig(other)), cmp.case,
                    json!({"real": other.describe(|_| Value::Null), "expected": exp}));
            }
        }
        if ref_must_agree {
            if reff.get("ok") != Some(exp) {
                ctx.report.diff("internal", cmp.entry, &format!("{}:ref-verify-differs-from-spec", cmp.entry), cmp.case,
                    json!({"ref": reff, "expected": exp}));
            }
        }
        // --- model vs spec (internal)
        if model.get("ok").map(|o| &o["claims"]) != Some(exp) {
            ctx.report.diff("internal", cmp.entry, &format!("{}:model-differs-from-spec", cmp.entry), cmp.case,
                json!({"model": model, "expected": exp}));
        }
    }
}

fn short(v: &Value) -> &'static str {
    if v.get("ok").is_some() { "ok" } else if v.get("err").is_some() { "err" } else if v.get("panic").is_some() { "panic" } else { "?" }
}

pub fn mark_by_id(marks: &[MarkInfo], id: usize) -> &MarkInfo {
    marks.iter().find(|m| m.id == id).expect("mark id")
}

pub fn is_nontrivial(marks: &[MarkInfo]) -> bool {
    marks.iter().any(|m| m.in_array || !m.ancestors.is_empty() || m.depth > 0)
}

/// the disclosure content [salt, name?, value] decoded by the harness itself
pub fn decode_disclosure(d: &str) -> Option<Vec<Value>> {
    let bytes = real::b64url_decode(d)?;
    let v: Value = serde_json::from_slice(&bytes).ok()?;
    v.as_array().cloned()
}
