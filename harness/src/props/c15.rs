//! C15 — YAML claims with `!sd` tags mean the same as JSON claims plus those paths.
use super::common::*;
use crate::keys;
use crate::prng::Rng;
use crate::real::{self, Out};
use crate::tree::{gen_tree, GenCfg, Mark, Node};
use crate::Ctx;
use sdjwt::{Algorithm, Header, Issuer, Validation};
use serde_json::{json, Value};

fn simple_ident(s: &str) -> bool {
    let mut cs = s.chars();
    match cs.next() {
        Some(c) if c.is_ascii_alphabetic() => {}
        _ => return false,
    }
    cs.all(|c| c.is_ascii_alphanumeric() || c == '_')
        && !["null", "true", "false", "yes", "no", "on", "off", "y", "n", "Null", "True", "False", "Yes", "No", "On", "Off", "NULL", "TRUE", "FALSE", "YES", "NO", "ON", "OFF", "Y", "N"].contains(&s)
}

fn quote(s: &str, plain_ok: bool) -> String {
    if plain_ok && simple_ident(s) { s.to_string() } else { serde_json::to_string(s).unwrap() }
}

fn scalar(v: &Value, rng: &mut Rng) -> String {
    match v {
        Value::Null => if rng.chance(1, 2) { "null".into() } else { "~".into() },
        Value::Bool(b) => b.to_string(),
        Value::Number(n) => n.to_string(),
        Value::String(s) => quote(s, rng.chance(1, 2)),
        _ => unreachable!(),
    }
}

thread_local! {
    /// how the tag `!sd` may be spelled in the document being printed: 0 = literally, 1 = also with a
    /// %-escaped character (`!s%64`), 2 = also through a `%TAG` handle declared at the top (`!e!d`)
    static TAG_STYLE: std::cell::Cell<u8> = std::cell::Cell::new(0);
}

/// one spelling of the tag `!sd` (all of them are the same tag to a YAML processor)
fn sd_tag(rng: &mut Rng) -> &'static str {
    match TAG_STYLE.with(|t| t.get()) {
        1 => if rng.chance(1, 2) { "!s%64" } else { "!sd" },
        2 => *rng.pick(&["!e!d", "!e!d", "!sd", "!s%64"]),
        _ => "!sd",
    }
}

fn emit(node: &Node, indent: usize, rng: &mut Rng, out: &mut String) {
    let pad = " ".repeat(indent);
    match node {
        Node::Leaf(v) => { out.push_str(&pad); out.push_str(&scalar(v, rng)); out.push('\n'); }
        Node::Obj(ms, _) if ms.is_empty() => { out.push_str(&pad); out.push_str("{}\n"); }
        Node::Arr(xs) if xs.is_empty() => { out.push_str(&pad); out.push_str("[]\n"); }
        Node::Obj(ms, _) => {
            for m in ms {
                out.push_str(&pad);
                if matches!(m.mark, Mark::Marked { .. }) { out.push_str(sd_tag(rng)); out.push(' '); }
                out.push_str(&quote(&m.key, rng.chance(1, 2)));
                out.push(':');
                inline_or_block(&m.node, indent, rng, out);
            }
        }
        Node::Arr(xs) => {
            for e in xs {
                out.push_str(&pad);
                out.push('-');
                if matches!(e.mark, Mark::Marked { .. }) {
                    if let Node::Leaf(Value::String(s)) = &e.node { out.push(' '); out.push_str(sd_tag(rng)); out.push(' '); out.push_str(&quote(s, rng.chance(1, 2))); out.push('\n'); continue; }
                }
                inline_or_block(&e.node, indent, rng, out);
            }
        }
    }
}

fn inline_or_block(node: &Node, indent: usize, rng: &mut Rng, out: &mut String) {
    match node {
        Node::Leaf(v) => { out.push(' '); out.push_str(&scalar(v, rng)); out.push('\n'); }
        Node::Obj(ms, _) if ms.is_empty() => out.push_str(" {}\n"),
        Node::Arr(xs) if xs.is_empty() => out.push_str(" []\n"),
        _ => { out.push('\n'); emit(node, indent + 2, rng, out); }
    }
}

fn to_y(node: &Node) -> Value {
    match node {
        Node::Leaf(Value::Null) => json!({"y":"null"}),
        Node::Leaf(Value::Bool(b)) => json!({"y":"bool","v":b}),
        Node::Leaf(Value::Number(n)) => json!({"y":"num","v":n}),
        Node::Leaf(Value::String(s)) => json!({"y":"str","v":s}),
        Node::Leaf(_) => json!({"y":"null"}),
        Node::Arr(xs) => json!({"y":"seq","xs": xs.iter().map(|e| {
            let v = to_y(&e.node);
            if matches!(e.mark, Mark::Marked { .. }) { json!({"y":"tag","tag":"!sd","v":v}) } else { v }
        }).collect::<Vec<_>>()}),
        Node::Obj(ms, _) => json!({"y":"map","kvs": ms.iter().map(|m| {
            let k = json!({"y":"str","v":m.key});
            let k = if matches!(m.mark, Mark::Marked { .. }) { json!({"y":"tag","tag":"!sd","v":k}) } else { k };
            json!([k, to_y(&m.node)])
        }).collect::<Vec<_>>()}),
    }
}

/// marks on sequence items are only meaningful on string items: drop the others
fn restrict(node: &mut Node) {
    match node {
        Node::Leaf(_) => {}
        Node::Arr(xs) => {
            for e in xs.iter_mut() {
                if matches!(e.mark, Mark::Marked { .. }) && !matches!(e.node, Node::Leaf(Value::String(_))) { e.mark = Mark::Clear; }
                restrict(&mut e.node);
            }
        }
        Node::Obj(ms, _) => { for m in ms.iter_mut() { restrict(&mut m.node); } }
    }
}

pub fn run_case(ctx: &mut Ctx, case: &Value) {
    crate::real::set_current(case);
    ctx.report.evaluations += 1;
    let tree = Node::from_wire(&case["tree"]);
    let marks = tree.marks();
    let mut rng = Rng::fork(case["fmt_seed"].as_u64().unwrap_or(1), 3);
    let mut doc = String::new();
    // one document in eight spells the tag in the other ways YAML offers (the first draws of the stream are
    // otherwise unchanged: the style is a function of the format seed)
    let style = match case["fmt_seed"].as_u64().unwrap_or(1) % 8 { 3 => 1u8, 5 => 2u8, _ => 0u8 };
    TAG_STYLE.with(|t| t.set(style));
    if style == 2 { doc.push_str("%TAG !e! !s\n---\n"); }
    emit(&tree, 0, &mut rng, &mut doc);
    TAG_STYLE.with(|t| t.set(0));
    if style != 0 { ctx.report.bump(&format!("tag-spelling-style:{}", style)); }
    let claims = tree.plain();
    let mut c2 = case.clone();
    c2["yaml"] = json!(doc);
    if marks.iter().any(|m| !m.ancestors.is_empty()) { ctx.report.bump("tag-below-tagged-key"); }
    if marks.iter().any(|m| m.in_array) { ctx.report.bump("tagged-sequence-item"); }
    ctx.report.bump(&format!("marks:{}", marks.len().min(8)));
    if is_nontrivial(&marks) || marks.len() >= 2 { ctx.report.nontrivial_case(&json!([case["tree"]])); }
    ctx.report.sample(json!({"yaml": doc, "expected_paths": marks.iter().map(|m| m.path.clone()).collect::<Vec<_>>()}));
    let parsed = real::guard(|| sdjwt::parse_yaml(&doc));
    let model = ctx.driver.ask(&json!({"op":"yaml","doc":to_y(&tree)}));
    let (j, paths) = match &parsed {
        Out::Ok(x) => x.clone(),
        other => {
            ctx.report.diff("property", "parse_yaml", &format!("parse_yaml:valid-document:{}", out_sig(other)), &c2, json!({"real": other.describe(|_| Value::Null)}));
            if model.get("ok").is_some() {
                ctx.report.diff("correspondence", "parse_yaml", "parse_yaml:real-fails:model-ok", &c2, json!({"model": model}));
            }
            return;
        }
    };
    if j != claims {
        ctx.report.diff("property", "parse_yaml", "parse_yaml:claims-differ", &c2, json!({"real": j, "expected": claims}));
    }
    let mut got = paths.clone(); got.sort();
    let mut want: Vec<String> = marks.iter().map(|m| m.path.clone()).collect(); want.sort();
    if got != want {
        ctx.report.diff("property", "parse_yaml", "parse_yaml:paths-differ", &c2, json!({"real": paths, "expected": want}));
    }
    // the model lists the paths in one descendants-first order; the property asks for *an* order with which
    // issuing succeeds (tried below with the real list), so the lists are compared as multisets
    let mut model_paths: Vec<String> = model["ok"]["paths"].as_array().cloned().unwrap_or_default().iter().filter_map(|p| p.as_str().map(|s| s.to_string())).collect();
    if json!(model_paths) != json!(paths) { ctx.report.bump("paths-in-other-order-than-model"); }
    model_paths.sort();
    if model["ok"]["json"] != j || model_paths != got {
        ctx.report.diff("correspondence", "parse_yaml", "parse_yaml:differs-from-model", &c2, json!({"real": {"json": j, "paths": paths}, "model": model}));
    }
    if !marks.is_empty() {
        // issuing from the parsed result = issuing from the plain claims with those paths
        let out = real::guard(|| {
            let mut issuer = Issuer::new(j.clone())?;
            issuer.iter_disclosable(paths.iter());
            let mut h = Header::new(Algorithm::HS256);
            h.typ = Some("sd-jwt".into());
            issuer.header(h);
            issuer.encode(&keys::enc_key(0, 0))
        });
        match out {
            Out::Ok(token) => {
                let v = Validation::default().without_expiry().with_algorithm(Algorithm::HS256);
                match real::holder_verify(&token, &keys::dec_key(0, 0), &v) {
                    Out::Ok((_, c, ps)) => {
                        if c != claims { ctx.report.diff("property", "Holder::verify", "Holder::verify:claims-after-yaml-issuance", &c2, json!({"real": c, "expected": claims})); }
                        if ps.len() != marks.len() { ctx.report.diff("property", "Holder::verify", "Holder::verify:path-count-after-yaml-issuance", &c2, json!({"real": ps.len(), "expected": marks.len()})); }
                    }
                    other => ctx.report.diff("property", "Holder::verify", &format!("Holder::verify:after-yaml-issuance:{}", out_sig(&other)), &c2, json!({})),
                }
            }
            other => ctx.report.diff("property", "Issuer::encode", &format!("Issuer::encode:paths-from-yaml:{}", out_sig(&other)), &c2, json!({"paths": paths, "real": other.describe(|_| Value::Null)})),
        }
    }
}

/// `!sd` written on a mapping VALUE (or on the root) instead of a key or a sequence item. The library may decline
/// such a document; if it accepts it, the statement applies as it stands: the claims are the document without its
/// tags, and the paths are exactly the pointers of the tagged nodes.
fn value_tagged_documents(ctx: &mut Ctx) {
    let docs: [(&str, Value, &[&str]); 7] = [
        ("age: !sd 42\n", json!({"age": 42}), &["/age"]),
        ("address: !sd {street: x, no: 7}\nname: n\n", json!({"address": {"street": "x", "no": 7}, "name": "n"}), &["/address"]),
        ("a:\n  b: !sd [1, 2]\n", json!({"a": {"b": [1, 2]}}), &["/a/b"]),
        ("a: !sd\n", json!({"a": null}), &["/a"]),
        ("k: !sd v\n!sd j: w\n", json!({"k": "v", "j": "w"}), &["/k", "/j"]),
        ("list:\n  - !sd {k: v}\n  - x\n", json!({"list": [{"k": "v"}, "x"]}), &["/list/0"]),
        ("a: {b: !sd {c: !sd 1}}\n", json!({"a": {"b": {"c": 1}}}), &["/a/b/c", "/a/b"]),
    ];
    for (doc, claims, paths) in docs.iter() {
        let case = json!({"kind": "value-tagged", "yaml": doc});
        crate::real::set_current(&case);
        ctx.report.evaluations += 1;
        ctx.report.nontrivial_case(&case);
        match real::guard(|| sdjwt::parse_yaml(doc)) {
            Out::Ok((j, ps)) => {
                ctx.report.bump("value-tagged:accepted");
                let mut got: Vec<String> = ps.clone(); got.sort();
                let mut want: Vec<String> = paths.iter().map(|p| p.to_string()).collect(); want.sort();
                if &j != claims {
                    ctx.report.diff("property", "parse_yaml", "parse_yaml:claims-differ", &case, json!({"real": j, "expected": claims}));
                } else if got != want {
                    ctx.report.diff("property", "parse_yaml", "parse_yaml:paths-differ", &case, json!({"real": ps, "expected": paths}));
                }
            }
            Out::Err(..) => ctx.report.bump("value-tagged:declined"),
            Out::Panic(site) => ctx.report.diff("property", "parse_yaml", &format!("parse_yaml:panic:{}", site.split(' ').next().unwrap_or("")), &case, json!({"panic": site})),
        }
    }
}

pub fn run(ctx: &mut Ctx, replay: Option<&Value>) {
    ctx.report.rule = "block-style YAML printed from random marked trees: string-keyed mappings (quoted / plain keys, empty, numeric-looking, unicode, '/' and '~' in keys), sequences, null/bool/int/float/string scalars, empty containers; !sd (also spelled `!s%64` or through a `%TAG` handle) on mapping keys at any depth (inside sequences, below other tagged keys, in single-entry mappings) and on string sequence items; parse_yaml compared with (plain claims, set of marked pointers) and with the model on the corresponding YAML value; then Issuer::iter_disclosable + encode + Holder::verify; non-trivial = distinct tree with a nested/positional tag or >= 2 tags".to_string();
    if let Some(case) = replay {
        if case["kind"] == json!("value-tagged") { value_tagged_documents(ctx); return; }
        run_case(ctx, case);
        return;
    }
    value_tagged_documents(ctx);
    let n = ctx.count(8_000, 60_000);
    for i in 0..n {
        let mut rng = Rng::fork(ctx.seed, i);
        let cfg = GenCfg { max_depth: if ctx.tier_thorough { 5 } else { 4 }, max_fanout: 4, mark_pct: *rng.pick(&[10u32, 30, 60, 90]), unsafe_keys: rng.chance(1, 5), reference: false, sentinels: false };
        let mut tree = gen_tree(&mut rng, &cfg, 0);
        restrict(&mut tree);
        // single-entry mappings with a tagged key now and then
        let case = json!({"tree": tree.to_wire(), "fmt_seed": rng.next() % 1_000_000});
        run_case(ctx, &case);
    }
}
