pub mod common;
pub mod c01;
pub mod c10;

use crate::Ctx;
use serde_json::Value;

pub fn run(prop: &str, ctx: &mut Ctx, replay: Option<&Value>) {
    match prop {
        "C01" => c01::run(ctx, replay),
        "C10" => c10::run(ctx, replay),
        other => {
            eprintln!("no harness run for property {}", other);
            std::process::exit(2);
        }
    }
}
