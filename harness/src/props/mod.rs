pub mod common;
pub mod c01;
pub mod c02;
pub mod c03;
pub mod c04;
pub mod c05;
pub mod c06;
pub mod c07;
pub mod c08;
pub mod c12;
pub mod c13;
pub mod c14;
pub mod c15;
pub mod c16;
pub mod flowkit;
pub mod c10;
pub mod c11;

use crate::Ctx;
use serde_json::Value;

pub fn run(prop: &str, ctx: &mut Ctx, replay: Option<&Value>) {
    match prop {
        "C01" => c01::run(ctx, replay),
        "C10" => c10::run(ctx, replay),
        "C02" => c02::run(ctx, replay),
        "C03" => c03::run(ctx, replay),
        "C08" => c08::run(ctx, replay),
        "C06" => c06::run(ctx, replay),
        "C07" => c07::run(ctx, replay),
        "C12" => c12::run(ctx, replay),
        "C13" => c13::run(ctx, replay),
        "C15" => c15::run(ctx, replay),
        "C16" => c16::run(ctx, replay),
        "C04" => c04::run(ctx, replay),
        "C11" => c11::run(ctx, replay),
        "C05" => c05::run(ctx, replay, false),
        "C09" => c05::run(ctx, replay, true),
        "C14" => c14::run(ctx, replay),
        other => {
            eprintln!("no harness run for property {}", other);
            std::process::exit(2);
        }
    }
}
