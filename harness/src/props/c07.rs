//! C07 — issued SD-JWTs are spec-conformant as judged by an independent verifier.
use super::c02::projects;
use super::common::*;
use super::flowkit::*;
use crate::prng::Rng;
use crate::real::{self, Out};
use crate::Ctx;
use sdjwt::{Disclosure, HashAlgorithm};
use serde_json::{json, Value};

pub fn run_case(ctx: &mut Ctx, case: &Value) {
    crate::real::set_current(case);
    ctx.report.evaluations += 1;
    let ic = match issue_own(ctx, case, "C07") {
        Some(ic) => ic,
        None => return,
    };
    if is_nontrivial(&ic.marks) { ctx.report.nontrivial_case(&json!([case["tree"], case["order"]])); }
    ctx.report.sample(json!({"token": ic.token.chars().take(300).collect::<String>(), "payload": ic.payload}));
    // framing: <JWT>~<disclosure>~...~, unpadded base64url segments
    let framing_ok = ic.token.ends_with('~') && !ic.token.contains("~~") && ic.discs.iter().all(|d| !d.is_empty() && d.bytes().all(|b| b.is_ascii_alphanumeric() || b == b'-' || b == b'_'));
    if !framing_ok {
        ctx.report.diff("property", "Issuer::encode", "Issuer::encode:framing", case, json!({"token": ic.token}));
    }
    // structure: payload exactly as the spec places the digests (each once, at the node's position);
    // digests are recomputed by the driver's own SHA-2 from the disclosure strings
    if !ic.marks.is_empty() && ic.payload.get("_sd_alg").is_none() {
        ctx.report.diff("property", "Issuer::encode", "Issuer::encode:_sd_alg", case, json!({"payload": ic.payload}));
    }
    let real_payload = real::canon_sd(&strip_issuer_members(&ic.payload, &ic.claims));
    let spec_payload = real::canon_sd(&ic.spec["payload"]);
    if real_payload != spec_payload {
        ctx.report.diff("property", "Issuer::encode", "Issuer::encode:payload-not-as-specified", case, json!({"real": real_payload, "expected": spec_payload}));
    }
    if ic.spec["wf"] != json!(true) || ic.spec["nodup"] != json!(true) {
        ctx.report.diff("property", "Issuer::encode", "Issuer::encode:digest-embedded-twice-or-missing", case, json!({"wf": ic.spec["wf"], "nodup": ic.spec["nodup"]}));
    }
    // every disclosure: JSON array [salt, name?, value] with the expected name/value, reserved names unused
    for m in &ic.marks {
        let d = ic.disc_of(m.id);
        let dec = decode_disclosure(&d);
        let sd = ic.spec_disc(m.id);
        let ok = match (&dec, &m.key) {
            (Some(a), Some(k)) => a.len() == 3 && a[0].is_string() && a[1] == json!(k) && k != "_sd" && k != "..." && real::canon_sd(&a[2]) == real::canon_sd(&sd["value"]),
            (Some(a), None) => a.len() == 2 && a[0].is_string() && real::canon_sd(&a[1]) == real::canon_sd(&sd["value"]),
            _ => false,
        };
        if !ok {
            ctx.report.diff("property", "Issuer::encode", "Issuer::encode:disclosure-content", case, json!({"disclosure": d, "decoded": dec, "expected": sd}));
        }
        let alg = ic.sd_alg.clone();
        compare_with_model_string(ctx, case, &alg, &d, None, &dec);
    }
    // the independent verifier on the bytes: all disclosures, and sub-lists
    let mut rng = Rng::fork(ctx.seed ^ 0xC07, crate::report::hash_of(&case["tree"]));
    let n = ic.marks.len();
    let mut subsets: Vec<Vec<usize>> = vec![ic.marks.iter().map(|m| m.id).collect(), vec![]];
    if n <= 6 && ctx.tier_thorough {
        for mask in 1..((1usize << n) - 1) {
            subsets.push(ic.marks.iter().enumerate().filter(|(i, _)| mask >> i & 1 == 1).map(|(_, m)| m.id).collect());
        }
    } else {
        for _ in 0..4 {
            subsets.push(ic.marks.iter().filter(|_| rng.chance(1, 2)).map(|m| m.id).collect());
        }
    }
    // expected: marks of the sub-list all of whose enclosing marks are in the sub-list
    let shown: Vec<Vec<usize>> = subsets.iter().map(|s| ic.marks.iter().filter(|m| s.contains(&m.id) && m.ancestors.iter().all(|a| s.contains(a))).map(|m| m.id).collect()).collect();
    let expected = projects(ctx, &ic, &shown);
    for (i, s) in subsets.iter().enumerate() {
        let list: Vec<String> = s.iter().map(|id| ic.disc_of(*id)).collect();
        let resp = restore_op(ctx, &ic.sd_alg, &ic.payload, &list);
        ctx.report.bump("ref-verify-runs");
        if resp["ref"].get("ok") != Some(&expected[i]) {
            let mut c2 = case.clone();
            c2["sublist"] = json!(s);
            ctx.report.diff("property", "Issuer::encode", "Issuer::encode:reference-verifier-disagrees", &c2, json!({"ref": resp["ref"], "expected": expected[i], "sublist": s}));
        }
    }
}

/// The model's `Disclosure::build` on the salt the real one drew (`Codec.discString` / `Codec.hash`,
/// `Impl/Codec.lean`): the real disclosure string must be that string byte for byte and its digest that hash,
/// as long as the crate writes the JSON text the way the model's printer does (compact, members sorted). Another
/// layout of the same array is no violation of C07 (the content is compared separately): it is counted, not
/// reported. Also records whether the driver's JSON text codec read back what it wrote for this array.
fn compare_with_model_string(ctx: &mut Ctx, case: &Value, alg: &str, real_string: &str, real_digest: Option<&str>, dec: &Option<Vec<Value>>) {
    let a = match dec { Some(a) if (a.len() == 2 || a.len() == 3) && a[0].is_string() && (a.len() == 2 || a[1].is_string()) => a, _ => return };
    let req = json!({"op": "disc_string", "alg": alg, "salt": a[0], "key": if a.len() == 3 { a[1].clone() } else { Value::Null }, "value": a[a.len() - 1]});
    let r = ctx.driver.ask(&req);
    if r["roundtrip"] != json!(true) || r["model_reader"] != json!(true) {
        // the driver's general JSON reader, or the model's verified reader (`JText.parseAll`), did not read back
        // what the model's printer (`JText.render`) wrote for this array
        ctx.report.diff("internal", "Exec.codec", "Exec.codec:parse-of-render-differs", case, json!({"array": a, "general_reader": r["roundtrip"], "model_reader": r["model_reader"]}));
    }
    if r["s"].as_str() == Some(real_string) {
        ctx.report.bump("disclosure-text:byte-for-byte-as-model");
        if let Some(g) = real_digest {
            if r["h"].as_str() != Some(g) {
                ctx.report.diff("correspondence", "Disclosure::build", "Disclosure::build:digest-differs-from-model", case, json!({"real": g, "model": r["h"], "disclosure": real_string}));
            }
        }
    } else {
        ctx.report.bump("issued:disclosure-text-in-other-layout-than-model");
    }
}

/// `Disclosure::new(k, v).salt_len(n).algorithm(a).build()` and `from_base64`
fn disclosure_api(ctx: &mut Ctx, rng: &mut Rng, rounds: usize) {
    let names = ["", "a", "given_name", "é", "a/b", "~", "_sdx", "....", "0", "日本", "with \"quote\"", "tab\t", "_sd", "...",
        "pre\u{301}nom", "a\u{a0}b", "z\u{200b}", "\u{1}ctl", "del\u{7f}", "\u{feff}bom", "soft\u{ad}hyphen", "\u{85}nel", "back\\slash", "\u{1f600}"];
    let values = [json!(null), json!(true), json!(0), json!(-1.5), json!(""), json!("x"), json!([1, "a", null]), json!({"k": [1, {"z": 2}], "a": "b"}), json!("é\n\"")];
    let algs = [(HashAlgorithm::SHA256, "sha-256", 43usize), (HashAlgorithm::SHA384, "sha-384", 64), (HashAlgorithm::SHA512, "sha-512", 86)];
    for _ in 0..rounds {
        let name = if rng.chance(1, 3) { None } else { Some(rng.pick(&names).to_string()) };
        let value = rng.pick(&values).clone();
        let salt_len = *rng.pick(&[0usize, 1, 2, 15, 16, 17, 32, 64]);
        let (alg, alg_name, dlen) = *rng.pick(&algs);
        let case = json!({"kind":"disclosure-api","name":name,"value":value,"salt_len":salt_len,"alg":alg_name});
        ctx.report.evaluations += 1;
        ctx.report.nontrivial_case(&case);
        let built = real::guard(|| Disclosure::new(name.clone(), value.clone()).salt_len(salt_len).algorithm(alg).build());
        let reserved = matches!(name.as_deref(), Some("_sd") | Some("..."));
        match &built {
            Out::Ok(d) => {
                if reserved {
                    ctx.report.diff("property", "Disclosure::build", "Disclosure::build:reserved-name-accepted", &case, json!({}));
                    continue;
                }
                let s = d.disclosure().to_string();
                let expected_digest = ctx.driver.hash(alg_name, &s);
                let dec = decode_disclosure(&s);
                let content_ok = match (&dec, &name) {
                    (Some(a), Some(k)) => a.len() == 3 && a[1] == json!(k) && a[2] == value,
                    (Some(a), None) => a.len() == 2 && a[1] == value,
                    _ => false,
                };
                let salt_ok = dec.as_ref().and_then(|a| a[0].as_str().map(|x| x.to_string())).and_then(|x| real::b64url_decode(&x)).map_or(false, |b| b.len() >= salt_len);   // the requested number of salt bytes, or more (C13 has the 128-bit floor)
                let unpadded = s.bytes().all(|b| b.is_ascii_alphanumeric() || b == b'-' || b == b'_');
                if d.digest() != &expected_digest || d.digest().len() != dlen || !content_ok || !salt_ok || !unpadded {
                    ctx.report.diff("property", "Disclosure::build", "Disclosure::build:not-as-specified", &case,
                        json!({"disclosure": s, "digest": d.digest(), "expected_digest": expected_digest, "decoded": dec, "content_ok": content_ok, "salt_ok": salt_ok}));
                }
                compare_with_model_string(ctx, &case, alg_name, &s, Some(d.digest().as_str()), &dec);
                // and back
                let back = real::guard(|| Disclosure::from_base64(&s, alg));
                match &back {
                    Out::Ok(b) => {
                        if b.key() != &name || b.value() != &value || b.digest() != &expected_digest {
                            ctx.report.diff("property", "Disclosure::from_base64", "Disclosure::from_base64:round-trip", &case, json!({"key": b.key(), "value": b.value(), "digest": b.digest()}));
                        }
                    }
                    other => ctx.report.diff("property", "Disclosure::from_base64", &format!("Disclosure::from_base64:{}", out_sig(other)), &case, json!({"disclosure": s})),
                }
            }
            Out::Err(..) => {
                if !reserved {
                    ctx.report.diff("property", "Disclosure::build", "Disclosure::build:rejected", &case, json!({"real": built.describe(|_| Value::Null)}));
                }
            }
            Out::Panic(site) => ctx.report.diff("property", "Disclosure::build", &format!("Disclosure::build:panic:{}", site), &case, json!({})),
        }
    }
}

/// Claims that themselves carry a member `_sd_alg` (whatever it says): the issuer declares the algorithm it
/// really used, so the token is still conformant - the independent verifier, hashing under the DECLARED
/// algorithm, finds every disclosure and reconstructs the other claims. (The member itself is digest bookkeeping
/// to every reader and is not expected back: this stream judges conformance only.)
fn claims_with_sd_alg_member(ctx: &mut Ctx) {
    let values = [json!("sha-384"), json!("sha-512"), json!("sha-256"), json!("md5"), json!(5), json!(null)];
    // (the last two name the issuer's own bookkeeping member after it came into being: the issuer declines, or what
    // it issues is conformant all the same)
    let orders: [&[&str]; 5] = [&["/a", "/list/0", "/o/k"], &["/list/1", "/o/k", "/o", "/a"], &["/list/0"], &["/a", "/_sd"], &["/o/k", "/o/_sd", "/a"]];
    for (vi, v) in values.iter().enumerate() {
        for (oi, order) in orders.iter().enumerate() {
            let claims = json!({"_sd_alg": v, "a": 1, "list": ["p", "q"], "o": {"k": true, "m": "z"}});
            let case = json!({"kind": "claims-with-_sd_alg-member", "claims": claims, "paths": order});
            real::set_current(&case);
            ctx.report.evaluations += 1;
            ctx.report.nontrivial_case(&case);
            let alg = crate::keys::ALL_ALGS[(vi * 5 + oi) % crate::keys::ALL_ALGS.len()].clone();
            let mut header = sdjwt::Header::new(alg.clone());
            header.typ = Some("sd-jwt".to_string());
            let paths: Vec<String> = order.iter().map(|p| p.to_string()).collect();
            let req = real::IssueReq { claims: &claims, paths: &paths, decoy: None, cnf: None, header: Some(header), exp_in: None, repeats: 1, late_marks: 0 };
            let token = match real::issue(&req, &crate::keys::enc_key(crate::keys::family(&alg), 0)) {
                Out::Ok(t) => t[0].clone(),
                Out::Panic(site) => { ctx.report.diff("property", "Issuer::encode", &format!("Issuer::encode:panic:{}", site.split(' ').next().unwrap_or("")), &case, json!({"panic": site})); continue; }
                Out::Err(..) => { ctx.report.bump("claims-with-_sd_alg-member:issuer-declines"); continue; }
            };
            let (jwt, discs, _) = split_token(&token);
            let payload = real::peek_jwt(&jwt).map(|x| x.1).unwrap_or(Value::Null);
            let declared = match crate::tree::declared_sd_alg(&payload) {
                Some(a) if a == "sha-256" || a == "sha-384" || a == "sha-512" => a,
                other => { ctx.report.diff("property", "Issuer::encode", "Issuer::encode:_sd_alg", &case, json!({"payload": payload, "declared": other})); continue; }
            };
            let resp = restore_op(ctx, &declared, &payload, &discs);
            let mut expected = claims.clone();
            expected.as_object_mut().unwrap().remove("_sd_alg");
            ctx.report.bump("claims-with-_sd_alg-member:judged");
            if resp["ref"].get("ok") != Some(&expected) {
                ctx.report.diff("property", "Issuer::encode", "Issuer::encode:reference-verifier-disagrees", &case, json!({"ref": resp["ref"], "expected": expected, "payload": payload}));
            }
        }
    }
}

pub fn run(ctx: &mut Ctx, replay: Option<&Value>) {
    ctx.report.rule = "own-issued tokens over random trees/markings/orders/decoys/cnf: framing and alphabet of every segment, payload compared with the spec placement (digests recomputed by the driver's own SHA-2), disclosure contents decoded by the harness, reference verifier (Lean, shares no code with the crate) on the bytes for the full list, the empty list and random (thorough: all, for <=6 marks) sub-lists; Disclosure::new/salt_len/algorithm/build/from_base64 over names x values x salt lengths x sha-256/384/512; non-trivial = distinct (tree, order) with a nested or positional mark, or distinct Disclosure API case".to_string();
    if let Some(case) = replay {
        if case["kind"] == json!("claims-with-_sd_alg-member") {
            claims_with_sd_alg_member(ctx);
        } else if case["kind"] == json!("disclosure-api") {
            let mut rng = Rng::fork(ctx.seed, 0);
            disclosure_api(ctx, &mut rng, 50);
        } else {
            run_case(ctx, case);
        }
        return;
    }
    let n = ctx.count(4_000, 30_000);
    for i in 0..n {
        let mut rng = Rng::fork(ctx.seed, i);
        // every 10th case may have no disclosable claim at all (M empty, with or without decoys)
        let case = if i % 10 == 9 { gen_own_case_min(&mut rng, ctx.tier_thorough, i, false, 20, 0) } else { gen_own_case(&mut rng, ctx.tier_thorough, i, false, 20) };
        run_case(ctx, &case);
    }
    claims_with_sd_alg_member(ctx);
    let mut rng = Rng::fork(ctx.seed, 0xD15C);
    disclosure_api(ctx, &mut rng, if ctx.tier_thorough { 20_000 } else { 1_500 });
}
