//! C08 — conformant SD-JWTs from other issuers are processed as the specification says.
use super::c02::{gen_redactions, projects};
use super::common::*;
use super::flowkit::*;
use crate::keys;
use crate::prng::Rng;
use crate::real::{self, KbParams, Out};
use crate::Ctx;
use sdjwt::Algorithm;
use serde_json::{json, Value};

pub fn run_case(ctx: &mut Ctx, case: &Value) {
    crate::real::set_current(case);
    ctx.report.evaluations += 1;
    let ic = match issue_any(ctx, case) {
        Some(ic) => ic,
        None => return,
    };
    ctx.report.bump(&format!("sd_alg:{}", ic.sd_alg));
    ctx.report.bump(&format!("marks:{}", ic.marks.len().min(8)));
    if ic.marks.iter().any(|m| !m.ancestors.is_empty()) { ctx.report.bump("has-recursive-disclosure"); }
    if is_nontrivial(&ic.marks) {
        ctx.report.nontrivial_case(&json!([case["tree"], case["perm"], case["sd_alg"]]));
    }
    ctx.report.sample(json!({"payload": ic.payload, "disclosures": ic.discs.iter().take(4).collect::<Vec<_>>(), "sd_alg": ic.sd_alg}));
    let dec = keys::dec_key(keys::family(&ic.alg), 0);
    let validation = ic.validation();
    // (1) holder verification of the whole token, any order of the list
    let hv = real::holder_verify(&ic.token, &dec, &validation);
    let mut expected_claims = ic.spec["plain"].clone();
    if let Some(c) = ic.payload.get("cnf") { expected_claims["cnf"] = c.clone(); }
    // one path per disclosure. Which pointer: the statement of C08 does not say; with decoy placeholders in an
    // array the node's position in the signed payload (what this crate reports) and its position in the claims
    // differ, and either is accepted here - the pointer in the payload is what the model reports, so the
    // other one still shows as a difference from the model
    let claims_ptr: std::collections::HashMap<usize, String> = ic.marks.iter().map(|m| (m.id, m.path.clone())).collect();
    let reported: std::collections::HashMap<String, String> = match &hv { Out::Ok((_, _, ps)) => ps.iter().map(|p| (p.disc.clone(), p.path.clone())).collect(), _ => Default::default() };
    let expected_paths: Vec<Value> = ic.spec["discs"].as_array().cloned().unwrap_or_default().iter()
        .map(|d| {
            let alt = d["id"].as_u64().and_then(|id| claims_ptr.get(&(id as usize))).cloned();
            let got = d["str"].as_str().and_then(|s| reported.get(s)).cloned();
            let path = match (alt, got) { (Some(a), Some(g)) if a == g => json!(a), _ => d["path"].clone() };
            json!([path, d["str"], d["key"], d["value"]])
        }).collect();
    let real_out = hv.clone().map(|(_, c, ps)| (c, Some(real_paths_json(&ps))));
    let cmp = Compare { prop: "C08", entry: "Holder::verify", case };
    compare_restoration(ctx, &cmp, &ic.sd_alg, &ic.payload, &ic.discs, &real_out, Some(&expected_claims), Some(&expected_paths), true);
    ctx.report.bump(&format!("holder:{}", hv.class()));
    // (2) presentations this library's holder derives verify, here and under the reference verifier
    let mut rng = Rng::fork(ctx.seed ^ 0xC08, crate::report::hash_of(&case["tree"]));
    let sets = gen_redactions(&mut rng, &ic, false);
    let sets: Vec<Vec<String>> = sets.into_iter().take(4).collect();
    let kept: Vec<Vec<usize>> = sets.iter().map(|r| kept_ids(&ic, r)).collect();
    let expected = projects(ctx, &ic, &kept);
    let kbkey = holder_kb_key();
    let aud = "aud-1";
    // (the algorithm the bound JWK itself names; other algorithms are C05's and C09's subject)
    let kbp = KbParams { aud, key: &kbkey, alg: Algorithm::RS256 };
    let policy = kb_policy(aud, Algorithm::RS256);
    for (i, r) in sets.iter().enumerate() {
        let mut c2 = case.clone();
        c2["redactions"] = json!([r]);
        let built = real::holder_present(&ic.token, r, if ic.kb { Some(&kbp) } else { None }, 1);
        let pres = match &built {
            Out::Ok(ps) => ps[0].clone(),
            other => {
                ctx.report.diff("property", "Holder::build", &format!("Holder::build:conformant-token:{}", out_sig(other)), &c2, json!({"real": other.describe(|_| Value::Null)}));
                continue;
            }
        };
        let (_, pdiscs, _) = split_token(&pres);
        let vv = real::verifier_verify(&pres, &dec, &validation, if ic.kb { Some(&policy) } else { None });
        let real_out = vv.clone().map(|(_, c)| (c, None));
        let cmp = Compare { prop: "C08", entry: "Verifier::verify", case: &c2 };
        compare_restoration(ctx, &cmp, &ic.sd_alg, &ic.payload, &pdiscs, &real_out, Some(&expected[i]), None, true);
        // the independent verifier in strict mode (unreferenced disclosure => reject) on the same bytes
        let resp = restore_op(ctx, &ic.sd_alg, &ic.payload, &pdiscs);
        if resp["ref_strict"].get("ok") != Some(&expected[i]) {
            ctx.report.diff("property", "Holder::build", "Holder::build:presentation-not-accepted-by-reference-verifier", &c2,
                json!({"ref_strict": resp["ref_strict"], "expected": expected[i], "presented": pdiscs}));
        }
    }
}

pub fn run(ctx: &mut Ctx, replay: Option<&Value>) {
    ctx.report.rule = "tokens issued by the Lean reference issuer from random marked trees: _sd_alg in sha-256/384/512, disclosure list in random permutation, three JSON formattings of each disclosure, salts of length 0-64, decoy digests in _sd lists and arrays at any level, rotated _sd order, recursive disclosures; Holder::verify, Holder::presentation/redact/build, Verifier::verify, reference verifier (strict) on the bytes of every derived presentation; non-trivial = distinct (tree, permutation, alg) with a nested or positional mark".to_string();
    if let Some(case) = replay {
        run_case(ctx, case);
        return;
    }
    let n = ctx.count(3_000, 30_000);
    for i in 0..n {
        let mut rng = Rng::fork(ctx.seed, i);
        let case = gen_ref_case(&mut rng, ctx.tier_thorough, 25);
        run_case(ctx, &case);
    }
}
