//! C16 — the JOSE header set by the issuer reaches holder and verifier unchanged.
use crate::keys;
use crate::prng::Rng;
use crate::real::{self, Out};
use crate::Ctx;
use sdjwt::{Algorithm, Header, Issuer, Validation};
use serde_json::{json, Map, Value};

const FIELDS: [&str; 9] = ["typ", "cty", "jku", "kid", "x5u", "x5c", "x5t", "x5t_s256", "crit"];

fn rand_string(rng: &mut Rng) -> String {
    let pool = ["application/json", "application/example+sd-jwt", "application/jwt", "text/plain", "application/", "APPLICATION/JSON", "vc+sd-jwt", "", "a", "sd-jwt", "kb+jwt", "https://example.com/jwks.json", "é", "日本語", "with \"quotes\"", "tab\tnewline\n", "😀", "null", "0", "~/. ", "\u{7f}", "x5t",
        // values in the forms these fields take in the wild: PEM armour (LF and CRLF), padded / standard-alphabet
        // base64, a URL with query, a media type with parameters, the well-known typ values
        "-----BEGIN CERTIFICATE-----\nMIIBszCCAVmgAwIBAgIUQ0a+/Zz9\nAQ==\n-----END CERTIFICATE-----\n",
        "-----BEGIN CERTIFICATE-----\r\nMIIB+/8=\r\n-----END CERTIFICATE-----", "MIIB+/8=", "dGhpcyBpcyBhIHRodW1icHJpbnQ=", "https://example.com/c?x=1&y=%20#f",
        "application/json; charset=utf-8", "JWT", "dc+sd-jwt", "vc+sd-jwt", "SD-JWT", " sd-jwt ", "b64"];
    if rng.chance(1, 2) { rng.pick(&pool).to_string() } else { (0..rng.below(12)).map(|_| *rng.pick(&['a', 'Z', '0', '-', '_', '.', ' ', 'é', '/'])).collect() }
}

fn build(alg: &Algorithm, set: &Map<String, Value>) -> Header {
    let s = |k: &str| set.get(k).and_then(|v| v.as_str()).map(|x| x.to_string());
    let l = |k: &str| set.get(k).and_then(|v| v.as_array()).map(|a| a.iter().filter_map(|x| x.as_str().map(|y| y.to_string())).collect::<Vec<_>>());
    let mut h = Header::new(alg.clone());
    h.typ = s("typ");
    h.cty = s("cty");
    h.jku = s("jku");
    h.kid = s("kid");
    h.x5u = s("x5u");
    h.x5c = l("x5c");
    h.x5t = s("x5t");
    h.x5t_s256 = s("x5t_s256");
    h.crit = l("crit");
    h
}

fn one(ctx: &mut Ctx, alg: &Algorithm, set: &Map<String, Value>, case: &Value) {
    ctx.report.evaluations += 1;
    let fam = keys::family(alg);
    let mut header = build(alg, set);
    // one case in six also embeds a public key (`jwk`, a member the property does not list) that carries a `kid`
    // of its own: the listed members must still be exactly the ones that were set (`jwk` itself is left out of
    // the comparison)
    let with_jwk = crate::report::hash_of(&json!([case, "jwk"])) % 6 == 0;
    if with_jwk {
        let mut k = keys::holder_jwk();
        k["kid"] = json!("kid-inside-the-jwk");
        header.jwk = Some(k);
        ctx.report.bump("jwk-set");
    }
    let drop_jwk = |mut v: Value| -> Value { if with_jwk { if let Some(o) = v.as_object_mut() { o.remove("jwk"); } } v };
    // canonical JSON of h: each set field under its own member name, nothing else
    let mut expected = set.clone();
    expected.insert("alg".into(), json!(keys::alg_name(alg)));
    let expected = Value::Object(expected);
    // the claims vary with the case too (what is in the payload must not reach the header): now and then the
    // registered / well-known claim names a header-setting shortcut might look at
    let claims = match crate::report::hash_of(case) % 4 {
        0 => json!({"sub": "u", "name": "n", "vct": "https://credentials.example.com/identity_credential", "iss": "https://issuer.example", "iat": 1_700_000_000, "typ": "x", "alg": "none", "kid": "payload-kid", "cty": "payload-cty"}),
        1 => json!({"sub": "u", "name": "n", "vc": {"type": ["VerifiableCredential"]}, "status": {"idx": 1}}),
        _ => json!({"sub": "u", "name": "n"}),
    };
    // the calls on the issuer object follow a schedule derived from the case: the header set first or last, or an
    // earlier header (other values in the same members) signed with once before the final one is set - what
    // reaches holder and verifier is the header configured when `encode()` is called (`C14_history`)
    let sched = crate::report::hash_of(&json!([case, "c16-schedule"])) % 4;
    let out = real::guard(|| {
        let mut issuer = Issuer::new(claims.clone())?;
        match sched {
            1 => { issuer.header(header.clone()).disclosable("/name"); }
            2 | 3 => {
                let mut earlier = header.clone();
                for f in [&mut earlier.typ, &mut earlier.cty, &mut earlier.jku, &mut earlier.kid, &mut earlier.x5u, &mut earlier.x5t, &mut earlier.x5t_s256] {
                    if let Some(v) = f { *v = format!("earlier-{}", v); }
                }
                if let Some(v) = &mut earlier.x5c { v.push("ZWFybGllcg==".to_string()); }
                if let Some(v) = &mut earlier.crit { v.push("earlier".to_string()); }
                issuer.disclosable("/name").header(earlier);
                if sched == 2 { let _ = issuer.encode(&keys::enc_key(fam, 0)); }
                issuer.header(header.clone());
            }
            _ => { issuer.disclosable("/name").header(header.clone()); }
        }
        issuer.encode(&keys::enc_key(fam, 0))
    });
    let token = match out {
        Out::Ok(t) => t,
        other => { ctx.report.diff("property", "Issuer::encode", &format!("Issuer::encode:{}", other.class()), case, json!({"real": other.describe(|_| Value::Null)})); return; }
    };
    let v = Validation::default().without_expiry().with_algorithm(alg.clone());
    let dec = keys::dec_key(fam, 0);
    let jwt = token.split('~').next().unwrap_or("").to_string();
    let m = ctx.driver.ask(&json!({"op":"header","h":expected}));
    let results: Vec<(&str, Out<Value>)> = vec![
        ("Holder::verify", real::holder_verify(&token, &dec, &v).map(|x| drop_jwk(x.0))),
        ("Verifier::verify", real::verifier_verify(&token, &dec, &v, None).map(|x| drop_jwk(x.0))),
        ("decode", real::guard(|| sdjwt::decode(&jwt, &dec, &v)).map(|x| drop_jwk(x.0))),
    ];
    // what is actually on the wire, decoded by the harness
    let wire = drop_jwk(real::peek_jwt(&jwt).map(|x| x.0).unwrap_or(Value::Null));
    if wire != expected {
        ctx.report.diff("property", "Issuer::encode", "Issuer::encode:header-on-the-wire", case, json!({"wire": wire, "expected": expected}));
    }
    for (entry, r) in results {
        match &r {
            Out::Ok(h) => {
                if h != &expected {
                    ctx.report.diff("property", entry, &format!("{}:header-differs", entry), case, json!({"real": h, "expected": expected}));
                }
                if h != &m["header"] {
                    ctx.report.diff("correspondence", entry, &format!("{}:header-differs-from-model", entry), case, json!({"real": h, "model": m["header"]}));
                }
            }
            other => ctx.report.diff("property", entry, &format!("{}:{}", entry, other.class()), case, json!({"real": other.describe(|_| Value::Null)})),
        }
    }
    if m["header"] != expected {
        ctx.report.diff("internal", "header", "model-differs-from-spec", case, json!({"model": m["header"], "expected": expected}));
    }
}

pub fn run(ctx: &mut Ctx, replay: Option<&Value>) {
    ctx.report.rule = "all 2^9 subsets of the optional fields typ, cty, jku, kid, x5u, x5c, x5t, x5t_s256, crit with per-field distinct sentinels x 13 algorithms (exhaustive over that finite part; quick: HS256 and ES256 for all subsets, the other 11 algorithms on 64 sampled subsets each), plus random Unicode strings and list lengths 0-5; Issuer::header(h).encode then Holder::verify / Verifier::verify / decode and the header segment on the wire; non-trivial = distinct (subset, algorithm, values)".to_string();
    if let Some(case) = replay {
        let alg = keys::ALL_ALGS.iter().find(|a| keys::alg_name(a) == case["alg"].as_str().unwrap_or("HS256")).cloned().unwrap_or(Algorithm::HS256);
        let set = case["set"].as_object().cloned().unwrap_or_default();
        one(ctx, &alg, &set, case);
        return;
    }
    let mut rng = Rng::fork(ctx.seed, 0xC16);
    for (ai, alg) in keys::ALL_ALGS.iter().enumerate() {
        let full = ctx.tier_thorough || ai == 0 || keys::alg_name(alg) == "ES256";
        let masks: Vec<usize> = if full { (0..512).collect() } else { (0..64).map(|_| rng.below(512)).collect() };
        for mask in masks {
            let mut set = Map::new();
            for (i, f) in FIELDS.iter().enumerate() {
                if mask >> i & 1 == 1 {
                    if *f == "x5c" || *f == "crit" { set.insert(f.to_string(), json!([format!("{}-0", f), format!("{}-1", f)])); }
                    else { set.insert(f.to_string(), json!(format!("value-of-{}", f))); }
                }
            }
            let case = json!({"alg": keys::alg_name(alg), "set": set});
            ctx.report.nontrivial_case(&case);
            one(ctx, alg, &set, &case);
        }
    }
    ctx.report.exhaustive = ctx.tier_thorough;
    let n = if ctx.tier_thorough { 20_000 } else { 1_500 };
    for _ in 0..n {
        let alg = if rng.chance(4, 5) { Algorithm::HS256 } else { rng.pick(&keys::ALL_ALGS).clone() };
        let mut set = Map::new();
        for f in FIELDS.iter() {
            if rng.chance(1, 2) {
                if *f == "x5c" || *f == "crit" { let k = rng.below(6); set.insert(f.to_string(), json!((0..k).map(|_| rand_string(&mut rng)).collect::<Vec<_>>())); }
                else { set.insert(f.to_string(), json!(rand_string(&mut rng))); }
            }
        }
        let case = json!({"alg": keys::alg_name(&alg), "set": set});
        ctx.report.nontrivial_case(&case);
        ctx.report.sample(case.clone());
        one(ctx, &alg, &set, &case);
    }
}
