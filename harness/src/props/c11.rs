//! C11 — validation policy: builder steps independent, every configured check enforced.
use crate::keys;
use crate::prng::Rng;
use crate::real::{self, Out};
use crate::Ctx;
use sdjwt::{Algorithm, Header, Validation};
use serde_json::{json, Value};

fn step_alphabet() -> Vec<Value> {
    vec![
        json!(["withoutExpiry"]), json!(["withAudience", "aud-a"]), json!(["withAudience", "aud-b"]),
        json!(["withIssuer", "iss-i"]), json!(["withIssuer", "iss-j"]), json!(["withSubject", "sub-s"]), json!(["withSubject", "sub-t"]),
        json!(["withLeeway", 0]), json!(["withLeeway", 60]), json!(["withAlgorithm", "HS256"]), json!(["withAlgorithm", "ES256"]),
        json!(["withRequiredClaim", "iss"]), json!(["withRequiredClaim", "x"]),
        // names that other settings also talk about: a step must not touch them
        json!(["withRequiredClaim", "exp"]), json!(["withRequiredClaim", "nbf"]), json!(["withRequiredClaim", "aud"]),
        json!(["withRequiredClaim", "sub"]),
        // names are names: '/' and '~' in them mean nothing (`a/b` is not the member `b` of `a`)
        json!(["withRequiredClaim", "a/b"]), json!(["withRequiredClaim", "m~0n"]),
    ]
}

fn alg_of(name: &str) -> Algorithm {
    keys::ALL_ALGS.iter().find(|a| keys::alg_name(a) == name).cloned().unwrap()
}

fn apply(v: Validation, step: &Value) -> Validation {
    let name = step[0].as_str().unwrap_or("");
    match name {
        "withoutExpiry" => v.without_expiry(),
        "withAudience" => v.with_audience(step[1].as_str().unwrap()),
        "withIssuer" => v.with_issuer(step[1].as_str().unwrap()),
        "withSubject" => v.with_subject(step[1].as_str().unwrap()),
        "withLeeway" => v.with_leeway(step[1].as_u64().unwrap()),
        "withAlgorithm" => v.with_algorithm(alg_of(step[1].as_str().unwrap())),
        "withRequiredClaim" => v.with_required_claim(step[1].as_str().unwrap()),
        _ => v,
    }
}

fn sorted(o: &Option<std::collections::HashSet<String>>) -> Value {
    match o {
        Some(s) => { let mut v: Vec<&String> = s.iter().collect(); v.sort(); json!(v) }
        None => Value::Null,
    }
}

fn policy_json(v: &Validation) -> Value {
    json!({"required": sorted(&v.required_spec_claims), "leeway": v.leeway, "validate_exp": v.validate_exp, "validate_nbf": v.validate_nbf,
           "validate_aud": v.validate_aud, "aud": sorted(&v.aud), "iss": v.iss, "sub": v.sub, "alg": keys::alg_name(&v.algorithms)})
}

/// the fields of the real starting policy. C11 states what each step does and that every configured setting is
/// enforced; it does not fix the starting values, so the model starts from these (`new(alg)` must still set the
/// algorithm it is given: the model decides that field itself)
fn start_policy_json(start: &str) -> Value {
    let v = if start == "default" { Validation::default() } else { Validation::new(alg_of(start)) };
    policy_json(&v)
}

fn canon_policy(p: &Value) -> Value {
    let mut q = p.clone();
    for k in ["required", "aud"] {
        if let Some(a) = q[k].as_array().cloned() {
            let mut s: Vec<String> = a.iter().filter_map(|x| x.as_str().map(|y| y.to_string())).collect();
            s.sort();
            q[k] = json!(s);
        }
    }
    q
}

/// field a builder step names
fn named_field(step: &Value) -> &'static str {
    match step[0].as_str().unwrap_or("") {
        "withoutExpiry" => "validate_exp", "withAudience" => "aud", "withIssuer" => "iss", "withSubject" => "sub",
        "withLeeway" => "leeway", "withAlgorithm" => "alg", "withRequiredClaim" => "required", _ => "",
    }
}

fn builder_sequence(ctx: &mut Ctx, start: &str, steps: &[Value]) -> Validation {
    ctx.report.evaluations += 1;
    let case = json!({"kind":"builders","start":start,"steps":steps});
    real::set_current(&case);
    let mut v = if start == "default" { Validation::default() } else { Validation::new(alg_of(start)) };
    for s in steps {
        let before = policy_json(&v);
        let out = real::guard_plain(|| apply(v.clone(), s));
        v = match out {
            Out::Ok(n) => n,
            other => { ctx.report.diff("property", "Validation builders", &format!("builder:{}", other.class()), &case, json!({})); return v; }
        };
        let after = policy_json(&v);
        // frame condition: only the named field may change
        for k in ["required", "leeway", "validate_exp", "validate_nbf", "validate_aud", "aud", "iss", "sub", "alg"] {
            if k != named_field(s) && before[k] != after[k] {
                ctx.report.diff("property", "Validation builders", &format!("builder:{}:changes:{}", s[0].as_str().unwrap_or(""), k), &case,
                    json!({"step": s, "before": before, "after": after}));
            }
        }
    }
    let m = ctx.driver.ask(&json!({"op":"policy","start":start,"init":start_policy_json(start),"steps":steps}));
    if canon_policy(&m["policy"]) != policy_json(&v) {
        ctx.report.diff("correspondence", "Validation builders", "builders:differ-from-model", &case, json!({"real": policy_json(&v), "model": m["policy"]}));
    }
    if steps.len() >= 2 { ctx.report.nontrivial_case(&case); }
    v
}

fn enumerate_sequences(ctx: &mut Ctx, max_len: usize) {
    let alpha = step_alphabet();
    let mut idx = vec![0usize; 0];
    // all sequences of length 0..=max_len, from both constructors
    fn rec(ctx: &mut Ctx, alpha: &[Value], cur: &mut Vec<usize>, max_len: usize) {
        let steps: Vec<Value> = cur.iter().map(|i| alpha[*i].clone()).collect();
        builder_sequence(ctx, "default", &steps);
        if cur.len() <= 2 { builder_sequence(ctx, "PS384", &steps); }
        if cur.len() == max_len { return; }
        for i in 0..alpha.len() {
            cur.push(i);
            rec(ctx, alpha, cur, max_len);
            cur.pop();
        }
    }
    rec(ctx, &alpha, &mut idx, max_len);
    // order independence, observed directly: a permutation of steps that name different settings
    // (or an order-preserving interleaving) yields the same policy
}

fn order_independence(ctx: &mut Ctx, rng: &mut Rng, rounds: usize) {
    let alpha = step_alphabet();
    for _ in 0..rounds {
        let n = 2 + rng.below(5);
        let steps: Vec<Value> = (0..n).map(|_| rng.pick(&alpha).clone()).collect();
        // stable shuffle: permute, then restore the relative order within each named field
        let mut perm: Vec<usize> = (0..n).collect();
        rng.shuffle(&mut perm);
        let mut shuffled: Vec<Value> = perm.iter().map(|i| steps[*i].clone()).collect();
        for f in ["validate_exp", "aud", "iss", "sub", "leeway", "alg", "required"] {
            let orig: Vec<Value> = steps.iter().filter(|s| named_field(s) == f).cloned().collect();
            let mut k = 0;
            for s in shuffled.iter_mut() {
                if named_field(s) == f { *s = orig[k].clone(); k += 1; }
            }
        }
        let a = builder_sequence(ctx, "default", &steps);
        let b = builder_sequence(ctx, "default", &shuffled);
        if policy_json(&a) != policy_json(&b) {
            ctx.report.diff("property", "Validation builders", "builders:order-dependent", &json!({"kind":"builders","start":"default","steps":steps,"reordered":shuffled}),
                json!({"a": policy_json(&a), "b": policy_json(&b)}));
        }
    }
}

fn now() -> i64 {
    std::time::SystemTime::now().duration_since(std::time::UNIX_EPOCH).unwrap().as_secs() as i64
}

fn enforcement_case(ctx: &mut Ctx, start: &str, steps: &[Value], validate_nbf: bool, variant: &str) {
    ctx.report.evaluations += 1;
    real::set_current(&json!({"kind":"enforce","start":start,"steps":steps,"validate_nbf":validate_nbf,"variant":variant}));
    let mut v = if start == "default" { Validation::default() } else { Validation::new(alg_of(start)) };
    for s in steps { v = apply(v, s); }
    v.validate_nbf = validate_nbf;
    let t = now();
    let lee = v.leeway as i64;
    // a payload that satisfies every configured constraint
    let mut p = json!({"_sd_alg": "sha-256", "exp": t + 600, "nbf": t - 600});
    if let Some(a) = &v.aud { p["aud"] = json!(a.iter().next().unwrap()); }
    if let Some(i) = &v.iss { p["iss"] = json!(i); }
    if let Some(s) = &v.sub { p["sub"] = json!(s); }
    if let Some(r) = &v.required_spec_claims { for c in r { if p.get(c).is_none() { p[c.as_str()] = json!("present"); } } }
    let mut sign_alg = v.algorithms.clone();
    let mut applicable = true;
    // (the builder steps the model is given cannot express every policy that can be written into the public fields)
    let mut model_applies = true;
    let mut expect = true;
    let req = |c: &str| v.required_spec_claims.as_ref().map_or(false, |r| r.contains(c));
    match variant {
        "all-satisfied" => {}
        // claims no setting of the policy speaks about must not matter, whatever they say
        "iat-future" => { p["iat"] = json!(t + 3600); }
        "iat-odd" => { p["iat"] = json!("yesterday"); p["jti"] = json!(5); }
        "exp-expired" => { p["exp"] = json!(t - lee - 5); expect = !v.validate_exp; }
        "exp-within-leeway" => { p["exp"] = json!(t - lee + 30); applicable = lee > 35; }
        "exp-missing" => { p.as_object_mut().unwrap().remove("exp"); expect = !v.validate_exp && !req("exp"); }
        "exp-string" => { p["exp"] = json!("soon"); expect = !v.validate_exp; }
        "nbf-future" => { p["nbf"] = json!(t + lee + 30); expect = !v.validate_nbf; }
        "nbf-within-leeway" => { p["nbf"] = json!(t + lee - 5); applicable = lee > 10; }
        // exactly at the boundary: `nbf = now + leeway` is satisfied now and stays so (time only moves on)
        "nbf-at-the-boundary" => { p["nbf"] = json!(t + lee); }
        // NumericDate may carry a fraction (RFC 7519): a token that is not valid yet / has expired stays so
        "nbf-fraction-future" => { p["nbf"] = json!((t + lee + 30) as f64 + 0.5); expect = !v.validate_nbf; }
        "exp-fraction-expired" => { p["exp"] = json!((t - lee - 5) as f64 + 0.5); expect = !v.validate_exp; }
        "nbf-missing" => { p.as_object_mut().unwrap().remove("nbf"); expect = !v.validate_nbf && !req("nbf"); }
        "aud-wrong" => { p["aud"] = json!("someone-else"); expect = v.aud.is_none(); }
        "aud-array-disjoint" => { p["aud"] = json!(["x1", "x2"]); expect = v.aud.is_none(); }
        "aud-array-containing" => { applicable = v.aud.is_some(); if let Some(a) = &v.aud { p["aud"] = json!(["x1", a.iter().next().unwrap()]); } }
        "aud-missing" => { p.as_object_mut().unwrap().remove("aud"); expect = v.aud.is_none() && !req("aud"); }
        "aud-number" => { p["aud"] = json!(5); expect = v.aud.is_none(); }
        "iss-wrong" => { p["iss"] = json!("other-iss"); expect = v.iss.is_none(); }
        "iss-missing" => { p.as_object_mut().unwrap().remove("iss"); expect = v.iss.is_none() && !req("iss"); }
        "sub-wrong" => { p["sub"] = json!("other-sub"); expect = v.sub.is_none(); }
        "sub-missing" => { p.as_object_mut().unwrap().remove("sub"); expect = v.sub.is_none() && !req("sub"); }
        "required-missing" => {
            match &v.required_spec_claims {
                Some(r) if !r.is_empty() => { let c = r.iter().next().unwrap().clone(); p.as_object_mut().unwrap().remove(&c); expect = false; }
                _ => applicable = false,
            }
        }
        "required-only-nested" => {
            // the claim `a/b` is required; the token has a member `a` with a member `b`, and no claim `a/b`
            match &v.required_spec_claims {
                Some(r) if r.contains("a/b") => { p.as_object_mut().unwrap().remove("a/b"); p["a"] = json!({"b": "present"}); expect = false; }
                _ => applicable = false,
            }
        }
        // an audience allow-list that is configured and EMPTY (the field is public): no audience is expected, so no
        // token satisfies it - it is not the same as no audience setting at all
        "aud-empty-allow-list" => { v.aud = Some(Default::default()); p["aud"] = json!("aud-a"); expect = false; model_applies = false; }
        "other-alg" => { sign_alg = if keys::family(&v.algorithms) == 0 { if v.algorithms == Algorithm::HS384 { Algorithm::HS256 } else { Algorithm::HS384 } } else { Algorithm::HS256 }; expect = false; }
        _ => {}
    }
    if !applicable { return; }
    let fam = keys::family(&sign_alg);
    let mut h = Header::new(sign_alg.clone());
    h.typ = Some("sd-jwt".into());
    let jwt = match real::sign(&h, &p, &keys::enc_key(fam, 0)) { Out::Ok(j) => j, _ => return };
    // verification key of the *configured* algorithm's family when it is the signer's, else the signer's
    let dec = keys::dec_key(fam, 0);
    let token = format!("{}~", jwt);
    let case = json!({"kind":"enforce","start":start,"steps":steps,"validate_nbf":validate_nbf,"variant":variant,"payload":p});
    ctx.report.bump(&format!("variant:{}", variant));
    ctx.report.nontrivial_case(&json!([start, steps, validate_nbf, variant]));
    let famname = match fam { 0 => "secret", 1 => "rsa", _ => "ec" };
    let m = ctx.driver.ask(&json!({"op":"decide","start":start,"init":start_policy_json(start),"steps":steps,"validate_nbf":validate_nbf,"fam":famname,
        "hdr_alg":keys::alg_name(&sign_alg),"sig_ok":true,"payload":p,"now":now()}));
    let mclass = if m.get("ok").is_some() { "ok" } else if m.get("err").is_some() { "err" } else { "panic" };
    let outs: Vec<(&str, Out<()>)> = vec![
        ("decode", real::guard(|| sdjwt::decode(&jwt, &dec, &v).map(|_| ()))),
        ("Holder::verify", real::holder_verify(&token, &dec, &v).map(|_| ())),
        ("Verifier::verify", real::verifier_verify(&token, &dec, &v, None).map(|_| ())),
    ];
    for (entry, out) in outs {
        match (&out, expect) {
            (Out::Ok(_), false) => ctx.report.diff("property", entry, &format!("{}:accepts:{}", entry, variant), &case, json!({"policy": policy_json(&v)})),
            (Out::Err(c, msg), true) => ctx.report.diff("property", entry, &format!("{}:rejects:{}", entry, variant), &case, json!({"policy": policy_json(&v), "err": c, "msg": msg})),
            (Out::Panic(site), _) => ctx.report.diff("property", entry, &format!("{}:panic:{}", entry, site.split(' ').next().unwrap_or("")), &case, json!({"panic": site})),
            _ => {}
        }
        if model_applies && out.class() != mclass {
            ctx.report.diff("correspondence", entry, &format!("{}:class:real-{}:model-{}:{}", entry, out.class(), mclass, variant), &case, json!({"model": m, "policy": policy_json(&v)}));
        }
    }
    if model_applies && (mclass == "ok") != expect {
        ctx.report.diff("internal", "decide", &format!("model-{}-expected-{}:{}", mclass, expect, variant), &case, json!({"model": m}));
    }
}

const VARIANTS: &[&str] = &[
    "all-satisfied", "iat-future", "iat-odd", "exp-expired", "exp-within-leeway", "exp-missing", "exp-string", "nbf-future", "nbf-within-leeway", "nbf-missing", "nbf-fraction-future", "exp-fraction-expired", "nbf-at-the-boundary",
    "aud-wrong", "aud-array-disjoint", "aud-array-containing", "aud-missing", "aud-number", "iss-wrong", "iss-missing", "sub-wrong", "sub-missing",
    "required-missing", "required-only-nested", "aud-empty-allow-list", "other-alg",
];

/// the key-binding policy is a `Validation` too: every setting of it must be enforced on the
/// key-binding JWT, whatever the token itself says (e.g. an `alg` member in the `cnf` key)
fn kb_policy_case(ctx: &mut Ctx, policy_alg: &str, sign_alg: &str, cnf_alg: Option<&str>, policy_aud: Option<&str>, token_aud: Option<&str>) {
    kb_policy_case_exp(ctx, policy_alg, sign_alg, cnf_alg, policy_aud, token_aud, None)
}

/// `kb_exp`: `None` = the policy switches expiry off (as every key-binding policy in the crate's examples does);
/// `Some(x)` = the policy keeps expiry validation on and the key-binding JWT carries `exp = now + x` (`Some(0)`: no `exp`)
fn kb_policy_case_exp(ctx: &mut Ctx, policy_alg: &str, sign_alg: &str, cnf_alg: Option<&str>, policy_aud: Option<&str>, token_aud: Option<&str>, kb_exp: Option<i64>) {
    ctx.report.evaluations += 1;
    let case = json!({"kind":"kb-policy","policy_alg":policy_alg,"sign_alg":sign_alg,"cnf_alg":cnf_alg,"policy_aud":policy_aud,"token_aud":token_aud,"kb_exp":kb_exp});
    real::set_current(&case);
    let mut jwk = keys::holder_jwk();
    match cnf_alg { Some(a) => { jwk["alg"] = json!(a); } None => { jwk.as_object_mut().unwrap().remove("alg"); } }
    let base = json!({"_sd_alg": "sha-256", "cnf": jwk, "a": 1});
    let mut h = Header::new(Algorithm::HS256);
    h.typ = Some("sd-jwt".into());
    let jwt = match real::sign(&h, &base, &keys::enc_key(0, 0)) { Out::Ok(j) => j, _ => return };
    let prefix = format!("{}~", jwt);
    let sd_hash = {
        use sha2::{Digest, Sha256};
        real::b64url_encode(&Sha256::digest(prefix.as_bytes()))
    };
    let mut claims = json!({"nonce": "n", "iat": now(), "sd_hash": sd_hash});
    if let Some(a) = token_aud { claims["aud"] = json!(a); }
    if let Some(x) = kb_exp { if x != 0 { claims["exp"] = json!(now() + x); } }
    let mut kh = Header::new(alg_of(sign_alg));
    kh.typ = Some("kb+jwt".into());
    let kb = match real::sign(&kh, &claims, &keys::enc_key(1, 1)) { Out::Ok(k) => k, _ => return };
    let mut policy = if kb_exp.is_some() { Validation::new(alg_of(policy_alg)) } else { Validation::new(alg_of(policy_alg)).without_expiry() };
    if let Some(a) = policy_aud { policy = policy.with_audience(a); }
    let expect = policy_alg == sign_alg && (policy_aud.is_none() || policy_aud == token_aud) && kb_exp.map_or(true, |x| x > 0);
    ctx.report.bump(&format!("kb-policy:{}", if expect { "must-accept" } else { "must-reject" }));
    ctx.report.nontrivial_case(&case);
    let issuer_policy = Validation::default().without_expiry().with_algorithm(Algorithm::HS256);
    let outs: Vec<(&str, Out<()>)> = vec![
        ("verify_kb", real::guard(|| sdjwt::verify_kb(&kb, &jwk, &policy).map(|_| ()))),
        ("Verifier::verify+kb", real::verifier_verify(&format!("{}{}", prefix, kb), &keys::dec_key(0, 0), &issuer_policy, Some(&policy)).map(|_| ())),
    ];
    for (entry, out) in outs {
        match (&out, expect) {
            (Out::Ok(_), false) => ctx.report.diff("property", entry, &format!("{}:kb-policy-not-enforced", entry), &case, json!({})),
            (Out::Err(c, msg), true) => ctx.report.diff("property", entry, &format!("{}:kb-policy-rejects-conforming", entry), &case, json!({"err": c, "msg": msg})),
            (Out::Panic(site), _) => ctx.report.diff("property", entry, &format!("{}:panic:{}", entry, site.split(' ').next().unwrap_or("")), &case, json!({"panic": site})),
            _ => {}
        }
    }
}

fn kb_policies(ctx: &mut Ctx) {
    let algs = ["RS256", "RS384", "RS512", "PS256"];
    // a key-binding policy that keeps expiry validation on: expired / missing `exp` rejected, a future one accepted
    for a in algs {
        for x in [3600i64, -3600, 0] {
            kb_policy_case_exp(ctx, a, a, Some("RS256"), None, Some("aud-a"), Some(x));
            kb_policy_case_exp(ctx, a, a, None, Some("aud-a"), Some("aud-a"), Some(x));
        }
    }
    for pa in algs {
        for sa in algs {
            for ca in [None, Some("RS256"), Some("RS512"), Some("PS256"), Some("HS256"), Some("none")] {
                kb_policy_case(ctx, pa, sa, ca, None, Some("aud-a"));
                kb_policy_case(ctx, pa, sa, ca, Some("aud-a"), Some("aud-a"));
                kb_policy_case(ctx, pa, sa, ca, Some("aud-a"), Some("aud-b"));
                kb_policy_case(ctx, pa, sa, ca, Some("aud-a"), None);
            }
        }
    }
}

pub fn run(ctx: &mut Ctx, replay: Option<&Value>) {
    ctx.report.rule = "all sequences of builder calls of length <= 3 (quick) / 4 (thorough) over a 17-step alphabet (without_expiry, with_audience x2, with_issuer x2, with_subject x2, with_leeway x2, with_algorithm x2, with_required_claim x8: iss, x, exp, nbf, aud, sub, a/b, m~0n) from default() and new(PS384): frame condition after every step, final record compared field by field with the model; random longer sequences against a reordering that keeps the relative order per setting; for every policy reachable in <= 2 steps (and random longer ones) x validate_nbf in {false,true}: a token satisfying every constraint and tokens violating exactly one (21 variants, among them a fractional NumericDate that is not yet valid / has expired, margins of 5 s on the side that time moves away from and 30 s on the side it moves towards, around now +- leeway (a stalled run must not turn a token valid or invalid under the check's feet)) through decode / Holder::verify / Verifier::verify, compared with the model's decision; the key-binding policy (algorithm x audience) against key-binding JWTs signed with each RSA algorithm under cnf keys with each `alg` member, through verify_kb and Verifier::verify; non-trivial = distinct sequence of >= 2 steps, or distinct (policy, variant)".to_string();
    if let Some(case) = replay {
        let steps: Vec<Value> = case["steps"].as_array().cloned().unwrap_or_default();
        let start = case["start"].as_str().unwrap_or("default");
        if case["kind"] == json!("kb-policy") {
            kb_policy_case(ctx, case["policy_alg"].as_str().unwrap_or("RS256"), case["sign_alg"].as_str().unwrap_or("RS256"), case["cnf_alg"].as_str(),
                case["policy_aud"].as_str(), case["token_aud"].as_str());
        } else if case["kind"] == json!("enforce") {
            enforcement_case(ctx, start, &steps, case["validate_nbf"].as_bool().unwrap_or(false), case["variant"].as_str().unwrap_or("all-satisfied"));
        } else {
            builder_sequence(ctx, start, &steps);
            if let Some(r) = case["reordered"].as_array() {
                let a = builder_sequence(ctx, start, &steps);
                let b = builder_sequence(ctx, start, r);
                if policy_json(&a) != policy_json(&b) {
                    ctx.report.diff("property", "Validation builders", "builders:order-dependent", case, json!({"a": policy_json(&a), "b": policy_json(&b)}));
                }
            }
        }
        return;
    }
    let max_len = if ctx.tier_thorough { 4 } else { 3 };
    enumerate_sequences(ctx, max_len);
    let mut rng = Rng::fork(ctx.seed, 0xC11);
    order_independence(ctx, &mut rng, if ctx.tier_thorough { 20_000 } else { 1_500 });
    kb_policies(ctx);
    // enforcement
    let alpha = step_alphabet();
    let mut policies: Vec<Vec<Value>> = vec![vec![]];
    for a in &alpha { policies.push(vec![a.clone()]); }
    for a in &alpha { for b in &alpha { policies.push(vec![a.clone(), b.clone()]); } }
    let extra = if ctx.tier_thorough { 600 } else { 60 };
    for _ in 0..extra {
        let n = 3 + rng.below(4);
        policies.push((0..n).map(|_| rng.pick(&alpha).clone()).collect());
    }
    for (i, steps) in policies.iter().enumerate() {
        let quick_skip = !ctx.tier_thorough && i % 2 == 1 && steps.len() == 2;
        if quick_skip { continue; }
        for nbf in [false, true] {
            for v in VARIANTS {
                enforcement_case(ctx, "HS256", steps, nbf, v);
            }
        }
    }
}
