//! C05 — key binding enforced; C09 — the holder's KB-JWT commits to exactly its presentation.
use super::c02::gen_redactions;
use super::common::*;
use super::flowkit::*;
use crate::keys;
use crate::prng::Rng;
use crate::real::{self, KbParams, Out};
use crate::Ctx;
use sdjwt::{Algorithm, Header, Validation};
use serde_json::{json, Value};

const AUDS: [&str; 9] = ["https://verifier.example/cb", "https://verifier.example/cb", "https://verifier.example/cb", " https://verifier.example/cb", "https://verifier.example/cb\n", "verifier\u{a0}",
    // an audience is an opaque string: upper-case letters in scheme or host, a trailing slash, an escape stay as given
    "HTTPS://Verifier.Example/CallBack/", "openid4vp://Wallet.Example/%7Euser",
    // ... and so do commas and semicolons
    "https://verifier.example/cb?scope=name,email;x"];
thread_local! { static AUD_IX: std::cell::Cell<usize> = std::cell::Cell::new(0); }
/// the audience of the case being run: whatever string the caller supplies is the audience, also one with white
/// space around it (it is signed and compared as it is)
fn aud_now() -> &'static str { AUDS[AUD_IX.with(|i| i.get())] }

fn rsa_algs() -> [Algorithm; 6] {
    [Algorithm::RS256, Algorithm::RS384, Algorithm::RS512, Algorithm::PS256, Algorithm::PS384, Algorithm::PS512]
}

fn craft_kb(typ: Option<&str>, alg: Algorithm, claims: &Value, which_key: usize) -> Option<String> {
    let mut h = Header::new(alg);
    h.typ = typ.map(|s| s.to_string());
    real::sign(&h, claims, &keys::enc_key(1, which_key)).ok()
}

/// verifier outcome vs expectation vs model for one presentation string
#[allow(clippy::too_many_arguments)]
fn judge(ctx: &mut Ctx, ic: &IssuedCase, pres: &str, policy: Option<&Validation>, kb_ok: bool, accept: bool, label: &str, case: &Value) {
    let dec = keys::dec_key(keys::family(&ic.alg), 0);
    let vv = real::verifier_verify(pres, &dec, &ic.validation(), policy);
    ctx.report.bump(&format!("{}:{}", label, vv.class()));
    let mut c2 = case.clone();
    c2["variant"] = json!(label);
    // A `cnf` with two key candidates (the bare JWK members and a `jwk` member holding another key) is a token this
    // library never issues, and the statement does not say which of the two is "the" bound key (the crate reads
    // the bare members, RFC 7800 reads `jwk`): the crate's present reading is the model's, so a change of it shows
    // as a broken correspondence, not as a named failing input.
    let open_question = label.starts_with("cnf-with-second-candidate");
    match (&vv, accept) {
        (Out::Ok(_), false) if !open_question => ctx.report.diff("property", "Verifier::verify", &format!("Verifier::verify:accepts:{}", label), &c2, json!({"presentation": pres})),
        (Out::Err(c, m), true) if !open_question => ctx.report.diff("property", "Verifier::verify", &format!("Verifier::verify:rejects:{}", label), &c2, json!({"err": c, "msg": m, "presentation": pres})),
        (Out::Panic(site), _) => ctx.report.diff("property", "Verifier::verify", &format!("Verifier::verify:panic:{}", site.split(' ').next().unwrap_or("")), &c2, json!({"panic": site})),
        _ => {}
    }
    let m = ctx.driver.ask(&json!({"op":"flow","entry":"verifier_verify","token":pres,"jwt_ok":true,"kb_ok":kb_ok,"policy":policy.is_some()}));
    let mclass = if m.get("ok").is_some() { "ok" } else if m.get("err").is_some() { "err" } else { "panic" };
    if mclass != vv.class() {
        ctx.report.diff("correspondence", "Verifier::verify", &format!("Verifier::verify:class:real-{}:model-{}:{}", vv.class(), mclass, label), &c2,
            json!({"real": vv.describe(|(_, c)| c.clone()), "model": m}));
    }
    if (mclass == "ok") != accept {
        ctx.report.diff("internal", "Verifier::verify", &format!("model-{}-but-expected-{}:{}", mclass, if accept { "accept" } else { "reject" }, label), &c2, json!({"model": m}));
    }
}

pub fn run_case(ctx: &mut Ctx, case: &Value, c09: bool) {
    crate::real::set_current(case);
    AUD_IX.with(|i| i.set((crate::report::hash_of(&case["tree"]) % AUDS.len() as u64) as usize));
    ctx.report.evaluations += 1;
    let ic = match issue_any(ctx, case) {
        Some(ic) => ic,
        None => return,
    };
    let mut rng = Rng::fork(ctx.seed ^ 0xC05, crate::report::hash_of(&case["tree"]));
    let kbkey = holder_kb_key();
    let mut kb_alg = rsa_algs()[rng.below(6)].clone();
    // when the issuer signed with an RSA algorithm, the holder uses the same one every other time
    if keys::family(&ic.alg) == 1 && rng.chance(1, 2) { kb_alg = ic.alg.clone(); }
    let sets = gen_redactions(&mut rng, &ic, false);
    let r = sets[rng.below(sets.len())].clone();
    // The bound JWK of the fixtures says "alg":"RS256" while the key-binding algorithm ranges over RS/PS
    // 256/384/512 (a verifier that takes the algorithm from the JWK instead of its policy must show). A holder
    // may decline to sign with another algorithm than its JWK names - the properties speak of the presentations
    // the holder does build; such a case goes on with the JWK's own algorithm.
    if ic.kb && keys::alg_name(&kb_alg) != "RS256" {
        let probe = real::holder_present(&ic.token, &r, Some(&KbParams { aud: aud_now(), key: &kbkey, alg: kb_alg.clone() }), 1);
        let again = real::holder_present(&ic.token, &r, Some(&KbParams { aud: aud_now(), key: &kbkey, alg: Algorithm::RS256 }), 1);
        if matches!(probe, Out::Err(..)) && again.is_ok() {
            ctx.report.bump("holder-declines-alg-other-than-the-jwk-names");
            kb_alg = Algorithm::RS256;
        }
    }
    let kb_alg_name = keys::alg_name(&kb_alg);
    ctx.report.nontrivial_case(&json!([case["tree"], r, kb_alg_name, ic.kb]));
    ctx.report.bump(&format!("kb-alg:{}", kb_alg_name));
    ctx.report.bump(&format!("sd_alg:{}", ic.sd_alg));
    let policy_aud = kb_policy(aud_now(), kb_alg.clone());
    let policy_noaud = Validation::default().without_expiry().with_algorithm(kb_alg.clone());

    if !ic.kb {
        // unbound token: a KB-JWT must be refused, and none is needed
        let built = real::holder_present(&ic.token, &r, None, 1);
        let pres = match built { Out::Ok(p) => p[0].clone(), _ => return };
        judge(ctx, &ic, &pres, None, true, true, "unbound:no-kb:no-policy", case);
        judge(ctx, &ic, &pres, Some(&policy_aud), true, true, "unbound:no-kb:policy", case);
        let sd_hash = ctx.driver.hash(&ic.sd_alg, &pres);
        let kb = craft_kb(Some("kb+jwt"), kb_alg.clone(), &json!({"aud": aud_now(), "nonce": "n", "iat": 1, "sd_hash": sd_hash}), 1).unwrap();
        judge(ctx, &ic, &format!("{}{}", pres, kb), Some(&policy_aud), true, false, "unbound:with-kb", case);
        return;
    }

    // --- the holder cannot build from a bound SD-JWT without key binding
    let nokb = real::holder_present(&ic.token, &r, None, 1);
    ctx.report.bump(&format!("holder-no-kb:{}", nokb.class()));
    if !matches!(nokb, Out::Err(..)) {
        ctx.report.diff("property", "Holder::build", "Holder::build:bound-without-key-binding", case, json!({"real": nokb.describe(|p| json!(p))}));
    }
    // --- holder-built presentations (C09) -----------------------------------------------------
    let kbp = KbParams { aud: aud_now(), key: &kbkey, alg: kb_alg.clone() };
    let t0 = std::time::SystemTime::now().duration_since(std::time::UNIX_EPOCH).unwrap().as_secs() as i64;
    let built = real::holder_present(&ic.token, &r, Some(&kbp), 3);
    let t1 = std::time::SystemTime::now().duration_since(std::time::UNIX_EPOCH).unwrap().as_secs() as i64;
    let press = match &built {
        Out::Ok(p) => p.clone(),
        other => {
            ctx.report.diff("property", "Holder::build", &format!("Holder::build:bound:{}", out_sig(other)), case, json!({"real": other.describe(|_| Value::Null)}));
            return;
        }
    };
    let mut nonces: Vec<String> = Vec::new();
    let mut prefixes: Vec<String> = Vec::new();
    for pres in &press {
        let (_, _, kb) = split_token(pres);
        let prefix = pres[..pres.len() - kb.len()].to_string();
        prefixes.push(prefix.clone());
        let (kh, kc) = match real::peek_jwt(&kb) {
            Some(x) => x,
            None => { ctx.report.diff("property", "Holder::build", "Holder::build:kb-not-a-jwt", case, json!({"kb": kb})); continue; }
        };
        let expected_hash = ctx.driver.hash(&ic.sd_alg, &prefix);
        let nonce = kc["nonce"].as_str().unwrap_or("").to_string();
        let iat = kc["iat"].as_i64().unwrap_or(-1);
        let ok = kh["typ"] == json!("kb+jwt") && kh["alg"] == json!(kb_alg_name) && kc["aud"] == json!(aud_now())
            && kc["sd_hash"] == json!(expected_hash) && !kb.contains('~')
            // the property asks for a fresh unpredictable nonce, not for a particular length or alphabet
            && nonce.chars().count() >= 16 && iat >= t0 && iat <= t1;
        if !ok {
            ctx.report.diff("property", "Holder::build", "Holder::build:kb-content", case, json!({"header": kh, "claims": kc, "expected_sd_hash": expected_hash, "t0": t0, "t1": t1}));
        }
        // model of the holder with the harvested nonce / iat
        let m = ctx.driver.ask(&json!({"op":"flow","entry":"holder_build","token":ic.token,"jwt_ok":true,"redacted":r,
            "kb_params":{"aud":aud_now(),"alg":kb_alg_name},"nonce":nonce,"now":iat}));
        let mk = &m["ok"]["kb"];
        // the model fixes an order of the disclosures, the property does not: when only the order differs, the
        // model's sd_hash is over another string, and the real one was compared with the driver's hash above
        let exact = m["ok"]["prefix"].as_str() == Some(&prefix);
        if !exact { ctx.report.bump("presentation:disclosures-in-other-order-than-model"); }
        if m["ok"]["prefix"].as_str().map(canon_prefix) != Some(canon_prefix(&prefix)) || (exact && mk["sd_hash"] != kc["sd_hash"]) || mk["aud"] != kc["aud"] || mk["nonce"] != kc["nonce"] || mk["iat"] != kc["iat"] || mk["typ"] != kh["typ"] || mk["alg"] != kh["alg"] {
            ctx.report.diff("correspondence", "Holder::build", "Holder::build:kb-differs-from-model", case, json!({"real": {"prefix": prefix, "header": kh, "claims": kc}, "model": m}));
        }
        // the signature verifies under the bound key: through the library's decode, and through verify_kb
        let d1 = real::guard(|| sdjwt::decode(&kb, &keys::dec_key(1, 1), &policy_aud));
        let d2 = real::guard(|| sdjwt::verify_kb(&kb, &keys::holder_jwk(), &policy_aud));
        if !d1.is_ok() || !d2.is_ok() {
            ctx.report.diff("property", "Holder::build", "Holder::build:kb-signature", case, json!({"decode": d1.describe(|_| Value::Null), "verify_kb": d2.describe(|_| Value::Null)}));
        }
        let d3 = real::guard(|| sdjwt::decode(&kb, &keys::dec_key(1, 0), &policy_aud));
        if d3.is_ok() {
            ctx.report.diff("property", "Holder::build", "Holder::build:kb-verifies-under-other-key", case, json!({}));
        }
        nonces.push(nonce);
        ctx.report.bump("kb-jwts-checked");
    }
    { let mut n = nonces.clone(); n.sort(); n.dedup(); if n.len() != nonces.len() { ctx.report.diff("property", "Holder::build", "Holder::build:nonce-repeats", case, json!({"nonces": nonces})); } }
    if prefixes.iter().any(|p| canon_prefix(p) != canon_prefix(&prefixes[0])) {
        ctx.report.diff("property", "Holder::build", "Holder::build:repeat-changes-disclosures", case, json!({"prefixes": prefixes}));
    }
    if c09 {
        // accepted by the verifier, for completeness of the commitment
        judge(ctx, &ic, &press[0], Some(&policy_aud), true, true, "holder-built", case);
        return;
    }

    // --- C05: enforcement ------------------------------------------------------------------
    let pres = press[0].clone();
    let (_, pdiscs, kb) = split_token(&pres);
    let prefix = pres[..pres.len() - kb.len()].to_string();
    judge(ctx, &ic, &pres, Some(&policy_aud), true, true, "genuine:policy-aud", case);
    judge(ctx, &ic, &pres, Some(&policy_noaud), true, true, "genuine:policy-no-aud", case);
    judge(ctx, &ic, &pres, None, true, false, "genuine:no-policy", case);
    judge(ctx, &ic, &prefix, Some(&policy_aud), true, false, "kb-stripped", case);
    // expected audience differs
    judge(ctx, &ic, &pres, Some(&kb_policy("https://other.example", kb_alg.clone())), false, false, "aud-not-expected", case);
    // verifier expects another algorithm
    let other_alg = rsa_algs().iter().find(|a| keys::alg_name(a) != kb_alg_name).cloned().unwrap();
    judge(ctx, &ic, &pres, Some(&kb_policy(aud_now(), other_alg.clone())), false, false, "alg-not-expected", case);
    // edits of the disclosure list after binding
    let all_own: Vec<String> = ic.marks.iter().map(|m| ic.disc_of(m.id)).collect();
    let mut edits: Vec<(Vec<String>, &str)> = Vec::new();
    if !pdiscs.is_empty() {
        let mut l = pdiscs.clone(); l.remove(rng.below(l.len())); edits.push((l, "edit:removed"));
        if pdiscs.len() >= 2 { let mut l = pdiscs.clone(); l.swap(0, pdiscs.len() - 1); if l != pdiscs { edits.push((l, "edit:reordered")); } }
        let mut l = pdiscs.clone(); let k = rng.below(l.len()); l[k] = real::b64url_encode(b"[\"s\",\"zz\",1]"); edits.push((l, "edit:replaced"));
        let mut l = pdiscs.clone(); let d = l[0].clone(); l.push(d); edits.push((l, "edit:duplicated"));
    }
    if let Some(extra) = all_own.iter().find(|d| !pdiscs.contains(d)) {
        let mut l = pdiscs.clone(); l.insert(rng.below(l.len() + 1), extra.clone()); edits.push((l, "edit:added-withheld"));
    }
    { let mut l = pdiscs.clone(); l.push(real::b64url_encode(b"[\"s\",\"zz\",1]")); edits.push((l, "edit:added-foreign")); }
    // an EMPTY segment spliced in after binding (`jwt~~d~kb`, `jwt~d~~kb`): other bytes than the ones the hash covers
    { let mut l = pdiscs.clone(); l.insert(rng.below(l.len() + 1), String::new()); edits.push((l, "edit:empty-segment")); }
    { let mut l = pdiscs.clone(); l.push(String::new()); l.insert(0, String::new()); edits.push((l, "edit:empty-segments-at-both-ends")); }
    for (l, label) in edits {
        let p2 = format!("{}~{}{}{}", ic.jwt, l.join("~"), if l.is_empty() { "" } else { "~" }, kb);
        judge(ctx, &ic, &p2, Some(&policy_aud), true, false, label, case);
    }
    // KB-JWT taken from another presentation of the same token
    let other_r: Vec<String> = if kept_ids(&ic, &r).is_empty() { vec![] } else { ic.marks.iter().map(|m| ic.holder_path(m.id)).collect() };
    if let Out::Ok(p2) = real::holder_present(&ic.token, &other_r, Some(&kbp), 1) {
        let (_, d2, kb2) = split_token(&p2[0]);
        if d2 != pdiscs {
            judge(ctx, &ic, &format!("{}{}", prefix, kb2), Some(&policy_aud), true, false, "kb-swapped", case);
        }
    }
    // harness-crafted KB-JWTs with exactly one defect each
    let good_hash = ctx.driver.hash(&ic.sd_alg, &prefix);
    let other_sd_alg = if ic.sd_alg == "sha-256" { "sha-512" } else { "sha-256" };
    let good = json!({"aud": aud_now(), "nonce": "0123456789abcdef0123456789abcdef", "iat": t0, "sd_hash": good_hash});
    let with = |k: &str, v: Value| { let mut c = good.clone(); c[k] = v; c };
    let without = |k: &str| { let mut c = good.clone(); c.as_object_mut().unwrap().remove(k); c };
    let crafted: Vec<(Option<String>, &str, bool, bool)> = vec![
        (craft_kb(Some("kb+jwt"), kb_alg.clone(), &good, 1), "crafted:no-defect", true, true),
        (craft_kb(Some("kb+jwt"), kb_alg.clone(), &good, 0), "crafted:other-key", false, false),
        (craft_kb(Some("kb+jwt"), other_alg.clone(), &good, 1), "crafted:other-alg", false, false),
        (craft_kb(Some("JWT"), kb_alg.clone(), &good, 1), "crafted:typ-jwt", true, false),
        (craft_kb(None, kb_alg.clone(), &good, 1), "crafted:typ-missing", true, false),
        (craft_kb(Some("KB+JWT"), kb_alg.clone(), &good, 1), "crafted:typ-case", true, false),
        (craft_kb(Some("kb+jwt"), kb_alg.clone(), &with("sd_hash", json!(ctx.driver.hash(&ic.sd_alg, &ic.token))), 1), "crafted:sd_hash-over-issuer-token", true, ic.token == prefix),
        (craft_kb(Some("kb+jwt"), kb_alg.clone(), &with("sd_hash", json!(ctx.driver.hash(&ic.sd_alg, prefix.trim_end_matches('~')))), 1), "crafted:sd_hash-without-last-tilde", true, false),
        (craft_kb(Some("kb+jwt"), kb_alg.clone(), &with("sd_hash", json!(ctx.driver.hash(&ic.sd_alg, &ic.jwt))), 1), "crafted:sd_hash-over-jwt-only", true, false),
        (craft_kb(Some("kb+jwt"), kb_alg.clone(), &with("sd_hash", json!(ctx.driver.hash(other_sd_alg, &prefix))), 1), "crafted:sd_hash-other-hash-alg", true, false),
        (craft_kb(Some("kb+jwt"), kb_alg.clone(), &without("sd_hash"), 1), "crafted:sd_hash-missing", true, false),
        (craft_kb(Some("kb+jwt"), kb_alg.clone(), &with("sd_hash", json!(5)), 1), "crafted:sd_hash-non-string", true, false),
        (craft_kb(Some("kb+jwt"), kb_alg.clone(), &with("sd_hash", json!([good_hash])), 1), "crafted:sd_hash-array", true, false),
        // the right hash, but not all of it / more than it (a comparison that stops at the shorter string)
        (craft_kb(Some("kb+jwt"), kb_alg.clone(), &with("sd_hash", json!("")), 1), "crafted:sd_hash-empty", true, false),
        (craft_kb(Some("kb+jwt"), kb_alg.clone(), &with("sd_hash", json!(good_hash[..good_hash.len() / 2].to_string())), 1), "crafted:sd_hash-truncated", true, false),
        (craft_kb(Some("kb+jwt"), kb_alg.clone(), &with("sd_hash", json!(good_hash[..good_hash.len() - 1].to_string())), 1), "crafted:sd_hash-one-short", true, false),
        (craft_kb(Some("kb+jwt"), kb_alg.clone(), &with("sd_hash", json!(format!("{}=", good_hash))), 1), "crafted:sd_hash-extended", true, false),
        (craft_kb(Some("kb+jwt"), kb_alg.clone(), &with("sd_hash", json!(format!("{}{}", good_hash, good_hash))), 1), "crafted:sd_hash-doubled", true, false),
        (craft_kb(Some("kb+jwt"), kb_alg.clone(), &with("sd_hash", json!(good_hash.to_uppercase())), 1), "crafted:sd_hash-case-folded", true, good_hash.to_uppercase() == good_hash),
        (craft_kb(Some("kb+jwt"), kb_alg.clone(), &with("aud", json!("https://other.example")), 1), "crafted:aud-other", false, false),
        (craft_kb(Some("kb+jwt"), kb_alg.clone(), &without("aud"), 1), "crafted:aud-missing", false, false),
        // `aud` as an array: it carries the expected audience iff that is one of its entries
        (craft_kb(Some("kb+jwt"), kb_alg.clone(), &with("aud", json!([])), 1), "crafted:aud-empty-array", false, false),
        (craft_kb(Some("kb+jwt"), kb_alg.clone(), &with("aud", json!(["https://other.example"])), 1), "crafted:aud-array-other", false, false),
        (craft_kb(Some("kb+jwt"), kb_alg.clone(), &with("aud", json!([aud_now()])), 1), "crafted:aud-array-expected", true, true),
        (craft_kb(Some("kb+jwt"), kb_alg.clone(), &with("aud", json!(["https://other.example", aud_now()])), 1), "crafted:aud-array-containing-expected", true, true),
    ];
    for (kbj, label, kb_ok, accept) in crafted {
        if let Some(k) = kbj {
            judge(ctx, &ic, &format!("{}{}", prefix, k), Some(&policy_aud), kb_ok, accept, label, case);
        }
    }
    // a `cnf` with two candidates: the bound key's own members (what the issuer bound) and a `jwk` member that
    // holds ANOTHER key. The bound key is the one the token is bound to: a KB-JWT of the holder verifies, one
    // signed with the other key does not.
    {
        let mut payload2 = ic.payload.clone();
        let mut cnf2 = keys::holder_jwk();
        cnf2["jwk"] = serde_json::from_str(keys::RSA_A_JWK).unwrap_or(Value::Null);
        payload2["cnf"] = cnf2;
        let mut header = Header::new(ic.alg.clone());
        header.typ = Some("sd-jwt".to_string());
        if let Out::Ok(jwt2) = real::sign(&header, &payload2, &keys::enc_key(keys::family(&ic.alg), 0)) {
            let prefix2 = format!("{}~{}{}", jwt2, pdiscs.join("~"), if pdiscs.is_empty() { "" } else { "~" });
            let mut claims2 = good.clone();
            claims2["sd_hash"] = json!(ctx.driver.hash(&ic.sd_alg, &prefix2));
            if let Some(k) = craft_kb(Some("kb+jwt"), kb_alg.clone(), &claims2, 1) {
                judge(ctx, &ic, &format!("{}{}", prefix2, k), Some(&policy_aud), true, true, "cnf-with-second-candidate:bound-key", case);
            }
            if let Some(k) = craft_kb(Some("kb+jwt"), kb_alg.clone(), &claims2, 0) {
                judge(ctx, &ic, &format!("{}{}", prefix2, k), Some(&policy_aud), false, false, "cnf-with-second-candidate:other-key", case);
            }
        }
    }
    // a `cnf` in another form than the bare JWK (RFC 7800's `{"jwk": ..}`, a key id, a thumbprint, an empty object):
    // whichever way a verifier reads it - a key named another way, or a confirmation it cannot use - the token is not
    // an unbound one: a presentation WITHOUT a key-binding JWT is rejected
    for (label, cnf3) in [("cnf-wrapped-jwk", json!({"jwk": keys::holder_jwk()})), ("cnf-kid-only", json!({"kid": "holder-key-1"})), ("cnf-empty-object", json!({})), ("cnf-jkt", json!({"jkt": "NzbLsXh8uDCcd-6MNwXF4W_7noWXFZAfHkxZsRGC9Xs"}))] {
        let mut payload3 = ic.payload.clone();
        payload3["cnf"] = cnf3;
        let mut header = Header::new(ic.alg.clone());
        header.typ = Some("sd-jwt".to_string());
        if let Out::Ok(jwt3) = real::sign(&header, &payload3, &keys::enc_key(keys::family(&ic.alg), 0)) {
            let prefix3 = format!("{}~{}{}", jwt3, pdiscs.join("~"), if pdiscs.is_empty() { "" } else { "~" });
            judge(ctx, &ic, &prefix3, Some(&policy_aud), false, false, &format!("{}:no-kb", label), case);
            judge(ctx, &ic, &prefix3, None, false, false, &format!("{}:no-kb:no-policy", label), case);
        }
    }
    // with a policy that configures no audience, a KB-JWT for any audience is acceptable
    if let Some(k) = craft_kb(Some("kb+jwt"), kb_alg.clone(), &with("aud", json!("https://other.example")), 1) {
        judge(ctx, &ic, &format!("{}{}", prefix, k), Some(&policy_noaud), true, true, "crafted:aud-other:policy-no-aud", case);
    }
}

pub fn run(ctx: &mut Ctx, replay: Option<&Value>, c09: bool) {
    ctx.report.rule = if c09 {
        "bound tokens (own issuer, and reference issuer with sha-256/384/512) x redaction lists x RS/PS 256/384/512 x 3 build() calls per holder: KB-JWT header/claims decoded by the harness, sd_hash recomputed by the Lean driver over P[..=last '~'], signature checked through decode and through verify_kb and refused under another key, iat within the call window, nonces 32 alphanumerics and pairwise distinct, disclosure part identical across builds; holder model fed the harvested nonce/iat; non-trivial = distinct (tree, redaction list, algorithm)".to_string()
    } else {
        "bound (85%) and unbound tokens, own and reference-issued; per bound token: holder refuses to build without key binding; genuine presentation x policies (aud / no aud / none / other aud / other alg); KB stripped / swapped; every edit of the disclosure list after binding (remove, reorder, replace, duplicate, add withheld, add foreign, splice in empty segments); 22 harness-crafted KB-JWTs with exactly one defect each (other key, other alg, typ, sd_hash over other strings / other hash alg / missing / non-string / empty / truncated / extended / case-folded, aud); accept iff no defect; non-trivial = distinct (tree, redaction list, algorithm)".to_string()
    };
    if let Some(case) = replay {
        run_case(ctx, case, c09);
        return;
    }
    let n = ctx.count(300, 4_000);
    for i in 0..n {
        let mut rng = Rng::fork(ctx.seed, i);
        let kb_pct = if c09 { 100 } else { 85 };
        let mut case = if i % 3 == 2 { gen_ref_case(&mut rng, false, kb_pct) } else { gen_own_case(&mut rng, false, i, false, kb_pct) };
        // one token in five is signed by the issuer with an RSA algorithm - the family key-binding JWTs are signed
        // in: a verifier that falls back on the ISSUER's policy for the key binding must not get away with it
        if i % 5 == 1 { case["alg"] = json!(keys::alg_name(&rsa_algs()[(i / 5) as usize % 6])); }
        run_case(ctx, &case, c09);
    }
}
