//! C13 — salts, digests and decoys give no handle for linking or counting claims (runtime part).
use crate::keys;
use crate::real::{self, Out};
use crate::Ctx;
use sdjwt::{Algorithm, Header, Issuer};
use serde_json::{json, Value};
use sha2::{Digest, Sha256};
use std::collections::HashSet;

fn digest_of(disclosure: &str) -> String {
    real::b64url_encode(&Sha256::digest(disclosure.as_bytes()))
}

fn document() -> Value {
    json!({
        "a": "same", "b": "same", "c": "same", "d": "same", "keep": 1,
        "addr": {"w": "same", "x": "same", "y": "same", "z": "same", "keep": 2,
                 "deep": {"p": 1, "q": 2, "r": 3, "s": 4}},
        "list": ["same", "same", {"k1": 1, "k2": 2, "k3": 3, "k4": 4}, {"m1": 1, "m2": 2, "m3": 3, "m4": 4}],
        "addr2": {"geo": {"a": 1, "b": 2, "c": 3, "d": 4}, "keep": 3},
        "degrees": [{"t": 1, "u": 2, "y": 3, "g": 4}]
    })
}

const PATHS: &[&str] = &[
    "/a", "/b", "/c", "/d",
    "/addr/deep/p", "/addr/deep/q", "/addr/deep/r", "/addr/deep/s",
    "/addr/w", "/addr/x", "/addr/y", "/addr/z",
    "/list/2/k1", "/list/2/k2", "/list/2/k3", "/list/2/k4",
    "/list/3/m1", "/list/3/m2", "/list/3/m3", "/list/3/m4",
    "/addr2/geo/a", "/addr2/geo/b", "/addr2/geo/c", "/addr2/geo/d",
    "/degrees/0/t", "/degrees/0/u", "/degrees/0/y", "/degrees/0/g",
    "/list/0", "/list/1",
    "/list/3",        // a disclosed ARRAY ELEMENT whose value contains a 4-digest list
    "/addr/deep",     // a disclosed member value that itself contains a 4-digest list
    "/addr2",         // a disclosed value with a 4-digest list inside a sub-object that is NOT itself disclosable
    "/degrees",       // a disclosed array with a 4-digest list inside one of its elements
];

fn collect_sd_lists(v: &Value, path: &str, out: &mut Vec<(String, Vec<String>)>) {
    match v {
        Value::Object(m) => {
            if let Some(Value::Array(a)) = m.get("_sd") {
                out.push((path.to_string(), a.iter().filter_map(|x| x.as_str().map(|s| s.to_string())).collect()));
            }
            for (k, x) in m { if k != "_sd" { collect_sd_lists(x, &format!("{}/{}", path, k), out); } }
        }
        Value::Array(a) => { for (i, x) in a.iter().enumerate() { collect_sd_lists(x, &format!("{}/{}", path, i), out); } }
        _ => {}
    }
}

/// digests standing in array placeholders `{"...": d}`, at any depth
fn collect_placeholders(v: &Value, out: &mut Vec<String>) {
    match v {
        Value::Object(m) => { for x in m.values() { collect_placeholders(x, out); } }
        Value::Array(a) => {
            for x in a {
                match x.as_object().filter(|o| o.len() == 1).and_then(|o| o.get("...")).and_then(|d| d.as_str()) {
                    Some(d) => out.push(d.to_string()),
                    None => collect_placeholders(x, out),
                }
            }
        }
        _ => {}
    }
}

pub fn run(ctx: &mut Ctx, _replay: Option<&Value>) {
    ctx.report.rule = "long histories of Issuer::encode on a fixed document with equal sibling values (34 disclosable paths incl. lists inside non-disclosable sub-containers of disclosed values, nested lists of 4 below objects and below array elements, and a disclosed member value and a disclosed array element each containing a list of 4), decoy maximum cycling through 1..50, every 8th issuance reusing the same Issuer object three times and every other 8th issuing from two clones of one prepared Issuer object: every salt decodes to >= 16 bytes; salts, disclosure digests and decoys pairwise distinct over the whole history; decoys never equal a real digest, 43 base64url characters like real digests, count in [1,max]; per digest list, the order over >= 200 issuances is not constantly the marking order, and every claim of a list of four stands at every place at least once; quick >= 4*10^5 decoys and >= 5*10^4 disclosures, thorough >= 6*10^6 and >= 10^6; non-trivial = every issuance (distinct by its fresh salts)".to_string();
    let (want_decoys, want_discs) = if ctx.tier_thorough { (6_000_000usize, 1_000_000usize) } else { (400_000usize, 50_000usize) };
    let scale = ctx.cases.map(|c| c as usize);
    let enc = keys::enc_key(0, 0);
    let doc = document();
    let mut salts: HashSet<Vec<u8>> = HashSet::new();
    let mut digests: HashSet<String> = HashSet::new();
    let mut decoys: HashSet<String> = HashSet::new();
    let (mut n_decoys, mut n_discs, mut issuances) = (0usize, 0usize, 0usize);
    // per `_sd` list (keyed by its location): how often it was in marking order
    let mut order_stats: std::collections::BTreeMap<String, (usize, usize)> = Default::default();
    // per list of exactly four real digests: how often the claim hidden r-th stood at place p (among the real ones)
    let mut place_stats: std::collections::BTreeMap<String, [[usize; 4]; 4]> = Default::default();
    let mut i = 0usize;
    let case = json!({"kind":"history"});
    loop {
        if let Some(s) = scale { if issuances >= s { break; } } else if n_decoys >= want_decoys && n_discs >= want_discs && issuances >= 400 { break; }
        let max = (i % 50) as i32 + 1;
        i += 1;
        let repeats = if i % 8 == 0 { 3 } else { 1 };
        let out = real::guard(|| {
            let mut issuer = Issuer::new(doc.clone())?;
            // every 4th issuance marks only nested members / array elements (no top-level `_sd` of its own)
            if i % 4 == 3 { for p in &PATHS[4..31] { issuer.disclosable(p); } } else { for p in PATHS { issuer.disclosable(p); } }
            issuer.decoy(max);
            let mut h = Header::new(Algorithm::HS256);
            h.typ = Some("sd-jwt".into());
            issuer.header(h);
            let mut v = Vec::new();
            // every 8th issuance issues twice from CLONES of one prepared issuer object (a clone must not
            // carry randomness along), another 8th three times from the same object
            if i % 8 == 4 { v.push(issuer.clone().encode(&enc)?); v.push(issuer.clone().encode(&enc)?); }
            else { for _ in 0..repeats { v.push(issuer.encode(&enc)?); } }
            Ok(v)
        });
        let toks = match out {
            Out::Ok(t) => t,
            other => { ctx.report.diff("property", "Issuer::encode", &format!("Issuer::encode:{}", other.class()), &case, json!({"real": other.describe(|_| Value::Null)})); return; }
        };
        for tok in toks {
            issuances += 1;
            ctx.report.evaluations += 1;
            // every issuance is a distinct case as soon as its disclosures are (fresh salts)
            ctx.report.nontrivial.insert(crate::report::hash_of(&json!(tok)));
            let parts: Vec<&str> = tok.split('~').collect();
            let discs = &parts[1..parts.len() - 1];
            let payload = real::peek_jwt(parts[0]).map(|x| x.1).unwrap_or(Value::Null);
            let mut own: Vec<String> = Vec::new();
            let mut inner_lists: Vec<(String, Vec<String>)> = Vec::new();
            let mut placeholders: Vec<String> = Vec::new();
            for (di, d) in discs.iter().enumerate() {
                n_discs += 1;
                let dec = real::b64url_decode(d).and_then(|b| serde_json::from_slice::<Value>(&b).ok());
                let salt = dec.as_ref().and_then(|a| a[0].as_str().map(|s| s.to_string())).and_then(|s| real::b64url_decode(&s));
                match salt {
                    Some(s) => {
                        if s.len() < 16 { ctx.report.diff("property", "Issuer::encode", "salt:shorter-than-128-bits", &case, json!({"disclosure": d, "salt_bytes": s.len()})); }
                        if !salts.insert(s) { ctx.report.diff("property", "Issuer::encode", "salt:repeats", &case, json!({"disclosure": d, "issuance": issuances})); }
                    }
                    None => ctx.report.diff("property", "Issuer::encode", "salt:not-base64url-string", &case, json!({"disclosure": d})),
                }
                let dg = digest_of(d);
                if !digests.insert(dg.clone()) { ctx.report.diff("property", "Issuer::encode", "digest:repeats", &case, json!({"digest": dg, "issuance": issuances})); }
                own.push(dg);
                // `_sd` lists inside disclosed values
                if let Some(a) = dec.as_ref().and_then(|a| a.as_array()) {
                    let name = if discs.len() == PATHS.len() { PATHS[di] } else { PATHS[4 + di] };
                    collect_sd_lists(a.last().unwrap(), &format!("disc:{}", name), &mut inner_lists);
                    collect_placeholders(a.last().unwrap(), &mut placeholders);
                }
            }
            let mut lists = Vec::new();
            collect_sd_lists(&payload, "", &mut lists);
            lists.extend(inner_lists);
            // decoys: the digests that belong to no disclosure, wherever they stand (any `_sd` list or array
            // placeholder of the payload or of a disclosed value)
            collect_placeholders(&payload, &mut placeholders);
            let everywhere: Vec<String> = lists.iter().flat_map(|l| l.1.iter().cloned()).chain(placeholders.into_iter()).collect();
            let drawn: Vec<&String> = everywhere.iter().filter(|d| !own.contains(d)).collect();
            if lists.iter().any(|l| !l.0.is_empty() && l.1.iter().any(|d| !own.contains(d))) { ctx.report.bump("issuances-with-decoys-outside-top-level-sd"); }
            if drawn.is_empty() || drawn.len() as i32 > max {
                ctx.report.diff("property", "Issuer::encode", "decoy:count-out-of-range", &case, json!({"max": max, "drawn": drawn.len()}));
            }
            for d in drawn {
                n_decoys += 1;
                if d.len() != 43 || !d.bytes().all(|b| b.is_ascii_alphanumeric() || b == b'-' || b == b'_') {
                    ctx.report.diff("property", "Issuer::encode", "decoy:form-differs-from-digest", &case, json!({"decoy": d}));
                }
                if digests.contains(d) { ctx.report.diff("property", "Issuer::encode", "decoy:equals-real-digest", &case, json!({"decoy": d})); }
                if !decoys.insert(d.clone()) { ctx.report.diff("property", "Issuer::encode", "decoy:repeats", &case, json!({"decoy": d, "after_decoys": n_decoys, "issuance": issuances})); }
            }
            // order of every list against the marking order of the claims it hides
            for (loc, l) in &lists {
                let real_only: Vec<&String> = l.iter().filter(|d| own.contains(d)).collect();
                if real_only.len() < 4 { continue; }
                let positions: Vec<usize> = real_only.iter().map(|d| own.iter().position(|o| &o == d).unwrap()).collect();
                let in_order = positions.windows(2).all(|w| w[0] < w[1]);
                let e = order_stats.entry(loc.clone()).or_insert((0, 0));
                e.0 += 1;
                if in_order { e.1 += 1; }
                if positions.len() == 4 {
                    let mut sorted = positions.clone();
                    sorted.sort();
                    let m = place_stats.entry(loc.clone()).or_insert([[0; 4]; 4]);
                    for (place, pos) in positions.iter().enumerate() {
                        let rank = sorted.iter().position(|x| x == pos).unwrap();
                        m[rank][place] += 1;
                    }
                }
            }
        }
    }
    for (loc, (n, in_order)) in &order_stats {
        ctx.report.bump_by(&format!("list{}:issuances", if loc.is_empty() { "/(top)" } else { loc }), *n as u64);
        ctx.report.bump_by(&format!("list{}:in-marking-order", if loc.is_empty() { "/(top)" } else { loc }), *in_order as u64);
        if *n >= 200 && in_order == n {
            ctx.report.diff("property", "Issuer::encode", &format!("sd-order:always-marking-order:{}", loc), &case, json!({"issuances": n}));
        }
    }
    // an order that is independent of the marking order puts every claim at every place now and then: over 200
    // issuances a uniformly shuffled list of four leaves a given (claim, place) pair out with probability
    // (3/4)^200 < 10^-24 - a shuffle that can only produce some of the orders (cyclic ones, say) leaves some out always
    for (loc, m) in &place_stats {
        let n: usize = m[0].iter().sum();
        if n < 200 { continue; }
        for rank in 0..4 { for place in 0..4 {
            if m[rank][place] == 0 {
                ctx.report.diff("property", "Issuer::encode", &format!("sd-order:claim-never-at-place:{}", loc), &case, json!({"issuances": n, "claim_hidden_as_number": rank, "place": place, "counts": m}));
            }
        } }
    }
    if order_stats.len() < 7 {
        ctx.report.diff("internal", "C13", "expected-seven-digest-lists", &case, json!({"lists": order_stats.keys().collect::<Vec<_>>()}));
    }
    ctx.report.bump_by("decoys", n_decoys as u64);
    ctx.report.bump_by("disclosures", n_discs as u64);
    ctx.report.bump_by("issuances", issuances as u64);

    ctx.report.sample(json!({"document": doc, "paths": PATHS, "decoys_seen": n_decoys, "disclosures_seen": n_discs, "issuances": issuances}));
    // cross-check the harness's SHA-256 against the Lean driver's on a sample
    let probe = "WyJzYWx0IiwiayIsMV0";
    if ctx.driver.hash("sha-256", probe) != digest_of(probe) {
        ctx.report.diff("internal", "C13", "sha256-mismatch-harness-vs-driver", &case, json!({}));
    }
}
