//! C03 — the verifier never returns what the issuer did not sign, whatever the holder sends.
use super::c02::projects;
use super::common::*;
use super::flowkit::*;
use crate::keys;
use crate::prng::Rng;
use crate::real::{self, Out};
use crate::Ctx;
use serde_json::{json, Value};

fn b64(s: &str) -> String {
    real::b64url_encode(s.as_bytes())
}

/// one adversarial list over own / foreign / damaged strings
fn gen_list(rng: &mut Rng, own: &[String], foreign: &[String]) -> (Vec<String>, &'static str) {
    let pct = *rng.pick(&[30u32, 60, 100]);
    let mut l: Vec<String> = Vec::new();
    for d in own {
        if rng.chance(pct, 100) {
            l.push(d.clone());
        }
    }
    rng.shuffle(&mut l);
    let kind = rng.below(11);
    let label = match kind {
        0 => "subset-permutation",
        1 => { if !l.is_empty() { let k = rng.below(l.len()); let d = l[k].clone(); let at = rng.below(l.len() + 1); l.insert(at, d); } "duplicate" }
        2 => { for f in foreign.iter() { if rng.chance(1, 2) { let at = rng.below(l.len() + 1); l.insert(at, f.clone()); } } "foreign" }
        3 => { if !l.is_empty() { let k = rng.below(l.len()); let mut b = l[k].clone().into_bytes(); if !b.is_empty() { let p = rng.below(b.len()); b[p] = if b[p] == b'Q' { b'R' } else { b'Q' }; } l[k] = String::from_utf8(b).unwrap(); } "flipped-char" }
        4 => { if !l.is_empty() { let k = rng.below(l.len()); let n = l[k].len(); l[k].truncate(rng.below(n.max(1))); } "truncated" }
        5 => { if !l.is_empty() { let k = rng.below(l.len()); let ch = *rng.pick(&['=', '!', ' ', '+', '/']); l[k].push(ch); } "non-alphabet" }
        6 => {
            let junk = [b64("{}"), b64("\"x\""), b64("[]"), b64("[1]"), b64("[1,2,3,4]"), b64("[\"s\",5,1]"), b64("[\"s\",\"_sd\",1]"), b64("[\"s\",\"...\",1]"),
                        b64("not json"), real::b64url_encode(&[0xff, 0xfe]), b64("[\"s\",\"new\",1]"), b64("[\"s\",1]")];
            let at = rng.below(l.len() + 1);
            l.insert(at, rng.pick(&junk).clone());
            "junk-string"
        }
        7 => { let at = rng.below(l.len() + 1); l.insert(at, String::new()); "empty-segment" }
        8 => { l = own.to_vec(); rng.shuffle(&mut l); "all-permuted" }
        9 => {
            // an own disclosure re-spelled in the standard base64 alphabet ('-' as '+', '_' as '/'): another string
            let cands: Vec<String> = own.iter().filter(|d| d.contains('-') || d.contains('_')).cloned().collect();
            if !cands.is_empty() {
                let d = rng.pick(&cands).clone();
                l.retain(|x| x != &d);
                let at = rng.below(l.len() + 1);
                l.insert(at, d.replace('-', "+").replace('_', "/"));
            }
            "respelled-alphabet"
        }
        _ => { l.clear(); for d in own { if rng.chance(1, 2) { l.push(d.clone()); } } "subset-in-order" }
    };
    (l, label)
}

pub fn run_case(ctx: &mut Ctx, case: &Value) {
    crate::real::set_current(case);
    ctx.report.evaluations += 1;
    let ic = match issue_any(ctx, case) {
        Some(ic) => ic,
        None => return,
    };
    // a second token over the same tree: its disclosures are foreign to the first (fresh salts)
    let foreign: Vec<String> = if ic.reference {
        vec![b64("[\"foreign-salt\",\"zz\",1]"), b64("[\"foreign-salt\",1]")]
    } else {
        match issue_own(ctx, case, "") {
            Some(ic2) => ic2.discs.clone(),
            None => vec![],
        }
    };
    let own: Vec<String> = ic.marks.iter().map(|m| ic.disc_of(m.id)).collect();
    let mut rng = Rng::fork(ctx.seed ^ 0xC03, crate::report::hash_of(&case["tree"]));
    let lists: Vec<(Vec<String>, String)> = match case.get("lists").and_then(|r| r.as_array()) {
        Some(a) => a.iter().map(|s| (s.as_array().cloned().unwrap_or_default().iter().filter_map(|x| x.as_str().map(|y| y.to_string())).collect(), "replay".to_string())).collect(),
        None => (0..6).map(|_| { let (l, k) = gen_list(&mut rng, &own, &foreign); (l, k.to_string()) }).collect(),
    };
    let dec = keys::dec_key(keys::family(&ic.alg), 0);
    let validation = ic.validation();
    if is_nontrivial(&ic.marks) {
        ctx.report.nontrivial_case(&json!([case["tree"], lists.iter().map(|l| l.0.clone()).collect::<Vec<_>>()]));
    }
    for (l, label) in &lists {
        ctx.report.bump(&format!("list:{}", label));
        let mut c2 = case.clone();
        c2["lists"] = json!([l]);
        real::set_current(&c2);
        // which own disclosures are presented, and which of those have all enclosing ones presented
        let present: Vec<usize> = ic.marks.iter().filter(|m| l.contains(&ic.disc_of(m.id))).map(|m| m.id).collect();
        let closure: Vec<usize> = ic.marks.iter().filter(|m| present.contains(&m.id) && m.ancestors.iter().all(|a| present.contains(a))).map(|m| m.id).collect();
        let clean = l.iter().all(|d| own.contains(d)) && { let mut s = l.clone(); s.sort(); s.dedup(); s.len() == l.len() };
        let ancestor_closed = clean && closure.len() == present.len();
        let token = format!("{}~{}{}", ic.jwt, l.join("~"), if l.is_empty() { "" } else { "~" });
        if ic.kb {
            continue;
        }
        let vv = real::verifier_verify(&token, &dec, &validation, None);
        ctx.report.bump(&format!("verifier:{}", vv.class()));
        let exp = projects(ctx, &ic, &[closure.clone()]);
        let expected = &exp[0];
        let real_out = vv.clone().map(|(_, c)| (c, None));
        let cmp = Compare { prop: "C03", entry: "Verifier::verify", case: &c2 };
        if ancestor_closed {
            // completeness: must be accepted and reveal exactly these claims, in any order of the list
            ctx.report.bump("list:clean-ancestor-closed");
            compare_restoration(ctx, &cmp, &ic.sd_alg, &ic.payload, l, &real_out, Some(expected), None, true);
        } else {
            // soundness: error, or the original with some disclosable claims absent
            compare_restoration(ctx, &cmp, &ic.sd_alg, &ic.payload, l, &real_out, None, None, false);
            match &vv {
                Out::Ok((_, c)) => {
                    if c != expected {
                        // weaker set condition: project(S) for some S ⊆ closure
                        let mut ok = false;
                        if closure.len() <= 10 {
                            let mut subsets: Vec<Vec<usize>> = Vec::new();
                            for mask in 0..(1usize << closure.len()) {
                                subsets.push(closure.iter().enumerate().filter(|(i, _)| mask >> i & 1 == 1).map(|(_, id)| *id).collect());
                            }
                            let all = projects(ctx, &ic, &subsets);
                            ok = all.iter().any(|p| p == c);
                        }
                        ctx.report.diff(if ok { "correspondence" } else { "property" }, "Verifier::verify",
                            if ok { "Verifier::verify:reveals-less-than-model" } else { "Verifier::verify:returns-unsigned-content" }, &c2,
                            json!({"real": c, "predicted": expected, "list_kind": label}));
                    }
                }
                Out::Panic(site) => {
                    ctx.report.diff("property", "Verifier::verify", &format!("Verifier::verify:panic:{}", site.split(' ').next().unwrap_or("")), &c2, json!({"panic": site}));
                }
                Out::Err(..) => {}
            }
        }
    }
    if case.get("lists").is_none() { redeclared_alg(ctx, &ic, case); }
}

/// the same signed claims under another declared digest algorithm: every digest is then a digest of nothing the
/// holder has, and the token's own disclosures must reveal nothing - also right after the original token was
/// verified with them (nothing learnt about a string under one algorithm holds under another)
fn redeclared_alg(ctx: &mut Ctx, ic: &IssuedCase, case: &Value) {
    if ic.reference || ic.kb || ic.marks.is_empty() { return; }
    let other = if ic.sd_alg == "sha-512" { "sha-384" } else { "sha-512" };
    let mut payload2 = ic.payload.clone();
    payload2["_sd_alg"] = json!(other);
    let mut header = sdjwt::Header::new(ic.alg.clone());
    header.typ = Some("sd-jwt".to_string());
    let jwt2 = match real::sign(&header, &payload2, &keys::enc_key(keys::family(&ic.alg), 0)) { Out::Ok(j) => j, _ => return };
    let own: Vec<String> = ic.marks.iter().map(|m| ic.disc_of(m.id)).collect();
    let dec = keys::dec_key(keys::family(&ic.alg), 0);
    let validation = ic.validation();
    let _warm = real::verifier_verify(&format!("{}~{}~", ic.jwt, own.join("~")), &dec, &validation, None);
    let vv = real::verifier_verify(&format!("{}~{}~", jwt2, own.join("~")), &dec, &validation, None);
    ctx.report.bump(&format!("redeclared-alg:{}", vv.class()));
    let mut c2 = case.clone();
    c2["redeclared_alg"] = json!(other);
    let nothing = projects(ctx, ic, &[vec![]]);
    let real_out = vv.clone().map(|(_, c)| (c, None));
    let cmp = Compare { prop: "C03", entry: "Verifier::verify", case: &c2 };
    compare_restoration(ctx, &cmp, other, &payload2, &own, &real_out, None, None, false);
    match &vv {
        Out::Ok((_, c)) if c != &nothing[0] => ctx.report.diff("property", "Verifier::verify", "Verifier::verify:reveals-under-redeclared-digest-algorithm", &c2, json!({"real": c, "expected": nothing[0]})),
        Out::Panic(site) => ctx.report.diff("property", "Verifier::verify", &format!("Verifier::verify:panic:{}", site.split(' ').next().unwrap_or("")), &c2, json!({"panic": site})),
        _ => {}
    }
}

/// A validly signed payload that is NOT conformant: an array element that carries a member named `...` next to
/// a claim signed in the clear (a new element, or an existing placeholder given such a sibling). The
/// specification wants it rejected (C12); C03 says what must hold if it is not: whatever the verifier returns,
/// it is the signed claims with some *disclosable* claims absent - the claim signed in the clear is still there.
pub fn clear_claims_survive(ctx: &mut Ctx, case: &Value) {
    crate::real::set_current(case);
    ctx.report.evaluations += 1;
    let ic = match issue_ref(ctx, case) { Some(ic) => ic, None => return };
    let mut rng = Rng::fork(ctx.seed ^ 0xC1EA, crate::report::hash_of(&case["tree"]));
    let mut payload = ic.payload.clone();
    let (mut objs, mut arrs) = (Vec::new(), Vec::new());
    super::c12::collect_sites(&payload, &mut Vec::new(), &mut objs, &mut arrs);
    if arrs.is_empty() { ctx.report.bump("clear-survive:no-array"); return; }
    let site = arrs[rng.below(arrs.len())].clone();
    let sentinel = format!("CLEAR*{}*", rng.next() % 100_000);
    {
        let a = super::c12::at_mut(&mut payload, &site).as_array_mut().unwrap();
        let existing = a.iter().position(|x| x.get("...").is_some());
        match existing {
            Some(k) if rng.chance(1, 3) => { a[k]["title"] = json!(sentinel); }
            // an element whose only member is `...` with a value that is no digest string: a claim like any other
            _ if rng.chance(1, 2) => { let at = rng.below(a.len() + 1); a.insert(at, json!({"...": [sentinel]})); }
            _ => { let at = rng.below(a.len() + 1); a.insert(at, json!({"...": "to be continued", "title": sentinel})); }
        }
    }
    let mut header = sdjwt::Header::new(ic.alg.clone());
    header.typ = Some("sd-jwt".to_string());
    let jwt = match real::sign(&header, &payload, &keys::enc_key(keys::family(&ic.alg), 0)) { Out::Ok(j) => j, _ => return };
    let dec = keys::dec_key(keys::family(&ic.alg), 0);
    let validation = ic.validation();
    let own: Vec<String> = ic.marks.iter().map(|m| ic.disc_of(m.id)).collect();
    for l in [own.clone(), vec![]] {
        let token = format!("{}~{}{}", jwt, l.join("~"), if l.is_empty() { "" } else { "~" });
        let vv = real::verifier_verify(&token, &dec, &validation, None);
        ctx.report.bump(&format!("clear-survive:{}", vv.class()));
        let mut c2 = case.clone();
        c2["stream"] = json!("clear-survive");
        c2["lists"] = json!([l]);
        let real_out = vv.clone().map(|(_, c)| (c, None));
        let cmp = Compare { prop: "C03", entry: "Verifier::verify", case: &c2 };
        compare_restoration(ctx, &cmp, &ic.sd_alg, &payload, &l, &real_out, None, None, false);
        match &vv {
            Out::Ok((_, c)) => {
                if !serde_json::to_string(c).unwrap_or_default().contains(&sentinel) {
                    ctx.report.diff("property", "Verifier::verify", "Verifier::verify:claim-signed-in-the-clear-is-missing", &c2, json!({"real": c, "signed_payload": payload, "missing": sentinel}));
                }
            }
            Out::Panic(site) => ctx.report.diff("property", "Verifier::verify", &format!("Verifier::verify:panic:{}", site.split(' ').next().unwrap_or("")), &c2, json!({"panic": site})),
            Out::Err(..) => {}
        }
    }
}

pub fn run(ctx: &mut Ctx, replay: Option<&Value>) {
    ctx.report.rule = "own-issued (75%) and reference-issued (25%) unbound tokens; per token 6 presented lists drawn from: subsets, permutations, duplicates, disclosures of a second issuance of the same claims (foreign), one flipped / truncated / non-alphabet character, well-formed base64 of non-JSON / non-array / wrong arity / non-string or reserved name, empty segments; plus validly signed NON-conformant payloads (an array element with a `...` member next to a claim signed in the clear): if accepted, that claim must still be there; Verifier::verify on harness-assembled jwt~L~; oracle: Err or project(S) with S within the ancestor-closed part of L (exactly that for clean ancestor-closed lists); non-trivial = distinct (tree, lists) with a nested or positional mark".to_string();
    if let Some(case) = replay {
        if case["stream"] == json!("clear-survive") { clear_claims_survive(ctx, case); } else { run_case(ctx, case); }
        return;
    }
    // validly signed but non-conformant payloads: a claim signed in the clear next to a `...` member
    let m = ctx.count(150, 1_500);
    for i in 0..m {
        let mut rng = Rng::fork(ctx.seed ^ 0x5EED_C1EA, i);
        let case = gen_ref_case(&mut rng, ctx.tier_thorough, 0);
        clear_claims_survive(ctx, &case);
    }
    let n = ctx.count(2_500, 25_000);
    for i in 0..n {
        let mut rng = Rng::fork(ctx.seed, i);
        let case = if i % 4 == 3 { gen_ref_case(&mut rng, ctx.tier_thorough, 0) } else { gen_own_case(&mut rng, ctx.tier_thorough, i, false, 0) };
        run_case(ctx, &case);
    }
}
