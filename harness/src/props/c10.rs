//! C10 — no untrusted input can crash or hang the holder, the verifier or the parsers.
use super::common::*;
use crate::keys;
use crate::prng::Rng;
use crate::real::{self, IssueReq, Out};
use crate::tree::{descendants_first_order, gen_tree, GenCfg};
use crate::Ctx;
use sdjwt::{Algorithm, Header, HashAlgorithm, Validation};
use serde_json::{json, Value};

fn validation() -> Validation {
    Validation::default().without_expiry().with_algorithm(Algorithm::HS256)
}

fn note_panic<T>(ctx: &mut Ctx, entry: &str, out: &Out<T>, case: &Value) {
    ctx.report.bump(&format!("{}:{}", entry, out.class()));
    if let Out::Panic(site) = out {
        let s = site.split(' ').next().unwrap_or("").to_string();
        ctx.report.diff("property", entry, &format!("{}:panic:{}", entry, s), case, json!({"panic": site}));
    }
}

/// every public entry point that takes a string from the network, on one string
fn all_entries(ctx: &mut Ctx, s: &str, case: &Value, with_model: bool) {
    real::set_current(case);
    ctx.report.evaluations += 1;
    let dec = keys::dec_key(0, 0);
    let v = validation();
    let parts = real::guard_plain(|| sdjwt::sd_jwt_parts(s));
    note_panic(ctx, "sd_jwt_parts", &parts, case);
    if with_model {
        let m = ctx.driver.ask(&json!({"op":"parts","s":s}));
        let real_j = match &parts {
            Out::Ok((jwt, ds, kb)) => json!({"ok": {"jwt": jwt, "disclosures": ds, "kb": kb}}),
            Out::Panic(_) => json!({"panic": true}),
            Out::Err(..) => json!({"err": "?"}),
        };
        if real_j != m["parts"] {
            ctx.report.diff("correspondence", "sd_jwt_parts", "sd_jwt_parts:differs-from-model", case, json!({"real": real_j, "model": m["parts"]}));
        }
    }
    let r = real::holder_verify(s, &dec, &v);
    note_panic(ctx, "Holder::verify", &r, case);
    let r = real::holder_present(s, &[], None, 1);
    note_panic(ctx, "Holder::presentation", &r, case);
    let r = real::verifier_verify(s, &dec, &v, None);
    note_panic(ctx, "Verifier::verify", &r, case);
    let r = real::verifier_verify(s, &dec, &v, Some(&v));
    note_panic(ctx, "Verifier::verify+kb", &r, case);
    let r = real::guard(|| sdjwt::Disclosure::from_base64(s, HashAlgorithm::SHA256).map(|_| ()));
    note_panic(ctx, "Disclosure::from_base64", &r, case);
    let r = real::guard(|| sdjwt::decode(s, &dec, &v).map(|_| ()));
    note_panic(ctx, "decode", &r, case);
    let r = real::guard(|| sdjwt::verify_kb(s, &keys::holder_jwk(), &v).map(|_| ()));
    note_panic(ctx, "verify_kb", &r, case);
}

fn small_entries(ctx: &mut Ctx, s: &str, case: &Value) {
    real::set_current(case);
    let r = real::guard(|| HashAlgorithm::try_from(s).map(|_| ()));
    note_panic(ctx, "HashAlgorithm::try_from", &r, case);
    let r = real::guard(|| sdjwt::parse_yaml(s).map(|_| ()));
    note_panic(ctx, "parse_yaml", &r, case);
    let r = real::guard(|| sdjwt::KeyForDecoding::from_rsa_pem(s.as_bytes()).map(|_| ()));
    note_panic(ctx, "KeyForDecoding::from_rsa_pem", &r, case);
    let r = real::guard(|| sdjwt::KeyForDecoding::from_ec_pem(s.as_bytes()).map(|_| ()));
    note_panic(ctx, "KeyForDecoding::from_ec_pem", &r, case);
    let r = real::guard(|| sdjwt::KeyForDecoding::from_base64_secret(s).map(|_| ()));
    note_panic(ctx, "KeyForDecoding::from_base64_secret", &r, case);
    let r = real::guard(|| sdjwt::KeyForDecoding::from_rsa_der(s.as_bytes()).map(|_| ()));
    note_panic(ctx, "KeyForDecoding::from_rsa_der", &r, case);
    let r = real::guard(|| sdjwt::KeyForDecoding::from_ec_der(s.as_bytes()).map(|_| ()));
    note_panic(ctx, "KeyForDecoding::from_ec_der", &r, case);
    // the signing-key constructors take text / bytes from a file or a configuration
    let r = real::guard(|| sdjwt::KeyForEncoding::from_base64_secret(s).map(|_| ()));
    note_panic(ctx, "KeyForEncoding::from_base64_secret", &r, case);
    let r = real::guard(|| sdjwt::KeyForEncoding::from_rsa_pem(s.as_bytes()).map(|_| ()));
    note_panic(ctx, "KeyForEncoding::from_rsa_pem", &r, case);
    let r = real::guard(|| sdjwt::KeyForEncoding::from_ec_pem(s.as_bytes()).map(|_| ()));
    note_panic(ctx, "KeyForEncoding::from_ec_pem", &r, case);
    let r = real::guard(|| sdjwt::KeyForEncoding::from_ed_pem(s.as_bytes()).map(|_| ()));
    note_panic(ctx, "KeyForEncoding::from_ed_pem", &r, case);
    let r = real::guard(|| sdjwt::KeyForEncoding::from_rsa_der(s.as_bytes()).map(|_| ()));
    note_panic(ctx, "KeyForEncoding::from_rsa_der", &r, case);
    let r = real::guard(|| sdjwt::KeyForEncoding::from_ec_der(s.as_bytes()).map(|_| ()));
    note_panic(ctx, "KeyForEncoding::from_ec_der", &r, case);
    let r = real::guard(|| sdjwt::KeyForEncoding::from_ed_der(s.as_bytes()).map(|_| ()));
    note_panic(ctx, "KeyForEncoding::from_ed_der", &r, case);
    let r = real::guard(|| sdjwt::KeyForDecoding::from_ed_der(s.as_bytes()).map(|_| ()));
    note_panic(ctx, "KeyForDecoding::from_ed_der", &r, case);
    if let Ok(v) = serde_json::from_str::<Value>(s) {
        let r = real::guard(|| sdjwt::Jwk::from_value(v.clone()).map(|_| ()));
        note_panic(ctx, "Jwk::from_value", &r, case);
        let r = real::guard(|| sdjwt::verify_kb("a.b.c", &v, &validation()).map(|_| ()));
        note_panic(ctx, "verify_kb(cnf)", &r, case);
    }
}

fn exhaustive_strings(ctx: &mut Ctx, max_len: usize) {
    let alphabet = ['a', '.', '~'];
    let mut total = 0u64;
    for len in 0..=max_len {
        let n = 3usize.pow(len as u32);
        for mut code in 0..n {
            let mut s = String::with_capacity(len);
            for _ in 0..len {
                s.push(alphabet[code % 3]);
                code /= 3;
            }
            let case = json!({"kind":"string","s":s});
            // the model is consulted on every string up to length 8 and on a 1/16 sample above
            let with_model = len <= 8 || total % 16 == 0;
            all_entries(ctx, &s, &case, with_model);
            if s.contains('~') && s.contains('.') {
                ctx.report.nontrivial_case(&case);
            }
            total += 1;
        }
    }
    ctx.report.bump_by("exhaustive-strings", total);
}

fn b64(s: &str) -> String {
    real::b64url_encode(s.as_bytes())
}

fn sign_payload(payload: &Value) -> Option<String> {
    let mut h = Header::new(Algorithm::HS256);
    h.typ = Some("sd-jwt".to_string());
    real::sign(&h, payload, &keys::enc_key(0, 0)).ok()
}

fn weird_payloads() -> Vec<Value> {
    let mut deep = json!(1);
    for _ in 0..55 {
        deep = json!({"a": [deep]});
    }
    let big: Vec<Value> = (0..10_000).map(|i| json!(i)).collect();
    let bigsd: Vec<Value> = (0..10_000).map(|i| json!(format!("d{}", i))).collect();
    vec![
        Value::Null, json!(true), json!(1), json!(-1.5), json!("s"), json!([]), json!([1, {"_sd": []}]), json!({}),
        json!({"_sd_alg": "sha-256"}), json!({"_sd_alg": 1}), json!({"_sd_alg": null}), json!({"_sd_alg": "md5"}), json!({"_sd_alg": ["sha-256"]}),
        json!({"_sd_alg": "sha-256", "_sd": 1}), json!({"_sd_alg": "sha-256", "_sd": "x"}), json!({"_sd_alg": "sha-256", "_sd": {"a": 1}}),
        json!({"_sd_alg": "sha-256", "_sd": [1, null, {}, [], "x"]}),
        json!({"_sd_alg": "sha-256", "a": [{"...": 1}]}), json!({"_sd_alg": "sha-256", "a": [{"...": "x", "y": 1}]}),
        json!({"_sd_alg": "sha-256", "a": [{"...": null}, {"...": []}, {"...": {}}]}),
        json!({"_sd_alg": "sha-256", "a": {"_sd": null}}), json!({"_sd_alg": "sha-256", "a": [[{"_sd": 3}]]}),
        json!({"_sd_alg": "sha-256", "cnf": 1}), json!({"_sd_alg": "sha-256", "cnf": {}}), json!({"_sd_alg": "sha-256", "cnf": {"kty": "RSA"}}),
        json!({"_sd_alg": "sha-256", "cnf": {"kty": "RSA", "n": 1, "e": 2}}), json!({"_sd_alg": "sha-256", "cnf": {"kty": "RSA", "n": "!!", "e": "AQAB"}}),
        json!({"_sd_alg": "sha-256", "cnf": {"kty": "RSA", "n": "", "e": ""}}), json!({"_sd_alg": "sha-256", "cnf": {"kty": "EC"}}),
        json!({"_sd_alg": "sha-256", "cnf": null}), json!({"_sd_alg": "sha-256", "cnf": [1]}),
        json!({"_sd_alg": "sha-384", "_sd": []}), json!({"_sd_alg": "sha-512", "_sd": []}),
        json!({"_sd_alg": "sha-256", "deep": deep}), json!({"_sd_alg": "sha-256", "big": big}), json!({"_sd_alg": "sha-256", "_sd": bigsd}),
        json!({"_sd_alg": "sha-256", "exp": "x"}), json!({"_sd_alg": "sha-256", "exp": -1}), json!({"_sd_alg": "sha-256", "exp": 1.5}),
    ]
}

fn weird_disclosures() -> Vec<String> {
    let b = |s: &str| real::b64url_encode(s.as_bytes());
    let mut v = vec![
        String::new(), "!".into(), "a".into(), "ab".into(), "abc".into(), "a=".into(), "AA==".into(), "a b".into(), "é".into(),
        real::b64url_encode(&[0xff, 0xfe, 0x00]), real::b64url_encode(&[0xc3]), b(""), b(" "), b("x"), b("nul"), b("null"), b("1"), b("\"s\""), b("{}"),
        b("[]"), b("[1]"), b("[1,2]"), b("[1,2,3]"), b("[1,2,3,4]"), b("[\"s\",5,1]"), b("[\"s\",null,1]"), b("[\"s\",[],1]"), b("[\"s\",{},1]"),
        b("[\"s\",\"_sd\",1]"), b("[\"s\",\"...\",1]"), b("[\"s\",\"\",1]"), b("[\"s\",\"k\",{\"_sd\":1}]"), b("[\"s\",\"k\",{\"_sd\":[\"x\",\"x\"]}]"),
        b("[\"s\",[{\"...\":\"x\",\"y\":1}]]"), b("[\"s\",[{\"...\":1}]]"), b("[[\"s\"],\"k\",1]"), b("[null,null]"), b("[\"s\",\"k\",1] "), b("[\"s\",\"k\",1]x"),
        b("[\"s\",\"k\",1e400]"), b("[\"s\",\"k\",\"\\ud800\"]"), b("[\"s\",\"k\",\"\\u0000\"]"),
    ];
    let mut deep = String::from("1");
    for _ in 0..120 {
        deep = format!("[{}]", deep);
    }
    v.push(b(&format!("[\"s\",\"k\",{}]", deep)));
    let mut deeper = String::from("1");
    for _ in 0..200 {
        deeper = format!("[{}]", deeper);
    }
    v.push(b(&format!("[\"s\",{}]", deeper)));
    v
}

/// real outcome vs model outcome (ok/err/panic class) for restoration through the three entries
fn compare_class(ctx: &mut Ctx, payload: &Value, token: &str, discs: &[String], case: &Value) {
    let dec = keys::dec_key(0, 0);
    let v = validation();
    let alg = match payload.get("_sd_alg").and_then(|a| a.as_str()) {
        Some(a) if a == "sha-256" || a == "sha-384" || a == "sha-512" => a.to_string(),
        _ => return,
    };
    if !payload.is_object() || payload.get("cnf").is_some() {
        return;
    }
    // number / string forms on which the driver's JSON parser (Lean core) and serde_json are
    // known to differ are only run for panic detection, not compared
    let nocompare = [b64("[\"s\",\"k\",1e400]"), b64("[\"s\",\"k\",\"\\ud800\"]")];
    // (also: nesting beyond serde_json's recursion limit of 128, which Lean's parser does not have)
    if discs.iter().any(|d| nocompare.contains(d) || d.len() > 400 && d.contains("W1tbW1tbW1tbW1tbW1tbW1tbW1tbW1tb")) {
        return;
    }
    let resp = restore_op(ctx, &alg, payload, discs);
    let model = &resp["model"];
    let mclass = if model.get("ok").is_some() { "ok" } else if model.get("err").is_some() { "err" } else { "panic" };
    let hv = real::holder_verify(token, &dec, &v);
    if hv.class() != mclass {
        ctx.report.diff("correspondence", "Holder::verify", &format!("Holder::verify:class:real-{}:model-{}", hv.class(), mclass), case,
            json!({"real": hv.describe(|(_, c, _)| c.clone()), "model": model}));
    } else if let Out::Ok((_, c, _)) = &hv {
        if c != &model["ok"]["claims"] {
            ctx.report.diff("correspondence", "Holder::verify", "Holder::verify:claims-differ", case, json!({"real": c, "model": model["ok"]["claims"]}));
        }
    }
    let vv = real::verifier_verify(token, &dec, &v, None);
    if vv.class() != mclass {
        ctx.report.diff("correspondence", "Verifier::verify", &format!("Verifier::verify:class:real-{}:model-{}", vv.class(), mclass), case,
            json!({"real": vv.describe(|(_, c)| c.clone()), "model": model}));
    }
    let hp = real::holder_present(token, &[], None, 1);
    if hp.class() != mclass {
        ctx.report.diff("correspondence", "Holder::presentation", &format!("Holder::presentation:class:real-{}:model-{}", hp.class(), mclass), case,
            json!({"real": hp.describe(|p| json!(p)), "model": model}));
    }
}

fn structured(ctx: &mut Ctx, rng: &mut Rng, rounds: usize) {
    let payloads = weird_payloads();
    let discs = weird_disclosures();
    // every weird payload, alone and with a few weird disclosures
    for (pi, p) in payloads.iter().enumerate() {
        let jwt = match sign_payload(p) {
            Some(j) => j,
            None => continue,
        };
        for k in 0..4 {
            let mut list: Vec<String> = Vec::new();
            for _ in 0..k {
                list.push(rng.pick(&discs).clone());
            }
            let token = format!("{}~{}{}", jwt, list.join("~"), if list.is_empty() { "" } else { "~" });
            let case = json!({"kind":"payload","payload_index":pi,"payload": if pi < 33 { p.clone() } else { json!("(large)") },"discs":list});
            all_entries(ctx, &token, &case, false);
            compare_class(ctx, p, &token, &list, &case);
            ctx.report.nontrivial_case(&case);
        }
    }
    // every weird disclosure on a plain valid token
    let base = json!({"_sd_alg":"sha-256","_sd":["jsu9yVulwQQlhFlM_3JlzMaSFzglhQG0DpfayQwLUK4"],"a":[{"...":"x"}]});
    let jwt = sign_payload(&base).unwrap();
    for d in &discs {
        let token = format!("{}~{}~", jwt, d);
        let case = json!({"kind":"disclosure","disc":d});
        all_entries(ctx, &token, &case, false);
        compare_class(ctx, &base, &token, &[d.clone()], &case);
        ctx.report.nontrivial_case(&case);
    }
    // mutations of valid issued tokens
    for i in 0..rounds {
        let cfg = GenCfg { max_depth: 3, max_fanout: 4, mark_pct: 50, unsafe_keys: false, reference: false, sentinels: false };
        let tree = gen_tree(rng, &cfg, 1);
        let marks = tree.marks();
        let order = descendants_first_order(&marks, rng);
        let paths: Vec<String> = order.iter().map(|id| mark_by_id(&marks, *id).path.clone()).collect();
        let claims = tree.plain();
        let mut header = Header::new(Algorithm::HS256);
        header.typ = Some("sd-jwt".into());
        let req = IssueReq { claims: &claims, paths: &paths, decoy: None, cnf: None, header: Some(header), exp_in: None, repeats: 1, late_marks: 0 };
        let token = match real::issue(&req, &keys::enc_key(0, 0)) {
            Out::Ok(t) => t[0].clone(),
            other => {
                note_panic(ctx, "Issuer::encode", &other, &json!({"claims": claims, "paths": paths}));
                continue;
            }
        };
        let (jwt, ds, _) = split_token(&token);
        let payload = real::peek_jwt(&jwt).map(|x| x.1).unwrap_or(Value::Null);
        for m in 0..6 {
            let mut list = ds.clone();
            let what = rng.below(9);
            match what {
                0 => { if !list.is_empty() { let k = rng.below(list.len()); list.remove(k); } }
                1 => { if !list.is_empty() { let k = rng.below(list.len()); let d = list[k].clone(); list.push(d); } }
                2 => { if !list.is_empty() { let k = rng.below(list.len()); let n = list[k].len(); let cut = rng.below(n.max(1)); list[k].truncate(cut); } }
                3 => { if !list.is_empty() { let k = rng.below(list.len()); let n = list[k].len(); if n > 0 { let pos = rng.below(n); let mut b: Vec<u8> = list[k].clone().into_bytes(); b[pos] = if b[pos] == b'A' { b'B' } else { b'A' }; list[k] = String::from_utf8(b).unwrap(); } } }
                4 => { list.push(rng.pick(&discs).clone()); }
                5 => { list.insert(0, String::new()); }
                6 => { rng.shuffle(&mut list); }
                7 => { if !list.is_empty() { let k = rng.below(list.len()); list[k].push('='); } }
                _ => { list.clear(); }
            }
            let token2 = format!("{}~{}{}", jwt, list.join("~"), if list.is_empty() { "" } else { "~" });
            let case = json!({"kind":"mutated-token","round":i,"mutation":what,"m":m,"payload":payload,"discs":list});
            all_entries(ctx, &token2, &case, false);
            compare_class(ctx, &payload, &token2, &list, &case);
            ctx.report.nontrivial_case(&case);
        }
        // damage inside the JWT itself: must be an error, never a panic
        for _ in 0..3 {
            let mut b: Vec<u8> = token.clone().into_bytes();
            let pos = rng.below(jwt.len());
            match rng.below(3) {
                0 => { b.remove(pos); }
                1 => { b[pos] = b'.'; }
                _ => { b.insert(pos, b'~'); }
            }
            if let Ok(s) = String::from_utf8(b) {
                let case = json!({"kind":"damaged-jwt","s":s});
                all_entries(ctx, &s, &case, false);
            }
        }
    }
    // small parsers
    let junk = [
        "", " ", "sha-256", "SHA-256", "sha-256 ", "sha-1", "sha-0256", "sha-+256", "sha-99999999999999999999", "sha--256", "sha-", "sha-٢٥٦", "\u{0}", "a: !sd b", "!sd a: 1", "? !sd a\n: 1", "- !sd 1", "- !sd [1]", "!sd", "a: &x 1\nb: *x", "a: *x",
        "{", "[", "a:\n\t- b", "!!binary x", "%YAML 9.9", "a: !sd", "? [a]\n: 1", "? !sd [a]\n: 1", "1: 2", "null: 1", "~: 1", "a: 1\na: 2", "- - - - !sd x",
        "-----BEGIN PUBLIC KEY-----\nAAAA\n-----END PUBLIC KEY-----\n", "-----BEGIN RSA PUBLIC KEY-----\n\n-----END RSA PUBLIC KEY-----", "-----BEGIN PUBLIC KEY-----",
        "{}", "{\"kty\":1}", "{\"kty\":\"RSA\"}", "{\"kty\":\"RSA\",\"n\":\"AQAB\",\"e\":\"AQAB\"}", "{\"kty\":\"RSA\",\"n\":\"\",\"e\":\"\"}", "{\"kty\":\"RSA\",\"n\":\"AA\",\"e\":\"AA\"}",
        "[1]", "null", "\"x\"", "{\"kty\":\"RSA\",\"n\":\"!\",\"e\":\"AQAB\"}", "{\"kty\":\"RSA\",\"n\":\"AQAB\",\"e\":5}",
        // YAML scalars with no JSON counterpart, extreme numbers, every core-schema spelling
        "a: .nan", "a: .inf", "a: -.inf", "a: .NaN", "a: +.INF", "- .nan", "!sd a: .inf", "a:\n  b: [.nan, !sd x]", "a: 1e400", "a: -1e400", "a: 1e-400", "a: 0x7FFFFFFFFFFFFFFFF",
        "a: 0o777", "a: 0b101", "a: 1_000", "a: 12:30:45", "a: 2001-12-14t21:59:43.10-05:00", "a: !!float 1", "a: !!int x", "a: !!null x", "a: !!bool maybe", "a: !!str", "a: !!map {}", "a: !!seq {}",
        // document markers, several documents, and markers together with a syntax error
        "---\n...\nnationalities: [US, DE", "---\na: [", "a: 1\n---\nb: 2", "---\n---\n", "...", "---\n...\n", "--- !sd\n- a\n- b\n", "---\n...\n...\n---\n[", "a: &x [*x", "? \n: \n? ", "---\n\ta: 1",
        "a: 18446744073709551616", "a: -9223372036854775809", "a: 0.1e+99999999999", "? .nan\n: 1", ".nan: 1", ".inf: 1", "1.5: a", "true: a", "[a]: b", "{a: 1}: b",
    ];
    for s in junk {
        let case = json!({"kind":"junk","s":s});
        small_entries(ctx, s, &case);
        ctx.report.evaluations += 1;
    }
}

/// strings whose byte length straddles the usual buffer / abbreviation boundaries with a
/// multi-byte character sitting across the boundary
fn stress_strings() -> Vec<String> {
    let mut v = Vec::new();
    for unit in ["é", "€", "😀", "e\u{301}"] {
        for pre in 0..4usize {
            for target in [8usize, 16, 24, 32, 48, 64, 100, 128, 255, 256, 512, 1024] {
                let mut s = "a".repeat(pre);
                while s.len() < target + 4 { s.push_str(unit); }
                v.push(s);
            }
        }
    }
    v
}

fn sha256_b64(s: &str) -> String {
    use sha2::{Digest, Sha256};
    real::b64url_encode(&Sha256::digest(s.as_bytes()))
}

/// every place where the library reads a string from the token, fed with long non-ASCII text —
/// in particular on the paths that end in an error carrying that text
fn string_stress(ctx: &mut Ctx) {
    let all = stress_strings();
    let step = if ctx.tier_thorough || ctx.scale > 1 { 1 } else { 3 };
    for (si, st) in all.iter().enumerate() {
        if si % step != 0 { continue; }
        let q = serde_json::to_string(st).unwrap();
        let d3 = b64(&format!("[\"salt\",{},2]", q));
        let d2 = b64(&format!("[\"salt\",{}]", q));
        let dg3 = sha256_b64(&d3);
        let dg2 = sha256_b64(&d2);
        let mut named = serde_json::Map::new();
        named.insert("_sd_alg".into(), json!("sha-256"));
        named.insert(st.clone(), json!(1));
        named.insert("_sd".into(), json!([dg3]));
        let cases: Vec<(Value, Vec<String>)> = vec![
            (json!({"_sd_alg": st}), vec![]),
            (json!({"_sd_alg": "sha-256", "_sd": [st, st]}), vec![]),
            (json!({"_sd_alg": "sha-256", "a": [{"...": st}, {"...": st}]}), vec![]),
            (json!({"_sd_alg": "sha-256", "_sd": [st], "a": {"_sd": [st]}}), vec![]),
            (Value::Object(named), vec![d3.clone()]),
            (json!({"_sd_alg": "sha-256", "a": [{"...": dg3}]}), vec![d3.clone()]),
            (json!({"_sd_alg": "sha-256", "_sd": [dg2]}), vec![d2.clone()]),
            (json!({"_sd_alg": "sha-256", "_sd": [dg3]}), vec![d3.clone(), d3.clone()]),
            (json!({"_sd_alg": "sha-256", "_sd": [dg3]}), vec![d3.clone()]),
            (json!({"_sd_alg": "sha-256"}), vec![b64(&format!("[\"s\",{{{}:1}},1]", q))]),
            (json!({"_sd_alg": "sha-256"}), vec![b64(&format!("[\"s\",[{}],1]", q))]),
            (json!({"_sd_alg": "sha-256"}), vec![b64(&q)]),
            (json!({"_sd_alg": "sha-256"}), vec![b64(st)]),
            (json!({"_sd_alg": "sha-256"}), vec![st.clone()]),
            (json!({"_sd_alg": "sha-256", "cnf": {"kty": st, "n": st, "e": st}}), vec![]),
            (json!({"_sd_alg": "sha-256", "cnf": {"kty": "RSA", "n": st, "e": "AQAB"}}), vec![]),
        ];
        for (ci, (p, list)) in cases.iter().enumerate() {
            let jwt = match sign_payload(p) { Some(j) => j, None => continue };
            let token = format!("{}~{}{}", jwt, list.join("~"), if list.is_empty() { "" } else { "~" });
            let case = json!({"kind":"payload","stress":ci,"payload":p,"discs":list});
            all_entries(ctx, &token, &case, false);
            compare_class(ctx, p, &token, list, &case);
            ctx.report.nontrivial_case(&case);
        }
        // the string itself where a token, a disclosure, an algorithm name, a key or a YAML document is expected
        for s2 in [st.clone(), format!("{}~{}~", st, st), format!("a.{}.c~", st)] {
            let case = json!({"kind":"string","s":s2});
            all_entries(ctx, &s2, &case, false);
        }
        for y in [st.clone(), format!("{}: !sd x", st), format!("? !sd [{}]\n: 1", st), format!("{}:\n  - !sd [{}]", st, st), format!("!sd {}: {{!sd {}: [!sd {{a: 1}}]}}", st, st), format!("{}: !sd", st)] {
            let case = json!({"kind":"junk","s":y});
            small_entries(ctx, &y, &case);
            ctx.report.evaluations += 1;
        }
        // a header the issuer may have set
        let mut h = Header::new(Algorithm::HS256);
        h.typ = Some(st.clone());
        h.kid = Some(st.clone());
        h.cty = Some(st.clone());
        if let Out::Ok(jwt) = real::sign(&h, &json!({"_sd_alg":"sha-256"}), &keys::enc_key(0, 0)) {
            let s2 = format!("{}~", jwt);
            let case = json!({"kind":"string","s":s2});
            all_entries(ctx, &s2, &case, false);
        }
    }
    ctx.report.bump_by("stress-strings", (all.len() / step) as u64);
}

/// validly signed key-binding JWTs whose claims sit at the edges of every numeric / JSON type,
/// behind a bound token: `verify_kb` directly and through `Verifier::verify`
fn kb_case(ctx: &mut Ctx, kb_claims: &Value, typ: &str, leeway: u64, validate_exp: bool, case: &Value) {
    real::set_current(case);
    ctx.report.evaluations += 1;
    let jwk = keys::holder_jwk();
    let base = json!({"_sd_alg": "sha-256", "cnf": jwk, "a": 1});
    let jwt = match sign_payload(&base) { Some(j) => j, None => return };
    let prefix = format!("{}~", jwt);
    let mut claims = kb_claims.clone();
    if claims.get("sd_hash").map_or(false, |h| h == &json!("@correct")) {
        claims["sd_hash"] = json!(sha256_b64(&prefix));
    }
    let mut h = Header::new(Algorithm::RS256);
    h.typ = Some(typ.to_string());
    let kb = match real::sign(&h, &claims, &keys::enc_key(1, 1)) { Out::Ok(k) => k, _ => return };
    let mut kbv = Validation::default().with_leeway(leeway);
    if !validate_exp { kbv = kbv.without_expiry(); }
    let r = real::guard(|| sdjwt::verify_kb(&kb, &jwk, &kbv).map(|_| ()));
    ctx.report.bump(&format!("verify_kb(signed):{}", r.class()));
    if let Out::Panic(site) = &r {
        let s = site.split(' ').next().unwrap_or("").to_string();
        ctx.report.diff("property", "verify_kb", &format!("verify_kb:panic:{}:region={}", s, case["region"].as_str().unwrap_or("none")), case, json!({"panic": site}));
    }
    let pres = format!("{}{}", prefix, kb);
    let r = real::verifier_verify(&pres, &keys::dec_key(0, 0), &validation(), Some(&kbv));
    ctx.report.bump(&format!("Verifier::verify(signed kb):{}", r.class()));
    if let Out::Panic(site) = &r {
        let s = site.split(' ').next().unwrap_or("").to_string();
        ctx.report.diff("property", "Verifier::verify+kb", &format!("Verifier::verify+kb:panic:{}:region={}", s, case["region"].as_str().unwrap_or("none")), case, json!({"panic": site}));
    }
    ctx.report.nontrivial_case(case);
}

fn kb_extremes(ctx: &mut Ctx) {
    let nums: Vec<Value> = vec![
        json!(0), json!(1), json!(-1), json!(i64::MAX), json!(i64::MIN), json!(i64::MAX / 2), json!(i64::MIN / 2), json!(u64::MAX), json!(u64::MAX - 30),
        json!(9_007_199_254_740_993u64), json!(1e308), json!(-1e308), json!(1.5), json!(4_102_444_800i64), json!(253_402_300_800i64), json!(8_210_298_412_800i64),
        json!(i64::MAX / 1000), json!(i64::MAX / 1000 + 1), json!(i32::MAX), json!(i32::MIN), json!(u32::MAX),
        json!("1"), json!(null), json!(true), json!([1]), json!({"a": 1}),
    ];
    let good = json!({"aud": "aud", "nonce": "n", "iat": 1_700_000_000, "sd_hash": "@correct"});
    for field in ["iat", "exp", "nbf", "aud", "nonce", "sd_hash", "iss", "sub", "jti"] {
        for (ni, n) in nums.iter().enumerate() {
            for (leeway, vexp) in [(0u64, false), (0, true), (60, false), (60, true)] {
                let mut c = good.clone();
                c[field] = n.clone();
                // the dependency's unchecked `exp + leeway` / `nbf - leeway` (the known finding) is
                // labelled by region, as for the issuer JWT
                let region = match (field, leeway > 0) {
                    ("exp", true) if vexp && n.as_u64().map_or(false, |x| x > u64::MAX - leeway) => "exp+leeway",
                    _ => "none",
                };
                let case = json!({"kind":"kb-extreme","field":field,"value_index":ni,"claims":c,"typ":"kb+jwt","leeway":leeway,"validate_exp":vexp,"region":region});
                kb_case(ctx, &c, "kb+jwt", leeway, vexp, &case);
            }
        }
    }
    // the same claims with a missing member each
    for field in ["iat", "aud", "nonce", "sd_hash"] {
        let mut c = good.clone();
        c.as_object_mut().unwrap().remove(field);
        let case = json!({"kind":"kb-extreme","field":field,"value_index":-1,"claims":c,"typ":"kb+jwt","leeway":0,"validate_exp":false,"region":"none"});
        kb_case(ctx, &c, "kb+jwt", 0, false, &case);
    }
    // long non-ASCII text in every string member and in the header
    for st in stress_strings().iter().step_by(7) {
        for field in ["aud", "nonce", "sd_hash", "iss"] {
            let mut c = good.clone();
            c[field] = json!(st);
            let case = json!({"kind":"kb-extreme","field":field,"value_index":-2,"claims":c,"typ":"kb+jwt","leeway":0,"validate_exp":false,"region":"none"});
            kb_case(ctx, &c, "kb+jwt", 0, false, &case);
        }
        let case = json!({"kind":"kb-extreme","field":"typ","value_index":-2,"claims":good,"typ":st,"leeway":0,"validate_exp":false,"region":"none"});
        kb_case(ctx, &good, st, 0, false, &case);
    }
}

/// D21 (known finding): `exp + leeway` / `nbf - leeway` in jwt-rustcrypto's validation.rs
fn leeway_overflow(ctx: &mut Ctx) {
    let dec = keys::dec_key(0, 0);
    let cases: Vec<(Value, Validation, &str)> = vec![
        (json!({"_sd_alg":"sha-256","exp": u64::MAX}), Validation::default().with_algorithm(Algorithm::HS256).with_leeway(1), "exp+leeway"),
        (json!({"_sd_alg":"sha-256","exp": u64::MAX - 5}), Validation::default().with_algorithm(Algorithm::HS256).with_leeway(60), "exp+leeway"),
        (json!({"_sd_alg":"sha-256","exp": u64::MAX}), Validation::default().with_algorithm(Algorithm::HS256), "none"),
        (json!({"_sd_alg":"sha-256","nbf": 5}), {
            let mut v = Validation::default().without_expiry().with_algorithm(Algorithm::HS256).with_leeway(60);
            v.validate_nbf = true;
            v
        }, "nbf-leeway"),
        (json!({"_sd_alg":"sha-256","nbf": 60}), {
            let mut v = Validation::default().without_expiry().with_algorithm(Algorithm::HS256).with_leeway(60);
            v.validate_nbf = true;
            v
        }, "none"),
    ];
    for (p, v, region) in cases {
        let jwt = sign_payload(&p).unwrap();
        let token = format!("{}~", jwt);
        let case = json!({"kind":"leeway","payload":p,"leeway":v.leeway,"region":region});
        ctx.report.evaluations += 1;
        for (entry, out) in [
            ("decode", real::guard(|| sdjwt::decode(&jwt, &dec, &v).map(|_| ()))),
            ("Holder::verify", real::holder_verify(&token, &dec, &v).map(|_| ())),
            ("Verifier::verify", real::verifier_verify(&token, &dec, &v, None).map(|_| ())),
        ] {
            ctx.report.bump(&format!("leeway:{}:{}", region, out.class()));
            if let Out::Panic(site) = &out {
                let s = site.split(' ').next().unwrap_or("");
                ctx.report.diff("property", entry, &format!("{}:panic:{}:region={}", entry, s, region), &case, json!({"panic": site}));
            }
        }
    }
}

pub fn run(ctx: &mut Ctx, replay: Option<&Value>) {
    ctx.report.rule = "all strings over {a . ~} up to length 9 (quick) / 12 (thorough) through sd_jwt_parts (compared with the model), Holder::verify, Holder::presentation, Verifier::verify, Disclosure::from_base64, decode, verify_kb; validly signed payloads of every JSON type / wrong types for _sd, ..., _sd_alg, cnf / depth-100 / 10^4-element lists x malformed disclosure strings; random mutations of issued tokens (class compared with the model); junk through the small parsers; long non-ASCII strings (2-, 3-, 4-byte and combining characters straddling byte offsets 8..1024) in every string position of payload, disclosures, header, cnf, YAML and key-binding JWT, on the paths that end in an error quoting them; validly signed key-binding JWTs with every claim at the numeric / JSON-type extremes x leeway x expiry checking through verify_kb and Verifier::verify; non-trivial = distinct string containing both separators, or structured case".to_string();
    if let Some(case) = replay {
        match case["kind"].as_str().unwrap_or("") {
            "string" | "damaged-jwt" => all_entries(ctx, case["s"].as_str().unwrap_or(""), case, true),
            "junk" => small_entries(ctx, case["s"].as_str().unwrap_or(""), case),
            "leeway" => leeway_overflow(ctx),
            "kb-extreme" => kb_case(ctx, &case["claims"], case["typ"].as_str().unwrap_or("kb+jwt"), case["leeway"].as_u64().unwrap_or(0), case["validate_exp"].as_bool().unwrap_or(false), case),
            _ => {
                if let (Some(p), Some(ds)) = (case.get("payload"), case["discs"].as_array()) {
                    if let Some(jwt) = sign_payload(p) {
                        let list: Vec<String> = ds.iter().filter_map(|d| d.as_str().map(|s| s.to_string())).collect();
                        let token = format!("{}~{}{}", jwt, list.join("~"), if list.is_empty() { "" } else { "~" });
                        all_entries(ctx, &token, case, false);
                        compare_class(ctx, p, &token, &list, case);
                    }
                }
            }
        }
        return;
    }
    let max_len = if ctx.tier_thorough { 12 } else if ctx.scale > 1 { 10 } else { 9 };
    exhaustive_strings(ctx, max_len);
    ctx.report.exhaustive = false;
    let mut rng = Rng::fork(ctx.seed, 0);
    let rounds = ctx.count(300, 4000) as usize;
    structured(ctx, &mut rng, rounds);
    string_stress(ctx);
    kb_extremes(ctx);
    leeway_overflow(ctx);
}
