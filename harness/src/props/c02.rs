//! C02 — selective disclosure end to end (also carries the presentation-side part of C06).
use super::common::*;
use super::flowkit::*;
use crate::keys;
use crate::prng::Rng;
use crate::real::{self, KbParams, Out};
use crate::Ctx;
use sdjwt::Algorithm;
use serde_json::{json, Value};

/// redaction lists for one token. `with_junk`: also paths that are not disclosable, do not exist or are no
/// pointers at all - C02's second sentence ("changes nothing") is about those; the other properties that
/// redact (C05, C06, C08, C09) say nothing about them and use paths of disclosable claims only
pub fn gen_redactions(rng: &mut Rng, ic: &IssuedCase, with_junk: bool) -> Vec<Vec<String>> {
    let mut sets: Vec<Vec<String>> = Vec::new();
    let paths: Vec<String> = ic.marks.iter().map(|m| ic.holder_path(m.id)).collect();
    // nothing, everything, random subsets, ancestors only, junk
    sets.push(vec![]);
    sets.push(paths.clone());
    for _ in 0..2 {
        let p = *rng.pick(&[20u32, 50, 80]);
        sets.push(paths.iter().filter(|_| rng.chance(p, 100)).cloned().collect());
    }
    let parents: Vec<String> = ic.marks.iter().filter(|m| ic.marks.iter().any(|c| c.ancestors.contains(&m.id))).map(|m| ic.holder_path(m.id)).collect();
    if !parents.is_empty() {
        sets.push(vec![rng.pick(&parents).clone()]);
    }
    if !with_junk {
        // a disclosable claim together with its ordinary (not disclosable, existing) enclosing object or array, in
        // either order: the enclosing node hides nothing, the claim stays redacted
        let plain_parent: Vec<(String, String)> = paths.iter().filter_map(|p| p.rfind('/').filter(|i| *i > 0).map(|i| (p.clone(), p[..i].to_string()))).filter(|(_, par)| !paths.contains(par)).collect();
        if !plain_parent.is_empty() {
            let (c, par) = rng.pick(&plain_parent).clone();
            if rng.chance(1, 2) { sets.push(vec![c, par]); } else { sets.push(vec![par, c]); }
        }
        let mut some: Vec<String> = paths.iter().filter(|_| rng.chance(1, 2)).cloned().collect();
        rng.shuffle(&mut some);
        sets.push(some);
        return sets;
    }
    // paths that are not disclosable / do not exist / near misses
    let mut junk: Vec<String> = vec!["".into(), "/".into(), "/nope".into(), "nope".into(), "/0".into(), "//".into()];
    for p in paths.iter().take(3) {
        junk.push(format!("{}2", p));
        junk.push(format!("{}/", p));
        junk.push(p.trim_start_matches('/').to_string());
        if let Some(i) = p.rfind('/') {
            if i > 0 { junk.push(p[..i].to_string()); }   // the (possibly unmarked) parent
        }
    }
    // keep only junk that is not the path of a mark
    let junk: Vec<String> = junk.into_iter().filter(|j| !paths.contains(j)).collect();
    sets.push(junk.clone());
    let mut mixed: Vec<String> = paths.iter().filter(|_| rng.chance(1, 2)).cloned().collect();
    mixed.extend(junk.into_iter().filter(|_| rng.chance(1, 2)));
    rng.shuffle(&mut mixed);
    sets.push(mixed);
    sets
}

pub fn projects(ctx: &mut Ctx, ic: &IssuedCase, shows: &[Vec<usize>]) -> Vec<Value> {
    let r = tree_op(ctx, &ic.sd_alg, &ic.tree, None, shows);
    r["projects"].as_array().cloned().unwrap_or_default().iter().map(|p| {
        let mut e = p.clone();
        for k in ["cnf", "exp"] {
            if let Some(v) = ic.payload.get(k) {
                if ic.claims.get(k).is_none() { e[k] = v.clone(); }
            }
        }
        e
    }).collect()
}

pub fn run_case(ctx: &mut Ctx, case: &Value) {
    crate::real::set_current(case);
    ctx.report.evaluations += 1;
    let ic = match issue_any(ctx, case) {
        Some(ic) => ic,
        None => return,
    };
    ctx.report.bump(if ic.reference { "issuer:ref" } else { "issuer:own" });
    ctx.report.bump(if ic.kb { "bound" } else { "unbound" });
    let mut rng = Rng::fork(ctx.seed ^ 0xC02, crate::report::hash_of(&case["tree"]));
    let sets: Vec<Vec<String>> = match case.get("redactions").and_then(|r| r.as_array()) {
        Some(a) => a.iter().map(|s| s.as_array().cloned().unwrap_or_default().iter().filter_map(|x| x.as_str().map(|y| y.to_string())).collect()).collect(),
        None => gen_redactions(&mut rng, &ic, true),
    };
    let kept: Vec<Vec<usize>> = sets.iter().map(|r| kept_ids(&ic, r)).collect();
    let expected = projects(ctx, &ic, &kept);
    let dec = keys::dec_key(keys::family(&ic.alg), 0);
    let validation = ic.validation();
    let kbkey = holder_kb_key();
    let aud = "https://verifier.example";
    let kbp = KbParams { aud, key: &kbkey, alg: Algorithm::RS256 };
    let policy = kb_policy(aud, Algorithm::RS256);
    if is_nontrivial(&ic.marks) {
        ctx.report.nontrivial_case(&json!([case["tree"], sets]));
    }
    ctx.report.sample(json!({"claims": ic.claims, "marked": ic.marks.iter().map(|m| m.path.clone()).collect::<Vec<_>>(), "redaction_sets": sets.iter().take(3).collect::<Vec<_>>(), "bound": ic.kb}));
    for (i, r) in sets.iter().enumerate() {
        let mut c2 = case.clone();
        c2["redactions"] = json!([r]);
        ctx.report.bump("redaction-sets");
        if kept[i].len() < ic.marks.len() && kept[i].len() > 0 { ctx.report.bump("redaction:partial"); }
        if r.iter().any(|p| !ic.marks.iter().any(|m| &ic.holder_path(m.id) == p)) { ctx.report.bump("redaction:has-non-disclosable-path"); }
        let built = real::holder_present(&ic.token, r, if ic.kb { Some(&kbp) } else { None }, 1);
        let pres = match &built {
            Out::Ok(ps) => ps[0].clone(),
            other => {
                ctx.report.diff("property", "Holder::build", &format!("Holder::build:valid-token:{}", out_sig(other)), &c2,
                    json!({"real": other.describe(|_| Value::Null), "redacted": r}));
                continue;
            }
        };
        let (pjwt, pdiscs, plast) = split_token(&pres);
        // --- presentation content: exactly the disclosures of the kept marks (C02/C06)
        let mut want: Vec<String> = kept[i].iter().map(|id| ic.disc_of(*id)).collect();
        want.sort();
        let mut got = pdiscs.clone();
        got.sort();
        if pjwt != ic.jwt || got != want {
            ctx.report.diff("property", "Holder::build", "Holder::build:disclosures-not-as-specified", &c2,
                json!({"redacted": r, "presented": pdiscs, "expected": want}));
        }
        if ic.kb == plast.is_empty() {
            ctx.report.diff("property", "Holder::build", "Holder::build:kb-presence", &c2, json!({"bound": ic.kb, "last_segment": plast}));
        }
        // --- model of the holder (correspondence): prefix must match byte for byte
        let m = ctx.driver.ask(&json!({"op":"flow","entry":"holder_build","token":ic.token,"jwt_ok":true,"redacted":r,
            "kb_params": if ic.kb { json!({"aud":aud,"alg":"RS256"}) } else { Value::Null }, "nonce":"", "now":0}));
        let prefix_real = &pres[..pres.len() - plast.len()];
        // (byte for byte up to the order of the disclosures, which the model fixes and the property does not)
        if m["ok"]["prefix"].as_str().map(canon_prefix) != Some(canon_prefix(prefix_real)) {
            ctx.report.diff("correspondence", "Holder::build", "Holder::build:prefix-differs-from-model", &c2,
                json!({"real": prefix_real, "model": m}));
        }
        if m["ok"]["prefix"].as_str() != Some(prefix_real) { ctx.report.bump("presentation:disclosures-in-other-order-than-model"); }
        // --- verifier
        let vv = real::verifier_verify(&pres, &dec, &validation, if ic.kb { Some(&policy) } else { None });
        let real_out = vv.clone().map(|(_, c)| (c, None));
        let cmp = Compare { prop: "C02", entry: "Verifier::verify", case: &c2 };
        // restoration as the model sees it for exactly the presented strings
        compare_restoration(ctx, &cmp, &ic.sd_alg, &ic.payload, &pdiscs, &real_out, Some(&expected[i]), None, true);
        let mv = ctx.driver.ask(&json!({"op":"flow","entry":"verifier_verify","token":pres,"jwt_ok":true,"kb_ok":true,"policy":ic.kb}));
        match (&vv, mv.get("ok")) {
            (Out::Ok((_, c)), Some(o)) => {
                if &o["claims"] != c {
                    ctx.report.diff("correspondence", "Verifier::verify", "Verifier::verify:flow-claims-differ", &c2, json!({"real": c, "model": o["claims"]}));
                }
            }
            (Out::Ok(_), None) | (Out::Err(..), Some(_)) | (Out::Panic(_), _) => {
                ctx.report.diff("correspondence", "Verifier::verify", "Verifier::verify:flow-class-differs", &c2,
                    json!({"real": vv.describe(|(_, c)| c.clone()), "model": mv}));
            }
            _ => {}
        }
        // redacting nothing disclosable changes nothing (second sentence of C02)
        if kept[i].len() == ic.marks.len() {
            if let Out::Ok((_, c)) = &vv {
                let full = with_issuer_members(&ic.spec["plain"], &ic.payload);
                if c != &full {
                    ctx.report.diff("property", "Verifier::verify", "Verifier::verify:noop-redaction-changed-claims", &c2, json!({"real": c, "expected": full}));
                }
            }
        }
    }
}

pub fn run(ctx: &mut Ctx, replay: Option<&Value>) {
    ctx.report.rule = "own-issued (80%) and reference-issued (20%, Lean spec issuer, sha-256/384/512, decoys anywhere) tokens over random trees/markings, 30% bound; per token 6-7 redaction lists: none, all, random subsets, one enclosing claim, non-disclosable/non-existent/near-miss paths, mixtures; Holder::presentation/redact/key_binding/build then Verifier::verify; non-trivial = distinct (tree, redaction lists) with a nested or positional mark".to_string();
    if let Some(case) = replay {
        run_case(ctx, case);
        return;
    }
    let n = ctx.count(1_500, 20_000);
    for i in 0..n {
        let mut rng = Rng::fork(ctx.seed, i);
        let case = if i % 5 == 4 { gen_ref_case(&mut rng, ctx.tier_thorough, 30) } else { gen_own_case(&mut rng, ctx.tier_thorough, i, false, 30) };
        run_case(ctx, &case);
    }
}
