//! C01 — issuance round trip: Holder::verify(Issuer(C, M).encode()) = (header, C [+cnf], paths).
use super::common::*;
use crate::keys;
use crate::prng::Rng;
use crate::real::{self, IssueReq, Out};
use crate::tree::{descendants_first_order, gen_tree, GenCfg, Node};
use crate::Ctx;
use sdjwt::{Algorithm, Header, Validation};
use serde_json::{json, Value};

pub fn gen_case(rng: &mut Rng, thorough: bool, index: u64) -> Value {
    let cfg = GenCfg {
        max_depth: if thorough { 5 } else { 4 },
        max_fanout: if thorough { 5 } else { 4 },
        mark_pct: *rng.pick(&[10u32, 30, 60, 90]),
        unsafe_keys: rng.chance(1, 5),
        reference: false,
        sentinels: false,
    };
    let tree = gen_tree(rng, &cfg, 1);
    let marks = tree.marks();
    let order = descendants_first_order(&marks, rng);
    let decoy: Value = match rng.below(4) {
        0 => json!(1 + rng.below(5)),
        _ => Value::Null,
    };
    let alg = if index % 50 == 49 { keys::alg_name(&keys::ALL_ALGS[(index / 50) as usize % 13]) } else { "HS256" };
    let mut case = json!({
        "tree": tree.to_wire(), "order": order, "decoy": decoy,
        "kb": rng.chance(1, 5), "exp": rng.chance(1, 4), "alg": alg,
    });
    // explicit in the case (a function of the tree as generated), so that a reduced case replays the same way
    let wire = case["tree"].clone();
    case["reissue"] = json!([0u64, 0, 0, 1, 2][(crate::report::hash_of(&wire) % 5) as usize]);
    case
}

pub fn alg_by_name(name: &str) -> Algorithm {
    keys::ALL_ALGS.iter().find(|a| keys::alg_name(a) == name).cloned().unwrap_or(Algorithm::HS256)
}

pub fn run_case(ctx: &mut Ctx, case: &Value) {
    crate::real::set_current(case);
    let mut tree = Node::from_wire(&case["tree"]);
    let marks = tree.marks();
    let order: Vec<usize> = case["order"].as_array().cloned().unwrap_or_default().iter().map(|v| v.as_u64().unwrap_or(0) as usize).collect();
    let paths: Vec<String> = order.iter().map(|id| mark_by_id(&marks, *id).path.clone()).collect();
    let claims = tree.plain();
    let alg = alg_by_name(case["alg"].as_str().unwrap_or("HS256"));
    let fam = keys::family(&alg);
    let enc = keys::enc_key(fam, 0);
    let dec = keys::dec_key(fam, 0);
    let jwk = keys::holder_jwk();
    let kb = case["kb"].as_bool().unwrap_or(false);
    let exp = case["exp"].as_bool().unwrap_or(false);
    let mut header = Header::new(alg.clone());
    header.typ = Some("sd-jwt".to_string());
    // two cases in five issue once or twice more from the same issuer object first
    let reissue = case.get("reissue").and_then(|v| v.as_u64())
        .unwrap_or_else(|| [0u64, 0, 0, 1, 2][(crate::report::hash_of(&case["tree"]) % 5) as usize]) as usize;
    let req = IssueReq {
        claims: &claims,
        paths: &paths,
        decoy: case["decoy"].as_i64().map(|n| n as i32),
        cnf: if kb { Some(&jwk) } else { None },
        header: Some(header),
        exp_in: if exp { Some(3600) } else { None },
        repeats: 1 + reissue,
        // every other re-issuing case marks only some of the paths before the earlier encode() calls
        late_marks: if reissue >= 1 && paths.len() >= 2 && crate::report::hash_of(&json!(paths)) % 2 == 0 { 1 + (crate::report::hash_of(&json!(paths)) / 2) as usize % (paths.len() - 1) } else { 0 },
    };
    ctx.report.evaluations += 1;
    ctx.report.bump(&format!("issued-after-{}-earlier-encodes", reissue));
    ctx.report.bump(&format!("marks:{}", marks.len().min(8)));
    ctx.report.bump(&format!("depth:{}", tree.depth()));
    ctx.report.bump(&format!("alg:{}", keys::alg_name(&alg)));
    if marks.iter().any(|m| !m.ancestors.is_empty()) { ctx.report.bump("has-nested-mark"); }
    if marks.iter().any(|m| m.in_array) { ctx.report.bump("has-array-mark"); }
    if marks.iter().all(|m| m.depth > 0) { ctx.report.bump("only-nested-marks"); }
    if is_nontrivial(&marks) {
        ctx.report.nontrivial_case(&json!([case["tree"], case["order"]]));
    }
    ctx.report.sample(json!({"claims": claims, "paths": paths, "decoy": case["decoy"], "kb": kb}));

    let issued = real::issue(&req, &enc);
    let token = match &issued {
        Out::Ok(ts) => ts[ts.len() - 1].clone(),
        other => {
            ctx.report.bump(&format!("issue:{}", other.class()));
            ctx.report.diff("property", "Issuer::encode", &format!("Issuer::encode:valid-marking:{}", out_sig(other)), case,
                json!({"real": other.describe(|_| Value::Null), "claims": claims, "paths": paths}));
            return;
        }
    };
    ctx.report.bump("issue:ok");
    let (jwt, discs, last) = split_token(&token);
    if !last.is_empty() || discs.len() != paths.len() {
        ctx.report.diff("property", "Issuer::encode", "Issuer::encode:framing", case, json!({"token": token, "paths": paths}));
        return;
    }
    let (_hdr, payload) = match real::peek_jwt(&jwt) {
        Some(x) => x,
        None => {
            ctx.report.diff("property", "Issuer::encode", "Issuer::encode:jwt-not-decodable", case, json!({"token": token}));
            return;
        }
    };
    let sd_alg = match crate::tree::declared_sd_alg(&payload) {
        Some(a) if payload.get("_sd_alg").is_some() => a,
        _ => {
            // |M| >= 1 here: the algorithm must be declared, and be one of the supported names
            ctx.report.diff("property", "Issuer::encode", "Issuer::encode:_sd_alg", case, json!({"payload": payload}));
            return;
        }
    };
    if sd_alg != "sha-256" { ctx.report.bump(&format!("issued:_sd_alg:{}", sd_alg)); }
    super::flowkit::attach_issued(ctx, &mut tree, &order, &payload, &discs, &sd_alg);
    if kb && !cnf_is_key(payload.get("cnf"), &jwk) {
        ctx.report.diff("property", "Issuer::encode", "Issuer::encode:cnf-is-not-the-required-key", case,
            json!({"cnf": payload.get("cnf"), "earlier_encodes": reissue}));
    }
    if !kb && payload.get("cnf").is_some() && claims.get("cnf").is_none() {
        ctx.report.diff("property", "Issuer::encode", "Issuer::encode:cnf-without-key-binding", case, json!({"cnf": payload.get("cnf")}));
    }
    // --- spec view of the issued token
    let spec = tree_op(ctx, &sd_alg, &tree, None, &[]);
    let real_payload = real::canon_sd(&strip_issuer_members(&payload, &claims));
    let spec_payload = real::canon_sd(&spec["payload"]);
    if real_payload != spec_payload {
        ctx.report.diff("property", "Issuer::encode", "Issuer::encode:payload-not-as-specified", case,
            json!({"real": real_payload, "expected": spec_payload}));
    }
    if spec["wf"] != json!(true) || spec["nodup"] != json!(true) {
        ctx.report.diff("internal", "Issuer::encode", "tree-hypotheses-not-met", case, json!({"wf": spec["wf"], "nodup": spec["nodup"]}));
    }
    // disclosure contents as the harness decodes them
    for id in order.iter() {
        let m = mark_by_id(&marks, *id);
        let sd = spec["discs"].as_array().and_then(|a| a.iter().find(|x| x["id"] == json!(id))).cloned().unwrap_or(Value::Null);
        let dstr = sd["str"].as_str().unwrap_or("").to_string();
        let d = decode_disclosure(&dstr);
        let ok = match (&d, &m.key) {
            (Some(a), Some(k)) => a.len() == 3 && a[1] == json!(k) && real::canon_sd(&a[2]) == real::canon_sd(&sd["value"]) && a[0].is_string(),
            (Some(a), None) => a.len() == 2 && real::canon_sd(&a[1]) == real::canon_sd(&sd["value"]) && a[0].is_string(),
            _ => false,
        };
        if !ok {
            ctx.report.diff("property", "Issuer::encode", "Issuer::encode:disclosure-content", case,
                json!({"disclosure": dstr, "decoded": d, "expected": sd}));
        }
    }
    // --- holder
    let validation = if exp { Validation::default().with_algorithm(alg.clone()) } else { Validation::default().without_expiry().with_algorithm(alg.clone()) };
    let hv = real::holder_verify(&token, &dec, &validation);
    let expected_claims = with_issuer_members(&spec["plain"], &payload);
    let expected_paths: Vec<Value> = spec["discs"].as_array().cloned().unwrap_or_default().iter()
        .map(|d| json!([d["path"], d["str"], d["key"], d["value"]])).collect();
    if let Out::Ok((_, c, _)) = &hv {
        if has_bookkeeping(c, true) {
            ctx.report.diff("property", "Holder::verify", "Holder::verify:bookkeeping-left", case, json!({"claims": c}));
        }
        // the issuer was given `path`; the holder must report the same string
        let _ = c;
    }
    // the paths the holder reports must be the paths the issuer was given
    let given: Vec<String> = { let mut p = paths.clone(); p.sort(); p };
    if let Out::Ok((_, _, ps)) = &hv {
        let mut got: Vec<String> = ps.iter().map(|p| p.path.clone()).collect();
        got.sort();
        if got != given {
            ctx.report.diff("property", "Holder::verify", "Holder::verify:paths-differ-from-issuer-paths", case, json!({"given": given, "reported": got}));
        }
    }
    let real_out = hv.clone().map(|(_, c, ps)| (c, Some(real_paths_json(&ps))));
    let cmp = Compare { prop: "C01", entry: "Holder::verify", case };
    compare_restoration(ctx, &cmp, &sd_alg, &payload, &discs, &real_out, Some(&expected_claims), Some(&expected_paths), true);
    ctx.report.bump(&format!("holder:{}", hv.class()));
}

pub fn run(ctx: &mut Ctx, replay: Option<&Value>) {
    ctx.report.rule = "random claims objects (depth<=4/5, fan-out<=4/5, key alphabet incl. empty/numeric/unicode/near-_sd keys, every 5th case with '/' and '~' in keys) x random markings (p in {.1,.3,.6,.9}, >=1 mark) x random descendants-first order x decoys/cnf/exp; non-trivial = distinct (tree, order) with a mark that is nested, positional (array element) or below the top level".to_string();
    if let Some(case) = replay {
        run_case(ctx, case);
        return;
    }
    let n = ctx.count(8_000, 60_000);
    for i in 0..n {
        let mut rng = Rng::fork(ctx.seed, i);
        let case = gen_case(&mut rng, ctx.tier_thorough, i);
        run_case(ctx, &case);
    }
}
