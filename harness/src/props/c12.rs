//! C12 — SD-JWTs the specification says must be rejected are rejected.
use super::common::*;
use super::flowkit::*;
use crate::keys;
use crate::prng::Rng;
use crate::real::{self, Out};
use crate::tree::{Elem, Mark, Node};
use crate::Ctx;
use sdjwt::{Algorithm, Header};
use serde_json::{json, Value};

fn b64j(v: &Value) -> String {
    real::b64url_encode(serde_json::to_string(v).unwrap().as_bytes())
}

const KINDS: &[&str] = &[
    "arity-place", "name-type", "name-type-at-element", "name-reserved", "shape", "collision", "digest-twice", "digest-twice-in-arrays",
    "extra-unreferenced-name-type", "extra-unreferenced-reserved", "extra-unreferenced-shape", "extra-unreferenced-text",
    "sd-not-array-payload", "sd-not-array-value", "placeholder-extra-payload", "placeholder-extra-value", "sd-alg",
];

/// sibling member keys of mark `id` (keys of the other members of its object)
fn sibling_keys(node: &Node, id: usize) -> Option<Vec<(String, bool)>> {
    match node {
        Node::Leaf(_) => None,
        Node::Arr(xs) => xs.iter().find_map(|e| sibling_keys(&e.node, id)),
        Node::Obj(ms, _) => {
            if ms.iter().any(|m| matches!(&m.mark, Mark::Marked { id: i, .. } if *i == id)) {
                return Some(ms.iter().filter(|m| !matches!(&m.mark, Mark::Marked { id: i, .. } if *i == id))
                    .map(|m| (m.key.clone(), matches!(m.mark, Mark::Clear))).collect());
            }
            ms.iter().find_map(|m| sibling_keys(&m.node, id))
        }
    }
}

/// all JSON pointers (as key/index vectors) of objects resp. arrays in a value
pub(crate) fn collect_sites(v: &Value, cur: &mut Vec<String>, objs: &mut Vec<Vec<String>>, arrs: &mut Vec<Vec<String>>) {
    match v {
        Value::Object(m) => {
            objs.push(cur.clone());
            for (k, x) in m {
                if k == "_sd" { continue; }
                cur.push(k.clone());
                collect_sites(x, cur, objs, arrs);
                cur.pop();
            }
        }
        Value::Array(a) => {
            arrs.push(cur.clone());
            for (i, x) in a.iter().enumerate() {
                if x.get("...").is_some() { continue; }
                cur.push(i.to_string());
                collect_sites(x, cur, objs, arrs);
                cur.pop();
            }
        }
        _ => {}
    }
}

pub(crate) fn at_mut<'a>(v: &'a mut Value, path: &[String]) -> &'a mut Value {
    let mut cur = v;
    for seg in path {
        cur = match cur {
            Value::Array(a) => &mut a[seg.parse::<usize>().unwrap()],
            Value::Object(m) => m.get_mut(seg).unwrap(),
            _ => unreachable!(),
        };
    }
    cur
}

struct Defective {
    payload: Value,
    discs: Vec<String>,
    detail: Value,
}

fn make_defect(ctx: &mut Ctx, rng: &mut Rng, ic: &IssuedCase, kind: &str, target: usize) -> Option<Defective> {
    let sd = ic.spec_disc(target);
    let key = sd["key"].as_str().map(|s| s.to_string());
    let v = sd["value"].clone();
    let salt = json!("defect-salt");
    let mut tree = ic.tree.clone();
    let mut payload_surgery: Option<Box<dyn Fn(&mut Value, &mut Rng) -> Option<Value>>> = None;
    let mut detail = json!({"kind": kind, "target": target, "target_path": sd["path"]});
    match kind {
        "arity-place" => {
            // at an array element: a NAMED disclosure, the name ranging over the boundary strings too
            let name = *rng.pick(&["x", "", "", " ", "0", "\u{0}", "..."]);
            let name = if name == "..." { "x" } else { name };
            let d = match &key { Some(_) => json!([salt, v]), None => json!([salt, name, v]) };
            tree.set_disc(target, &b64j(&d));
        }
        "name-type" => {
            key.as_ref()?;
            let bad = rng.pick(&[json!(5), Value::Null, json!(["k"]), json!({"k": 1}), json!(true)]).clone();
            tree.set_disc(target, &b64j(&json!([salt, bad, v])));
        }
        "name-type-at-element" => {
            // three elements with a non-string name, embedded where an element disclosure belongs
            if key.is_some() { return None; }
            let bad = rng.pick(&[json!(5), Value::Null, json!(["k"]), json!({"k": 1}), json!(false), json!(0)]).clone();
            tree.set_disc(target, &b64j(&json!([salt, bad, v])));
        }
        "extra-unreferenced-name-type" | "extra-unreferenced-reserved" | "extra-unreferenced-shape" | "extra-unreferenced-text" => {}
        "name-reserved" => {
            key.as_ref()?;
            let bad = *rng.pick(&["_sd", "..."]);
            tree.set_disc(target, &b64j(&json!([salt, bad, v])));
        }
        "shape" => {
            let bad = rng.pick(&[json!({"salt": "s"}), json!("str"), json!(7), json!([]), json!([salt]), json!([salt, "k", v, 1]), Value::Null]).clone();
            tree.set_disc(target, &b64j(&bad));
        }
        "collision" => {
            key.as_ref()?;
            let sibs = sibling_keys(&ic.tree, target)?;
            let clear: Vec<&(String, bool)> = sibs.iter().filter(|s| s.1).collect();
            // the name of a sibling signed in the clear, or (every other time there is one) of another HIDDEN
            // sibling: the name then exists next to the digest only once that sibling's disclosure is placed
            let hidden: Vec<&(String, bool)> = sibs.iter().filter(|s| !s.1).collect();
            let pick = if !hidden.is_empty() && (clear.is_empty() || rng.chance(1, 2)) { detail["collides_with_hidden_sibling"] = json!(true); hidden[rng.below(hidden.len())].0.clone() }
                else if !clear.is_empty() { clear[rng.below(clear.len())].0.clone() } else { return None };
            detail["collides_with"] = json!(pick);
            tree.set_disc(target, &b64j(&json!([salt, pick, v])));
        }
        "digest-twice" => {
            let dg = sd["digest"].as_str()?.to_string();
            if let Node::Obj(_, extra) = &mut tree {
                extra.decoys.push(dg);
            }
        }
        "digest-twice-in-arrays" => {
            // the digest of a disclosed array element in a second placeholder (same array or another one of the
            // payload): once the element is put in place nothing in the restored claims shows the repetition
            if key.is_some() { return None; }
            let dg = sd["digest"].as_str()?.to_string();
            payload_surgery = Some(Box::new(move |p: &mut Value, rng: &mut Rng| {
                let (mut objs, mut arrs) = (Vec::new(), Vec::new());
                collect_sites(p, &mut Vec::new(), &mut objs, &mut arrs);
                let holders: Vec<Vec<String>> = arrs.iter().filter(|site| at_mut(p, site).as_array().map_or(false, |a| a.iter().any(|x| x.get("...") == Some(&json!(dg))))).cloned().collect();
                // (a placeholder inside a hidden claim is not in the payload: not applicable then)
                if holders.is_empty() { return None; }
                let site = if rng.chance(1, 2) { holders[rng.below(holders.len())].clone() } else { arrs[rng.below(arrs.len())].clone() };
                let a = at_mut(p, &site).as_array_mut().unwrap();
                let at = rng.below(a.len() + 1);
                a.insert(at, json!({"...": dg}));
                Some(json!({"site": site, "digest": dg}))
            }));
        }
        "sd-not-array-value" => {
            if !v.is_object() { return None; }
            let mut v2 = v.clone();
            v2["_sd"] = rng.pick(&[json!("x"), json!(1), json!({}), Value::Null, json!(true)]).clone();
            let d = match &key { Some(k) => json!([salt, k, v2]), None => json!([salt, v2]) };
            tree.set_disc(target, &b64j(&d));
        }
        "placeholder-extra-value" => {
            if !v.is_array() { return None; }
            let mut v2 = v.clone();
            v2.as_array_mut().unwrap().push(json!({"...": "zzzz", "q": 1}));
            let d = match &key { Some(k) => json!([salt, k, v2]), None => json!([salt, v2]) };
            tree.set_disc(target, &b64j(&d));
        }
        "sd-not-array-payload" => {
            payload_surgery = Some(Box::new(|p: &mut Value, rng: &mut Rng| {
                let (mut objs, mut arrs) = (Vec::new(), Vec::new());
                collect_sites(p, &mut Vec::new(), &mut objs, &mut arrs);
                let site = objs[rng.below(objs.len())].clone();
                let bad = rng.pick(&[json!("x"), json!(1), json!({}), Value::Null, json!(false)]).clone();
                at_mut(p, &site)["_sd"] = bad.clone();
                Some(json!({"site": site, "sd": bad}))
            }));
        }
        "placeholder-extra-payload" => {
            payload_surgery = Some(Box::new(|p: &mut Value, rng: &mut Rng| {
                let (mut objs, mut arrs) = (Vec::new(), Vec::new());
                collect_sites(p, &mut Vec::new(), &mut objs, &mut arrs);
                if arrs.is_empty() { return None; }
                let site = arrs[rng.below(arrs.len())].clone();
                let a = at_mut(p, &site).as_array_mut().unwrap();
                // give an existing placeholder an extra member, or add a new malformed one
                if let Some(ph) = a.iter_mut().find(|x| x.get("...").is_some()) {
                    ph["extra"] = json!(1);
                } else {
                    let at = rng.below(a.len() + 1);
                    a.insert(at, json!({"...": "zzzz", "extra": 1}));
                }
                Some(json!({"site": site}))
            }));
        }
        "sd-alg" => {
            payload_surgery = Some(Box::new(|p: &mut Value, rng: &mut Rng| {
                let bad = rng.pick(&[json!("md5"), json!("sha-1"), json!("SHA-256"), json!(""), json!("sha256"), json!(5), json!(["sha-256"]), json!("sha-256 "),
                    // names a lenient parser takes for a registered one
                    json!("sha-0256"), json!("sha-00256"), json!("sha-+256"), json!("sha-+384"), json!("sha-0512"), json!(" sha-256"), json!("sha-256\n"), json!("sha-256\u{0}"),
                    json!("Sha-256"), json!("sha_256"), json!("sha\u{2010}256"), json!("sha-2560"), json!("sha-25"), json!("sha-256-"), json!("sha-384 "), json!("SHA-512"),
                    json!("sha-256;sha-384"), json!("sha-224"), json!("sha3-256"), json!("sha-512/256"), json!(256), json!(null), json!(true), json!({"alg": "sha-256"})]).clone();
                p["_sd_alg"] = bad.clone();
                Some(json!({"_sd_alg": bad}))
            }));
        }
        _ => return None,
    }
    let spec = tree_op(ctx, &ic.sd_alg, &tree, None, &[]);
    let mut payload = spec["payload"].clone();
    payload["_sd_alg"] = json!(ic.sd_alg);
    if let Some(f) = payload_surgery {
        let d = f(&mut payload, rng)?;
        detail["surgery"] = d;
    }
    let mut discs: Vec<String> = spec["discs"].as_array().cloned().unwrap_or_default().iter().map(|d| d["str"].as_str().unwrap_or("").to_string()).collect();
    // a malformed disclosure that no digest references, somewhere in the list
    let extra: Option<Value> = match kind {
        "extra-unreferenced-name-type" => Some(json!(["s", rng.pick(&[json!(5), Value::Null, json!([1]), json!({}), json!(true)]).clone(), 1])),
        "extra-unreferenced-reserved" => Some(json!(["s", *rng.pick(&["_sd", "..."]), 1])),
        "extra-unreferenced-shape" => Some(rng.pick(&[json!([]), json!(["s"]), json!(["s", "k", 1, 2]), json!({"a": 1}), json!("x"), json!(3)]).clone()),
        _ => None,
    };
    if let Some(e) = extra {
        let at = rng.below(discs.len() + 1);
        detail["extra"] = e.clone();
        discs.insert(at, b64j(&e));
    }
    if kind == "extra-unreferenced-text" {
        // a string that is no base64url text at all (C12_foreign_character_rejected,
        // C12_dangling_character_rejected, C12_one_spelling): a well-formed disclosure re-spelled with
        // padding, the standard alphabet, white space, a dangling character or non-zero trailing bits
        let good = b64j(&json!(["s", "k", 1]));
        let mut with_bits = b64j(&json!(["s", "kk", 1]));
        let bad: String = match rng.below(7) {
            0 => format!("{}=", good),
            1 => format!("{}==", b64j(&json!(["s", "kk", 1]))),
            2 => format!("{}+", &good[..good.len() - 1]),
            3 => format!("{}/", &good[..good.len() - 1]),
            4 => format!(" {}", good),
            5 => { let mut g = good.clone(); while g.len() % 4 != 1 { g.push('A'); } g }
            _ => {
                // length 2 mod 4 or 3 mod 4: the last character carries unused bits; set one of them
                if with_bits.len() % 4 == 0 { with_bits = b64j(&json!(["s", "k", 1])); }
                let last = with_bits.pop().unwrap_or('A');
                const AL: &[u8] = b"ABCDEFGHIJKLMNOPQRSTUVWXYZabcdefghijklmnopqrstuvwxyz0123456789-_";
                let i = AL.iter().position(|c| *c as char == last).unwrap_or(0);
                with_bits.push(AL[i | 1] as char);
                if i | 1 == i { with_bits.push('='); }
                with_bits
            }
        };
        let at = rng.below(discs.len() + 1);
        detail["extra_text"] = json!(bad);
        discs.insert(at, bad);
    }
    Some(Defective { payload, discs, detail })
}

fn three_entries(ctx: &mut Ctx, token: &str, must_accept: bool, case: &Value, detail: &Value) {
    let dec = keys::dec_key(0, 0);
    let v = sdjwt::Validation::default().without_expiry().with_algorithm(Algorithm::HS256);
    let outs: Vec<(&str, &str, Out<()>)> = vec![
        ("Verifier::verify", "verifier_verify", real::verifier_verify(token, &dec, &v, None).map(|_| ())),
        ("Holder::verify", "holder_verify", real::holder_verify(token, &dec, &v).map(|_| ())),
        ("Holder::presentation", "holder_build", real::holder_present(token, &[], None, 1).map(|_| ())),
    ];
    for (entry, flow, out) in outs {
        ctx.report.bump(&format!("{}:{}:{}", if must_accept { "twin" } else { "defect" }, entry, out.class()));
        let kind = detail["kind"].as_str().unwrap_or("twin");
        match (&out, must_accept) {
            (Out::Ok(_), false) => ctx.report.diff("property", entry, &format!("{}:accepts:{}", entry, kind), case, json!({"defect": detail})),
            (Out::Err(..), true) => ctx.report.diff("property", entry, &format!("{}:rejects-conformant-twin", entry), case, json!({"real": out.describe(|_| Value::Null)})),
            (Out::Panic(site), _) => ctx.report.diff("property", entry, &format!("{}:panic:{}", entry, site.split(' ').next().unwrap_or("")), case, json!({"panic": site, "defect": detail})),
            _ => {}
        }
        let m = ctx.driver.ask(&json!({"op":"flow","entry":flow,"token":token,"jwt_ok":true,"redacted":[],"kb_params":Value::Null,"nonce":"","now":0,"policy":false}));
        let mclass = if m.get("ok").is_some() { "ok" } else if m.get("err").is_some() { "err" } else { "panic" };
        if mclass != out.class() {
            ctx.report.diff("correspondence", entry, &format!("{}:class:real-{}:model-{}", entry, out.class(), mclass), case,
                json!({"real": out.describe(|_| Value::Null), "model": m, "defect": detail}));
        }
        if (mclass == "ok") != must_accept {
            ctx.report.diff("internal", entry, &format!("{}:model-{}-on-{}", entry, mclass, if must_accept { "twin" } else { "defect" }), case, json!({"model": m, "defect": detail}));
        }
    }
}

fn sign(payload: &Value) -> Option<String> {
    let mut h = Header::new(Algorithm::HS256);
    h.typ = Some("sd-jwt".to_string());
    real::sign(&h, payload, &keys::enc_key(0, 0)).ok()
}

pub fn run_case(ctx: &mut Ctx, case: &Value, every_target: bool) {
    crate::real::set_current(case);
    ctx.report.evaluations += 1;
    let ic = match issue_ref(ctx, case) {
        Some(ic) => ic,
        None => return,
    };
    // the conformant twin must be accepted
    three_entries(ctx, &ic.token, true, case, &json!({"kind": "twin"}));
    // (a token that hides nothing offers no disclosure to give a defect to)
    if ic.marks.is_empty() { ctx.report.bump("token-hides-nothing"); return; }
    let mut rng = Rng::fork(ctx.seed ^ 0xC12, crate::report::hash_of(&case["tree"]));
    let plan: Vec<(String, usize)> = match (case.get("defect_kind").and_then(|k| k.as_str()), case.get("defect_target").and_then(|t| t.as_u64())) {
        (Some(k), Some(t)) => vec![(k.to_string(), t as usize)],
        _ => {
            let mut p = Vec::new();
            for k in KINDS {
                if every_target {
                    for m in &ic.marks { p.push((k.to_string(), m.id)); }
                } else {
                    p.push((k.to_string(), ic.marks[rng.below(ic.marks.len())].id));
                }
            }
            p
        }
    };
    for (kind, target) in plan {
        let def = match make_defect(ctx, &mut rng, &ic, &kind, target) {
            Some(d) => d,
            None => { ctx.report.bump(&format!("defect:{}:not-applicable-here", kind)); continue; }
        };
        let jwt = match sign(&def.payload) { Some(j) => j, None => continue };
        let token = format!("{}~{}{}", jwt, def.discs.join("~"), if def.discs.is_empty() { "" } else { "~" });
        let mut c2 = case.clone();
        c2["defect_kind"] = json!(kind);
        c2["defect_target"] = json!(target);
        real::set_current(&c2);
        let depth = mark_by_id(&ic.marks, target).depth;
        let nested = !mark_by_id(&ic.marks, target).ancestors.is_empty();
        ctx.report.bump(&format!("defect:{}", kind));
        ctx.report.bump(&format!("defect-depth:{}", depth.min(4)));
        if nested { ctx.report.bump("defect-inside-disclosure"); }
        ctx.report.nontrivial_case(&json!([case["tree"], kind, target]));
        // the same issuer-signed JWT is first looked at with no disclosure at all (result not judged here): what a
        // verifier learnt about a payload then says nothing about the values of disclosures it has not seen yet
        {
            let dec = keys::dec_key(0, 0);
            let v = sdjwt::Validation::default().without_expiry().with_algorithm(Algorithm::HS256);
            let _ = real::verifier_verify(&format!("{}~", jwt), &dec, &v, None);
        }
        three_entries(ctx, &token, false, &c2, &def.detail);
        // a defect of the signed payload itself is there whatever is presented: also with no disclosure at all
        // (a repeated digest only if both embeddings are in the payload: one inside a hidden claim is not there to see)
        let twice_in_payload = {
            let dg = ic.spec_disc(target)["digest"].as_str().unwrap_or("").to_string();
            let text = serde_json::to_string(&def.payload).unwrap_or_default();
            !dg.is_empty() && text.matches(&format!("\"{}\"", dg)).count() >= 2
        };
        if matches!(kind.as_str(), "sd-not-array-payload" | "placeholder-extra-payload" | "sd-alg") || (matches!(kind.as_str(), "digest-twice" | "digest-twice-in-arrays") && twice_in_payload) {
            let mut c3 = c2.clone();
            c3["no_disclosures"] = json!(true);
            real::set_current(&c3);
            ctx.report.bump(&format!("defect:{}:no-disclosures-presented", kind));
            three_entries(ctx, &format!("{}~", jwt), false, &c3, &def.detail);
        }
        // the independent verifier must reject it too (otherwise the seeded defect is not one)
        if kind != "sd-alg" {
            let resp = restore_op(ctx, &ic.sd_alg, &def.payload, &def.discs);
            if resp["ref"].get("rej").is_none() {
                ctx.report.diff("internal", "RefVerify", &format!("RefVerify:accepts:{}", kind), &c2, json!({"ref": resp["ref"], "defect": def.detail}));
            }
        }
    }
}

pub fn run(ctx: &mut Ctx, replay: Option<&Value>) {
    ctx.report.rule = "reference-issued unbound tokens (Lean spec issuer) given exactly one defect, validly signed: disclosure of wrong arity for its place / not an array / arity 0,1,4; name not a string / reserved; name equal to a sibling member; a digest embedded twice (in `_sd`, or in two array placeholders); _sd not an array and placeholder with extra members (in the payload at a random object/array at any depth, and inside a disclosure's value); unsupported _sd_alg (other types, unregistered names, look-alikes of the registered names: leading zeros / sign / case / blanks / unicode hyphen); target mark random (thorough: every mark); all disclosures presented, right after the same JWT was verified with none (payload-level defects are also judged with none); Verifier::verify, Holder::verify, Holder::presentation must all return Err and accept the twin; non-trivial = distinct (tree, defect kind, target)".to_string();
    if let Some(case) = replay {
        run_case(ctx, case, false);
        return;
    }
    let n = ctx.count(800, 1_500);
    for i in 0..n {
        let mut rng = Rng::fork(ctx.seed, i);
        let case = gen_ref_case(&mut rng, ctx.tier_thorough, 0);
        let every = ctx.tier_thorough;
        run_case(ctx, &case, every);
    }
}

#[allow(dead_code)]
fn _unused(_: Elem) {}
