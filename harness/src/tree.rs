//! Marked claims trees: the harness's own representation of (claims C, marking M), the
//! generators of DESIGN §1.5, and the wire form understood by the Lean driver.
use crate::prng::Rng;
use serde_json::{json, Map, Value};

#[derive(Clone, Debug)]
pub enum Mark {
    Clear,
    /// disclosable node; `disc` is the disclosure string once known (own issuer: harvested)
    Marked { id: usize, salt: String, fmt: u8, disc: Option<String> },
    /// array decoy placeholder (reference-issued tokens only)
    Decoy(String),
}

#[derive(Clone, Debug)]
pub struct Elem {
    pub mark: Mark,
    pub node: Node,
}

#[derive(Clone, Debug)]
pub struct Mem {
    pub key: String,
    pub mark: Mark,
    pub node: Node,
}

#[derive(Clone, Debug, Default)]
pub struct SdExtra {
    pub decoys: Vec<String>,
    pub rot: usize,
    pub emptysd: bool,
}

#[derive(Clone, Debug)]
pub enum Node {
    Leaf(Value),
    Arr(Vec<Elem>),
    /// members sorted by key, unique keys
    Obj(Vec<Mem>, SdExtra),
}

#[derive(Clone, Debug)]
pub struct MarkInfo {
    pub id: usize,
    /// JSON pointer of the node in the original claims (= in the payload when arrays hold no decoys)
    pub path: String,
    /// pointer in the payload (array indices count decoy placeholders)
    pub payload_path: String,
    pub key: Option<String>,
    /// ids of the enclosing marked nodes, outermost first
    pub ancestors: Vec<usize>,
    pub depth: usize,
    pub in_array: bool,
}

pub fn escape(seg: &str) -> String {
    seg.replace('~', "~0").replace('/', "~1")
}

impl Node {
    pub fn plain(&self) -> Value {
        match self {
            Node::Leaf(v) => v.clone(),
            Node::Arr(xs) => Value::Array(
                xs.iter()
                    .filter(|e| !matches!(e.mark, Mark::Decoy(_)))
                    .map(|e| e.node.plain())
                    .collect(),
            ),
            Node::Obj(ms, _) => {
                let mut m = Map::new();
                for mem in ms {
                    m.insert(mem.key.clone(), mem.node.plain());
                }
                Value::Object(m)
            }
        }
    }

    /// the claims with the marked nodes whose id is not in `shown` (and everything inside) absent
    pub fn project(&self, shown: &dyn Fn(usize) -> bool) -> Value {
        match self {
            Node::Leaf(v) => v.clone(),
            Node::Arr(xs) => Value::Array(
                xs.iter()
                    .filter(|e| match &e.mark {
                        Mark::Clear => true,
                        Mark::Marked { id, .. } => shown(*id),
                        Mark::Decoy(_) => false,
                    })
                    .map(|e| e.node.project(shown))
                    .collect(),
            ),
            Node::Obj(ms, _) => {
                let mut m = Map::new();
                for mem in ms {
                    let keep = match &mem.mark {
                        Mark::Marked { id, .. } => shown(*id),
                        _ => true,
                    };
                    if keep {
                        m.insert(mem.key.clone(), mem.node.project(shown));
                    }
                }
                Value::Object(m)
            }
        }
    }

    fn mark_wire(mark: &Mark, o: &mut Map<String, Value>) {
        match mark {
            Mark::Clear => {
                o.insert("m".into(), json!("c"));
            }
            Mark::Marked { id, salt, fmt, disc } => {
                o.insert("m".into(), json!("m"));
                o.insert("id".into(), json!(id));
                match disc {
                    Some(d) => {
                        o.insert("disc".into(), json!(d));
                    }
                    None => {
                        o.insert("salt".into(), json!(salt));
                        o.insert("fmt".into(), json!(fmt));
                    }
                }
            }
            Mark::Decoy(dg) => {
                o.insert("m".into(), json!("d"));
                o.insert("dg".into(), json!(dg));
            }
        }
    }

    pub fn to_wire(&self) -> Value {
        match self {
            Node::Leaf(v) => json!({"t":"leaf","v":v}),
            Node::Arr(xs) => {
                let items: Vec<Value> = xs
                    .iter()
                    .map(|e| {
                        let mut o = Map::new();
                        Node::mark_wire(&e.mark, &mut o);
                        if !matches!(e.mark, Mark::Decoy(_)) {
                            o.insert("x".into(), e.node.to_wire());
                        }
                        Value::Object(o)
                    })
                    .collect();
                json!({"t":"arr","xs":items})
            }
            Node::Obj(ms, extra) => {
                let items: Vec<Value> = ms
                    .iter()
                    .map(|m| {
                        let mut o = Map::new();
                        o.insert("k".into(), json!(m.key));
                        Node::mark_wire(&m.mark, &mut o);
                        o.insert("x".into(), m.node.to_wire());
                        Value::Object(o)
                    })
                    .collect();
                json!({"t":"obj","ms":items,"decoys":extra.decoys,"rot":extra.rot,"emptysd":extra.emptysd})
            }
        }
    }

    pub fn marks(&self) -> Vec<MarkInfo> {
        let mut out = Vec::new();
        self.collect_marks("", "", &mut Vec::new(), 0, &mut out);
        out
    }

    fn collect_marks(&self, path: &str, ppath: &str, anc: &mut Vec<usize>, depth: usize, out: &mut Vec<MarkInfo>) {
        match self {
            Node::Leaf(_) => {}
            Node::Arr(xs) => {
                let mut oi = 0usize;
                for (pi, e) in xs.iter().enumerate() {
                    if let Mark::Decoy(_) = e.mark {
                        continue;
                    }
                    let p = format!("{}/{}", path, oi);
                    let pp = format!("{}/{}", ppath, pi);
                    oi += 1;
                    if let Mark::Marked { id, .. } = &e.mark {
                        out.push(MarkInfo { id: *id, path: p.clone(), payload_path: pp.clone(), key: None, ancestors: anc.clone(), depth, in_array: true });
                        anc.push(*id);
                        e.node.collect_marks(&p, &pp, anc, depth + 1, out);
                        anc.pop();
                    } else {
                        e.node.collect_marks(&p, &pp, anc, depth + 1, out);
                    }
                }
            }
            Node::Obj(ms, _) => {
                for m in ms {
                    let p = format!("{}/{}", path, escape(&m.key));
                    let pp = format!("{}/{}", ppath, escape(&m.key));
                    if let Mark::Marked { id, .. } = &m.mark {
                        out.push(MarkInfo { id: *id, path: p.clone(), payload_path: pp.clone(), key: Some(m.key.clone()), ancestors: anc.clone(), depth, in_array: false });
                        anc.push(*id);
                        m.node.collect_marks(&p, &pp, anc, depth + 1, out);
                        anc.pop();
                    } else {
                        m.node.collect_marks(&p, &pp, anc, depth + 1, out);
                    }
                }
            }
        }
    }

    pub fn for_each_mark_mut(&mut self, f: &mut dyn FnMut(&mut Mark)) {
        match self {
            Node::Leaf(_) => {}
            Node::Arr(xs) => {
                for e in xs.iter_mut() {
                    f(&mut e.mark);
                    e.node.for_each_mark_mut(f);
                }
            }
            Node::Obj(ms, _) => {
                for m in ms.iter_mut() {
                    f(&mut m.mark);
                    m.node.for_each_mark_mut(f);
                }
            }
        }
    }

    pub fn set_disc(&mut self, target: usize, d: &str) {
        self.for_each_mark_mut(&mut |m| {
            if let Mark::Marked { id, disc, .. } = m {
                if *id == target {
                    *disc = Some(d.to_string());
                }
            }
        });
    }

    pub fn count_nodes(&self) -> usize {
        match self {
            Node::Leaf(_) => 1,
            Node::Arr(xs) => 1 + xs.iter().map(|e| e.node.count_nodes()).sum::<usize>(),
            Node::Obj(ms, _) => 1 + ms.iter().map(|m| m.node.count_nodes()).sum::<usize>(),
        }
    }

    pub fn depth(&self) -> usize {
        match self {
            Node::Leaf(_) => 0,
            Node::Arr(xs) => 1 + xs.iter().map(|e| e.node.depth()).max().unwrap_or(0),
            Node::Obj(ms, _) => 1 + ms.iter().map(|m| m.node.depth()).max().unwrap_or(0),
        }
    }
}

/// a random order of the marked nodes in which every node comes after all marked nodes inside it
pub fn descendants_first_order(marks: &[MarkInfo], rng: &mut Rng) -> Vec<usize> {
    let mut remaining: Vec<&MarkInfo> = marks.iter().collect();
    let mut out = Vec::new();
    while !remaining.is_empty() {
        // eligible: no remaining node has it as an ancestor
        let eligible: Vec<usize> = (0..remaining.len())
            .filter(|&i| !remaining.iter().any(|m| m.ancestors.contains(&remaining[i].id)))
            .collect();
        let pick = eligible[rng.below(eligible.len())];
        out.push(remaining[pick].id);
        remaining.remove(pick);
    }
    out
}

pub struct GenCfg {
    pub max_depth: usize,
    pub max_fanout: usize,
    /// probability (out of 100) that a non-root node is marked
    pub mark_pct: u32,
    pub unsafe_keys: bool,
    /// reference-issuer features: decoys at any level, `_sd` rotation, salts/formatting
    pub reference: bool,
    pub sentinels: bool,
}

const SAFE_KEYS: &[&str] = &[
    "", "0", "1", "00", "10", "a", "b", "c", "a b", "é", "_", "_s", "_sdx", "_sc", "_se", ".", "..", "....", "sd",
    "cnf2", "A", "Z", "^", "`", "name", "addr", "addr2", "street", "n", "k", "given_name", "a.b", "x-y",
    "aaaaaaaaaaaaaaaaaaaaaaaaaaaaaaaaaaaaaaaaaaaaaaaaaaaaaaaaaaaaaaaaaaaaaaaaaaaaaaaaaaaaaaaaaaaaaaaaaaaa",
    "sub", "iss", "aud", "iat", "nbf", "日本", "<<", "vct",
];
/// names with characters that naive escaping gets wrong: combining mark (NFD), no-break space,
/// zero-width space, C0 control, surrogate-pair character, quote and backslash
const ODD_KEYS: &[&str] = &["pre\u{301}nom", "a\u{a0}b", "z\u{200b}", "\u{1}ctl", "tab\tk", "q\"uote", "back\\slash", "\u{1f600}", "nl\nk", "e\u{301}\u{302}"];
const UNSAFE_KEYS: &[&str] = &["a/b", "~", "a~1b", "m~0n", "/", "//", "~0", "~1", "x/", "/x", "a~b/c"];

fn gen_scalar(rng: &mut Rng, counter: &mut usize, sentinels: bool) -> Value {
    if sentinels {
        *counter += 1;
        return json!(format!("VAL*{}*", counter));
    }
    match rng.below(17) {
        0 => Value::Null,
        1 => json!(true),
        2 => json!(false),
        3 => json!(0),
        4 => json!(1),
        5 => json!(-1),
        6 => json!(1570000000),
        7 => if rng.chance(1, 2) { json!(1.5) } else { json!(180.0) },   // a float with no fraction stays a float
        8 => json!(""),
        9 => json!("US"),
        10 => json!("..."),
        11 => json!("_sd"),
        12 => json!("jsu9yVulwQQlhFlM_3JlzMaSFzglhQG0DpfayQwLUK4"),
        13 => json!(u64::MAX),
        14 => json!(i64::MAX as u64 + 1),
        15 => json!(i64::MIN),
        _ => json!("x"),
    }
}

fn gen_key(rng: &mut Rng, cfg: &GenCfg, counter: &mut usize) -> String {
    if cfg.sentinels {
        *counter += 1;
        // sentinel names, a quarter of them with characters that need JSON-pointer escaping
        return match rng.below(12) {
            0 => format!("KEY/*{}*", counter),
            1 => format!("KEY~*{}*", counter),
            // a business claim that merely shares its name with a registered JWT / SD-JWT VC claim (its value is still
            // a sentinel): an issuer that treats such names specially must not leave the claim in the clear
            2 => rng.pick(&["status", "iss", "nbf", "vct", "sub", "aud", "iat", "jti"]).to_string(),
            _ => format!("KEY*{}*", counter),
        };
    }
    if cfg.unsafe_keys && rng.chance(1, 3) {
        rng.pick(UNSAFE_KEYS).to_string()
    } else if rng.chance(1, 12) {
        rng.pick(ODD_KEYS).to_string()
    } else {
        rng.pick(SAFE_KEYS).to_string()
    }
}

fn gen_mark(rng: &mut Rng, cfg: &GenCfg, next_id: &mut usize) -> Mark {
    if rng.chance(cfg.mark_pct, 100) {
        let id = *next_id;
        *next_id += 1;
        let salt_len = if cfg.reference { *rng.pick(&[0usize, 1, 8, 22, 22, 22, 64]) } else { 22 };
        let alphabet: Vec<char> = "ABCDEFGHIJKLMNOPQRSTUVWXYZabcdefghijklmnopqrstuvwxyz0123456789-_".chars().collect();
        let mut salt: String = (0..salt_len).map(|_| *rng.pick(&alphabet)).collect();
        if cfg.reference {
            // keep salts distinct even when short
            salt.push_str(&format!("{}", id));
            // a salt is any string: one in six is not base64url text (padded standard base64, dots, blanks, a word)
            if rng.chance(1, 6) { salt.push_str(*rng.pick(&["+/==", "a.b.c", " two words ", "=", "ÿ", "%7E", "\"q\""])); }
        }
        Mark::Marked { id, salt, fmt: if cfg.reference { rng.below(4) as u8 } else { 0 }, disc: None }
    } else {
        Mark::Clear
    }
}

fn fake_digest(rng: &mut Rng) -> String {
    let alphabet: Vec<char> = "ABCDEFGHIJKLMNOPQRSTUVWXYZabcdefghijklmnopqrstuvwxyz0123456789-_".chars().collect();
    (0..43).map(|_| *rng.pick(&alphabet)).collect()
}

fn gen_node(rng: &mut Rng, cfg: &GenCfg, depth: usize, next_id: &mut usize, counter: &mut usize, force_obj: bool) -> Node {
    let kind = if force_obj {
        2
    } else if depth >= cfg.max_depth {
        0
    } else {
        match rng.below(10) {
            0..=4 => 0,
            5..=6 => 1,
            _ => 2,
        }
    };
    match kind {
        0 => Node::Leaf(gen_scalar(rng, counter, cfg.sentinels)),
        1 => {
            // now and then an array with more than ten elements (indices 1 and 10.. share a prefix)
            let long = depth >= 1 && rng.chance(1, 14);
            let n = if long { 11 + rng.below(3) } else { rng.below(cfg.max_fanout + 1) };
            let mut xs = Vec::new();
            for _ in 0..n {
                if long {
                    let mark = gen_mark(rng, cfg, next_id);
                    xs.push(Elem { mark, node: Node::Leaf(gen_scalar(rng, counter, cfg.sentinels)) });
                    continue;
                }
                if cfg.reference && rng.chance(1, 8) {
                    xs.push(Elem { mark: Mark::Decoy(fake_digest(rng)), node: Node::Leaf(Value::Null) });
                    continue;
                }
                let mark = gen_mark(rng, cfg, next_id);
                let node = gen_node(rng, cfg, depth + 1, next_id, counter, false);
                // equal sibling values now and then
                xs.push(Elem { mark, node });
            }
            if xs.len() >= 2 && rng.chance(1, 4) && !cfg.sentinels {
                if let Node::Leaf(v) = xs[0].node.clone() {
                    let last = xs.len() - 1;
                    if let Node::Leaf(_) = xs[last].node {
                        xs[last].node = Node::Leaf(v);
                    }
                }
            }
            Node::Arr(xs)
        }
        _ => {
            let n = if force_obj { 1 + rng.below(cfg.max_fanout) } else { rng.below(cfg.max_fanout + 1) };
            let mut ms: Vec<Mem> = Vec::new();
            for _ in 0..n {
                let mut key = gen_key(rng, cfg, counter);
                // one member in six is named after a sibling plus a suffix (`name`, `name_x`): a
                // string prefix that is not an ancestor
                if !ms.is_empty() && rng.chance(1, 6) {
                    let base = ms[rng.below(ms.len())].key.clone();
                    key = if cfg.sentinels { *counter += 1; format!("{}_S*{}*", base, counter) } else { format!("{}{}", base, rng.pick(&["_x", "0", "1", " ", "x"])) };
                }
                if ms.iter().any(|m| m.key == key) {
                    continue;
                }
                let mark = gen_mark(rng, cfg, next_id);
                let node = gen_node(rng, cfg, depth + 1, next_id, counter, false);
                ms.push(Mem { key, mark, node });
            }
            ms.sort_by(|a, b| a.key.as_bytes().cmp(b.key.as_bytes()));
            let mut extra = SdExtra::default();
            if cfg.reference {
                let nd = if rng.chance(1, 3) { rng.below(4) } else { 0 };
                for _ in 0..nd {
                    extra.decoys.push(fake_digest(rng));
                }
                extra.rot = rng.below(8);
                extra.emptysd = rng.chance(1, 10);
            }
            Node::Obj(ms, extra)
        }
    }
}

/// ids are assigned in generation order; renumber them in document (pre-)order so that the
/// harness, the wire form and the driver agree without further bookkeeping
fn renumber(node: &mut Node) -> usize {
    let mut next = 0usize;
    node.for_each_mark_mut(&mut |m| {
        if let Mark::Marked { id, .. } = m {
            *id = next;
            next += 1;
        }
    });
    next
}

fn forced_mark(rng: &mut Rng, cfg: &GenCfg, next_id: &mut usize) -> Mark {
    let all = GenCfg { mark_pct: 100, ..*cfg_copy(cfg) };
    gen_mark(rng, &all, next_id)
}

fn cfg_copy(cfg: &GenCfg) -> Box<GenCfg> {
    Box::new(GenCfg { max_depth: cfg.max_depth, max_fanout: cfg.max_fanout, mark_pct: cfg.mark_pct, unsafe_keys: cfg.unsafe_keys, reference: cfg.reference, sentinels: cfg.sentinels })
}

/// a top-level member holding a chain (see `gen_tree`)
fn gen_chain(rng: &mut Rng, cfg: &GenCfg, next_id: &mut usize, counter: &mut usize) -> (String, Mark, Node) {
    // one chain in four is a bush instead: 6-8 members, each a run of 3-4 disclosable claims nested one inside
    // the other (more than twenty disclosures over several levels)
    if !cfg.sentinels && rng.chance(1, 4) {
        let n = 6 + rng.below(3);
        let mut ms: Vec<Mem> = Vec::new();
        for b in 0..n {
            let mut node = Node::Leaf(gen_scalar(rng, counter, false));
            let mut mark = forced_mark(rng, cfg, next_id);
            for _ in 0..(2 + rng.below(2)) {
                node = Node::Obj(vec![Mem { key: rng.pick(&["a", "b", "k", "name"]).to_string(), mark, node }], SdExtra::default());
                mark = forced_mark(rng, cfg, next_id);
            }
            ms.push(Mem { key: format!("m{}", b), mark, node });
        }
        return ("bush".to_string(), Mark::Clear, Node::Obj(ms, SdExtra::default()));
    }
    let nested_marks = rng.chance(1, 2);
    let depth = if nested_marks { 6 + rng.below(4) } else { 18 + rng.below(7) };
    // built from the bottom up
    let mut node = Node::Leaf(gen_scalar(rng, counter, cfg.sentinels));
    let mut mark = forced_mark(rng, cfg, next_id);
    for level in 0..depth {
        let as_array = !nested_marks && level % 3 == 1;
        let inner = if as_array {
            Node::Arr(vec![Elem { mark, node }])
        } else {
            let mut ms = vec![Mem { key: gen_key(rng, cfg, counter), mark, node }];
            if rng.chance(1, 3) {
                let k = gen_key(rng, cfg, counter);
                if k != ms[0].key { ms.push(Mem { key: k, mark: Mark::Clear, node: Node::Leaf(gen_scalar(rng, counter, cfg.sentinels)) }); }
            }
            ms.sort_by(|a, b| a.key.as_bytes().cmp(b.key.as_bytes()));
            Node::Obj(ms, SdExtra::default())
        };
        node = inner;
        mark = if nested_marks { forced_mark(rng, cfg, next_id) } else { Mark::Clear };
    }
    (gen_key(rng, cfg, counter), mark, node)
}

impl Node {
    /// put a clear top-level member, or replace a clear *leaf* of that name by it; a member of that name that is
    /// disclosable or a container is left alone (replacing it would take its marks, and those inside it, away:
    /// the tree must keep the number of marks it was generated with)
    pub fn set_top_member(&mut self, key: &str, v: Value) {
        if let Node::Obj(ms, _) = self {
            ms.retain(|m| m.key != key || !(matches!(m.mark, Mark::Clear) && matches!(m.node, Node::Leaf(_))));
            if ms.iter().any(|m| m.key == key) { return; }
            ms.push(Mem { key: key.to_string(), mark: Mark::Clear, node: Node::Leaf(v) });
            ms.sort_by(|a, b| a.key.as_bytes().cmp(b.key.as_bytes()));
        }
    }
}

/// a random claims object with a random marking; at least `min_marks` marks
pub fn gen_tree(rng: &mut Rng, cfg: &GenCfg, min_marks: usize) -> Node {
    loop {
        let mut next_id = 0;
        let mut counter = 0;
        let mut t = gen_node(rng, cfg, 0, &mut next_id, &mut counter, true);
        // one tree in sixteen also carries a chain: either deep (18-24 levels of objects and one-element arrays,
        // a disclosable leaf at the bottom) or a run of 6-9 disclosable claims nested one inside the other
        if rng.chance(1, 16) {
            let (key, mark, node) = gen_chain(rng, cfg, &mut next_id, &mut counter);
            if let Node::Obj(ms, _) = &mut t {
                if !ms.iter().any(|m| m.key == key) {
                    ms.push(Mem { key, mark, node });
                    ms.sort_by(|a, b| a.key.as_bytes().cmp(b.key.as_bytes()));
                }
            }
        }
        let n = renumber(&mut t);
        if n >= min_marks {
            return t;
        }
    }
}

impl Node {
    /// inverse of `to_wire` (for replays)
    pub fn from_wire(v: &Value) -> Node {
        fn mark_of(o: &Value) -> Mark {
            match o["m"].as_str().unwrap_or("c") {
                "m" => Mark::Marked {
                    id: o["id"].as_u64().unwrap_or(0) as usize,
                    salt: o["salt"].as_str().unwrap_or("").to_string(),
                    fmt: o["fmt"].as_u64().unwrap_or(0) as u8,
                    disc: o["disc"].as_str().map(|s| s.to_string()),
                },
                "d" => Mark::Decoy(o["dg"].as_str().unwrap_or("").to_string()),
                _ => Mark::Clear,
            }
        }
        match v["t"].as_str().unwrap_or("leaf") {
            "arr" => Node::Arr(
                v["xs"].as_array().cloned().unwrap_or_default().iter()
                    .map(|e| Elem { mark: mark_of(e), node: if e.get("x").is_some() { Node::from_wire(&e["x"]) } else { Node::Leaf(Value::Null) } })
                    .collect(),
            ),
            "obj" => {
                let mut ms: Vec<Mem> = v["ms"].as_array().cloned().unwrap_or_default().iter()
                    .map(|m| Mem { key: m["k"].as_str().unwrap_or("").to_string(), mark: mark_of(m), node: Node::from_wire(&m["x"]) })
                    .collect();
                ms.sort_by(|a, b| a.key.as_bytes().cmp(b.key.as_bytes()));
                Node::Obj(ms, SdExtra {
                    decoys: v["decoys"].as_array().cloned().unwrap_or_default().iter().filter_map(|d| d.as_str().map(|s| s.to_string())).collect(),
                    rot: v["rot"].as_u64().unwrap_or(0) as usize,
                    emptysd: v["emptysd"].as_bool().unwrap_or(false),
                })
            }
            _ => Node::Leaf(v["v"].clone()),
        }
    }
}

/// What `Node::harvest` found in an own-issued token.
#[derive(Clone, Debug, Default)]
pub struct Harvest {
    /// marks whose disclosure was found by following the digests
    pub assigned: usize,
    /// every digest (in an `_sd` list or an array placeholder, at any depth, also inside disclosed
    /// values) that is the digest of none of the token's disclosures
    pub decoys: Vec<String>,
    /// how many of them stand elsewhere than in the top-level `_sd`
    pub decoys_not_top: usize,
}

pub fn sha256_b64(s: &str) -> String {
    digest_b64("sha-256", s)
}

/// base64url of the hash of `s` under an `_sd_alg` name (unknown names hash as sha-256; callers check the name)
pub fn digest_b64(alg: &str, s: &str) -> String {
    use sha2::{Digest, Sha256, Sha384, Sha512};
    match alg {
        "sha-384" => crate::real::b64url_encode(&Sha384::digest(s.as_bytes())),
        "sha-512" => crate::real::b64url_encode(&Sha512::digest(s.as_bytes())),
        _ => crate::real::b64url_encode(&Sha256::digest(s.as_bytes())),
    }
}

/// the digest algorithm a payload declares (`_sd_alg`; absent = the specification's default sha-256);
/// `None` when it declares something else than the three supported names
pub fn declared_sd_alg(payload: &Value) -> Option<String> {
    match payload.get("_sd_alg") {
        None => Some("sha-256".to_string()),
        Some(Value::String(s)) if ["sha-256", "sha-384", "sha-512"].contains(&s.as_str()) => Some(s.clone()),
        _ => None,
    }
}

fn placeholder_digest(v: &Value) -> Option<String> {
    v.as_object().filter(|o| o.len() == 1).and_then(|o| o.get("...")).and_then(|d| d.as_str()).map(|s| s.to_string())
}

type DiscTable = std::collections::HashMap<String, (usize, Vec<Value>)>;

impl Node {
    /// Own-issued tokens: decide which disclosure belongs to which marked node by following the
    /// digests from the payload (a member's disclosure is the one listed in its object's `_sd` that
    /// names it, an element's the one in its placeholder), and record every other digest as a decoy
    /// where it stands (`_sd` content of any object, extra array placeholders). Nothing is assumed
    /// about the order of the disclosures in the token or about where decoys go. This is witness
    /// search only: the Lean driver recomputes digests, payload and well-formedness from the result,
    /// and the comparison with the real payload is made on that.
    pub fn harvest(&mut self, payload: &Value, discs: &[String], alg: &str) -> Harvest {
        let mut table: DiscTable = Default::default();
        for (i, d) in discs.iter().enumerate() {
            let decoded = crate::real::b64url_decode(d)
                .and_then(|b| serde_json::from_slice::<Value>(&b).ok())
                .and_then(|v| v.as_array().cloned())
                .unwrap_or_default();
            table.entry(digest_b64(alg, d)).or_insert((i, decoded));
        }
        self.for_each_mark_mut(&mut |m| if let Mark::Marked { disc, .. } = m { *disc = None; });
        let mut h = Harvest::default();
        let mut used = std::collections::HashSet::new();
        self.harvest_in(payload, discs, &table, &mut used, &mut h, true);
        h
    }

    fn harvest_in(&mut self, real: &Value, discs: &[String], table: &DiscTable, used: &mut std::collections::HashSet<usize>, h: &mut Harvest, top: bool) {
        match self {
            Node::Leaf(_) => {}
            Node::Obj(ms, extra) => {
                let obj = match real.as_object() { Some(o) => o, None => return };
                let sd: Vec<String> = obj.get("_sd").and_then(|v| v.as_array())
                    .map(|a| a.iter().filter_map(|x| x.as_str().map(|s| s.to_string())).collect()).unwrap_or_default();
                let mut taken: Vec<String> = Vec::new();
                for m in ms.iter_mut() {
                    match &mut m.mark {
                        Mark::Marked { disc, .. } => {
                            let hit = sd.iter().find(|g| !taken.contains(*g) && table.get(*g)
                                .map_or(false, |(i, a)| !used.contains(i) && a.len() == 3 && a[1].as_str() == Some(m.key.as_str()))).cloned();
                            if let Some(g) = hit {
                                let (i, a) = &table[&g];
                                used.insert(*i);
                                taken.push(g.clone());
                                *disc = Some(discs[*i].clone());
                                h.assigned += 1;
                                m.node.harvest_in(&a[2], discs, table, used, h, false);
                            }
                        }
                        _ => {
                            if let Some(v) = obj.get(&m.key) { m.node.harvest_in(v, discs, table, used, h, false); }
                        }
                    }
                }
                let rest: Vec<String> = sd.iter().filter(|g| !taken.contains(*g)).cloned().collect();
                for g in &rest {
                    if !table.contains_key(g) {
                        h.decoys.push(g.clone());
                        if !top { h.decoys_not_top += 1; }
                    }
                }
                extra.decoys = rest;
                extra.rot = 0;
                extra.emptysd = obj.get("_sd").and_then(|v| v.as_array()).map_or(false, |a| a.is_empty());
            }
            Node::Arr(xs) => {
                let arr = match real.as_array() { Some(a) => a, None => return };
                let mut pending: std::collections::VecDeque<Elem> = std::mem::take(xs).into_iter().filter(|e| !matches!(e.mark, Mark::Decoy(_))).collect();
                let mut out: Vec<Elem> = Vec::new();
                for (ri, rv) in arr.iter().enumerate() {
                    let surplus = arr.len() - ri > pending.len();
                    let unknown = placeholder_digest(rv).filter(|g| !table.contains_key(g));
                    // an extra placeholder with a digest of no disclosure: a decoy element
                    let as_decoy = match (&unknown, pending.front()) {
                        (Some(_), None) => true,
                        (Some(_), Some(e)) => surplus && (!matches!(e.mark, Mark::Clear) || &e.node.plain() != rv),
                        _ => false,
                    };
                    if as_decoy {
                        let g = unknown.unwrap();
                        h.decoys.push(g.clone());
                        h.decoys_not_top += 1;
                        out.push(Elem { mark: Mark::Decoy(g), node: Node::Leaf(Value::Null) });
                        continue;
                    }
                    let mut e = match pending.pop_front() { Some(e) => e, None => continue };
                    match &mut e.mark {
                        Mark::Marked { disc, .. } => {
                            let hit = placeholder_digest(rv).filter(|g| table.get(g).map_or(false, |(i, a)| !used.contains(i) && a.len() == 2));
                            if let Some(g) = hit {
                                let (i, a) = &table[&g];
                                used.insert(*i);
                                *disc = Some(discs[*i].clone());
                                h.assigned += 1;
                                e.node.harvest_in(&a[1], discs, table, used, h, false);
                            }
                        }
                        _ => e.node.harvest_in(rv, discs, table, used, h, false),
                    }
                    out.push(e);
                }
                out.extend(pending);
                *xs = out;
            }
        }
    }

    pub fn disc_of_mark(&mut self, target: usize) -> Option<String> {
        let mut r = None;
        self.for_each_mark_mut(&mut |m| if let Mark::Marked { id, disc: Some(d), .. } = m { if *id == target { r = Some(d.clone()); } });
        r
    }

    /// ids of the marked nodes that have no disclosure string yet
    pub fn unassigned(&mut self) -> Vec<usize> {
        let mut v = Vec::new();
        self.for_each_mark_mut(&mut |m| if let Mark::Marked { id, disc: None, .. } = m { v.push(*id); });
        v
    }
}

/// `(payload, disclosure values)` with every digest in `decoys` taken out of `_sd` lists and array
/// placeholders (an empty `_sd` list goes too): what two payloads that differ only in where
/// their decoys stand have in common
pub fn strip_decoys(v: &Value, decoys: &[String]) -> Value {
    match v {
        Value::Object(m) => {
            let mut out = Map::new();
            for (k, x) in m {
                if k == "_sd" {
                    if let Value::Array(a) = x {
                        let kept: Vec<Value> = a.iter().filter(|d| d.as_str().map_or(true, |s| !decoys.iter().any(|g| g == s))).cloned().collect();
                        if !kept.is_empty() { out.insert(k.clone(), Value::Array(kept)); }
                        continue;
                    }
                }
                out.insert(k.clone(), strip_decoys(x, decoys));
            }
            Value::Object(out)
        }
        Value::Array(a) => Value::Array(a.iter()
            .filter(|x| placeholder_digest(x).map_or(true, |g| !decoys.contains(&g)))
            .map(|x| strip_decoys(x, decoys)).collect()),
        _ => v.clone(),
    }
}
