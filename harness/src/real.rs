//! Calls into the real crate (`sdjwt`, built from /repo's working tree), each under
//! `catch_unwind`, results reduced to the canonical forms the comparisons use.
use sdjwt::{
    Algorithm, Error, Header, Holder, Issuer, Jwk, KeyForDecoding, KeyForEncoding, Validation, Verifier,
};
use serde_json::{json, Value};
use std::cell::RefCell;
use std::panic::{catch_unwind, AssertUnwindSafe};

/// hang detection: the time the current guarded call into the crate started (0 = none), and the
/// case being run, for the watchdog thread started by `start_watchdog`
pub static GUARD_START_MS: std::sync::atomic::AtomicU64 = std::sync::atomic::AtomicU64::new(0);
pub static CURRENT_CASE: std::sync::Mutex<String> = std::sync::Mutex::new(String::new());

pub fn set_current(case: &Value) {
    if let Ok(mut c) = CURRENT_CASE.lock() {
        *c = case.to_string();
    }
}

fn now_ms() -> u64 {
    std::time::SystemTime::now().duration_since(std::time::UNIX_EPOCH).map(|d| d.as_millis() as u64).unwrap_or(1)
}

/// a call into the crate that does not return within `limit_s` seconds is reported as a hang:
/// the watchdog writes a result file with one property difference (the current case is the
/// replay) and ends the process with status 3
pub fn start_watchdog(limit_s: u64, property: String, out_file: String) {
    std::thread::spawn(move || loop {
        std::thread::sleep(std::time::Duration::from_millis(500));
        let st = GUARD_START_MS.load(std::sync::atomic::Ordering::SeqCst);
        if st != 0 && now_ms().saturating_sub(st) > limit_s * 1000 {
            let case: Value = CURRENT_CASE.lock().ok().and_then(|c| serde_json::from_str(&c).ok()).unwrap_or(Value::Null);
            let res = json!({
                "property": property, "tier": "?", "seed": 0, "evaluations": 1, "distinct_nontrivial": 0, "rule": "aborted by the hang watchdog",
                "diffs": [{"kind": "property", "entry": "(call into the crate)", "signature": "hang:call-did-not-return", "case": case,
                           "detail": {"limit_s": limit_s}}],
                "diff_counts": {"property": 1}, "histogram": {}, "samples": [case], "notes": ["hang watchdog fired"], "exhaustive": false,
                "wall_s": 0.0, "driver_requests": 0,
            });
            if !out_file.is_empty() {
                let _ = std::fs::write(&out_file, serde_json::to_string_pretty(&res).unwrap());
            } else {
                println!("{}", res);
            }
            std::process::exit(3);
        }
    });
}

thread_local! {
    static LAST_PANIC: RefCell<String> = RefCell::new(String::new());
    static IN_GUARD: RefCell<bool> = RefCell::new(false);
}

pub fn last_panic() -> String {
    LAST_PANIC.with(|p| p.borrow().clone())
}

pub fn current_case() -> Value {
    CURRENT_CASE.lock().ok().and_then(|c| serde_json::from_str(&c).ok()).unwrap_or(Value::Null)
}

pub fn install_panic_hook() {
    std::panic::set_hook(Box::new(|info| {
        let loc = info
            .location()
            .map(|l| {
                let f = l.file();
                // keep the path from the crate directory on, so the site is stable across machines
                let short = match f.rfind("/src/") {
                    Some(i) => {
                        let head = &f[..i];
                        let krate = head.rsplit('/').next().unwrap_or("");
                        format!("{}{}", krate, &f[i..])
                    }
                    None => f.to_string(),
                };
                format!("{}:{}", short, l.line())
            })
            .unwrap_or_else(|| "?".to_string());
        let msg = if let Some(s) = info.payload().downcast_ref::<&str>() {
            s.to_string()
        } else if let Some(s) = info.payload().downcast_ref::<String>() {
            s.clone()
        } else {
            String::new()
        };
        if !IN_GUARD.with(|g| *g.borrow()) {
            eprintln!("harness panic at {}: {}", loc, msg);
        }
        LAST_PANIC.with(|p| *p.borrow_mut() = format!("{} ({})", loc, msg));
    }));
}

#[derive(Clone, Debug)]
pub enum Out<T> {
    Ok(T),
    Err(String, String),
    Panic(String),
}

impl<T> Out<T> {
    pub fn class(&self) -> &'static str {
        match self {
            Out::Ok(_) => "ok",
            Out::Err(..) => "err",
            Out::Panic(_) => "panic",
        }
    }
    pub fn is_ok(&self) -> bool {
        matches!(self, Out::Ok(_))
    }
    pub fn ok(self) -> Option<T> {
        match self {
            Out::Ok(t) => Some(t),
            _ => None,
        }
    }
    pub fn map<U>(self, f: impl FnOnce(T) -> U) -> Out<U> {
        match self {
            Out::Ok(t) => Out::Ok(f(t)),
            Out::Err(a, b) => Out::Err(a, b),
            Out::Panic(s) => Out::Panic(s),
        }
    }
    pub fn describe(&self, f: impl FnOnce(&T) -> Value) -> Value {
        match self {
            Out::Ok(t) => json!({"ok": f(t)}),
            Out::Err(c, m) => json!({"err": c, "msg": m}),
            Out::Panic(s) => json!({"panic": s}),
        }
    }
}

pub fn err_class(e: &Error) -> &'static str {
    match e {
        Error::SDJWTRejected(_) => "rejected",
        Error::InvalidDisclosureFormat(_) | Error::InvalidDisclosureKey(_) => "format",
        Error::DecodingError(_) | Error::FromUtf8Error(_) | Error::DisclosureFailed(_) | Error::Utf8Error(_) => "decoding",
        Error::InvalidHashAlgorithm(_) => "hashAlg",
        Error::EncodingKeyError(_) => "jwt",
        Error::JwtMustHaveThreeParts => "threeParts",
        Error::InvalidPathPointer | Error::InvalidPathPointerArrayIndex(_) => "path",
        Error::InvalidSDType => "sdType",
        Error::KeyBindingJWTRequired | Error::KeyBindingJWTParameterMissing(_) => "kbRequired",
        Error::YamlError(_) | Error::YamlInvalidSDTag(_) => "yaml",
        _ => "other",
    }
}

pub fn guard<T>(f: impl FnOnce() -> Result<T, Error>) -> Out<T> {
    LAST_PANIC.with(|p| p.borrow_mut().clear());
    IN_GUARD.with(|g| *g.borrow_mut() = true);
    GUARD_START_MS.store(now_ms(), std::sync::atomic::Ordering::SeqCst);
    let r = catch_unwind(AssertUnwindSafe(f));
    GUARD_START_MS.store(0, std::sync::atomic::Ordering::SeqCst);
    IN_GUARD.with(|g| *g.borrow_mut() = false);
    match r {
        Ok(Ok(t)) => Out::Ok(t),
        Ok(Err(e)) => Out::Err(err_class(&e).to_string(), e.to_string()),
        Err(_) => Out::Panic(LAST_PANIC.with(|p| p.borrow().clone())),
    }
}

pub fn guard_plain<T>(f: impl FnOnce() -> T) -> Out<T> {
    LAST_PANIC.with(|p| p.borrow_mut().clear());
    IN_GUARD.with(|g| *g.borrow_mut() = true);
    GUARD_START_MS.store(now_ms(), std::sync::atomic::Ordering::SeqCst);
    let r = catch_unwind(AssertUnwindSafe(f));
    GUARD_START_MS.store(0, std::sync::atomic::Ordering::SeqCst);
    IN_GUARD.with(|g| *g.borrow_mut() = false);
    match r {
        Ok(t) => Out::Ok(t),
        Err(_) => Out::Panic(LAST_PANIC.with(|p| p.borrow().clone())),
    }
}

pub struct IssueReq<'a> {
    pub claims: &'a Value,
    pub paths: &'a [String],
    pub decoy: Option<i32>,
    pub cnf: Option<&'a Value>,
    pub header: Option<Header>,
    pub exp_in: Option<i64>,
    /// how many times `encode` is called on the same issuer object
    pub repeats: usize,
    /// when > 0 (and `repeats` > 1): only the first `late_marks` paths are marked before the earlier `encode`
    /// calls, the others are marked afterwards, before the last call (an issuer that caches what it prepared
    /// must notice the new markings)
    pub late_marks: usize,
}

/// The order of calls on the issuer object is a *schedule* derived from the request itself (so a replay of
/// the case repeats it): the final state of the object is always the one the request describes, but how it
/// is reached varies - setters in another order, an earlier header / expiry / decoy maximum that the later
/// call replaces, an `encode()` in between whose result is thrown away. What `encode()` finally returns must
/// depend on the final state only (`IssuerObj.observe` of `Impl/Objects.lean`, `C14_encode_leaves_object`,
/// `C14_history`).
pub fn issue(req: &IssueReq, key: &KeyForEncoding) -> Out<Vec<String>> {
    let sched = crate::report::hash_of(&json!([req.claims, req.paths, req.decoy, req.exp_in, req.repeats, req.late_marks]));
    guard(|| {
        let mut issuer = Issuer::new(req.claims.clone())?;
        let late = if req.repeats > 1 && req.late_marks > 0 && req.late_marks < req.paths.len() { req.late_marks } else { req.paths.len() };
        let prelude = sched % 3 == 1;
        let reversed = (sched / 3) % 3 == 1;
        if prelude {
            // values that the calls below replace
            if let Some(h) = &req.header {
                // only members the final header sets too get an earlier value: whether `header()` replaces the
                // whole header or only the members given, the final state is the same
                let mut other = h.clone();
                if other.typ.is_some() { other.typ = Some("earlier+typ".to_string()); }
                if other.kid.is_some() { other.kid = Some("earlier-kid".to_string()); }
                if other.cty.is_some() { other.cty = Some("earlier/cty".to_string()); }
                issuer.header(other);
            }
            if req.exp_in.is_some() { issuer.expires_in_seconds(86_400 * 365); }
            if req.decoy.is_some() { issuer.decoy(40); }
            if (sched / 9) % 2 == 0 {
                // an issuance before the object is fully configured: nothing of it may stick
                let _ = issuer.encode(key);
            }
        }
        // the markings go in through `disclosable` one by one, through `iter_disclosable` in one call, or the first
        // half one by one and the rest in one call: the two methods add to the same list
        let how = (sched / 27) % 3;
        let set_paths = |issuer: &mut Issuer| {
            let ps = &req.paths[..late];
            match how {
                1 => { issuer.iter_disclosable(ps.to_vec().iter()); }
                2 => { let k = ps.len() / 2; for p in &ps[..k] { issuer.disclosable(p); } issuer.iter_disclosable(ps[k..].to_vec().iter()); }
                _ => { for p in ps { issuer.disclosable(p); } }
            }
        };
        let set_decoy = |issuer: &mut Issuer| { if let Some(n) = req.decoy { issuer.decoy(n); } };
        let set_header = |issuer: &mut Issuer| { if let Some(h) = &req.header { issuer.header(h.clone()); } };
        let set_exp = |issuer: &mut Issuer| { if let Some(n) = req.exp_in { issuer.expires_in_seconds(n); } };
        if reversed {
            set_exp(&mut issuer);
            set_header(&mut issuer);
            if let Some(c) = req.cnf { issuer.require_key_binding(Jwk::from_value(c.clone())?); }
            set_decoy(&mut issuer);
            set_paths(&mut issuer);
        } else {
            set_paths(&mut issuer);
            set_decoy(&mut issuer);
            if let Some(c) = req.cnf { issuer.require_key_binding(Jwk::from_value(c.clone())?); }
            set_header(&mut issuer);
            set_exp(&mut issuer);
        }
        let mut outs = Vec::new();
        let n = req.repeats.max(1);
        for round in 0..n {
            if round == n - 1 {
                for p in &req.paths[late..] { issuer.disclosable(p); }
            }
            outs.push(issuer.encode(key)?);
        }
        Ok(outs)
    })
}

#[derive(Clone, Debug)]
pub struct PathOut {
    pub path: String,
    pub disc: String,
    pub key: Option<String>,
    pub value: Value,
}

impl PathOut {
    pub fn to_json(&self) -> Value {
        json!([self.path, self.disc, self.key, self.value])
    }
}

pub fn holder_verify(token: &str, key: &KeyForDecoding, validation: &Validation) -> Out<(Value, Value, Vec<PathOut>)> {
    guard(|| {
        let (h, c, ps) = Holder::verify(token, key, validation)?;
        let ps = ps
            .iter()
            .map(|p| PathOut {
                path: p.path.clone(),
                disc: p.disclosure.disclosure().to_string(),
                key: p.disclosure.key().clone(),
                value: p.disclosure.value().clone(),
            })
            .collect();
        Ok((h, c, ps))
    })
}

pub struct KbParams<'a> {
    pub aud: &'a str,
    pub key: &'a KeyForEncoding,
    pub alg: Algorithm,
}

/// As for `issue`: the calls on the holder object follow a schedule derived from the request. The set of
/// redacted paths and the key-binding parameters are always those of the request; `key_binding` may come
/// before, between or after the `redact` calls, the `redact` calls may come in another order, and a `build()`
/// whose result is thrown away may come in between. What the final `build()` returns must depend on the
/// final state only (`C09_build_history`).
pub fn holder_present(token: &str, redact: &[String], kb: Option<&KbParams>, builds: usize) -> Out<Vec<String>> {
    let sched = crate::report::hash_of(&json!([redact, kb.map(|k| k.aud), builds, token.len() % 7]));
    guard(|| {
        let mut holder = Holder::presentation(token)?;
        let mut order: Vec<&String> = redact.iter().collect();
        if sched % 2 == 1 { order.reverse(); }
        if !order.is_empty() { let k = (sched / 2) as usize % order.len(); order.rotate_left(k); }
        // where `key_binding` goes: 0 = after all redactions, 1 = before all, 2 = in the middle
        let kb_at = match (sched / 16) % 3 { 0 => order.len(), 1 => 0, _ => order.len() / 2 };
        let early_build_at = if (sched / 64) % 3 == 0 { Some((sched / 256) as usize % (order.len() + 1)) } else { None };
        for i in 0..=order.len() {
            if i == kb_at {
                if let Some(kb) = kb { holder.key_binding(kb.aud, kb.key, kb.alg.clone())?; }
            }
            if early_build_at == Some(i) {
                // a presentation built before the selection is complete: nothing of it may stick
                let _ = holder.build();
            }
            if i < order.len() { holder.redact(order[i])?; }
        }
        let mut outs = Vec::new();
        for _ in 0..builds.max(1) {
            outs.push(holder.build()?);
        }
        Ok(outs)
    })
}

pub fn verifier_verify(
    token: &str,
    key: &KeyForDecoding,
    validation: &Validation,
    kb_validation: Option<&Validation>,
) -> Out<(Value, Value)> {
    guard(|| Verifier::verify(token, key, validation, &kb_validation))
}

pub fn sign(header: &Header, claims: &Value, key: &KeyForEncoding) -> Out<String> {
    guard(|| sdjwt::encode(header, claims, key))
}

/// harness-side decoding helpers (independent of the crate's own helpers)
pub fn b64url_decode(s: &str) -> Option<Vec<u8>> {
    use base64::Engine;
    base64::engine::general_purpose::URL_SAFE_NO_PAD.decode(s).ok()
}

pub fn b64url_encode(b: &[u8]) -> String {
    use base64::Engine;
    base64::engine::general_purpose::URL_SAFE_NO_PAD.encode(b)
}

/// (header, payload) of a compact JWT, without verification
pub fn peek_jwt(jwt: &str) -> Option<(Value, Value)> {
    let parts: Vec<&str> = jwt.split('.').collect();
    if parts.len() != 3 {
        return None;
    }
    let h: Value = serde_json::from_slice(&b64url_decode(parts[0])?).ok()?;
    let p: Value = serde_json::from_slice(&b64url_decode(parts[1])?).ok()?;
    Some((h, p))
}

/// sort every `_sd` array (their order is a separate C13 observation)
pub fn canon_sd(v: &Value) -> Value {
    match v {
        Value::Object(m) => {
            let mut out = serde_json::Map::new();
            for (k, x) in m {
                if k == "_sd" {
                    if let Value::Array(a) = x {
                        let mut a2: Vec<Value> = a.clone();
                        a2.sort_by(|p, q| p.to_string().cmp(&q.to_string()));
                        out.insert(k.clone(), Value::Array(a2));
                        continue;
                    }
                }
                out.insert(k.clone(), canon_sd(x));
            }
            Value::Object(out)
        }
        Value::Array(a) => Value::Array(a.iter().map(canon_sd).collect()),
        _ => v.clone(),
    }
}
