//! Correspondence / search harness for robjsliwa/sd-jwt (see /verif/DESIGN.md §1.3).
mod driver;
mod keys;
mod prng;
mod props;
mod real;
mod report;
mod tree;

use driver::Driver;
use report::Report;
use serde_json::Value;
use std::time::Instant;

pub struct Ctx {
    pub driver: Driver,
    pub report: Report,
    pub tier_thorough: bool,
    pub seed: u64,
    pub cases: Option<u64>,
    /// multiplier of the default case count (used when the search budget is raised)
    pub scale: u64,
}

impl Ctx {
    /// number of generated cases: explicit --cases, else the tier's default, times --scale
    pub fn count(&self, quick: u64, thorough: u64) -> u64 {
        self.cases.unwrap_or(if self.tier_thorough { thorough } else { quick }) * self.scale.max(1)
    }
}

fn main() {
    let args: Vec<String> = std::env::args().collect();
    if args.len() < 2 {
        eprintln!("usage: vharness <property> [--tier quick|thorough] [--seed N] [--driver PATH] [--out FILE] [--cases N] [--replay FILE]");
        std::process::exit(2);
    }
    let prop = args[1].clone();
    let mut tier = "quick".to_string();
    let mut seed: u64 = 1;
    let mut driver_path = "/verif/lean/.lake/build/bin/driver".to_string();
    let mut out = String::new();
    let mut cases: Option<u64> = None;
    let mut replay: Option<String> = None;
    let mut corpus: Option<String> = None;
    let mut scale: u64 = 1;
    let mut i = 2;
    while i < args.len() {
        match args[i].as_str() {
            "--tier" => { tier = args[i + 1].clone(); i += 2; }
            "--seed" => { seed = args[i + 1].parse().unwrap_or(1); i += 2; }
            "--driver" => { driver_path = args[i + 1].clone(); i += 2; }
            "--out" => { out = args[i + 1].clone(); i += 2; }
            "--cases" => { cases = args[i + 1].parse().ok(); i += 2; }
            "--replay" => { replay = Some(args[i + 1].clone()); i += 2; }
            "--corpus" => { corpus = Some(args[i + 1].clone()); i += 2; }
            "--scale" => { scale = args[i + 1].parse().unwrap_or(1); i += 2; }
            other => { eprintln!("unknown argument {}", other); std::process::exit(2); }
        }
    }
    real::install_panic_hook();
    real::start_watchdog(20, prop.clone(), out.clone());
    let t0 = Instant::now();
    let mut ctx = Ctx {
        driver: Driver::spawn(&driver_path),
        report: Report::new(&prop, &tier, seed),
        tier_thorough: tier == "thorough",
        seed,
        cases,
        scale,
    };
    let load_case = |p: &str| -> Value {
        let txt = std::fs::read_to_string(p).unwrap_or_else(|e| panic!("cannot read {}: {}", p, e));
        let v: Value = serde_json::from_str(&txt).expect("case file is not JSON");
        if v.get("case").is_some() { v["case"].clone() } else { v }
    };
    // a panic of the harness itself (its own expectations about the crate's API no longer hold for
    // this tree) must not lose the findings so far: it is reported as a broken correspondence
    let run = std::panic::catch_unwind(std::panic::AssertUnwindSafe(|| {
        if let Some(p) = &replay {
            let case = load_case(p);
            props::run(&prop, &mut ctx, Some(&case));
        } else {
            // minimised past failures run first
            if let Some(dir) = &corpus {
                let mut files: Vec<String> = std::fs::read_dir(dir)
                    .map(|rd| rd.filter_map(|e| e.ok()).map(|e| e.path().to_string_lossy().to_string()).filter(|p| p.ends_with(".json")).collect())
                    .unwrap_or_default();
                files.sort();
                for f in files {
                    let case = load_case(&f);
                    props::run(&prop, &mut ctx, Some(&case));
                    ctx.report.bump("corpus-cases");
                }
            }
            props::run(&prop, &mut ctx, None);
        }
    }));
    if run.is_err() {
        let site = real::last_panic();
        let cur = real::current_case();
        ctx.report.diff("correspondence", "harness", &format!("harness:panic:{}", site.split(' ').next().unwrap_or("")), &cur,
            serde_json::json!({"panic": site, "note": "the harness itself panicked while exercising this tree; the case is the one it was working on"}));
    }
    let wall = t0.elapsed().as_secs_f64();
    let result = ctx.report.to_json(wall, ctx.driver.requests);
    let txt = serde_json::to_string_pretty(&result).unwrap();
    if out.is_empty() {
        println!("{}", txt);
    } else {
        std::fs::write(&out, txt).expect("cannot write result file");
    }
}
