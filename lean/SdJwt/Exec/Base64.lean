/-!
Executable-only base64url (RFC 4648 §5) without padding, strict like the crate's
`URL_SAFE_NO_PAD` engine: rejects padding, characters outside the alphabet, a single trailing
character, and non-zero trailing bits. No theorem depends on this file.
-/
namespace Exec

def b64Alphabet : Array Char :=
  "ABCDEFGHIJKLMNOPQRSTUVWXYZabcdefghijklmnopqrstuvwxyz0123456789-_".toList.toArray

def b64Enc (b : ByteArray) : String := Id.run do
  let mut out : String := ""
  let n := b.size
  let mut i := 0
  while i + 3 ≤ n do
    let x := b[i]!.toNat * 65536 + b[i+1]!.toNat * 256 + b[i+2]!.toNat
    out := out.push b64Alphabet[x / 262144 % 64]! |>.push b64Alphabet[x / 4096 % 64]!
             |>.push b64Alphabet[x / 64 % 64]! |>.push b64Alphabet[x % 64]!
    i := i + 3
  if n - i == 1 then
    let x := b[i]!.toNat * 65536
    out := out.push b64Alphabet[x / 262144 % 64]! |>.push b64Alphabet[x / 4096 % 64]!
  else if n - i == 2 then
    let x := b[i]!.toNat * 65536 + b[i+1]!.toNat * 256
    out := out.push b64Alphabet[x / 262144 % 64]! |>.push b64Alphabet[x / 4096 % 64]!
             |>.push b64Alphabet[x / 64 % 64]!
  return out

def b64Val (c : Char) : Option Nat :=
  if 'A' ≤ c ∧ c ≤ 'Z' then some (c.toNat - 'A'.toNat)
  else if 'a' ≤ c ∧ c ≤ 'z' then some (c.toNat - 'a'.toNat + 26)
  else if '0' ≤ c ∧ c ≤ '9' then some (c.toNat - '0'.toNat + 52)
  else if c = '-' then some 62
  else if c = '_' then some 63
  else none

def b64Dec (s : String) : Option ByteArray := Id.run do
  let cs := s.toList.toArray
  let mut vals : Array Nat := Array.mkEmpty cs.size
  for c in cs do
    match b64Val c with
    | some v => vals := vals.push v
    | none => return none
  let n := vals.size
  if n % 4 == 1 then return none
  let mut out := ByteArray.empty
  let mut i := 0
  while i + 4 ≤ n do
    let x := vals[i]! * 262144 + vals[i+1]! * 4096 + vals[i+2]! * 64 + vals[i+3]!
    out := out.push (UInt8.ofNat (x / 65536 % 256)) |>.push (UInt8.ofNat (x / 256 % 256)) |>.push (UInt8.ofNat (x % 256))
    i := i + 4
  if n - i == 2 then
    let x := vals[i]! * 262144 + vals[i+1]! * 4096
    if x % 65536 != 0 then return none    -- non-canonical trailing bits
    out := out.push (UInt8.ofNat (x / 65536 % 256))
  else if n - i == 3 then
    let x := vals[i]! * 262144 + vals[i+1]! * 4096 + vals[i+2]! * 64
    if x % 256 != 0 then return none
    out := out.push (UInt8.ofNat (x / 65536 % 256)) |>.push (UInt8.ofNat (x / 256 % 256))
  return some out

#guard b64Enc "foobar".toUTF8 == "Zm9vYmFy"
#guard b64Enc "fooba".toUTF8 == "Zm9vYmE"
#guard b64Enc "foob".toUTF8 == "Zm9vYg"
#guard (b64Dec "Zm9vYg").map (String.fromUTF8? ·) == some (some "foob")
#guard (b64Dec "Zm9vYmE").map (String.fromUTF8? ·) == some (some "fooba")
#guard (b64Dec "Zm9vYh").isNone
#guard (b64Dec "Zm9vY").isNone
#guard (b64Dec "Zm9vYg==").isNone

end Exec
