import SdJwt.Impl.Base64
/-!
Executable glue for base64url: the driver runs the *model's* `B64.enc` / `B64.dec`
(`Impl/Base64.lean`, proved inverse to each other in `Lemmas/Base64L.lean`) on `ByteArray`s and
`String`s. Every correspondence run therefore compares exactly the functions the theorems are about
with the crate's `URL_SAFE_NO_PAD` engine.
-/
namespace Exec

def b64Enc (b : ByteArray) : String := String.ofList (B64.enc b.toList)

def b64Dec (s : String) : Option ByteArray := (B64.dec s.toList).map fun l => ByteArray.mk l.toArray

#guard b64Enc "foobar".toUTF8 == "Zm9vYmFy"
#guard b64Enc "fooba".toUTF8 == "Zm9vYmE"
#guard b64Enc "foob".toUTF8 == "Zm9vYg"
#guard (b64Dec "Zm9vYg").map (String.fromUTF8? ·) == some (some "foob")
#guard (b64Dec "Zm9vYmE").map (String.fromUTF8? ·) == some (some "fooba")
#guard (b64Dec "Zm9vYh").isNone
#guard (b64Dec "Zm9vY").isNone
#guard (b64Dec "Zm9vYg==").isNone

end Exec
