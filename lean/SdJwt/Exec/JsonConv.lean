import Lean.Data.Json
import SdJwt.Data.J
import SdJwt.Impl.JsonText
/-!
Executable-only glue between text and the model's `J`: parsing goes through Lean core's
`Lean.Json` (trusted, shares nothing with `serde_json`), printing is a small compact printer.
No theorem depends on this file.
-/
namespace Exec
open Lean

partial def ofLean : Json → J
  | .null => .null
  | .bool b => .bool b
  | .num n => .num n.mantissa n.exponent
  | .str s => .str s
  | .arr xs => .arr (xs.toList.map ofLean)
  | .obj kvs => .obj (Assoc.ofList (kvs.toList.map fun (k, v) => (k, ofLean v)))

def parseJ (s : String) : Option J :=
  match Json.parse s with
  | .ok j => some (ofLean j)
  | .error _ => none

def hex4 (n : Nat) : String :=
  String.ofList [Nat.digitChar (n / 4096 % 16), Nat.digitChar (n / 256 % 16),
                 Nat.digitChar (n / 16 % 16), Nat.digitChar (n % 16)]

def escStr (s : String) : String :=
  "\"" ++ s.foldl (fun acc c =>
    if c = '"' then acc ++ "\\\""
    else if c = '\\' then acc ++ "\\\\"
    else if c = '\n' then acc ++ "\\n"
    else if c.toNat = 8 then acc ++ "\\b"
    else if c.toNat = 12 then acc ++ "\\f"
    else if c = '\r' then acc ++ "\\r"
    else if c = '\t' then acc ++ "\\t"
    else if c.toNat < 0x20 then acc ++ "\\u" ++ hex4 c.toNat
    else acc.push c) "" ++ "\""

def numStr (m : Int) (e : Nat) : String :=
  if e = 0 then toString m
  else
    let neg := m < 0
    let a := m.natAbs
    let ds := toString a
    let ds := if ds.length ≤ e then String.ofList (List.replicate (e + 1 - ds.length) '0') ++ ds else ds
    let ip := (ds.toList.take (ds.length - e))
    let fp := (ds.toList.drop (ds.length - e))
    (if neg then "-" else "") ++ String.ofList ip ++ "." ++ String.ofList fp

/-- `sp`: separator style 0 = compact, 1 = ", " / ": ", 2 = newline-ish whitespace everywhere -/
partial def printJLayout (sp : Nat) : J → String
  | .null => "null"
  | .bool true => "true"
  | .bool false => "false"
  | .num m e => numStr m e
  | .str s => escStr s
  | .arr xs =>
    let sep := if sp = 0 then "," else if sp = 1 then ", " else " ,\n "
    -- layout 3: a line break right after the bracket, as a pretty-printer writes it
    let (o, c) := if sp = 2 then ("[ ", " ]") else if sp = 3 then ("[\n\t", "\n]") else ("[", "]")
    o ++ sep.intercalate (xs.map (printJLayout sp)) ++ c
  | .obj ms =>
    let sep := if sp = 0 then "," else if sp = 1 then ", " else " ,\n "
    let col := if sp = 0 then ":" else if sp = 1 then ": " else " :\t"
    let (o, c) := if sp = 2 then ("{ ", " }") else if sp = 3 then ("{\r\n", "\r\n}") else ("{", "}")
    o ++ sep.intercalate (ms.map fun (k, v) => escStr k ++ col ++ printJLayout sp v) ++ c

/-- compact text (`sp = 0`) is the MODEL's printer `JText.render` (`Impl/JsonText.lean`, proved to be read back
by `JText.parseAll`); the other layouts (white space as other issuers may write it) are printed here -/
def printJ (sp : Nat := 0) (j : J) : String :=
  if sp = 0 then String.ofList (JText.render j) else if sp = 3 then " \n" ++ printJLayout sp j ++ "\n" else printJLayout sp j

#guard printJ 0 (.obj [("a", .num 15 1), ("b", .arr [.num (-5) 3, .str "x\"\n"])]) == printJLayout 0 (.obj [("a", .num 15 1), ("b", .arr [.num (-5) 3, .str "x\"\n"])])
#guard printJ 0 (.obj [("a", .num 15 1), ("b", .arr [.num (-5) 3, .str "x\"\n"])]) == "{\"a\":1.5,\"b\":[-0.005,\"x\\\"\\n\"]}"
#guard (parseJ "{\"b\":1,\"a\":[true,null]}").map (printJ 0) == some "{\"a\":[true,null],\"b\":1}"

end Exec
