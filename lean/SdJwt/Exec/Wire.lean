import SdJwt.Exec.JsonConv
import SdJwt.Exec.Sha2
import SdJwt.Exec.Base64
import SdJwt.Impl.Outcome
import SdJwt.Impl.Restore
import SdJwt.Impl.Codec
import SdJwt.Spec.Marked
/-!
Executable-only: line protocol helpers, byte-level hashing/decoding used to instantiate
`Impl.Env`, and the wire form of marked trees. No theorem depends on this file.
-/
open Assoc
namespace Exec

def jget (j : J) (k : String) : Option J :=
  match j with
  | .obj ms => aget k ms
  | _ => none

def jstr (j : J) (k : String) : String :=
  match jget j k with
  | some (.str s) => s
  | _ => ""

def jstr? (j : J) (k : String) : Option String :=
  match jget j k with
  | some (.str s) => some s
  | _ => none

def jarr (j : J) (k : String) : List J :=
  match jget j k with
  | some (.arr xs) => xs
  | _ => []

def jbool (j : J) (k : String) : Bool :=
  match jget j k with
  | some (.bool b) => b
  | _ => false

def jnat (j : J) (k : String) : Nat :=
  match jget j k with
  | some (.num m 0) => m.toNat
  | _ => 0

def jint? (j : J) (k : String) : Option Int :=
  match jget j k with
  | some (.num m 0) => some m
  | _ => none

def strs (xs : List J) : List String := xs.filterMap J.asStr

def mkObj (l : List (String × J)) : J := .obj (Assoc.ofList l)

def hashBytes (alg : String) (b : ByteArray) : Option ByteArray :=
  if alg = "sha-256" then some (sha256 b)
  else if alg = "sha-384" then some (sha384 b)
  else if alg = "sha-512" then some (sha512 b)
  else none

/-- the byte level below base64url, as the driver runs it: compact JSON text, `String.fromUTF8?` +
`Lean.Json`, the SHA-2 of `Exec/Sha2`; unknown algorithm names hash to no bytes (callers check the
name first) -/
def codec : Impl.Codec :=
  { render := fun j => (printJ 0 j).toUTF8.toList
    parse := fun bs =>
      match String.fromUTF8? (ByteArray.mk bs.toArray) with
      | none => none
      | some txt => parseJ txt
    sha := fun alg bs =>
      match hashBytes alg (ByteArray.mk bs.toArray) with
      | some h => h.toList
      | none => [] }

/-- `base64_hash(alg, s)` — the model's `Codec.hash` -/
def b64Hash (alg : String) (s : String) : String := codec.hash alg s

/-- base64url, UTF-8, JSON text — the model's `Codec.decodeDisc` -/
def decodeDisc (s : String) : Option J := codec.decodeDisc s

def envFor (alg : String) : Impl.Env := { hash := b64Hash alg, decodeDisc := decodeDisc }

def errName : ErrClass → String
  | .rejected => "rejected" | .format => "format" | .decoding => "decoding" | .hashAlg => "hashAlg"
  | .jwt => "jwt" | .threeParts => "threeParts" | .path => "path" | .sdType => "sdType"
  | .kbRequired => "kbRequired" | .yaml => "yaml"

def outcomeJ {α : Type} (f : α → J) : Outcome α → J
  | .ok a => mkObj [("ok", f a)]
  | .err e => mkObj [("err", .str (errName e))]
  | .panic => mkObj [("panic", .bool true)]

/-! ## Wire form of (salted) marked trees

```
T ::= {"t":"leaf","v":json} | {"t":"arr","xs":[E…]} | {"t":"obj","ms":[M…],"decoys":[dg…]?,"nosd":bool?}
E ::= {"m":"c","x":T} | {"m":"m", MARK, "x":T} | {"m":"d","dg":digest}
M ::= {"k":name,"m":"c","x":T} | {"k":name,"m":"m", MARK, "x":T}
MARK ::= "id": n, "disc": <disclosure string as issued>          (digest := H(disc))
       | "salt": s, "fmt": 0|1|2                         (disc := b64(print [s,name?,payload x]))
```
An object's `_sd` is: digests of its marked members (in member order) ++ decoys, rotated by
`"rot"` positions; absent when empty unless `"emptysd": true`.
-/

structure DInfo where
  digest : String
  str : String
  key : Option String
  value : J
  /-- ids of the enclosing marked nodes, outermost first, then own id -/
  id : Nat

structure TreeOut where
  discs : Array DInfo := #[]
  next : Nat := 0

partial def toMJ (alg : String) (t : J) : StateM TreeOut MJ := do
  match jstr t "t" with
  | "leaf" => return .leaf ((jget t "v").getD .null)
  | "arr" =>
    let xs := jarr t "xs"
    let rec goE : List J → StateM TreeOut MElems
      | [] => pure .nil
      | e :: r => do
        match jstr e "m" with
        | "d" =>
          let rest ← goE r
          return .decoy (jstr e "dg") rest
        | "m" =>
          let id := jnat e "id"
          let x ← toMJ alg ((jget e "x").getD .null)
          let (dstr, dg) := mark none x e
          modify fun s => { s with discs := s.discs.push ⟨dg, dstr, none, x.payload, id⟩ }
          let rest ← goE r
          return .marked dg x rest
        | _ =>
          let x ← toMJ alg ((jget e "x").getD .null)
          let rest ← goE r
          return .clear x rest
    return .arr (← goE xs)
  | _ =>
    let ms := jarr t "ms"
    -- members sorted by key, as every JSON object in the crate is
    let sorted := (Assoc.ofList (ms.map fun m => (jstr m "k", m)))
    let rec goM : List (String × J) → StateM TreeOut MMems
      | [] => pure .nil
      | (k, m) :: r => do
        match jstr m "m" with
        | "m" =>
          let id := jnat m "id"
          let x ← toMJ alg ((jget m "x").getD .null)
          let (dstr, dg) := mark (some k) x m
          modify fun s => { s with discs := s.discs.push ⟨dg, dstr, some k, x.payload, id⟩ }
          let rest ← goM r
          return .marked k dg x rest
        | _ =>
          let x ← toMJ alg ((jget m "x").getD .null)
          let rest ← goM r
          return .clear k x rest
    let mm ← goM sorted
    -- `sd_actual`: the `_sd` content observed in a real payload; what is not a mark is a decoy
    let decoys := match jget t "sd_actual" with
      | some (.arr xs) => (strs xs).filter (fun g => !(mm.marks.contains g))
      | _ => strs (jarr t "decoys")
    let all := mm.marks ++ decoys
    let rot := jnat t "rot" % (all.length + 1)
    let all := all.drop rot ++ all.take rot
    let sd := if all.isEmpty && !(jbool t "emptysd") then none else some all
    return .obj mm sd
where
  mark (k : Option String) (x : MJ) (m : J) : String × String :=
    match jstr? m "disc" with
    | some d => (d, b64Hash alg d)
    | none =>
      let salt := jstr m "salt"
      let arr : J := match k with
        | some k => .arr [.str salt, .str k, x.payload]
        | none => .arr [.str salt, x.payload]
      let d := b64Enc (printJ (jnat m "fmt") arr).toUTF8
      (d, b64Hash alg d)

end Exec
