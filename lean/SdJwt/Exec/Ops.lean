import SdJwt.Exec.Wire
import SdJwt.Impl.Parts
import SdJwt.Impl.Flows
import SdJwt.Impl.Issuer
import SdJwt.Impl.Validation
import SdJwt.Impl.Header
import SdJwt.Impl.Yaml
import SdJwt.Spec.RefVerify
/-!
Executable-only: the operations the correspondence harness can ask for, one JSON object per
line in, one out. No theorem depends on this file.
-/
open Assoc
namespace Exec

def S (s : String) : J := .str s
def L (cs : List Char) : J := .str (String.ofList cs)

def rejName : Ref.Rej → String
  | .notArray => "notArray" | .arity => "arity" | .nameType => "nameType"
  | .nameReserved => "nameReserved" | .nameExists => "nameExists" | .wrongPlace => "wrongPlace"
  | .digestTwice => "digestTwice" | .sdNotArray => "sdNotArray"
  | .placeholderExtra => "placeholderExtra" | .unreferenced => "unreferenced"
  | .duplicateDisclosure => "duplicateDisclosure" | .fuel => "fuel"

def refJ : Except Ref.Rej J → J
  | .ok j => mkObj [("ok", j)]
  | .error e => mkObj [("rej", S (rejName e))]

/-- byte-level front end of the reference verifier: decode every presented string itself -/
def refVerifyBytes (strict : Bool) (alg : String) (payload : J) (discs : List String) : Except Ref.Rej J :=
  let rec tbl : List String → Except Ref.Rej (List (String × J))
    | [] => .ok []
    | s :: r =>
      match decodeDisc s with
      | none => .error .notArray
      | some j => match tbl r with
        | .error e => .error e
        | .ok t => .ok ((b64Hash alg s, j) :: t)
  match tbl discs with
  | .error e => .error e
  | .ok t => Ref.verify strict payload t

def opHash (req : J) : J := mkObj [("h", S (b64Hash (jstr req "alg") (jstr req "s")))]

/-- the model's `Disclosure::build` on a given salt: `Codec.discString` and `Codec.hash` of it; also whether
the JSON text codec the driver runs reads back what it writes for this value (the one assumption
`C01_end_to_end_bytes` makes of the byte level) -/
def opDiscString (req : J) : J :=
  let key := match jget req "key" with
    | some (.str k) => some k
    | _ => none
  let v := (jget req "value").getD .null
  let salt := jstr req "salt"
  let s := codec.discString salt key v
  let j := Impl.discJson salt key v
  mkObj [("s", S s), ("h", S (codec.hash (jstr req "alg") s)),
         ("roundtrip", .bool (match codec.parse (codec.render j) with
            | some j' => (j' == j)
            | none => false)),
         -- the verified reader of the model (`JText.parseAll`) on the same text
         ("model_reader", .bool (match JText.parseAll (JText.render j) with
            | some j' => (j' == j)
            | none => false))]

def partsJ (p : Impl.Parts) : J :=
  mkObj [("jwt", L p.jwt), ("disclosures", .arr (p.disclosures.map L)),
         ("kb", match p.kb with | some k => L k | none => .null)]

def opParts (req : J) : J :=
  let s := (jstr req "s").toList
  mkObj [("parts", outcomeJ partsJ (Impl.sdJwtParts s)),
         ("prefix", outcomeJ partsJ (Impl.sdJwtPartsPreFix s)),
         ("dropkb", L (Impl.dropKb s)),
         ("jwtpart", outcomeJ L (Impl.getJwtPart s .claims))]

def pathsJ (ps : List Impl.PathEntry) : J :=
  .arr (ps.map fun (p, d) => .arr [S p, S d.str,
    (match d.key with | some k => S k | none => .null), d.value])

def opRestore (req : J) : J :=
  let alg := jstr req "alg"
  let payload := (jget req "payload").getD .null
  let discs := strs (jarr req "discs")
  let model := match Impl.restoreAll (envFor alg) payload discs with
    | .ok (c, ps) => Outcome.ok (Impl.removeDigests c, ps)
    | .err e => .err e
    | .panic => .panic
  mkObj [("model", outcomeJ (fun (c, ps) => mkObj [("claims", c), ("paths", pathsJ ps)]) model),
         ("ref", refJ (refVerifyBytes false alg payload discs)),
         ("ref_strict", refJ (refVerifyBytes true alg payload discs))]

def nodupB' (l : List String) : Bool :=
  match l with
  | [] => true
  | a :: r => !(r.contains a) && nodupB' r

/-! decidable versions of the theorems' hypotheses, to report whether a generated case meets them -/
mutual
def wfB : MJ → Bool
  | .leaf j => decide (J.scalar j)
  | .arr xs => wfE xs
  | .obj ms sd => wfM ms none && ms.marks.all (fun g => (sd.getD []).contains g) && nodupB' ms.marks
def wfE : MElems → Bool
  | .nil => true
  | .clear x r => wfB x && wfE r
  | .marked _ x r => wfB x && wfE r
  | .decoy _ r => wfE r
def wfM : MMems → Option String → Bool
  | .nil, _ => true
  | .clear k x r, prev => k != "_sd" && k != "..." && (match prev with | some p => decide (p < k) | none => true) && wfB x && wfM r (some k)
  | .marked k _ x r, prev => k != "_sd" && k != "..." && (match prev with | some p => decide (p < k) | none => true) && wfB x && wfM r (some k)
end

def nodupB (l : List String) : Bool :=
  match l with
  | [] => true
  | a :: r => !(r.contains a) && nodupB r

def opTree (req : J) : J :=
  let alg := jstr req "alg"
  let (T, out) := (toMJ alg ((jget req "tree").getD .null)).run {}
  let discs := out.discs.toList
  let dgOf (id : Nat) : Option String := (discs.find? (·.id = id)).map (·.digest)
  let shows := (jarr req "shows").map fun s =>
    match s with
    | .arr ids => ids.filterMap fun (i : J) => match i with | J.num m 0 => dgOf m.toNat | _ => none
    | _ => []
  let paths := T.paths ""
  mkObj [("payload", T.payload), ("plain", T.plain),
         ("wf", .bool (wfB T)), ("nodup", .bool (nodupB T.digests)),
         ("discs", .arr (discs.map fun d => mkObj [
            ("id", .num d.id 0), ("digest", S d.digest), ("str", S d.str),
            ("key", match d.key with | some k => S k | none => .null), ("value", d.value),
            ("path", match paths.find? (·.2 = d.digest) with | some (p, _) => S p | none => .null)])),
         ("projects", .arr (shows.map fun dgs => T.project (fun g => dgs.contains g)))]

/-! ## holder / verifier flows -/

def decodeSeg (s : String) : Option J := codec.decodeClaims s

/-- (header, payload) of a compact JWT as the driver itself decodes them -/
def peekJwt (jwt : String) : Option (J × J) :=
  match jwt.splitOn "." with
  | [h, p, _] =>
    match decodeSeg h, decodeSeg p with
    | some hj, some pj => some (hj, pj)
    | _, _ => none
  | _ => none

/-- the runtime for one request: hashing/decoding by `Exec/`, the JWT library's verdicts
(`jwt_ok`, `kb_ok`: known to the harness by construction of the case) as given -/
def rtFor (req : J) : Impl.Rt :=
  { hash := b64Hash
    decodeDisc := decodeDisc
    decodeClaims := decodeSeg
    jwtDecode := fun jwt =>
      if jbool req "jwt_ok" then
        match peekJwt jwt with
        | some (h, p) => match p with
          | .obj _ => .ok (h, p)
          | _ => .err .jwt
        | none => .err .jwt
      else .err .jwt
    kbDecode := fun kb _ =>
      if jbool req "kb_ok" then
        match peekJwt kb with
        | some (h, p) => match p with
          | .obj _ => .ok (h, p)
          | _ => .err .jwt
        | none => .err .jwt
      else .err .jwt }

def opFlow (req : J) : J :=
  let rt := rtFor req
  let tok := jstr req "token"
  match jstr req "entry" with
  | "holder_verify" =>
    outcomeJ (fun (h, c, ps) => mkObj [("header", h), ("claims", c), ("paths", pathsJ ps)]) (Impl.Holder.verify rt tok)
  | "verifier_verify" =>
    outcomeJ (fun (h, c) => mkObj [("header", h), ("claims", c)]) (Impl.Verifier.verify rt tok (jbool req "policy"))
  | "holder_build" =>
    let kb : Option Impl.KbParams := match jget req "kb_params" with
      | some (.obj _) => some { aud := jstr ((jget req "kb_params").getD .null) "aud", alg := jstr ((jget req "kb_params").getD .null) "alg" }
      | _ => none
    let redacted := strs (jarr req "redacted")
    let r := match Impl.Holder.presentation rt tok with
      | .ok h => Impl.Holder.build rt h redacted kb (jstr req "nonce") ((jint? req "now").getD 0)
      | .err e => .err e
      | .panic => .panic
    outcomeJ (fun (pre, spec) => mkObj [("prefix", S pre),
      ("kb", match spec with
        | some k => mkObj [("typ", S k.typ), ("alg", S k.alg), ("aud", S k.aud), ("nonce", S k.nonce),
                           ("iat", .num k.iat 0), ("sd_hash", S k.sdHash)]
        | none => .null)]) r
  | e => mkObj [("error", S ("unknown entry " ++ e))]

/-! ## issuer -/

def opIssue (req : J) : J :=
  let claims := (jget req "claims").getD .null
  let paths := strs (jarr req "paths")
  let discs := strs (jarr req "discs")
  -- the digests are recomputed under the algorithm the real payload declares (the harness passes it on)
  let alg := match jget req "alg" with
    | some (.str a) => a
    | _ => "sha-256"
  let mk (i : Nat) (_ : Option String) (_ : J) : String :=
    match discs[i]? with
    | some d => b64Hash alg d
    | none => "digest-" ++ toString i
  let decoys : Option (List String) := match jget req "decoys" with
    | some (.arr xs) => if xs.isEmpty then none else some (strs xs)
    | _ => none
  let cnf : Option J := match jget req "cnf" with
    | some .null => none
    | some j => some j
    | none => none
  outcomeJ (fun (p, srcs) => mkObj [("payload", p),
      ("srcs", .arr (srcs.map fun d => .arr [match d.key with | some k => S k | none => .null, d.value, S d.digest]))])
    (Impl.encode claims paths mk decoys cnf)

/-! ## validation policy, header, yaml -/

def algOfName (n : String) : Impl.Alg := (Impl.Alg.all.find? (fun a => a.name = n)).getD .RS256

def jwtAlgOfName (n : String) : Option Impl.JwtAlg :=
  [Impl.JwtAlg.HS256, .HS384, .HS512, .RS256, .RS384, .RS512, .PS256, .PS384, .PS512, .ES256, .ES256K, .ES384, .ES512].find? (fun a => a.name = n)

def stepOf (j : J) : Option Impl.Step :=
  match j with
  | .arr [.str "withoutExpiry"] => some .withoutExpiry
  | .arr [.str "withAudience", .str a] => some (.withAudience a)
  | .arr [.str "withIssuer", .str a] => some (.withIssuer a)
  | .arr [.str "withSubject", .str a] => some (.withSubject a)
  | .arr [.str "withLeeway", .num n 0] => some (.withLeeway n.toNat)
  | .arr [.str "withAlgorithm", .str a] => some (.withAlgorithm (algOfName a))
  | .arr [.str "withRequiredClaim", .str a] => some (.withRequiredClaim a)
  | _ => none

def optListOf' (j : J) (k : String) : Option (List String) :=
  match jget j k with
  | some (.arr xs) => some (strs xs)
  | _ => none

/-- the starting policy: the crate's `default()` / `new(alg)` as modelled, or — when the request carries
`init`, the fields read off the real starting policy — those fields (C11 fixes what the steps do and what
is enforced, not the starting values); `new(alg)` still decides the algorithm itself -/
def policyOf (req : J) : Impl.Validation :=
  let start0 := match jstr? req "start" with
    | some "default" => Impl.Validation.default
    | some a => Impl.Validation.new (algOfName a)
    | none => Impl.Validation.default
  let start : Impl.Validation := match jget req "init" with
    | some (.obj ms) =>
      let i : J := .obj ms
      { required := optListOf' i "required", leeway := jnat i "leeway", validateExp := jbool i "validate_exp",
        validateNbf := jbool i "validate_nbf", validateAud := jbool i "validate_aud", aud := optListOf' i "aud",
        iss := jstr? i "iss", sub := jstr? i "sub",
        alg := match jstr? req "start" with
          | some "default" => algOfName (jstr i "alg")
          | _ => start0.alg }
    | _ => start0
  let v := start.steps ((jarr req "steps").filterMap stepOf)
  -- direct field assignments the harness may make on the public fields
  let v := match jget req "validate_nbf" with
    | some (.bool b) => { v with validateNbf := b }
    | _ => v
  v

def optS (o : Option String) : J := match o with | some s => S s | none => .null
def optL (o : Option (List String)) : J := match o with | some l => .arr (l.map S) | none => .null

def policyJ (v : Impl.Validation) : J :=
  mkObj [("required", optL v.required), ("leeway", .num v.leeway 0), ("validate_exp", .bool v.validateExp),
         ("validate_nbf", .bool v.validateNbf), ("validate_aud", .bool v.validateAud), ("aud", optL v.aud),
         ("iss", optS v.iss), ("sub", optS v.sub), ("alg", S v.alg.name)]

def opPolicy (req : J) : J := mkObj [("policy", policyJ (policyOf req))]

def opDecide (req : J) : J :=
  let v := policyOf req
  let fam : Impl.KeyFam := match jstr req "fam" with
    | "secret" => .secret | "rsa" => .rsa | _ => .ec
  match jwtAlgOfName (jstr req "hdr_alg") with
  | none => mkObj [("err", S "jwt")]
  | some ha =>
    outcomeJ (fun _ => .bool true)
      (Impl.decodeDecision v fam ha (jbool req "sig_ok") ((jget req "payload").getD .null) (jnat req "now"))

def optStrOf (j : J) (k : String) : Option String := jstr? j k
def optListOf (j : J) (k : String) : Option (List String) :=
  match jget j k with
  | some (.arr xs) => some (strs xs)
  | _ => none

def opHeader (req : J) : J :=
  let h := (jget req "h").getD .null
  let hd : Impl.Header :=
    { typ := optStrOf h "typ", alg := algOfName (jstr h "alg"), cty := optStrOf h "cty", jku := optStrOf h "jku",
      kid := optStrOf h "kid", x5u := optStrOf h "x5u", x5c := optListOf h "x5c", x5t := optStrOf h "x5t",
      x5tS256 := optStrOf h "x5t_s256", crit := optListOf h "crit" }
  mkObj [("header", Impl.headerRoundTrip hd)]

partial def yOf (j : J) : Impl.Y :=
  match jstr j "y" with
  | "null" => .null
  | "bool" => .bool (jbool j "v")
  | "num" => match jget j "v" with
    | some (.num m e) => .num m e
    | _ => .null
  | "str" => .str (jstr j "v")
  | "seq" => .seq ((jarr j "xs").map yOf)
  | "map" => .map ((jarr j "kvs").filterMap fun kv => match kv with
      | .arr [k, v] => some (yOf k, yOf v)
      | _ => none)
  | "tag" => .tagged (jstr j "tag") (yOf ((jget j "v").getD .null))
  | _ => .null

def opYaml (req : J) : J :=
  outcomeJ (fun (j, ps) => mkObj [("json", j), ("paths", .arr (ps.map S))])
    (Impl.parseYaml (yOf ((jget req "doc").getD .null)))

def dispatch (req : J) : J :=
  match jstr req "op" with
  | "hash" => opHash req
  | "disc_string" => opDiscString req
  | "parts" => opParts req
  | "restore" => opRestore req
  | "tree" => opTree req
  | "flow" => opFlow req
  | "issue" => opIssue req
  | "policy" => opPolicy req
  | "decide" => opDecide req
  | "header" => opHeader req
  | "yaml" => opYaml req
  | "ping" => mkObj [("pong", .bool true)]
  | op => mkObj [("error", S ("unknown op " ++ op))]

end Exec
