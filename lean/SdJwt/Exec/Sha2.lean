/-!
Executable-only SHA-256 / SHA-384 / SHA-512 over `ByteArray` (FIPS 180-4). No theorem depends on
this file; it is pinned by the known-answer `#guard`s at the bottom (tests, labelled as such) and
cross-checked against the crate's `base64_hash` in every correspondence run.
-/
namespace Exec

def rotr32 (x : UInt32) (n : UInt32) : UInt32 := (x >>> n) ||| (x <<< (32 - n))
def rotr64 (x : UInt64) (n : UInt64) : UInt64 := (x >>> n) ||| (x <<< (64 - n))

def K256 : Array UInt32 := #[
  0x428a2f98,0x71374491,0xb5c0fbcf,0xe9b5dba5,0x3956c25b,0x59f111f1,0x923f82a4,0xab1c5ed5,
  0xd807aa98,0x12835b01,0x243185be,0x550c7dc3,0x72be5d74,0x80deb1fe,0x9bdc06a7,0xc19bf174,
  0xe49b69c1,0xefbe4786,0x0fc19dc6,0x240ca1cc,0x2de92c6f,0x4a7484aa,0x5cb0a9dc,0x76f988da,
  0x983e5152,0xa831c66d,0xb00327c8,0xbf597fc7,0xc6e00bf3,0xd5a79147,0x06ca6351,0x14292967,
  0x27b70a85,0x2e1b2138,0x4d2c6dfc,0x53380d13,0x650a7354,0x766a0abb,0x81c2c92e,0x92722c85,
  0xa2bfe8a1,0xa81a664b,0xc24b8b70,0xc76c51a3,0xd192e819,0xd6990624,0xf40e3585,0x106aa070,
  0x19a4c116,0x1e376c08,0x2748774c,0x34b0bcb5,0x391c0cb3,0x4ed8aa4a,0x5b9cca4f,0x682e6ff3,
  0x748f82ee,0x78a5636f,0x84c87814,0x8cc70208,0x90befffa,0xa4506ceb,0xbef9a3f7,0xc67178f2]

def sha256 (msg : ByteArray) : ByteArray := Id.run do
  let ml := msg.size
  let mut m := msg.push 0x80
  while m.size % 64 != 56 do m := m.push 0
  let bits : UInt64 := (UInt64.ofNat ml) * 8
  for i in [0:8] do
    m := m.push (UInt8.ofNat ((bits >>> (UInt64.ofNat (56 - 8*i))).toNat % 256))
  let mut h : Array UInt32 := #[0x6a09e667,0xbb67ae85,0x3c6ef372,0xa54ff53a,0x510e527f,0x9b05688c,0x1f83d9ab,0x5be0cd19]
  for blk in [0:m.size/64] do
    let mut w : Array UInt32 := Array.mkEmpty 64
    for t in [0:16] do
      let o := blk*64 + t*4
      w := w.push ((m[o]!.toUInt32 <<< 24) ||| (m[o+1]!.toUInt32 <<< 16) ||| (m[o+2]!.toUInt32 <<< 8) ||| m[o+3]!.toUInt32)
    for t in [16:64] do
      let s0 := rotr32 w[t-15]! 7 ^^^ rotr32 w[t-15]! 18 ^^^ (w[t-15]! >>> 3)
      let s1 := rotr32 w[t-2]! 17 ^^^ rotr32 w[t-2]! 19 ^^^ (w[t-2]! >>> 10)
      w := w.push (w[t-16]! + s0 + w[t-7]! + s1)
    let mut a := h[0]!; let mut b := h[1]!; let mut c := h[2]!; let mut d := h[3]!
    let mut e := h[4]!; let mut f := h[5]!; let mut g := h[6]!; let mut hh := h[7]!
    for t in [0:64] do
      let S1 := rotr32 e 6 ^^^ rotr32 e 11 ^^^ rotr32 e 25
      let ch := (e &&& f) ^^^ ((~~~ e) &&& g)
      let t1 := hh + S1 + ch + K256[t]! + w[t]!
      let S0 := rotr32 a 2 ^^^ rotr32 a 13 ^^^ rotr32 a 22
      let mj := (a &&& b) ^^^ (a &&& c) ^^^ (b &&& c)
      let t2 := S0 + mj
      hh := g; g := f; f := e; e := d + t1; d := c; c := b; b := a; a := t1 + t2
    h := #[h[0]!+a, h[1]!+b, h[2]!+c, h[3]!+d, h[4]!+e, h[5]!+f, h[6]!+g, h[7]!+hh]
  let mut out := ByteArray.empty
  for x in h do
    out := out.push (x >>> 24).toUInt8 |>.push (x >>> 16).toUInt8 |>.push (x >>> 8).toUInt8 |>.push x.toUInt8
  return out

def K512 : Array UInt64 := #[
  0x428a2f98d728ae22, 0x7137449123ef65cd, 0xb5c0fbcfec4d3b2f, 0xe9b5dba58189dbbc, 0x3956c25bf348b538,
  0x59f111f1b605d019, 0x923f82a4af194f9b, 0xab1c5ed5da6d8118, 0xd807aa98a3030242, 0x12835b0145706fbe,
  0x243185be4ee4b28c, 0x550c7dc3d5ffb4e2, 0x72be5d74f27b896f, 0x80deb1fe3b1696b1, 0x9bdc06a725c71235,
  0xc19bf174cf692694, 0xe49b69c19ef14ad2, 0xefbe4786384f25e3, 0x0fc19dc68b8cd5b5, 0x240ca1cc77ac9c65,
  0x2de92c6f592b0275, 0x4a7484aa6ea6e483, 0x5cb0a9dcbd41fbd4, 0x76f988da831153b5, 0x983e5152ee66dfab,
  0xa831c66d2db43210, 0xb00327c898fb213f, 0xbf597fc7beef0ee4, 0xc6e00bf33da88fc2, 0xd5a79147930aa725,
  0x06ca6351e003826f, 0x142929670a0e6e70, 0x27b70a8546d22ffc, 0x2e1b21385c26c926, 0x4d2c6dfc5ac42aed,
  0x53380d139d95b3df, 0x650a73548baf63de, 0x766a0abb3c77b2a8, 0x81c2c92e47edaee6, 0x92722c851482353b,
  0xa2bfe8a14cf10364, 0xa81a664bbc423001, 0xc24b8b70d0f89791, 0xc76c51a30654be30, 0xd192e819d6ef5218,
  0xd69906245565a910, 0xf40e35855771202a, 0x106aa07032bbd1b8, 0x19a4c116b8d2d0c8, 0x1e376c085141ab53,
  0x2748774cdf8eeb99, 0x34b0bcb5e19b48a8, 0x391c0cb3c5c95a63, 0x4ed8aa4ae3418acb, 0x5b9cca4f7763e373,
  0x682e6ff3d6b2b8a3, 0x748f82ee5defb2fc, 0x78a5636f43172f60, 0x84c87814a1f0ab72, 0x8cc702081a6439ec,
  0x90befffa23631e28, 0xa4506cebde82bde9, 0xbef9a3f7b2c67915, 0xc67178f2e372532b, 0xca273eceea26619c,
  0xd186b8c721c0c207, 0xeada7dd6cde0eb1e, 0xf57d4f7fee6ed178, 0x06f067aa72176fba, 0x0a637dc5a2c898a6,
  0x113f9804bef90dae, 0x1b710b35131c471b, 0x28db77f523047d84, 0x32caab7b40c72493, 0x3c9ebe0a15c9bebc,
  0x431d67c49c100d4c, 0x4cc5d4becb3e42b6, 0x597f299cfc657e2a, 0x5fcb6fab3ad6faec, 0x6c44198c4a475817]

def sha512Core (iv : Array UInt64) (outWords : Nat) (msg : ByteArray) : ByteArray := Id.run do
  let ml := msg.size
  let mut m := msg.push 0x80
  while m.size % 128 != 112 do m := m.push 0
  for _ in [0:8] do m := m.push 0      -- high 64 bits of the 128-bit length
  let bits : UInt64 := (UInt64.ofNat ml) * 8
  for i in [0:8] do
    m := m.push (UInt8.ofNat ((bits >>> (UInt64.ofNat (56 - 8*i))).toNat % 256))
  let mut h := iv
  for blk in [0:m.size/128] do
    let mut w : Array UInt64 := Array.mkEmpty 80
    for t in [0:16] do
      let o := blk*128 + t*8
      let mut x : UInt64 := 0
      for j in [0:8] do
        x := (x <<< 8) ||| m[o+j]!.toUInt64
      w := w.push x
    for t in [16:80] do
      let s0 := rotr64 w[t-15]! 1 ^^^ rotr64 w[t-15]! 8 ^^^ (w[t-15]! >>> 7)
      let s1 := rotr64 w[t-2]! 19 ^^^ rotr64 w[t-2]! 61 ^^^ (w[t-2]! >>> 6)
      w := w.push (w[t-16]! + s0 + w[t-7]! + s1)
    let mut a := h[0]!; let mut b := h[1]!; let mut c := h[2]!; let mut d := h[3]!
    let mut e := h[4]!; let mut f := h[5]!; let mut g := h[6]!; let mut hh := h[7]!
    for t in [0:80] do
      let S1 := rotr64 e 14 ^^^ rotr64 e 18 ^^^ rotr64 e 41
      let ch := (e &&& f) ^^^ ((~~~ e) &&& g)
      let t1 := hh + S1 + ch + K512[t]! + w[t]!
      let S0 := rotr64 a 28 ^^^ rotr64 a 34 ^^^ rotr64 a 39
      let mj := (a &&& b) ^^^ (a &&& c) ^^^ (b &&& c)
      let t2 := S0 + mj
      hh := g; g := f; f := e; e := d + t1; d := c; c := b; b := a; a := t1 + t2
    h := #[h[0]!+a, h[1]!+b, h[2]!+c, h[3]!+d, h[4]!+e, h[5]!+f, h[6]!+g, h[7]!+hh]
  let mut out := ByteArray.empty
  for i in [0:outWords] do
    let x := h[i]!
    for j in [0:8] do
      out := out.push (x >>> (UInt64.ofNat (56 - 8*j))).toUInt8
  return out

def sha512 (msg : ByteArray) : ByteArray :=
  sha512Core #[0x6a09e667f3bcc908, 0xbb67ae8584caa73b, 0x3c6ef372fe94f82b, 0xa54ff53a5f1d36f1,
               0x510e527fade682d1, 0x9b05688c2b3e6c1f, 0x1f83d9abfb41bd6b, 0x5be0cd19137e2179] 8 msg

def sha384 (msg : ByteArray) : ByteArray :=
  sha512Core #[0xcbbb9d5dc1059ed8, 0x629a292a367cd507, 0x9159015a3070dd17, 0x152fecd8f70e5939,
               0x67332667ffc00b31, 0x8eb44a8768581511, 0xdb0c2e0d64f98fa7, 0x47b5481dbefa4fa4] 6 msg

def hex (b : ByteArray) : String :=
  b.foldl (fun s x => s ++ (String.singleton (Nat.digitChar (x.toNat / 16))) ++ (String.singleton (Nat.digitChar (x.toNat % 16)))) ""

-- known-answer tests (FIPS 180-4 examples); these are tests, not theorems
#guard hex (sha256 "abc".toUTF8) == "ba7816bf8f01cfea414140de5dae2223b00361a396177a9cb410ff61f20015ad"
#guard hex (sha256 "".toUTF8) == "e3b0c44298fc1c149afbf4c8996fb92427ae41e4649b934ca495991b7852b855"
#guard hex (sha256 "abcdbcdecdefdefgefghfghighijhijkijkljklmklmnlmnomnopnopq".toUTF8) == "248d6a61d20638b8e5c026930c3e6039a33ce45964ff2167f6ecedd419db06c1"
#guard hex (sha512 "abc".toUTF8) == "ddaf35a193617abacc417349ae20413112e6fa4e89a97ea20a9eeee64b55d39a2192992a274fc1a836ba3c23a3feebbd454d4423643ce80e2a9ac94fa54ca49f"
#guard hex (sha384 "abc".toUTF8) == "cb00753f45a35e8bb5a03d699ac65007272c32ab0eded1631a8b605a43ff5bed8086072ba1e7cc2358baeca134c825a7"
#guard hex (sha512 "abcdefghbcdefghicdefghijdefghijkefghijklfghijklmghijklmnhijklmnoijklmnopjklmnopqklmnopqrlmnopqrsmnopqrstnopqrstu".toUTF8) == "8e959b75dae313da8cf4f72814fc143f8f7779c6eb9f7fa17299aeadb6889018501d289e4900f7e4331b99dec4b5433ac7d329eeb6dd26545e96e55b874be909"

end Exec
