/-!
# base64url without padding (RFC 4648 §5), as the crate's `URL_SAFE_NO_PAD` engine does it

`enc` is `URL_SAFE_NO_PAD.encode`, `dec` is `URL_SAFE_NO_PAD.decode`: strict — it rejects `=`
padding, every character outside the alphabet, a single trailing character, and non-zero
trailing bits (the engine's default `decode_allow_trailing_bits = false`). Bytes are `UInt8`,
text is `List Char`; three bytes make four sextets, most significant first.

The driver (`Exec/`) runs exactly these two functions, so every correspondence run compares them
with the real engine: on the crate's own disclosures, digests and `sd_hash` values, and on the
junk of C03 / C10 / C12. `Lemmas/Base64L.lean` proves the two are inverse to each other.
-/
namespace B64

/-- the base64url alphabet by value: `A–Z a–z 0–9 - _` -/
def sextet (n : Nat) : Char :=
  if n < 26 then Char.ofNat (n + 65)
  else if n < 52 then Char.ofNat (n + 71)
  else if n < 62 then Char.ofNat (n - 4)
  else if n = 62 then '-' else '_'

/-- value of an alphabet character; `none` for every other character (also `=`, `+`, `/`) -/
def val (c : Char) : Option Nat :=
  if 'A' ≤ c ∧ c ≤ 'Z' then some (c.toNat - 'A'.toNat)
  else if 'a' ≤ c ∧ c ≤ 'z' then some (c.toNat - 'a'.toNat + 26)
  else if '0' ≤ c ∧ c ≤ '9' then some (c.toNat - '0'.toNat + 52)
  else if c = '-' then some 62
  else if c = '_' then some 63
  else none

def enc : List UInt8 → List Char
  | a :: b :: c :: r =>
    let x := a.toNat * 65536 + b.toNat * 256 + c.toNat
    sextet (x / 262144 % 64) :: sextet (x / 4096 % 64) :: sextet (x / 64 % 64) :: sextet (x % 64) :: enc r
  | [a, b] =>
    let x := a.toNat * 65536 + b.toNat * 256
    [sextet (x / 262144 % 64), sextet (x / 4096 % 64), sextet (x / 64 % 64)]
  | [a] =>
    let x := a.toNat * 65536
    [sextet (x / 262144 % 64), sextet (x / 4096 % 64)]
  | [] => []

def dec : List Char → Option (List UInt8)
  | c0 :: c1 :: c2 :: c3 :: r =>
    match val c0, val c1, val c2, val c3, dec r with
    | some v0, some v1, some v2, some v3, some t =>
      let x := v0 * 262144 + v1 * 4096 + v2 * 64 + v3
      some (UInt8.ofNat (x / 65536 % 256) :: UInt8.ofNat (x / 256 % 256) :: UInt8.ofNat (x % 256) :: t)
    | _, _, _, _, _ => none
  | [c0, c1, c2] =>
    match val c0, val c1, val c2 with
    | some v0, some v1, some v2 =>
      let x := v0 * 262144 + v1 * 4096 + v2 * 64
      -- the two bits that encode nothing must be zero
      if x % 256 = 0 then some [UInt8.ofNat (x / 65536 % 256), UInt8.ofNat (x / 256 % 256)] else none
    | _, _, _ => none
  | [c0, c1] =>
    match val c0, val c1 with
    | some v0, some v1 =>
      let x := v0 * 262144 + v1 * 4096
      -- the four bits that encode nothing must be zero
      if x % 65536 = 0 then some [UInt8.ofNat (x / 65536 % 256)] else none
    | _, _ => none
  | [_] => none
  | [] => some []

end B64
