import SdJwt.Impl.Restore
import SdJwt.Impl.Parts
/-!
# Holder and verifier flows: `holder.rs` (`presentation`, `redact`, `build`, `verify_raw`,
# `verify`) and `verifier.rs` (`verify_raw`, `verify`, `verify_kb`)

Everything below the JSON level — base64, UTF-8, JSON text, SHA-2, signatures, the JWT library's
`decode` (signature, algorithm and claims policy; modelled separately in `Impl/Validation`) — is a
field of `Rt` ("runtime"); the theorems hold for every `Rt`, the driver instantiates it.
-/
open Assoc
namespace Impl

/-- `HashAlgorithm::try_from(&str)` -/
def parseHashAlg (s : String) : Outcome String :=
  if s = "sha-256" ∨ s = "sha-384" ∨ s = "sha-512" then .ok s else .err .hashAlg

structure Rt where
  /-- `base64_hash(alg, data)` -/
  hash : String → String → String
  /-- disclosure string ↦ decoded JSON (base64url-no-pad, UTF-8, JSON text) -/
  decodeDisc : String → Option J
  /-- `decode_claims_no_verification` of a JWT's claims segment -/
  decodeClaims : String → Option J
  /-- `decode(jwt, key, validation)` for the caller's key and policy: `(header, payload)` -/
  jwtDecode : String → Outcome (J × J)
  /-- inside `verify_kb`: base64 of `n`/`e`, key construction and `decode(kb, key, policy)` -/
  kbDecode : String → J → Outcome (J × J)

def Rt.env (rt : Rt) (alg : String) : Env := { hash := rt.hash alg, decodeDisc := rt.decodeDisc }

/-- `value[key]` on a `serde_json::Value` (Null for non-objects and missing members) -/
def jidx (j : J) (k : String) : J :=
  match j with
  | .obj ms => (aget k ms).getD .null
  | _ => .null

/-- `value.get(key)` -/
def jget? (j : J) (k : String) : Option J :=
  match j with
  | .obj ms => aget k ms
  | _ => none

/-- `value.is_null()` -/
def isNullJ : J → Bool
  | .null => true
  | _ => false

def strOf (cs : List Char) : String := String.ofList cs

/-! ## Holder -/

structure HolderState where
  sdJwt : String                     -- the issuer-signed JWT (first segment)
  paths : List PathEntry

/-- `Holder::presentation` -/
def Holder.presentation (rt : Rt) (tok : String) : Outcome HolderState :=
  match sdJwtParts tok.toList with
  | .panic => .panic
  | .err e => .err e
  | .ok parts =>
    if parts.kb.isSome then .err .rejected
    else
      match getJwtPart parts.jwt .claims with
      | .panic => .panic
      | .err e => .err e
      | .ok seg =>
        match rt.decodeClaims (strOf seg) with
        | none => .err .decoding
        | some claims =>
          match parseHashAlg ((jidx claims "_sd_alg").asStr.getD "") with
          | .panic => .panic
          | .err e => .err e
          | .ok alg =>
            match restoreAll (rt.env alg) claims (parts.disclosures.map strOf) with
            | .panic => .panic
            | .err e => .err e
            | .ok (_, ps) => .ok { sdJwt := strOf parts.jwt, paths := ps }

/-- key-binding parameters as `Holder::key_binding` stores them; all three are set together -/
structure KbParams where
  aud : String
  alg : String

/-- what the holder puts into the key-binding JWT (signing itself is outside the model) -/
structure KbSpec where
  typ : String
  alg : String
  aud : String
  nonce : String
  iat : Int
  sdHash : String
  deriving Repr, DecidableEq

/-- the disclosures `Holder::build` keeps (D6): not redacted, and not below a redacted disclosure -/
def keptDisclosures (paths : List PathEntry) (redacted : List String) : List String :=
  let prefixes := (paths.filter (fun pe => redacted.contains pe.1)).map (fun pe => pe.1 ++ "/")
  ((paths.filter (fun pe => !redacted.contains pe.1)).filter
      (fun pe => !prefixes.any (fun pre => pre.toList.isPrefixOf pe.1.toList))).map (fun pe => pe.2.str)

/-- `presentation.push('~'); presentation.push_str(d)` for every kept disclosure, then `~` -/
def assemble (jwt : String) (ds : List String) : String :=
  ds.foldl (fun acc d => acc ++ "~" ++ d) jwt ++ "~"

/-- `Holder::build`: the presentation up to and including its last `~`, and the content of the
key-binding JWT when the token is bound -/
def Holder.build (rt : Rt) (h : HolderState) (redacted : List String) (kb : Option KbParams)
    (nonce : String) (now : Int) : Outcome (String × Option KbSpec) :=
  match getJwtPart h.sdJwt.toList .claims with
  | .panic => .panic
  | .err e => .err e
  | .ok seg =>
    match rt.decodeClaims (strOf seg) with
    | none => .err .decoding
    | some claims =>
      let bound := (jget? claims "cnf").isSome
      if bound ∧ kb.isNone then .err .kbRequired
      else
        let pre := assemble h.sdJwt (keptDisclosures h.paths redacted)
        if bound then
          match parseHashAlg ((jidx claims "_sd_alg").asStr.getD "") with
          | .panic => .panic
          | .err e => .err e
          | .ok alg =>
            match kb with
            | none => .err .kbRequired
            | some p =>
              .ok (pre, some { typ := "kb+jwt", alg := p.alg, aud := p.aud, nonce := nonce,
                               iat := now, sdHash := rt.hash alg pre })
        else .ok (pre, none)

/-- `Holder::verify_raw` -/
def Holder.verifyRaw (rt : Rt) (tok : String) : Outcome (J × J × List String) :=
  match sdJwtParts tok.toList with
  | .panic => .panic
  | .err e => .err e
  | .ok parts =>
    if parts.kb.isSome then .err .rejected
    else
      match rt.jwtDecode (strOf parts.jwt) with
      | .panic => .panic
      | .err e => .err e
      | .ok (header, claims) =>
        match (jidx claims "_sd_alg").asStr with
        | none => .err .rejected
        | some a =>
          match parseHashAlg a with
          | .panic => .panic
          | .err e => .err e
          | .ok _ => .ok (header, claims, parts.disclosures.map strOf)

/-- `Holder::verify`: header, restored claims without bookkeeping, disclosure paths -/
def Holder.verify (rt : Rt) (tok : String) : Outcome (J × J × List PathEntry) :=
  match Holder.verifyRaw rt tok with
  | .panic => .panic
  | .err e => .err e
  | .ok (header, claims, ds) =>
    match parseHashAlg ((jidx claims "_sd_alg").asStr.getD "") with
    | .panic => .panic
    | .err e => .err e
    | .ok alg =>
      match restoreAll (rt.env alg) claims ds with
      | .panic => .panic
      | .err e => .err e
      | .ok (c, ps) => .ok (header, removeDigests c, ps)

/-! ## Verifier -/

/-- `verify_kb`, after the JWT library has done its part: the `cnf` shape checks come first -/
def verifyKb (rt : Rt) (kb : String) (cnf : J) : Outcome (J × J) :=
  if (jidx cnf "kty").asStr ≠ some "RSA" then .err .rejected
  else if (jidx cnf "e").asStr.isNone then .err .rejected
  else if (jidx cnf "n").asStr.isNone then .err .rejected
  else
    match rt.kbDecode kb cnf with
    | .panic => .panic
    | .err e => .err e
    | .ok (header, claims) =>
      if (jidx header "typ").asStr ≠ some "kb+jwt" then .err .rejected
      else .ok (header, claims)

/-- `Verifier::verify_raw`; `policy = false` is `kb_validation = None` -/
def Verifier.verifyRaw (rt : Rt) (tok : String) (policy : Bool) : Outcome (J × J × List String) :=
  match sdJwtParts tok.toList with
  | .panic => .panic
  | .err e => .err e
  | .ok parts =>
    match rt.jwtDecode (strOf parts.jwt) with
    | .panic => .panic
    | .err e => .err e
    | .ok (header, claims) =>
      let cnf := jidx claims "cnf"
      if isNullJ cnf = true ∧ parts.kb.isSome then .err .rejected
      else if isNullJ cnf = false ∧ parts.kb.isNone then .err .rejected
      else
        match (jidx claims "_sd_alg").asStr with
        | none => .err .rejected
        | some a =>
          match parseHashAlg a with
          | .panic => .panic
          | .err e => .err e
          | .ok alg =>
            match parts.kb with
            | none => .ok (header, claims, parts.disclosures.map strOf)
            | some kb =>
              if ¬ policy then .err .rejected
              else
                match verifyKb rt (strOf kb) cnf with
                | .panic => .panic
                | .err e => .err e
                | .ok (_, kbClaims) =>
                  match (jidx kbClaims "sd_hash").asStr with
                  | none => .err .rejected
                  | some h =>
                    if rt.hash alg (strOf (dropKb tok.toList)) ≠ h then .err .rejected
                    else .ok (header, claims, parts.disclosures.map strOf)

/-- `Verifier::verify` -/
def Verifier.verify (rt : Rt) (tok : String) (policy : Bool) : Outcome (J × J) :=
  match Verifier.verifyRaw rt tok policy with
  | .panic => .panic
  | .err e => .err e
  | .ok (header, claims, ds) =>
    match parseHashAlg ((jidx claims "_sd_alg").asStr.getD "") with
    | .panic => .panic
    | .err e => .err e
    | .ok alg =>
      match restoreAll (rt.env alg) claims ds with
      | .panic => .panic
      | .err e => .err e
      | .ok (c, _) => .ok (header, removeDigests c)

end Impl
