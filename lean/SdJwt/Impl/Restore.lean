import SdJwt.Data.J
import SdJwt.Impl.Outcome
import SdJwt.Data.Path
/-!
# Disclosure decoding and restoration: `disclosure.rs` `from_base64`/`reconstruct_disclosure`,
# `utils.rs` `restore_disclosures`, `check_digests`, `restore_disclosure`, `remove_digests`,
# `format_path` — as repaired (D2–D5, D14–D18, D20).

Byte-level steps (base64url, UTF-8, JSON text, SHA-2) are the parameters `Env.decodeDisc` and
`Env.hash`; the driver instantiates them with `Exec/`, theorems hold for every instance.
-/
open Assoc Path

namespace Impl

structure Env where
  /-- `base64_hash(alg, ·)` for the token's `_sd_alg` -/
  hash : String → String
  /-- base64url-no-pad decode, then UTF-8, then JSON text; `none` = any of the three fails -/
  decodeDisc : String → Option J

/-- `Disclosure` as far as restoration looks at it -/
structure Disc where
  str : String
  digest : String
  key : Option String
  value : J
  deriving Repr, Inhabited

/-- `Disclosure::from_base64` + `reconstruct_disclosure` -/
def fromBase64 (env : Env) (s : String) : Outcome Disc :=
  match env.decodeDisc s with
  | none => .err .decoding
  | some (.arr [_, v]) => .ok { str := s, digest := env.hash s, key := none, value := v }
  | some (.arr [_, k, v]) =>
    match k with
    | .str name =>
      if name = "_sd" ∨ name = "..." then .err .format
      else .ok { str := s, digest := env.hash s, key := some name, value := v }
    | _ => .err .format
  | some _ => .err .format

/-! ## `check_digests`: one read-only validating walk with a shared set of seen digests -/

def note (seen : List String) (g : String) : Outcome (List String) :=
  if g ∈ seen then .err .rejected else .ok (seen ++ [g])

def noteAll : List String → List String → Outcome (List String)
  | [], seen => .ok seen
  | g :: r, seen =>
    match note seen g with
    | .ok seen' => noteAll r seen'
    | .err e => .err e
    | .panic => .panic

def strsOf : List J → List String
  | [] => []
  | .str s :: r => s :: strsOf r
  | _ :: r => strsOf r

/-- the array branch of `check_digests`, for one item, before descending into it -/
def phNote (x : J) (seen : List String) : Outcome (List String) :=
  match x with
  | .obj ms =>
    match aget "..." ms with
    | some ph =>
      if ms.length ≠ 1 then .err .rejected     -- "... key must be only key in object"
      else match ph with
        | .str g => note seen g
        | _ => .ok seen
    | none => .ok seen
  | _ => .ok seen

def checkDigests : J → List String → Outcome (List String)
  | .obj ms, seen =>
    match aget "_sd" ms with
    | some (.arr xs) =>
      match noteAll (strsOf xs) seen with
      | .ok seen' => checkM ms seen'
      | .err e => .err e
      | .panic => .panic
    | some _ => .err .rejected                       -- "_sd element must be array"
    | none => checkM ms seen
  | .arr xs, seen => checkL xs seen
  | _, seen => .ok seen
where
  checkM : List (String × J) → List String → Outcome (List String)
    | [], seen => .ok seen
    | (_, v) :: r, seen =>
      match checkDigests v seen with
      | .ok seen' => checkM r seen'
      | .err e => .err e
      | .panic => .panic
  checkL : List J → List String → Outcome (List String)
    | [], seen => .ok seen
    | x :: r, seen =>
      match phNote x seen with
      | .ok seen1 =>
        match checkDigests x seen1 with
        | .ok seen2 => checkL r seen2
        | .err e => .err e
        | .panic => .panic
      | .err e => .err e
      | .panic => .panic

/-! ## `restore_disclosure`: one disclosure, one walk over the whole tree -/

/-- `sd_contains_digest` -/
def sdContains (sd : J) (g : String) : Outcome Bool :=
  match sd with
  | .arr xs => .ok (xs.any fun x => match x with | .str s => s = g | _ => false)
  | _ => .err .rejected

/-- the `_sd` step of the object branch: `some k` when the disclosure belongs into this object -/
def ownSd (d : Disc) (ms : List (String × J)) : Outcome (Option String) :=
  match aget "_sd" ms with
  | none => .ok none
  | some sd =>
    match sdContains sd d.digest with
    | .err e => .err e
    | .panic => .panic
    | .ok false => .ok none
    | .ok true =>
      match d.key with
      | none => .err .rejected                       -- "Disclosure key is missing"
      | some k => if (aget k ms).isSome then .err .rejected   -- name already exists (D16)
                  else .ok (some k)

abbrev Walk (α : Type) := Outcome (α × Bool × List String)

/-- the array branch of `restore_disclosure`, for one item, before descending into it:
`ok true` = the item is the placeholder of this disclosure (and is replaced by its value) -/
def elemHit (d : Disc) (x : J) : Outcome Bool :=
  match x with
  | .obj ms =>
    match aget "..." ms with
    | some v =>
      if ms.length ≠ 1 then .err .rejected
      else match v with
        | .str g =>
          if g = d.digest then
            (if d.key.isSome then .err .rejected       -- 3-element disclosure at `...`
             else .ok true)
          else .ok false
        | _ => .ok false
    | none => .ok false
  | _ => .ok false

/-- Model of `restore_disclosure` (tree after the walk, `is_restored`, paths pushed).
The Rust walk also re-enters the value it has just inserted, with the same disclosure; that
matters only if a disclosure's value contains its own digest (hash fixed point), see DESIGN §1.2. -/
def restoreOne (d : Disc) (p : String) : J → Walk J
  | .obj ms =>
    match ownSd d ms, restoreM d p ms with
    | .panic, _ => .panic
    | .err e, _ => .err e
    | _, .panic => .panic
    | _, .err e => .err e
    | .ok none, .ok (ms', f, ps) => .ok (.obj ms', f, ps)
    | .ok (some k), .ok (ms', _, ps) => .ok (.obj (ains k d.value ms'), true, fmtPath p k :: ps)
  | .arr xs =>
    match restoreL d p 0 xs with
    | .panic => .panic
    | .err e => .err e
    | .ok (xs', f, ps) => .ok (.arr xs', f, ps)
  | j => .ok (j, false, [])
where
  restoreM (d : Disc) (p : String) : List (String × J) → Walk (List (String × J))
    | [] => .ok ([], false, [])
    | (k, v) :: r =>
      match restoreOne d (fmtPath p k) v, restoreM d p r with
      | .panic, _ => .panic
      | .err e, _ => .err e
      | _, .panic => .panic
      | _, .err e => .err e
      | .ok (v', f1, p1), .ok (r', f2, p2) => .ok ((k, v') :: r', f1 || f2, p1 ++ p2)
  restoreL (d : Disc) (p : String) (i : Nat) : List J → Walk (List J)
    | [] => .ok ([], false, [])
    | x :: r =>
      match elemHit d x with
      | .panic => .panic
      | .err e => .err e
      | .ok true =>
        match restoreL d p (i+1) r with
        | .panic => .panic
        | .err e => .err e
        | .ok (r', _, p2) => .ok (d.value :: r', true, fmtPath p (toString i) :: p2)
      | .ok false =>
        match restoreOne d (fmtPath p (toString i)) x, restoreL d p (i+1) r with
        | .panic, _ => .panic
        | .err e, _ => .err e
        | _, .panic => .panic
        | _, .err e => .err e
        | .ok (x', f1, p1), .ok (r', f2, p2) => .ok (x' :: r', f1 || f2, p1 ++ p2)

/-! ## `restore_disclosures`: decode all, reject repeats, validate, place in rounds -/

abbrev PathEntry := String × Disc

def decodeAll (env : Env) : List String → List Disc → Outcome (List Disc)
  | [], acc => .ok acc.reverse
  | s :: r, acc =>
    match fromBase64 env s with
    | .ok d =>
      if acc.any (fun d' => d'.digest = d.digest) then .err .rejected   -- presented twice (D5)
      else decodeAll env r (d :: acc)
    | .err e => .err e
    | .panic => .panic

def checkValues : List Disc → List String → Outcome (List String)
  | [], seen => .ok seen
  | d :: r, seen =>
    match checkDigests d.value seen with
    | .ok seen' => checkValues r seen'
    | .err e => .err e
    | .panic => .panic

/-- one round: every pending disclosure walks the tree once; returns tree, unplaced, new paths -/
def roundOnce : J → List Disc → Outcome (J × List Disc × List PathEntry)
  | c, [] => .ok (c, [], [])
  | c, d :: r =>
    match restoreOne d "" c with
    | .panic => .panic
    | .err e => .err e
    | .ok (c', found, ps) =>
      match roundOnce c' r with
      | .panic => .panic
      | .err e => .err e
      | .ok (c'', unplaced, ps') =>
        .ok (c'', (if found then unplaced else d :: unplaced), ps.map (fun p => (p, d)) ++ ps')

/-- `while !pending.is_empty() { … if unplaced.len() == pending.len() { break } … }`;
the fuel is the length of the pending list, which a productive round strictly shortens. -/
def rounds : Nat → J → List Disc → List PathEntry → Outcome (J × List PathEntry)
  | 0, c, _, acc => .ok (c, acc)
  | n+1, c, pending, acc =>
    if pending.isEmpty then .ok (c, acc)
    else
      match roundOnce c pending with
      | .panic => .panic
      | .err e => .err e
      | .ok (c', unplaced, ps) =>
        if unplaced.length = pending.length then .ok (c', acc ++ ps)
        else rounds n c' unplaced (acc ++ ps)

def restoreDecoded (claims : J) (pending : List Disc) : Outcome (J × List PathEntry) :=
  match checkDigests claims [] with
  | .panic => .panic
  | .err e => .err e
  | .ok seen =>
    match checkValues pending seen with
    | .panic => .panic
    | .err e => .err e
    | .ok _ => rounds pending.length claims pending []

def restoreAll (env : Env) (claims : J) (strs : List String) : Outcome (J × List PathEntry) :=
  match decodeAll env strs [] with
  | .panic => .panic
  | .err e => .err e
  | .ok pending => restoreDecoded claims pending

/-! ## `remove_digests` -/

/-- `item.is_object() && item.get("...").map_or(false, |v| v.is_string())` -/
def isPlaceholderLike : J → Bool
  | .obj ms => match aget "..." ms with
    | some (.str _) => true
    | _ => false
  | _ => false

def removeAll : J → J
  | .obj ms => .obj (removeM ms)
  | .arr xs => .arr (removeL xs)
  | j => j
where
  removeM : List (String × J) → List (String × J)
    | [] => []
    | (k, v) :: r => if k = "_sd" then removeM r else (k, removeAll v) :: removeM r
  removeL : List J → List J
    | [] => []
    | x :: r => if isPlaceholderLike x then removeL r else removeAll x :: removeL r

def removeDigests : J → J
  | .obj ms => removeAll (.obj (adel "_sd_alg" ms))
  | j => removeAll j

end Impl
