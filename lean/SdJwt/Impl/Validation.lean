import SdJwt.Data.J
import SdJwt.Impl.Outcome
/-!
# Validation policy: `validation.rs` (record and builders, D12 repaired), `decoding.rs`
# `build_validation` (D13 repaired) and `decode`, and a re-model of the claims checks of
# `jwt-rustcrypto` 0.2.1 `validation.rs::validate` / `decode.rs::decode` (third-party code:
# modelled from its source, compared on threshold cases, not verified).
-/
open Assoc
namespace Impl

inductive Alg where
  | HS256 | HS384 | HS512 | ES256 | ES256K | ES384 | ES512
  | RS256 | RS384 | RS512 | PS256 | PS384 | PS512
  deriving Repr, DecidableEq, Inhabited

def Alg.all : List Alg :=
  [.HS256, .HS384, .HS512, .ES256, .ES256K, .ES384, .ES512, .RS256, .RS384, .RS512, .PS256, .PS384, .PS512]

def Alg.name : Alg → String
  | .HS256 => "HS256" | .HS384 => "HS384" | .HS512 => "HS512"
  | .ES256 => "ES256" | .ES256K => "ES256K" | .ES384 => "ES384" | .ES512 => "ES512"
  | .RS256 => "RS256" | .RS384 => "RS384" | .RS512 => "RS512"
  | .PS256 => "PS256" | .PS384 => "PS384" | .PS512 => "PS512"

/-- the JWT library's own algorithm type (`jwt_rustcrypto::Algorithm`) -/
inductive JwtAlg where
  | HS256 | HS384 | HS512 | RS256 | RS384 | RS512 | PS256 | PS384 | PS512
  | ES256 | ES256K | ES384 | ES512
  deriving Repr, DecidableEq

def JwtAlg.name : JwtAlg → String
  | .HS256 => "HS256" | .HS384 => "HS384" | .HS512 => "HS512"
  | .ES256 => "ES256" | .ES256K => "ES256K" | .ES384 => "ES384" | .ES512 => "ES512"
  | .RS256 => "RS256" | .RS384 => "RS384" | .RS512 => "RS512"
  | .PS256 => "PS256" | .PS384 => "PS384" | .PS512 => "PS512"

/-- the 13-row `match` of `build_validation` (decoding.rs 69–83) -/
def toJwtAlgV : Alg → JwtAlg
  | .HS256 => .HS256 | .HS384 => .HS384 | .HS512 => .HS512
  | .RS256 => .RS256 | .RS384 => .RS384 | .RS512 => .RS512
  | .ES256 => .ES256 | .ES256K => .ES256K | .ES384 => .ES384 | .ES512 => .ES512
  | .PS256 => .PS256 | .PS384 => .PS384 | .PS512 => .PS512

/-- the 13-row `match` of `build_header` (encoding.rs 72–86) -/
def toJwtAlgH : Alg → JwtAlg
  | .HS256 => .HS256 | .HS384 => .HS384 | .HS512 => .HS512
  | .RS256 => .RS256 | .RS384 => .RS384 | .RS512 => .RS512
  | .ES256 => .ES256 | .ES256K => .ES256K | .ES384 => .ES384 | .ES512 => .ES512
  | .PS256 => .PS256 | .PS384 => .PS384 | .PS512 => .PS512

/-- `Validation` (validation.rs 4–15); the two `HashSet`s are lists read as sets -/
structure Validation where
  required : Option (List String)
  leeway : Nat
  validateExp : Bool
  validateNbf : Bool
  validateAud : Bool
  aud : Option (List String)
  iss : Option String
  sub : Option String
  alg : Alg
  deriving Repr, DecidableEq

def Validation.new (a : Alg) : Validation :=
  { required := none, leeway := 0, validateExp := true, validateNbf := false, validateAud := true,
    aud := none, iss := none, sub := none, alg := a }

def Validation.default : Validation := Validation.new .RS256

/-- the builder steps -/
inductive Step where
  | withoutExpiry
  | withAudience (a : String)
  | withIssuer (i : String)
  | withSubject (s : String)
  | withLeeway (n : Nat)
  | withAlgorithm (a : Alg)
  | withRequiredClaim (c : String)
  deriving Repr, DecidableEq

def insertSet (c : String) (l : List String) : List String := if c ∈ l then l else l ++ [c]

def Validation.step (v : Validation) : Step → Validation
  | .withoutExpiry => { v with validateExp := false }
  | .withAudience a => { v with aud := some [a] }
  | .withIssuer i => { v with iss := some i }
  | .withSubject s => { v with sub := some s }
  | .withLeeway n => { v with leeway := n }
  | .withAlgorithm a => { v with alg := a }
  | .withRequiredClaim c =>
    { v with required := match v.required with
        | some l => some (insertSet c l)
        | none => some [c] }

def Validation.steps (v : Validation) (ss : List Step) : Validation := ss.foldl Validation.step v

/-- the JWT library's `ValidationOptions` as `build_validation` fills it -/
structure JwtOpts where
  required : Option (List String)
  leeway : Nat
  validateExp : Bool
  validateNbf : Bool
  audiences : Option (List String)
  issuer : Option String
  subject : Option String
  algorithms : List JwtAlg
  deriving Repr, DecidableEq

def buildValidation (v : Validation) : JwtOpts :=
  { algorithms := [toJwtAlgV v.alg], required := v.required, leeway := v.leeway,
    validateExp := v.validateExp, validateNbf := v.validateNbf, audiences := v.aud,
    issuer := v.iss, subject := v.sub }

/-! ## `jwt_rustcrypto::validation::validate` re-modelled -/

def u64Max : Nat := 2^64

/-- `Value::as_u64` -/
def asU64 : J → Option Nat
  | .num m 0 => if 0 ≤ m ∧ m.toNat < u64Max then some m.toNat else none
  | _ => none

def strList : List J → List String
  | [] => []
  | .str s :: r => s :: strList r
  | _ :: r => strList r

/-- `exp`: `now <= exp + leeway`, checked arithmetic (`panic` on overflow: D21) -/
def expStep (o : JwtOpts) (claims : List (String × J)) (now : Nat) : Outcome Unit :=
  if o.validateExp then
    match (aget "exp" claims).bind asU64 with
    | some ts => if ts + o.leeway ≥ u64Max then .panic
                 else if now ≤ ts + o.leeway then .ok () else .err .jwt
    | none => .err .jwt
  else .ok ()

/-- `nbf`: `now >= nbf - leeway`, checked arithmetic -/
def nbfStep (o : JwtOpts) (claims : List (String × J)) (now : Nat) : Outcome Unit :=
  if o.validateNbf then
    match (aget "nbf" claims).bind asU64 with
    | some ts => if ts < o.leeway then .panic
                 else if now ≥ ts - o.leeway then .ok () else .err .jwt
    | none => .err .jwt
  else .ok ()

def strStep (claims : List (String × J)) (name : String) (expected : Option String) : Outcome Unit :=
  match expected with
  | none => .ok ()
  | some e => if ((aget name claims).bind J.asStr) = some e then .ok () else .err .jwt

def audStep (o : JwtOpts) (claims : List (String × J)) : Outcome Unit :=
  match o.audiences with
  | none => .ok ()
  | some exp =>
    match aget "aud" claims with
    | some (.str a) => if a ∈ exp then .ok () else .err .jwt
    | some (.arr xs) => if (strList xs).any (fun a => exp.contains a) then .ok () else .err .jwt
    | _ => .err .jwt

def reqStep (o : JwtOpts) (claims : List (String × J)) : Outcome Unit :=
  match o.required with
  | none => .ok ()
  | some l => if l.all (fun c => (aget c claims).isSome) then .ok () else .err .jwt

/-- the claims checks, in the library's order; `now` is the clock. Arithmetic is checked (`panic`
on overflow), as in a build with overflow checks — D21, the known finding of C10. -/
def validateClaims (o : JwtOpts) (claims : List (String × J)) (now : Nat) : Outcome Unit :=
  (expStep o claims now).bind fun _ => (nbfStep o claims now).bind fun _ =>
    (strStep claims "iss" o.issuer).bind fun _ => (strStep claims "sub" o.subject).bind fun _ =>
      (audStep o claims).bind fun _ => reqStep o claims

/-- key families of `VerifyingKey` -/
inductive KeyFam where
  | secret | rsa | ec
  deriving Repr, DecidableEq

/-- `verify_signature`'s dispatch: which algorithms a key family is tried with at all -/
def famAllows : KeyFam → JwtAlg → Bool
  | .secret, .HS256 | .secret, .HS384 | .secret, .HS512 => true
  | .rsa, .RS256 | .rsa, .RS384 | .rsa, .RS512 | .rsa, .PS256 | .rsa, .PS384 | .rsa, .PS512 => true
  | .ec, .ES256 | .ec, .ES256K | .ec, .ES384 | .ec, .ES512 => true
  | _, _ => false

/-- `decode(token, key, validation)` once the three segments are parsed: `hdrAlg` is the header's
`alg`, `sigOk` the verdict of the signature primitive for (key, hdrAlg, header.payload, signature) -/
def decodeDecision (v : Validation) (fam : KeyFam) (hdrAlg : JwtAlg) (sigOk : Bool) (payload : J)
    (now : Nat) : Outcome Unit :=
  let o := buildValidation v
  if ¬ (o.algorithms.contains hdrAlg) then .err .jwt          -- validate_header
  else if ¬ (famAllows fam hdrAlg ∧ sigOk) then .err .jwt     -- verify_signature
  else match payload with
    | .obj ms => validateClaims o ms now
    | _ => .err .jwt

end Impl
