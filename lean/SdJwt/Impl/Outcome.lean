/-!
Result of a modelled function of the crate: a value, an error (`Err(..)`), or a panic.
`panic` is produced exactly where the Rust can panic; nothing is totalised silently.
Errors carry a coarse class (compared for information only; `ok`/`err`/`panic` is what counts).
-/

inductive ErrClass where
  | rejected        -- Error::SDJWTRejected
  | format          -- InvalidDisclosureFormat / InvalidDisclosureKey
  | decoding        -- base64 / utf-8 / JSON text
  | hashAlg         -- InvalidHashAlgorithm
  | jwt             -- anything the JWT library refuses (signature, algorithm, claims)
  | threeParts      -- JwtMustHaveThreeParts
  | path            -- InvalidPathPointer / InvalidPathPointerArrayIndex
  | sdType          -- InvalidSDType
  | kbRequired      -- KeyBindingJWTRequired / KeyBindingJWTParameterMissing
  | yaml
  deriving Repr, DecidableEq, Inhabited

inductive Outcome (α : Type) where
  | ok (a : α)
  | err (e : ErrClass)
  | panic
  deriving Repr, Inhabited, DecidableEq

namespace Outcome
variable {α β : Type}

def isOk : Outcome α → Bool
  | ok _ => true
  | _ => false

def isErr : Outcome α → Bool
  | err _ => true
  | _ => false

def isPanic : Outcome α → Bool
  | panic => true
  | _ => false

/-- "returns an error or a value" -/
def NoPanic (o : Outcome α) : Prop := o ≠ panic

def bind (o : Outcome α) (f : α → Outcome β) : Outcome β :=
  match o with
  | ok a => f a
  | err e => err e
  | panic => panic

def map (f : α → β) (o : Outcome α) : Outcome β :=
  match o with
  | ok a => ok (f a)
  | err e => err e
  | panic => panic

@[simp] theorem bind_ok (a : α) (f : α → Outcome β) : (ok a).bind f = f a := rfl
@[simp] theorem bind_err (e : ErrClass) (f : α → Outcome β) : (err e : Outcome α).bind f = err e := rfl
@[simp] theorem bind_panic (f : α → Outcome β) : (panic : Outcome α).bind f = panic := rfl

theorem noPanic_bind {o : Outcome α} {f : α → Outcome β}
    (h : o.NoPanic) (hf : ∀ a, (f a).NoPanic) : (o.bind f).NoPanic := by
  cases o with
  | ok a => exact hf a
  | err e => simp [NoPanic]
  | panic => exact absurd rfl h

end Outcome
