import SdJwt.Impl.Flows
import SdJwt.Impl.Base64
/-!
# The byte level between the model's runtime `Rt` / `Env` and what is left as a parameter

`Rt.hash` and `Rt.decodeDisc` stand for `base64_hash` and for "base64url, then UTF-8, then JSON
text". Here the base64 layer is taken out of the parameter and into the model
(`Impl/Base64.lean`): a `Codec` is only JSON text (`serde_json::to_vec` / `String::from_utf8` +
`serde_json::from_str`) and the raw SHA-2 function; everything the crate itself does with them is
written out:

* `generate_salt(n)`      = base64url of `n` random bytes                         (`saltOf`)
* `Disclosure::build`     = base64url of the JSON text of `[salt, name, value]` / `[salt, value]`
                                                                                   (`discString`)
* `base64_hash(alg, s)`   = base64url of SHA-2 over the UTF-8 bytes of `s`         (`Codec.hash`)
* `Decoy::build`          = `base64_hash` of a 32-byte salt                        (`Codec.decoy`)
* `Disclosure::from_base64` begins with base64url decoding, then the text parser  (`Codec.decodeDisc`)
-/
namespace Impl

structure Codec where
  /-- `serde_json::to_vec` -/
  render : J → List UInt8
  /-- `String::from_utf8`, then `serde_json::from_str`; `none` when either fails -/
  parse : List UInt8 → Option J
  /-- digest bytes under the named algorithm (`sha-256`, `sha-384`, `sha-512`) -/
  sha : String → List UInt8 → List UInt8

def utf8 (s : String) : List UInt8 := s.toUTF8.data.toList

/-- `generate_salt` on the bytes the generator returned -/
def saltOf (rnd : List UInt8) : String := String.ofList (B64.enc rnd)

/-- `base64_hash` -/
def Codec.hash (c : Codec) (alg s : String) : String := String.ofList (B64.enc (c.sha alg (utf8 s)))

/-- the JSON array a disclosure is the text of -/
def discJson (salt : String) (key : Option String) (v : J) : J :=
  match key with
  | some k => .arr [.str salt, .str k, v]
  | none => .arr [.str salt, v]

/-- the disclosure string `Disclosure::build` makes -/
def Codec.discString (c : Codec) (salt : String) (key : Option String) (v : J) : String :=
  String.ofList (B64.enc (c.render (discJson salt key v)))

/-- `Decoy::build` on the bytes the generator returned -/
def Codec.decoy (c : Codec) (rnd : List UInt8) : String := c.hash "sha-256" (saltOf rnd)

/-- the first three steps of `Disclosure::from_base64` -/
def Codec.decodeDisc (c : Codec) (s : String) : Option J := (B64.dec s.toList).bind c.parse

def Codec.env (c : Codec) (alg : String) : Env := { hash := c.hash alg, decodeDisc := c.decodeDisc }

/-- a runtime whose disclosure handling is the codec's; the JWT library stays a parameter -/
def Codec.rt (c : Codec) (decodeClaims : String → Option J) (jwtDecode : String → Outcome (J × J))
    (kbDecode : String → J → Outcome (J × J)) : Rt :=
  { hash := c.hash, decodeDisc := c.decodeDisc, decodeClaims := decodeClaims,
    jwtDecode := jwtDecode, kbDecode := kbDecode }

end Impl

namespace Impl

/-- `decode_claims_no_verification`: the claims segment is base64url of JSON text, exactly like a disclosure -/
def Codec.decodeClaims (c : Codec) (seg : String) : Option J := (B64.dec seg.toList).bind c.parse

/-- the JWS compact serialisation of a signed JWT: three base64url segments joined by `.` -/
def Codec.compact (c : Codec) (header payload : J) (sig : List UInt8) : String :=
  String.ofList (B64.enc (c.render header) ++ '.' :: (B64.enc (c.render payload) ++ '.' :: B64.enc sig))

/-- a runtime in which reading the claims without verification is the codec's too -/
def Codec.rt' (c : Codec) (jwtDecode : String → Outcome (J × J)) (kbDecode : String → J → Outcome (J × J)) : Rt :=
  c.rt c.decodeClaims jwtDecode kbDecode

end Impl
