import SdJwt.Data.J
import SdJwt.Data.Path
import SdJwt.Impl.Outcome
/-!
# YAML claims: `parser.rs` `collect_tagged_keys`, `build_full_path`, `parse_yaml` — as repaired
# (D19, D20). The model starts at `serde_yaml::Value` (YAML text → value is trusted) and ends at
# the JSON value; the re-serialise-and-reparse conversion is modelled structurally.
-/
open Assoc Path
namespace Impl

/-- `serde_yaml::Value` -/
inductive Y where
  | null
  | bool (b : Bool)
  | num (m : Int) (e : Nat)
  | str (s : String)
  | seq (xs : List Y)
  | map (kvs : List (Y × Y))
  | tagged (tag : String) (v : Y)
  deriving Repr, Inhabited

/-- `path.iter().fold("", |acc, frag| acc + "/" + frag)` — segments are already escaped -/
def joinPath (segs : List String) : String := segs.foldl (fun acc s => acc ++ "/" ++ s) ""

def Y.asStr : Y → Option String
  | .str s => some s
  | _ => none

/-- `collect_tagged_keys(node, path, paths)`: the node without `!sd` tags on keys and sequence
items, and the paths pushed, in order. `path` holds the escaped segments from the root. -/
def collect (path : List String) : Y → Outcome (Y × List String)
  | .map kvs =>
    match collectM path kvs with
    | .ok (kvs', ps) => .ok (.map kvs', ps)
    | .err e => .err e
    | .panic => .panic
  | .seq xs =>
    match collectS path 0 xs with
    | .ok (xs', ps) => .ok (.seq xs', ps)
    | .err e => .err e
    | .panic => .panic
  | .tagged tag v =>
    if tag = "!sd" then .ok (.tagged tag v, [joinPath path]) else .ok (.tagged tag v, [])
  | y => .ok (y, [])
where
  collectM (path : List String) : List (Y × Y) → Outcome (List (Y × Y) × List String)
    | [] => .ok ([], [])
    | (k, v) :: r =>
      let here : Outcome ((Y × Y) × List String) :=
        match k with
        | .tagged tag kv =>
          if tag = "!sd" then
            match kv.asStr with
            | none => .err .yaml                                  -- YamlInvalidSDTag
            | some name =>
              match collect (path ++ [escapeSeg name]) v with
              | .ok (v', ps) => .ok ((.str name, v'), ps ++ [joinPath (path ++ [escapeSeg name])])
              | .err e => .err e
              | .panic => .panic
          else .ok ((k, v), [])
        | .str name =>
          match collect (path ++ [escapeSeg name]) v with
          | .ok (v', ps) => .ok ((k, v'), ps)
          | .err e => .err e
          | .panic => .panic
        | _ => .ok ((k, v), [])
      match here, collectM path r with
      | .panic, _ => .panic
      | .err e, _ => .err e
      | _, .panic => .panic
      | _, .err e => .err e
      | .ok (kv', p1), .ok (r', p2) => .ok (kv' :: r', p1 ++ p2)
  collectS (path : List String) (i : Nat) : List Y → Outcome (List Y × List String)
    | [] => .ok ([], [])
    | x :: r =>
      let here : Outcome (Y × List String) :=
        match collect (path ++ [toString i]) x with
        | .ok (x', ps) =>
          match x' with
          | .tagged tag tv =>
            if tag = "!sd" then
              match tv.asStr with
              | none => .err .yaml
              | some s => .ok (.str s, ps)                          -- tag stripped
            else .ok (x', ps)
          | _ => .ok (x', ps)
        | .err e => .err e
        | .panic => .panic
      match here, collectS path (i+1) r with
      | .panic, _ => .panic
      | .err e, _ => .err e
      | _, .panic => .panic
      | _, .err e => .err e
      | .ok (x', p1), .ok (r', p2) => .ok (x' :: r', p1 ++ p2)

/-- YAML value → JSON value (`serde_yaml::to_string` then `serde_yaml::from_str::<JsonValue>`):
string keys only, no tags left; later duplicates win -/
def yamlToJson : Y → Option J
  | .null => some .null
  | .bool b => some (.bool b)
  | .num m e => some (.num m e)
  | .str s => some (.str s)
  | .seq xs => (seqToJson xs).map .arr
  | .map kvs => (mapToJson kvs).map (fun l => .obj (Assoc.ofList l))
  | .tagged _ _ => none
where
  seqToJson : List Y → Option (List J)
    | [] => some []
    | x :: r => match yamlToJson x, seqToJson r with
      | some j, some js => some (j :: js)
      | _, _ => none
  mapToJson : List (Y × Y) → Option (List (String × J))
    | [] => some []
    | (k, v) :: r => match k, yamlToJson v, mapToJson r with
      | .str s, some j, some js => some ((s, j) :: js)
      | _, _, _ => none

/-- `parse_yaml` from the parsed YAML value on -/
def parseYaml (doc : Y) : Outcome (J × List String) :=
  match collect [] doc with
  | .panic => .panic
  | .err e => .err e
  | .ok (doc', paths) =>
    match yamlToJson doc' with
    | some j => .ok (j, paths)
    | none => .err .yaml

end Impl
