import SdJwt.Data.J
import SdJwt.Data.Path
import SdJwt.Impl.Outcome
/-!
# YAML claims: `parser.rs` `collect_tagged_keys`, `build_full_path`, `parse_yaml` — as repaired
# (D19, D20). The model starts at `serde_yaml::Value` (YAML text → value is trusted) and ends at
# the JSON value; the re-serialise-and-reparse conversion is modelled structurally.
-/
open Assoc Path
namespace Impl

/-- `serde_yaml::Value` -/
inductive Y where
  | null
  | bool (b : Bool)
  | num (m : Int) (e : Nat)
  | str (s : String)
  | seq (xs : List Y)
  | map (kvs : List (Y × Y))
  | tagged (tag : String) (v : Y)
  deriving Repr, Inhabited

/-- `path.iter().fold("", |acc, frag| acc + "/" + frag)` — segments are already escaped -/
def joinPath (segs : List String) : String := segs.foldl (fun acc s => acc ++ "/" ++ s) ""

def Y.asStr : Y → Option String
  | .str s => some s
  | _ => none

/-- what the mapping branch does with a key: `some (name, tagged)` = descend below `name` -/
def keyKind : Y → Outcome (Option (String × Bool))
  | .tagged tag kv =>
    if tag = "!sd" then
      match kv.asStr with
      | none => .err .yaml                                  -- YamlInvalidSDTag
      | some name => .ok (some (name, true))
    else .ok none                                           -- other tags: kept, not descended
  | .str name => .ok (some (name, false))
  | _ => .ok none

/-- "remove tag from sequence": a `!sd`-tagged string item becomes the plain string -/
def stripItemTag (x : Y) (ps : List String) : Outcome (Y × List String) :=
  match x with
  | .tagged tag tv =>
    if tag = "!sd" then
      match tv.asStr with
      | none => .err .yaml
      | some s => .ok (.str s, ps)
    else .ok (x, ps)
  | _ => .ok (x, ps)

/-- `collect_tagged_keys(node, path, paths)`: the node without `!sd` tags on keys and sequence
items, and the paths pushed, in order. `path` holds the escaped segments from the root. -/
def collect (path : List String) : Y → Outcome (Y × List String)
  | .map kvs =>
    match collectM path kvs with
    | .ok (kvs', ps) => .ok (.map kvs', ps)
    | .err e => .err e
    | .panic => .panic
  | .seq xs =>
    match collectS path 0 xs with
    | .ok (xs', ps) => .ok (.seq xs', ps)
    | .err e => .err e
    | .panic => .panic
  | .tagged tag v =>
    if tag = "!sd" then .ok (.tagged tag v, [joinPath path]) else .ok (.tagged tag v, [])
  | y => .ok (y, [])
where
  collectM (path : List String) : List (Y × Y) → Outcome (List (Y × Y) × List String)
    | [] => .ok ([], [])
    | (k, v) :: r =>
      match keyKind k with
      | .panic => .panic
      | .err e => .err e
      | .ok none =>
        match collectM path r with
        | .panic => .panic
        | .err e => .err e
        | .ok (r', p2) => .ok ((k, v) :: r', p2)
      | .ok (some (name, tagged)) =>
        match collect (path ++ [escapeSeg name]) v, collectM path r with
        | .panic, _ => .panic
        | .err e, _ => .err e
        | _, .panic => .panic
        | _, .err e => .err e
        | .ok (v', p1), .ok (r', p2) =>
          -- nested paths first, then the tagged key's own path (D19)
          .ok (((if tagged then .str name else k), v') :: r',
               p1 ++ (if tagged then [joinPath (path ++ [escapeSeg name])] else []) ++ p2)
  collectS (path : List String) (i : Nat) : List Y → Outcome (List Y × List String)
    | [] => .ok ([], [])
    | x :: r =>
      match collect (path ++ [toString i]) x with
      | .panic => .panic
      | .err e => .err e
      | .ok (x', ps) =>
        match stripItemTag x' ps, collectS path (i+1) r with
        | .panic, _ => .panic
        | .err e, _ => .err e
        | _, .panic => .panic
        | _, .err e => .err e
        | .ok (x'', p1), .ok (r', p2) => .ok (x'' :: r', p1 ++ p2)

/-- YAML value → JSON value (`serde_yaml::to_string` then `serde_yaml::from_str::<JsonValue>`):
string keys only, no tags left; later duplicates win -/
def yamlToJson : Y → Option J
  | .null => some .null
  | .bool b => some (.bool b)
  | .num m e => some (.num m e)
  | .str s => some (.str s)
  | .seq xs => (seqToJson xs).map .arr
  | .map kvs => (mapToJson kvs).map (fun l => .obj (Assoc.ofList l))
  | .tagged _ _ => none
where
  seqToJson : List Y → Option (List J)
    | [] => some []
    | x :: r => match yamlToJson x, seqToJson r with
      | some j, some js => some (j :: js)
      | _, _ => none
  mapToJson : List (Y × Y) → Option (List (String × J))
    | [] => some []
    | (k, v) :: r => match k, yamlToJson v, mapToJson r with
      | .str s, some j, some js => some ((s, j) :: js)
      | _, _, _ => none

/-- `parse_yaml` from the parsed YAML value on -/
def parseYaml (doc : Y) : Outcome (J × List String) :=
  match collect [] doc with
  | .panic => .panic
  | .err e => .err e
  | .ok (doc', paths) =>
    match yamlToJson doc' with
    | some j => .ok (j, paths)
    | none => .err .yaml

end Impl
