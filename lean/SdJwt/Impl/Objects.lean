import SdJwt.Impl.Issuer
import SdJwt.Impl.Flows
/-!
# `Issuer` and `Holder` as objects: state between calls

`Impl/Issuer.lean` and `Impl/Flows.lean` model `encode` and `build` as functions of what the object
holds when they are called. This file models the objects themselves — the fields, every `&mut self`
method as a step, `encode` / `build` as observations — so that statements about *histories* (C14:
"issuing does not change the issuer object: it can be repeated"; C09: "building again …"; C02:
"every set of paths the holder redacts") are statements about runs of a state machine. The
correspondence runs drive the real objects through schedules of these operations (setters in other
orders, earlier values that later calls replace, observations in between, redactions before and
after `key_binding`) and compare what comes out with what the final state alone determines.
-/
open Assoc
namespace Impl

/-! ## Issuer -/

/-- what an `Issuer` holds -/
structure IssuerObj where
  claims : J
  paths : List String
  maxDecoys : Option Int
  header : J
  cnf : Option J
  deriving Inhabited

/-- the `&mut self` methods, and `encode` (which takes `&mut self` too) -/
inductive IssuerOp where
  | disclosable (p : String)
  | decoy (n : Int)
  | header (h : J)
  /-- `expires_in_seconds(n)` called when the clock shows `now` -/
  | expiresIn (n now : Int)
  | requireKb (jwk : J)
  | encode

/-- `self.claims["exp"] = now + n` (claims are an object: `Issuer::new` of anything else is outside C14) -/
def setExp (v : Int) : J → J
  | .obj ms => .obj (ains "exp" (.num v 0) ms)
  | j => j

def IssuerObj.step (s : IssuerObj) : IssuerOp → IssuerObj
  | .disclosable p => { s with paths := s.paths ++ [p] }
  | .decoy n => { s with maxDecoys := some n }
  | .header h => { s with header := h }
  | .expiresIn n now => { s with claims := setExp (now + n) s.claims }
  | .requireKb jwk => { s with cnf := some jwk }
  | .encode => s

def IssuerObj.run (s : IssuerObj) (ops : List IssuerOp) : IssuerObj := ops.foldl IssuerObj.step s

/-- the decoys of one `encode`: none unless a maximum ≥ 1 is configured; otherwise the list drawn
(its length, 1 ≤ · ≤ max, is the generator's) -/
def IssuerObj.decoysFor (s : IssuerObj) (drawn : List String) : Option (List String) :=
  match s.maxDecoys with
  | some n => if n ≥ 1 then some drawn else none
  | none => none

/-- what `encode` returns in state `s`: the header it signs under, the payload, the disclosures -/
def IssuerObj.observe (s : IssuerObj) (mk : Nat → Option String → J → String) (drawn : List String) :
    J × Outcome (J × List DiscSrc) :=
  (s.header, encode s.claims s.paths mk (s.decoysFor drawn) s.cnf)

def IssuerOp.isEncode : IssuerOp → Bool
  | .encode => true
  | _ => false

/-! ## Holder -/

/-- what a `Holder` holds after `presentation` -/
structure HolderObj where
  st : HolderState
  redacted : List String
  kb : Option KbParams

inductive HolderOp where
  | redact (p : String)
  | keyBinding (aud alg : String)
  | build

def HolderObj.step (h : HolderObj) : HolderOp → HolderObj
  | .redact p => { h with redacted := h.redacted ++ [p] }
  | .keyBinding aud alg => { h with kb := some ⟨aud, alg⟩ }
  | .build => h

def HolderObj.run (h : HolderObj) (ops : List HolderOp) : HolderObj := ops.foldl HolderObj.step h

def HolderObj.observe (rt : Rt) (h : HolderObj) (nonce : String) (now : Int) :
    Outcome (String × Option KbSpec) :=
  Holder.build rt h.st h.redacted h.kb nonce now

def HolderOp.isBuild : HolderOp → Bool
  | .build => true
  | _ => false

end Impl
