import SdJwt.Data.J
/-!
# JSON text as `serde_json` writes it (compact), and a reader for that text

`render` is `serde_json::to_string` on a `Value` (no `preserve_order`, so members come in key order —
the order the model's objects are kept in): no white space, `,` and `:` as the only separators,
strings with the escapes `\"` `\\` `\b` `\f` `\n` `\r` `\t` and `\u00XX` for the other control
characters, everything else as it is; integers in decimal; a number `m · 10^-e` with `e > 0` as its
decimal expansion with exactly `e` digits after the point.

`parse` reads exactly that text back (it is not a general JSON parser: no white space, no exponent
notation, no `\uXXXX` above U+001F, no surrogate pairs — the driver uses a general parser for the
JSON other issuers write). `Lemmas/JsonTextL.lean` proves `parse (render j) = some j`, so `render` is
injective: two different values never have the same text.
-/
namespace JText

def hexDigit (n : Nat) : Char := Nat.digitChar n

/-- one character of a string, escaped as `serde_json` does -/
def escChar (c : Char) : List Char :=
  if c = '"' then ['\\', '"']
  else if c = '\\' then ['\\', '\\']
  else if c.toNat = 8 then ['\\', 'b']
  else if c.toNat = 12 then ['\\', 'f']
  else if c = '\n' then ['\\', 'n']
  else if c = '\r' then ['\\', 'r']
  else if c = '\t' then ['\\', 't']
  else if c.toNat < 32 then ['\\', 'u', '0', '0', hexDigit (c.toNat / 16), hexDigit (c.toNat % 16)]
  else [c]

def escBody : List Char → List Char
  | [] => []
  | c :: r => escChar c ++ escBody r

def renderStr (s : String) : List Char := '"' :: (escBody s.toList ++ ['"'])

/-- decimal digits of a natural number -/
def digits (n : Nat) : List Char := Nat.toDigits 10 n

/-- `a · 10^-e` for a natural `a`: plainly when `e = 0`, otherwise with exactly `e` digits after the point -/
def renderUnsigned (a e : Nat) : List Char :=
  if e = 0 then digits a
  else
    let ds := List.replicate (e + 1 - (digits a).length) '0' ++ digits a
    ds.take (ds.length - e) ++ '.' :: ds.drop (ds.length - e)

def renderNum (m : Int) (e : Nat) : List Char :=
  if m < 0 then '-' :: renderUnsigned m.natAbs e else renderUnsigned m.natAbs e

mutual
def render : J → List Char
  | .null => "null".toList
  | .bool true => "true".toList
  | .bool false => "false".toList
  | .num m e => renderNum m e
  | .str s => renderStr s
  | .arr xs => '[' :: (renderElems xs ++ [']'])
  | .obj ms => '{' :: (renderMems ms ++ ['}'])
def renderElems : List J → List Char
  | [] => []
  | [x] => render x
  | x :: y :: r => render x ++ ',' :: renderElems (y :: r)
def renderMems : List (String × J) → List Char
  | [] => []
  | [(k, v)] => renderStr k ++ ':' :: render v
  | (k, v) :: p :: r => renderStr k ++ ':' :: render v ++ ',' :: renderMems (p :: r)
end

/-! ## reading it back -/

def hexVal (c : Char) : Option Nat :=
  if '0' ≤ c ∧ c ≤ '9' then some (c.toNat - 48)
  else if 'a' ≤ c ∧ c ≤ 'f' then some (c.toNat - 87)
  else none

/-- the inside of a string literal up to the closing quote -/
def parseStrBody : List Char → List Char → Option (List Char × List Char)
  | [], _ => none
  | c :: r, acc =>
    if c = '"' then some (acc.reverse, r)
    else if c = '\\' then
      match r with
      | [] => none
      | d :: r' =>
        if d = '"' then parseStrBody r' ('"' :: acc)
        else if d = '\\' then parseStrBody r' ('\\' :: acc)
        else if d = 'b' then parseStrBody r' (Char.ofNat 8 :: acc)
        else if d = 'f' then parseStrBody r' (Char.ofNat 12 :: acc)
        else if d = 'n' then parseStrBody r' ('\n' :: acc)
        else if d = 'r' then parseStrBody r' ('\r' :: acc)
        else if d = 't' then parseStrBody r' ('\t' :: acc)
        else if d = 'u' then
          match r' with
          | z1 :: z2 :: a :: b :: r'' =>
            if z1 = '0' ∧ z2 = '0' then
              match hexVal a, hexVal b with
              | some x, some y =>
                if x * 16 + y < 32 then parseStrBody r'' (Char.ofNat (x * 16 + y) :: acc) else none
              | _, _ => none
            else none
          | _ => none
        else none
    else if c.toNat < 32 then none
    else parseStrBody r (c :: acc)

def parseStr : List Char → Option (String × List Char)
  | '"' :: r => (parseStrBody r []).map fun (s, rest) => (String.ofList s, rest)
  | _ => none

/-- the longest prefix of decimal digits, and what follows -/
def spanDigits : List Char → List Char × List Char
  | c :: r => if c.isDigit then let (d, rest) := spanDigits r; (c :: d, rest) else ([], c :: r)
  | [] => ([], [])

/-- digits, optionally followed by `.` and digits: (all digits read as one number, how many came after the point) -/
def parseUnsigned (cs : List Char) : Option (Nat × Nat × List Char) :=
  match spanDigits cs with
  | ([], _) => none
  | (ip, rest) =>
    match rest with
    | '.' :: r2 =>
      match spanDigits r2 with
      | ([], _) => none
      | (fp, rest2) => some (Nat.ofDigitChars 10 (ip ++ fp) 0, fp.length, rest2)
    | _ => some (Nat.ofDigitChars 10 ip 0, 0, rest)

def parseNum (cs : List Char) : Option (J × List Char) :=
  match cs with
  | '-' :: r => (parseUnsigned r).map fun (n, e, rest) => (.num (-(n : Int)) e, rest)
  | _ => (parseUnsigned cs).map fun (n, e, rest) => (.num (n : Int) e, rest)

mutual
/-- one value; `fuel` bounds the nesting depth plus the number of items read -/
def parse : Nat → List Char → Option (J × List Char)
  | 0, _ => none
  | _ + 1, [] => none
  | fuel + 1, c :: r =>
    if c = 'n' then
      match r with
      | 'u' :: 'l' :: 'l' :: r' => some (.null, r')
      | _ => none
    else if c = 't' then
      match r with
      | 'r' :: 'u' :: 'e' :: r' => some (.bool true, r')
      | _ => none
    else if c = 'f' then
      match r with
      | 'a' :: 'l' :: 's' :: 'e' :: r' => some (.bool false, r')
      | _ => none
    else if c = '"' then (parseStr (c :: r)).map fun (s, r') => (.str s, r')
    else if c = '[' then
      match r with
      | ']' :: r' => some (.arr [], r')
      | _ => (parseElems fuel r).map fun (xs, r') => (.arr xs, r')
    else if c = '{' then
      match r with
      | '}' :: r' => some (.obj [], r')
      | _ => (parseMems fuel r).map fun (ms, r') => (.obj ms, r')
    else parseNum (c :: r)
/-- one or more values separated by `,`, up to and including the closing `]` -/
def parseElems : Nat → List Char → Option (List J × List Char)
  | 0, _ => none
  | fuel + 1, cs =>
    match parse fuel cs with
    | none => none
    | some (x, r) =>
      match r with
      | ']' :: r' => some ([x], r')
      | ',' :: r' => (parseElems fuel r').map fun (xs, r'') => (x :: xs, r'')
      | _ => none
/-- one or more members separated by `,`, up to and including the closing `}` -/
def parseMems : Nat → List Char → Option (List (String × J) × List Char)
  | 0, _ => none
  | fuel + 1, cs =>
    match parseStr cs with
    | none => none
    | some (k, r0) =>
      match r0 with
      | ':' :: r1 =>
        match parse fuel r1 with
        | none => none
        | some (v, r) =>
          match r with
          | '}' :: r' => some ([(k, v)], r')
          | ',' :: r' => (parseMems fuel r').map fun (ms, r'') => ((k, v) :: ms, r'')
          | _ => none
      | _ => none
end

/-- the whole text is one value -/
def parseAll (cs : List Char) : Option J :=
  match parse (cs.length + 1) cs with
  | some (j, []) => some j
  | _ => none

end JText
