import SdJwt.Impl.Validation
/-!
# JOSE header: `header.rs`, `encoding.rs::build_header`, `decoding.rs::decode` (header part)

`Header` is the crate's record; `JwtHeader` the JWT library's (`jwt-rustcrypto` `header.rs`:
same fields, `skip_serializing_if = "Option::is_none"`, no renames — so the thumbprint member is
`x5t_s256`). The embedded `jwk` field is excluded (C16 excludes it: the library re-types it).
-/
open Assoc
namespace Impl

structure Header where
  typ : Option String
  alg : Alg
  cty : Option String
  jku : Option String
  kid : Option String
  x5u : Option String
  x5c : Option (List String)
  x5t : Option String
  x5tS256 : Option String
  crit : Option (List String)
  deriving Repr, DecidableEq

structure JwtHeader where
  alg : JwtAlg
  jku : Option String
  kid : Option String
  x5u : Option String
  x5c : Option (List String)
  x5t : Option String
  x5tS256 : Option String
  typ : Option String
  cty : Option String
  crit : Option (List String)
  deriving Repr, DecidableEq

/-- `build_header`: eleven hand-written assignments (ten here, `jwk` excluded) -/
def buildHeader (h : Header) : JwtHeader :=
  { typ := h.typ, alg := toJwtAlgH h.alg, cty := h.cty, jku := h.jku, kid := h.kid, x5u := h.x5u,
    x5c := h.x5c, x5t := h.x5t, x5tS256 := h.x5tS256, crit := h.crit }

def optStr (k : String) (v : Option String) (l : List (String × J)) : List (String × J) :=
  match v with
  | some s => ains k (.str s) l
  | none => l

def optList (k : String) (v : Option (List String)) (l : List (String × J)) : List (String × J) :=
  match v with
  | some xs => ains k (.arr (xs.map .str)) l
  | none => l

/-- serde serialisation of the library's header: set fields only, under the field's own name -/
def JwtHeader.toJson (h : JwtHeader) : J :=
  .obj (optList "crit" h.crit <| optStr "cty" h.cty <| optStr "typ" h.typ <|
        optStr "x5t_s256" h.x5tS256 <| optStr "x5t" h.x5t <| optList "x5c" h.x5c <|
        optStr "x5u" h.x5u <| optStr "kid" h.kid <| optStr "jku" h.jku <|
        [("alg", .str h.alg.name)])

/-- what `Holder::verify` / `Verifier::verify` / `decode` return as header for a token whose
header was produced from `h`: parse into the library's type (identity on its fields), print -/
def headerRoundTrip (h : Header) : J := (buildHeader h).toJson

end Impl
