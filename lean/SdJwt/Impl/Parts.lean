import SdJwt.Impl.Outcome
/-!
# String splitting: `sd_jwt_parts` (decoding.rs), `drop_kb`, `get_jwt_part` (utils.rs)

Strings are inspected as `List Char`. `splitOn c` is Rust's `str::split(c)` for a single char:
`"a~b~"` ↦ `["a","b",""]`, `""` ↦ `[""]`.
-/
namespace Impl

def splitOn (c : Char) : List Char → List (List Char)
  | [] => [[]]
  | x :: xs =>
    if x = c then [] :: splitOn c xs
    else match splitOn c xs with
      | [] => [[x]]            -- unreachable: `splitOn` never returns `[]`
      | h :: t => (x :: h) :: t

/-- `parts.join(sep)` for a single-character separator -/
def joinWith (c : Char) : List (List Char) → List Char
  | [] => []
  | [a] => a
  | a :: b :: r => a ++ c :: joinWith c (b :: r)

structure Parts where
  jwt : List Char
  disclosures : List (List Char)
  kb : Option (List Char)
  deriving Repr, DecidableEq

/-- `sd_jwt_parts` as repaired (D1): no slice is taken unless it exists. -/
def sdJwtParts (s : List Char) : Outcome Parts :=
  let parts := splitOn '~' s
  match parts with
  | [] => .panic                                   -- `parts[0]`; unreachable
  | jwt :: rest =>
    let n := parts.length
    let disclosures := if n > 2 then (parts.drop 1).take (n - 2) else []
    let last := parts.getLast?.getD []
    let kb := if n > 1 ∧ last ≠ [] then some last else none
    .ok { jwt := jwt, disclosures := disclosures, kb := kb }

/-- literal transcription of `sd_jwt_parts` before the repair of D1: `parts[1..len-1]` -/
def sdJwtPartsPreFix (s : List Char) : Outcome Parts :=
  let parts := splitOn '~' s
  match parts with
  | [] => .panic
  | jwt :: _ =>
    let n := parts.length
    if 1 > n - 1 then .panic                       -- slice index starts at 1 but ends at 0
    else
      let disclosures := (parts.drop 1).take (n - 2)
      let last := parts.getLast?.getD []
      let kb := if last ≠ [] then some last else none
      .ok { jwt := jwt, disclosures := disclosures, kb := kb }

/-- `drop_kb`: the presentation without its last `~`-segment, ending in `~` -/
def dropKb (s : List Char) : List Char :=
  let parts := splitOn '~' s
  if parts.length < 2 then s
  else joinWith '~' (parts.take (parts.length - 1)) ++ ['~']

inductive JwtPart where
  | header | claims | signature
  deriving Repr, DecidableEq

def getJwtPart (jwt : List Char) (p : JwtPart) : Outcome (List Char) :=
  match splitOn '.' jwt with
  | [a, b, c] => .ok (match p with | .header => a | .claims => b | .signature => c)
  | _ => .err .threeParts

end Impl
