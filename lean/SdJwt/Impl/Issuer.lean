import SdJwt.Data.J
import SdJwt.Impl.Outcome
import SdJwt.Impl.Parts
import SdJwt.Spec.Marked
/-!
# Issuer: `issuer.rs` `parent_elem_from_path`, `build_disclosure`, `build_decoys`, `encode`
# — as repaired (D7, D8, D9, D20); `serde_json::Value::pointer_mut` (RFC 6901) is modelled too.

Randomness is a parameter: `mk i name value` is the digest of the disclosure built for the
`i`-th path (salt drawn there), `decoys` the decoy digests drawn; `_sd` order is compared up to
permutation (the shuffles are the identity here, see C13).
-/
open Assoc Spec
namespace Impl

/-- `s.replace([a,b], [r])` for a two-character pattern -/
def replacePair (a b r : Char) : List Char → List Char
  | [] => []
  | [x] => [x]
  | x :: y :: rest =>
    if x = a ∧ y = b then r :: replacePair a b r rest
    else x :: replacePair a b r (y :: rest)

/-- `.replace("~1", "/").replace("~0", "~")` -/
def unescapeTok (cs : List Char) : List Char :=
  replacePair '~' '0' '~' (replacePair '~' '1' '/' cs)

def digitVal (c : Char) : Option Nat :=
  if '0' ≤ c ∧ c ≤ '9' then some (c.toNat - '0'.toNat) else none

def parseDigits : List Char → Nat → Option Nat
  | [], acc => some acc
  | c :: r, acc => match digitVal c with
    | some d => parseDigits r (acc * 10 + d)
    | none => none

/-- `str::parse::<usize>()`: optional `+`, at least one digit, no overflow (64-bit) -/
def parseUsize (cs : List Char) : Option Nat :=
  let ds := match cs with
    | '+' :: r => r
    | l => l
  if ds.isEmpty then none
  else match parseDigits ds 0 with
    | some n => if n < 2^64 then some n else none
    | none => none

/-- serde_json's `parse_index`: no `+`, no leading zero -/
def parseIndex (cs : List Char) : Option Nat :=
  match cs with
  | '+' :: _ => none
  | '0' :: _ :: _ => none
  | _ => parseUsize cs

/-- `parent_elem_from_path`: split at the last `/` -/
def parentElem (path : List Char) : Outcome (List Char × List Char) :=
  match (splitOn '/' path).reverse with
  | [] => .err .path                   -- unreachable
  | [_] => .err .path                  -- no '/' at all
  | last :: revInit => .ok (joinWith '/' revInit.reverse, last)

/-- the reference tokens of a JSON pointer; `none` = not a pointer (`pointer_mut` returns None) -/
def pointerToks (ptr : List Char) : Option (List String) :=
  match ptr with
  | [] => some []
  | '/' :: rest => some ((splitOn '/' rest).map (fun t => String.ofList (unescapeTok t)))
  | _ => none

/-- `pointer_mut(ptr)` followed by an update of the addressed value (which also yields `α`) -/
def updateAt {α : Type} (f : J → Outcome (J × α)) : List String → J → Outcome (J × α)
  | [], j => f j
  | t :: r, .obj ms =>
    match aget t ms with
    | none => .err .path
    | some v =>
      match updateAt f r v with
      | .ok (v', a) => .ok (.obj (ains t v' ms), a)
      | .err e => .err e
      | .panic => .panic
  | t :: r, .arr xs =>
    match parseIndex t.toList with
    | none => .err .path
    | some i =>
      match xs[i]? with
      | none => .err .path
      | some v =>
        match updateAt f r v with
        | .ok (v', a) => .ok (.arr (xs.set i v'), a)
        | .err e => .err e
        | .panic => .panic
  | _ :: _, _ => .err .path

/-- what a disclosure is built from — claim name (members only) and value — and its digest -/
structure DiscSrc where
  key : Option String
  value : J
  digest : String

/-- the body of `build_disclosure` once the parent is resolved: take the node out, put its digest in -/
def hideIn (mk : Option String → J → String) (key : String) (parent : J) : Outcome (J × DiscSrc) :=
  match parent with
  | .arr xs =>
    match parseUsize key.toList with
    | none => .err .path                                   -- ParseIntError
    | some i =>
      match xs[i]? with
      | none => .err .path                                 -- index out of range (D8)
      | some v => .ok (.arr (xs.set i (placeholder (mk none v))), ⟨none, v, mk none v⟩)
  | .obj ms =>
    match aget key ms with
    | none => .err .path
    | some v =>
      if key = "_sd" ∨ key = "..." then .err .format       -- Disclosure::build refuses reserved names
      else
        let ms' := adel key ms
        let dg := mk (some key) v
        match aget "_sd" ms' with
        | some (.arr ds) => .ok (.obj (ains "_sd" (.arr (ds ++ [.str dg])) ms'), ⟨some key, v, dg⟩)
        | some _ => .err .sdType
        | none => .ok (.obj (ains "_sd" (.arr [.str dg]) ms'), ⟨some key, v, dg⟩)
  | _ => .err .path

/-- `build_disclosure(claims, path)` -/
def buildDisclosure (mk : Option String → J → String) (claims : J) (path : String) :
    Outcome (J × DiscSrc) :=
  match parentElem path.toList with
  | .panic => .panic
  | .err e => .err e
  | .ok (parentPtr, elem) =>
    match pointerToks parentPtr with
    | none => .err .path
    | some toks => updateAt (hideIn mk (String.ofList (unescapeTok elem))) toks claims

/-- the paths are applied one after another to one working copy of the claims -/
def applyPaths (mk : Nat → Option String → J → String) : Nat → J → List String →
    Outcome (J × List DiscSrc)
  | _, c, [] => .ok (c, [])
  | i, c, p :: r =>
    match buildDisclosure (mk i) c p with
    | .panic => .panic
    | .err e => .err e
    | .ok (c', d) =>
      match applyPaths mk (i+1) c' r with
      | .panic => .panic
      | .err e => .err e
      | .ok (c'', ds) => .ok (c'', d :: ds)

/-- `build_decoys`: append to the top-level `_sd`, creating it when absent (D7) -/
def addDecoys (decoys : List String) : J → Outcome J
  | .obj ms =>
    match aget "_sd" ms with
    | none => .ok (.obj (ains "_sd" (.arr (decoys.map .str)) ms))
    | some (.arr ds) => .ok (.obj (ains "_sd" (.arr (ds ++ decoys.map .str)) ms))
    | some _ => .err .sdType
  | _ => .err .path

/-- `value[key] = v` (`IndexMut<&str>`): objects insert, `Null` becomes an object, others panic -/
def setMember (k : String) (v : J) : J → Outcome J
  | .obj ms => .ok (.obj (ains k v ms))
  | .null => .ok (.obj [(k, v)])
  | _ => .panic

/-- `Issuer::encode` up to signing: the payload and what each disclosure is built from.
`decoys = some l`: a decoy maximum ≥ 1 is configured and `l` (non-empty) was drawn. -/
def encode (claims : J) (paths : List String) (mk : Nat → Option String → J → String)
    (decoys : Option (List String)) (cnf : Option J) : Outcome (J × List DiscSrc) :=
  match applyPaths mk 0 claims paths with
  | .panic => .panic
  | .err e => .err e
  | .ok (c1, ds) =>
    let withDecoys := match decoys with
      | some l => addDecoys l c1
      | none => .ok c1
    match withDecoys with
    | .panic => .panic
    | .err e => .err e
    | .ok c2 =>
      let withAlg := if ds.isEmpty then .ok c2 else setMember "_sd_alg" (.str "sha-256") c2
      match withAlg with
      | .panic => .panic
      | .err e => .err e
      | .ok c3 =>
        match cnf with
        | none => .ok (c3, ds)
        | some jwk =>
          match setMember "cnf" jwk c3 with
          | .panic => .panic
          | .err e => .err e
          | .ok c4 => .ok (c4, ds)

end Impl
