import SdJwt.Data.J
import SdJwt.Data.Path
/-!
# Marked claims trees — the abstract syntax of a conformant SD-JWT

A `T : MJ` is a JSON tree in which every object member and array element may carry a *mark*
holding the digest of its disclosure. Objects also carry the literal content of their `_sd`
array (digests of their marked members plus decoys, in any order); arrays may contain decoy
placeholders. A pair (claims `C`, marking `M`) *is* a marked tree with `C = plain T`; every
conformant SD-JWT of any issuer is `payload T` plus the disclosures `discs T` of some `T`.

Everything here is plain structural recursion; nothing refers to the implementation model.
-/
open Assoc

mutual
inductive MJ where
  | leaf (j : J)
  | arr (xs : MElems)
  | obj (ms : MMems) (sd : Option (List String))
inductive MElems where
  | nil
  | clear (x : MJ) (rest : MElems)
  | marked (dg : String) (x : MJ) (rest : MElems)
  | decoy (dg : String) (rest : MElems)
inductive MMems where
  | nil
  | clear (k : String) (x : MJ) (rest : MMems)
  | marked (k : String) (dg : String) (x : MJ) (rest : MMems)
end

instance : Inhabited MJ := ⟨.leaf .null⟩
instance : Inhabited MElems := ⟨.nil⟩
instance : Inhabited MMems := ⟨.nil⟩

namespace Spec

/-- the array placeholder `{"...": digest}` -/
def placeholder (dg : String) : J := .obj [("...", .str dg)]

/-- an object's members together with its `_sd` member -/
def withSd (sd : Option (List String)) (l : List (String × J)) : List (String × J) :=
  match sd with
  | none => l
  | some ds => ains "_sd" (.arr (ds.map .str)) l

end Spec
open Spec

mutual
/-- The tree as a holder sees it when the disclosures with digests in `S` have been put back:
marked nodes in `S` are shown in place, the others are digests; `_sd` lists stay. -/
def MJ.hview (S : String → Bool) : MJ → J
  | .leaf j => j
  | .arr xs => .arr (xs.hview S)
  | .obj ms sd => .obj (withSd sd (ms.hview S))
def MElems.hview (S : String → Bool) : MElems → List J
  | .nil => []
  | .clear x r => x.hview S :: r.hview S
  | .marked dg x r => (if S dg then x.hview S else placeholder dg) :: r.hview S
  | .decoy dg r => placeholder dg :: r.hview S
def MMems.hview (S : String → Bool) : MMems → List (String × J)
  | .nil => []
  | .clear k x r => (k, x.hview S) :: r.hview S
  | .marked k dg x r => if S dg then (k, x.hview S) :: r.hview S else r.hview S
end

/-- what the issuer signs: every marked node replaced by its digest -/
def MJ.payload (T : MJ) : J := T.hview (fun _ => false)

mutual
/-- The claims with exactly the marked nodes outside `S`, and everything inside them, absent;
no digest bookkeeping. This is the right-hand side of C01, C02, C03, C06, C07, C08. -/
def MJ.project (S : String → Bool) : MJ → J
  | .leaf j => j
  | .arr xs => .arr (xs.project S)
  | .obj ms _ => .obj (ms.project S)
def MElems.project (S : String → Bool) : MElems → List J
  | .nil => []
  | .clear x r => x.project S :: r.project S
  | .marked dg x r => if S dg then x.project S :: r.project S else r.project S
  | .decoy _ r => r.project S
def MMems.project (S : String → Bool) : MMems → List (String × J)
  | .nil => []
  | .clear k x r => (k, x.project S) :: r.project S
  | .marked k dg x r => if S dg then (k, x.project S) :: r.project S else r.project S
end

/-- the original claims -/
def MJ.plain (T : MJ) : J := T.project (fun _ => true)

mutual
/-- every digest string occurring anywhere in the token material: `_sd` contents, element
marks and array decoys, at every depth (also inside marked nodes) -/
def MJ.digests : MJ → List String
  | .leaf _ => []
  | .arr xs => xs.digests
  | .obj ms sd => sd.getD [] ++ ms.digests
def MElems.digests : MElems → List String
  | .nil => []
  | .clear x r => x.digests ++ r.digests
  | .marked dg x r => dg :: (x.digests ++ r.digests)
  | .decoy dg r => dg :: r.digests
def MMems.digests : MMems → List String
  | .nil => []
  | .clear _ x r => x.digests ++ r.digests
  | .marked _ _ x r => x.digests ++ r.digests   -- the mark itself is listed in the parent's `sd`
end

/-- digests of the marked members of one object -/
def MMems.marks : MMems → List String
  | .nil => []
  | .clear _ _ r => r.marks
  | .marked _ dg _ r => dg :: r.marks

def MMems.keys : MMems → List String
  | .nil => []
  | .clear k _ r => k :: r.keys
  | .marked k _ _ r => k :: r.keys

def MMems.keysGt (k0 : String) : MMems → Prop
  | .nil => True
  | .clear k _ r => k0 < k ∧ r.keysGt k0
  | .marked k _ _ r => k0 < k ∧ r.keysGt k0

mutual
/-- Well-formedness (conformance): leaves are scalars; member names are sorted, unique and not
reserved; every marked member's digest is listed in its object's `_sd`, and the marked members of
one object have different digests. -/
def MJ.WF : MJ → Prop
  | .leaf j => J.scalar j
  | .arr xs => xs.WF
  | .obj ms sd => ms.WF ∧ (∀ g, g ∈ ms.marks → g ∈ sd.getD []) ∧ ms.marks.Nodup
def MElems.WF : MElems → Prop
  | .nil => True
  | .clear x r => x.WF ∧ r.WF
  | .marked _ x r => x.WF ∧ r.WF
  | .decoy _ r => r.WF
def MMems.WF : MMems → Prop
  | .nil => True
  | .clear k x r => k ≠ "_sd" ∧ k ≠ "..." ∧ x.WF ∧ r.keysGt k ∧ r.WF
  | .marked k _ x r => k ≠ "_sd" ∧ k ≠ "..." ∧ x.WF ∧ r.keysGt k ∧ r.WF
end

/-- A disclosure as the specification defines it: digest, optional claim name, value
(the value is the *payload* of the subtree: disclosable parts inside it are still digests). -/
structure SDisc where
  digest : String
  key : Option String
  value : J

mutual
/-- the disclosures of all marked nodes, at every depth -/
def MJ.discs : MJ → List SDisc
  | .leaf _ => []
  | .arr xs => xs.discs
  | .obj ms _ => ms.discs
def MElems.discs : MElems → List SDisc
  | .nil => []
  | .clear x r => x.discs ++ r.discs
  | .marked dg x r => ⟨dg, none, x.payload⟩ :: (x.discs ++ r.discs)
  | .decoy _ r => r.discs
def MMems.discs : MMems → List SDisc
  | .nil => []
  | .clear _ x r => x.discs ++ r.discs
  | .marked k dg x r => ⟨dg, some k, x.payload⟩ :: (x.discs ++ r.discs)
end

mutual
/-- the marks that are visible in the payload (not inside another marked node) -/
def MJ.topMarks : MJ → List String
  | .leaf _ => []
  | .arr xs => xs.topMarks
  | .obj ms _ => ms.topMarks
def MElems.topMarks : MElems → List String
  | .nil => []
  | .clear x r => x.topMarks ++ r.topMarks
  | .marked dg _ r => dg :: r.topMarks
  | .decoy _ r => r.topMarks
def MMems.topMarks : MMems → List String
  | .nil => []
  | .clear _ x r => x.topMarks ++ r.topMarks
  | .marked _ dg _ r => dg :: r.topMarks
end

mutual
/-- turn the node(s) marked with digest `g` into clear nodes (the digest of a member stays in
its object's `_sd`, as it does in the holder's working copy) -/
def MJ.reveal (g : String) : MJ → MJ
  | .leaf j => .leaf j
  | .arr xs => .arr (xs.reveal g)
  | .obj ms sd => .obj (ms.reveal g) sd
def MElems.reveal (g : String) : MElems → MElems
  | .nil => .nil
  | .clear x r => .clear (x.reveal g) (r.reveal g)
  | .marked dg x r => if dg = g then .clear (x.reveal g) (r.reveal g) else .marked dg (x.reveal g) (r.reveal g)
  | .decoy dg r => .decoy dg (r.reveal g)
def MMems.reveal (g : String) : MMems → MMems
  | .nil => .nil
  | .clear k x r => .clear k (x.reveal g) (r.reveal g)
  | .marked k dg x r => if dg = g then .clear k (x.reveal g) (r.reveal g) else .marked k dg (x.reveal g) (r.reveal g)
end

mutual
/-- (JSON pointer in the payload, digest) of every marked node, at every depth; array indices
count every element of the payload array (clear, marked or decoy) -/
def MJ.paths (p : String) : MJ → List (String × String)
  | .leaf _ => []
  | .arr xs => xs.paths p 0
  | .obj ms _ => ms.paths p
def MElems.paths (p : String) (i : Nat) : MElems → List (String × String)
  | .nil => []
  | .clear x r => x.paths (Path.fmtPath p (toString i)) ++ r.paths p (i+1)
  | .marked dg x r => (Path.fmtPath p (toString i), dg) :: (x.paths (Path.fmtPath p (toString i)) ++ r.paths p (i+1))
  | .decoy _ r => r.paths p (i+1)
def MMems.paths (p : String) : MMems → List (String × String)
  | .nil => []
  | .clear k x r => x.paths (Path.fmtPath p k) ++ r.paths p
  | .marked k dg x r => (Path.fmtPath p k, dg) :: (x.paths (Path.fmtPath p k) ++ r.paths p)
end

/-! ## The holder's working copy as a marked tree

While disclosures are put back one by one, the working copy of the claims is always the payload
of a marked tree: `revealTop g` turns the *visible* node marked `g` into a clear node. -/

mutual
/-- turn the visible (not nested in another marked node) node marked `g` into a clear node; the
digest of a member stays in its object's `_sd`, as it does in the code -/
def MJ.revealTop (g : String) : MJ → MJ
  | .leaf j => .leaf j
  | .arr xs => .arr (xs.revealTop g)
  | .obj ms sd => .obj (ms.revealTop g) sd
def MElems.revealTop (g : String) : MElems → MElems
  | .nil => .nil
  | .clear x r => .clear (x.revealTop g) (r.revealTop g)
  | .marked dg x r => if dg = g then .clear x (r.revealTop g) else .marked dg x (r.revealTop g)
  | .decoy dg r => .decoy dg (r.revealTop g)
def MMems.revealTop (g : String) : MMems → MMems
  | .nil => .nil
  | .clear k x r => .clear k (x.revealTop g) (r.revealTop g)
  | .marked k dg x r => if dg = g then .clear k x (r.revealTop g) else .marked k dg x (r.revealTop g)
end

mutual
/-- the digests visible in the payload: `_sd` contents, element marks and array decoys that are
not inside a marked node -/
def MJ.vdigests : MJ → List String
  | .leaf _ => []
  | .arr xs => xs.vdigests
  | .obj ms sd => sd.getD [] ++ ms.vdigests
def MElems.vdigests : MElems → List String
  | .nil => []
  | .clear x r => x.vdigests ++ r.vdigests
  | .marked dg _ r => dg :: r.vdigests
  | .decoy dg r => dg :: r.vdigests
def MMems.vdigests : MMems → List String
  | .nil => []
  | .clear _ x r => x.vdigests ++ r.vdigests
  | .marked _ _ _ r => r.vdigests
end

mutual
/-- visible digests that belong to no visible marked node: decoys, and the digests of members
that have already been revealed -/
def MJ.stale : MJ → List String
  | .leaf _ => []
  | .arr xs => xs.stale
  | .obj ms sd => (sd.getD []).filter (fun g => !ms.marks.contains g) ++ ms.stale
def MElems.stale : MElems → List String
  | .nil => []
  | .clear x r => x.stale ++ r.stale
  | .marked _ _ r => r.stale
  | .decoy dg r => dg :: r.stale
def MMems.stale : MMems → List String
  | .nil => []
  | .clear _ x r => x.stale ++ r.stale
  | .marked _ _ _ r => r.stale
end

mutual
/-- the disclosures of the visible marked nodes -/
def MJ.topDiscs : MJ → List SDisc
  | .leaf _ => []
  | .arr xs => xs.topDiscs
  | .obj ms _ => ms.topDiscs
def MElems.topDiscs : MElems → List SDisc
  | .nil => []
  | .clear x r => x.topDiscs ++ r.topDiscs
  | .marked dg x r => ⟨dg, none, x.payload⟩ :: r.topDiscs
  | .decoy _ r => r.topDiscs
def MMems.topDiscs : MMems → List SDisc
  | .nil => []
  | .clear _ x r => x.topDiscs ++ r.topDiscs
  | .marked k dg x r => ⟨dg, some k, x.payload⟩ :: r.topDiscs
end

mutual
/-- the JSON pointer (in the payload) of the visible node(s) marked `g` -/
def MJ.tpaths (g : String) (p : String) : MJ → List String
  | .leaf _ => []
  | .arr xs => xs.tpaths g p 0
  | .obj ms _ => ms.ownPaths g p ++ ms.tpaths g p
def MElems.tpaths (g : String) (p : String) (i : Nat) : MElems → List String
  | .nil => []
  | .clear x r => x.tpaths g (Path.fmtPath p (toString i)) ++ r.tpaths g p (i+1)
  | .marked dg _ r => (if dg = g then [Path.fmtPath p (toString i)] else []) ++ r.tpaths g p (i+1)
  | .decoy _ r => r.tpaths g p (i+1)
/-- paths found below the clear members (the walk over the members) -/
def MMems.tpaths (g : String) (p : String) : MMems → List String
  | .nil => []
  | .clear k x r => x.tpaths g (Path.fmtPath p k) ++ r.tpaths g p
  | .marked _ _ _ r => r.tpaths g p
/-- path of this object's own member marked `g` (the `_sd` step of the object) -/
def MMems.ownPaths (g : String) (p : String) : MMems → List String
  | .nil => []
  | .clear _ _ r => r.ownPaths g p
  | .marked k dg _ r => (if dg = g then [Path.fmtPath p k] else []) ++ r.ownPaths g p
end

/-- visible marks below the clear members (what the walk over the members of an object can find) -/
def MMems.belowMarks : MMems → List String
  | .nil => []
  | .clear _ x r => x.topMarks ++ r.belowMarks
  | .marked _ _ _ r => r.belowMarks

/-- reveal below the clear members only -/
def MMems.revealBelow (g : String) : MMems → MMems
  | .nil => .nil
  | .clear k x r => .clear k (x.revealTop g) (r.revealBelow g)
  | .marked k dg x r => .marked k dg x (r.revealBelow g)

/-- this object's own member marked `g` -/
def MMems.findOwn (g : String) : MMems → Option (String × MJ)
  | .nil => none
  | .clear _ _ r => r.findOwn g
  | .marked k dg x r => if dg = g then some (k, x) else r.findOwn g

mutual
/-- digests that belong to no marked node, at every depth (also inside marked nodes): decoys and
`_sd` entries that are not the digest of a marked member of their object -/
def MJ.deepStale : MJ → List String
  | .leaf _ => []
  | .arr xs => xs.deepStale
  | .obj ms sd => (sd.getD []).filter (fun g => !ms.marks.contains g) ++ ms.deepStale
def MElems.deepStale : MElems → List String
  | .nil => []
  | .clear x r => x.deepStale ++ r.deepStale
  | .marked _ x r => x.deepStale ++ r.deepStale
  | .decoy dg r => dg :: r.deepStale
def MMems.deepStale : MMems → List String
  | .nil => []
  | .clear _ x r => x.deepStale ++ r.deepStale
  | .marked _ _ x r => x.deepStale ++ r.deepStale
end

mutual
/-- the digests of all marked nodes, at every depth -/
def MJ.allMarks : MJ → List String
  | .leaf _ => []
  | .arr xs => xs.allMarks
  | .obj ms _ => ms.allMarks
def MElems.allMarks : MElems → List String
  | .nil => []
  | .clear x r => x.allMarks ++ r.allMarks
  | .marked dg x r => dg :: (x.allMarks ++ r.allMarks)
  | .decoy _ r => r.allMarks
def MMems.allMarks : MMems → List String
  | .nil => []
  | .clear _ x r => x.allMarks ++ r.allMarks
  | .marked _ dg x r => dg :: (x.allMarks ++ r.allMarks)
end

mutual
/-- the digests of the marked nodes that lie inside another marked node -/
def MJ.hiddenMarks : MJ → List String
  | .leaf _ => []
  | .arr xs => xs.hiddenMarks
  | .obj ms _ => ms.hiddenMarks
def MElems.hiddenMarks : MElems → List String
  | .nil => []
  | .clear x r => x.hiddenMarks ++ r.hiddenMarks
  | .marked _ x r => x.allMarks ++ r.hiddenMarks
  | .decoy _ r => r.hiddenMarks
def MMems.hiddenMarks : MMems → List String
  | .nil => []
  | .clear _ x r => x.hiddenMarks ++ r.hiddenMarks
  | .marked _ _ x r => x.allMarks ++ r.hiddenMarks
end

mutual
/-- (digest, subtree) of every marked node, at every depth -/
def MJ.hiddenE : MJ → List (String × MJ)
  | .leaf _ => []
  | .arr xs => xs.hiddenE
  | .obj ms _ => ms.hiddenE
def MElems.hiddenE : MElems → List (String × MJ)
  | .nil => []
  | .clear x r => x.hiddenE ++ r.hiddenE
  | .marked dg x r => (dg, x) :: (x.hiddenE ++ r.hiddenE)
  | .decoy _ r => r.hiddenE
def MMems.hiddenE : MMems → List (String × MJ)
  | .nil => []
  | .clear _ x r => x.hiddenE ++ r.hiddenE
  | .marked _ dg x r => (dg, x) :: (x.hiddenE ++ r.hiddenE)
end
