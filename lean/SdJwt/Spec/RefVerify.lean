import SdJwt.Data.J
/-!
# The specification's verification algorithm (SD-JWT draft §7.1 "Verification of the SD-JWT"),
written from the text. It shares nothing with `Impl/`: it builds a digest table first and then
replaces embedded digests recursively, in one pass, with every MUST-reject rule of steps 3–5.

Input: the (signature-checked) payload and the presented disclosures already decoded to
`(digest, decoded JSON)`; output: the processed payload or a rejection.
`strict = true` additionally applies step 5 (a disclosure that is never referenced ⇒ reject).
-/
open Assoc

namespace Ref

inductive Rej where
  | notArray | arity | nameType | nameReserved | nameExists | wrongPlace
  | digestTwice | sdNotArray | placeholderExtra | unreferenced | duplicateDisclosure | fuel
  deriving Repr, DecidableEq

structure St where
  /-- every embedded digest met so far (payload and inserted values) -/
  seen : List String
  /-- digests of the disclosures that were referenced -/
  used : List String

abbrev R (α : Type) := Except Rej (α × St)

def lookup (tbl : List (String × J)) (g : String) : Option J :=
  match tbl with
  | [] => none
  | (g', j) :: r => if g = g' then some j else lookup r g

def seeDigest (st : St) (g : String) : Except Rej St :=
  if g ∈ st.seen then .error .digestTwice else .ok { st with seen := g :: st.seen }

/-- steps 3.b/3.c applied to one value; `fuel` bounds the nesting of replaced values -/
def process (tbl : List (String × J)) : Nat → J → St → R J
  | 0, _, _ => .error .fuel
  | fuel+1, .obj ms, st =>
    -- existing members first (none of them is `_sd`'s business), then the `_sd` digests
    match members tbl fuel ms st with
    | .error e => .error e
    | .ok (ms', st1) =>
      match aget "_sd" ms with
      | none => .ok (.obj ms', st1)
      | some (.arr ds) =>
        match sdList tbl fuel ds (adel "_sd" ms') st1 with
        | .error e => .error e
        | .ok (ms'', st2) => .ok (.obj ms'', st2)
      | some _ => .error .sdNotArray
  | fuel+1, .arr xs, st =>
    match elems tbl fuel xs st with
    | .error e => .error e
    | .ok (xs', st') => .ok (.arr xs', st')
  | _+1, j, st => .ok (j, st)
where
  members (tbl : List (String × J)) (fuel : Nat) :
      List (String × J) → St → R (List (String × J))
    | [], st => .ok ([], st)
    | (k, v) :: r, st =>
      if k = "_sd" then
        match members tbl fuel r st with
        | .error e => .error e
        | .ok (r', st') => .ok ((k, v) :: r', st')
      else
        match process tbl fuel v st with
        | .error e => .error e
        | .ok (v', st1) =>
          match members tbl fuel r st1 with
          | .error e => .error e
          | .ok (r', st2) => .ok ((k, v') :: r', st2)
  /-- the digests of one `_sd` array, against the members of its object -/
  sdList (tbl : List (String × J)) (fuel : Nat) :
      List J → List (String × J) → St → R (List (String × J))
    | [], ms, st => .ok (ms, st)
    | .str g :: r, ms, st =>
      match seeDigest st g with
      | .error e => .error e
      | .ok st1 =>
        match lookup tbl g with
        | none => sdList tbl fuel r ms st1                      -- no disclosure: ignore
        | some (.arr [_, .str name, v]) =>
          if name = "_sd" ∨ name = "..." then .error .nameReserved
          else if (aget name ms).isSome then .error .nameExists
          else
            match process tbl fuel v { st1 with used := g :: st1.used } with
            | .error e => .error e
            | .ok (v', st2) => sdList tbl fuel r (ains name v' ms) st2
        | some (.arr [_, _, _]) => .error .nameType
        | some _ => .error .wrongPlace                           -- not three elements
    | _ :: r, ms, st => sdList tbl fuel r ms st                 -- not a string: not a digest
  elems (tbl : List (String × J)) (fuel : Nat) : List J → St → R (List J)
    | [], st => .ok ([], st)
    | x :: r, st =>
      let ph : Option (Option String) :=      -- `some (some g)`: placeholder with digest g
        match x with
        | .obj ms => match aget "..." ms with
          | some (.str g) => if ms.length = 1 then some (some g) else some none
          | some _ => if ms.length = 1 then none else some none
          | none => none
        | _ => none
      match ph with
      | some none => .error .placeholderExtra
      | some (some g) =>
        match seeDigest st g with
        | .error e => .error e
        | .ok st1 =>
          match lookup tbl g with
          | none =>                                              -- step 3.d: remove
            elems tbl fuel r st1
          | some (.arr [_, v]) =>
            match process tbl fuel v { st1 with used := g :: st1.used } with
            | .error e => .error e
            | .ok (v', st2) =>
              match elems tbl fuel r st2 with
              | .error e => .error e
              | .ok (r', st3) => .ok (v' :: r', st3)
          | some _ => .error .wrongPlace                         -- not two elements
      | none =>
        match process tbl fuel x st with
        | .error e => .error e
        | .ok (x', st1) =>
          match elems tbl fuel r st1 with
          | .error e => .error e
          | .ok (r', st2) => .ok (x' :: r', st2)

/-- step 3.a-ish shape checks on every presented disclosure, referenced or not -/
def shapeOk : J → Except Rej Unit
  | .arr [_, _] => .ok ()
  | .arr [_, .str name, _] => if name = "_sd" ∨ name = "..." then .error .nameReserved else .ok ()
  | .arr [_, _, _] => .error .nameType
  | .arr _ => .error .arity
  | _ => .error .notArray

def shapesOk : List (String × J) → Except Rej Unit
  | [] => .ok ()
  | (_, j) :: r => match shapeOk j with
    | .error e => .error e
    | .ok () => shapesOk r

def dupFree : List (String × J) → Bool
  | [] => true
  | (g, _) :: r => !(r.any (·.1 = g)) && dupFree r

def jsize : J → Nat
  | .arr xs => 1 + sizeL xs
  | .obj ms => 1 + sizeM ms
  | _ => 1
where
  sizeL : List J → Nat
    | [] => 0
    | x :: r => jsize x + sizeL r
  sizeM : List (String × J) → Nat
    | [] => 0
    | (_, v) :: r => jsize v + sizeM r

/-- §7.1 steps 3–5 (and 3.e, 3.f): processed payload or rejection -/
def verify (strict : Bool) (payload : J) (tbl : List (String × J)) : Except Rej J :=
  match shapesOk tbl with
  | .error e => .error e
  | .ok () =>
    if !dupFree tbl then .error .duplicateDisclosure
    else
      let fuel := jsize payload + (tbl.map (fun p => jsize p.2)).sum + 2
      match process tbl fuel payload ⟨[], []⟩ with
      | .error e => .error e
      | .ok (j, st) =>
        if strict && tbl.any (fun p => !(st.used.contains p.1)) then .error .unreferenced
        else
          match j with
          | .obj ms => .ok (.obj (adel "_sd_alg" ms))
          | j => .ok j

end Ref
