import SdJwt.Spec.Marked
/-!
# Marking a claims tree, one path at a time (the specification side of the issuer)

The issuer's working copy is the payload of a marked tree in which exactly the nodes hidden so
far are marked. `markIn toks last` follows `toks` through clear nodes to a parent and marks its
clear child `last` with the digest `mk name value` of the disclosure built from it.
-/
open Spec

/-- the clear member named `k` -/
def MMems.getClear (k : String) : MMems → Option MJ
  | .nil => none
  | .clear k' x r => if k' = k then some x else r.getClear k
  | .marked _ _ _ r => r.getClear k

/-- replace the clear member named `k` -/
def MMems.setClear (k : String) (y : MJ) : MMems → MMems
  | .nil => .nil
  | .clear k' x r => if k' = k then .clear k' y r else .clear k' x (r.setClear k y)
  | .marked k' dg x r => .marked k' dg x (r.setClear k y)

/-- turn the clear member named `k` into a marked one -/
def MMems.toMarked (k : String) (dg : String) : MMems → MMems
  | .nil => .nil
  | .clear k' x r => if k' = k then .marked k' dg x r else .clear k' x (r.toMarked k dg)
  | .marked k' dg' x r => .marked k' dg' x (r.toMarked k dg)

/-- the clear element at position `i` (positions count every element of the payload array) -/
def MElems.getClearAt : Nat → MElems → Option MJ
  | _, .nil => none
  | 0, .clear x _ => some x
  | 0, .marked _ _ _ => none
  | 0, .decoy _ _ => none
  | i+1, .clear _ r => r.getClearAt i
  | i+1, .marked _ _ r => r.getClearAt i
  | i+1, .decoy _ r => r.getClearAt i

def MElems.setClearAt (y : MJ) : Nat → MElems → MElems
  | _, .nil => .nil
  | 0, .clear _ r => .clear y r
  | 0, .marked dg x r => .marked dg x r
  | 0, .decoy dg r => .decoy dg r
  | i+1, .clear x r => .clear x (r.setClearAt y i)
  | i+1, .marked dg x r => .marked dg x (r.setClearAt y i)
  | i+1, .decoy dg r => .decoy dg (r.setClearAt y i)

def MElems.toMarkedAt (dg : String) : Nat → MElems → MElems
  | _, .nil => .nil
  | 0, .clear x r => .marked dg x r
  | 0, .marked dg' x r => .marked dg' x r
  | 0, .decoy dg' r => .decoy dg' r
  | i+1, .clear x r => .clear x (r.toMarkedAt dg i)
  | i+1, .marked dg' x r => .marked dg' x (r.toMarkedAt dg i)
  | i+1, .decoy dg' r => .decoy dg' (r.toMarkedAt dg i)

/-- the clear child addressed by token `t`; `pi` reads array indices -/
def MJ.child (pi : String → Option Nat) (t : String) : MJ → Option MJ
  | .obj ms _ => ms.getClear t
  | .arr xs => (pi t).bind (fun i => xs.getClearAt i)
  | .leaf _ => none

def MJ.setChild (pi : String → Option Nat) (t : String) (y : MJ) : MJ → MJ
  | .obj ms sd => .obj (ms.setClear t y) sd
  | .arr xs => match pi t with
    | some i => .arr (xs.setClearAt y i)
    | none => .arr xs
  | .leaf j => .leaf j

/-- mark the clear child `last` of this node; the digest is that of the disclosure built from the
child's name (members only) and its payload; `pu` reads the index of an array element -/
def MJ.markChild (pu : String → Option Nat) (mk : Option String → J → String) (last : String) :
    MJ → Option (MJ × SDisc)
  | .obj ms sd =>
    if last = "_sd" ∨ last = "..." then none
    else match ms.getClear last with
      | none => none
      | some x =>
        some (.obj (ms.toMarked last (mk (some last) x.payload)) (some (sd.getD [] ++ [mk (some last) x.payload])),
              ⟨mk (some last) x.payload, some last, x.payload⟩)
  | .arr xs =>
    match pu last with
    | none => none
    | some i =>
      match xs.getClearAt i with
      | none => none
      | some x => some (.arr (xs.toMarkedAt (mk none x.payload) i), ⟨mk none x.payload, none, x.payload⟩)
  | .leaf _ => none

/-- follow `toks` through clear nodes, then mark the child `last` -/
def MJ.markIn (pi pu : String → Option Nat) (mk : Option String → J → String) :
    List String → String → MJ → Option (MJ × SDisc)
  | [], last, T => T.markChild pu mk last
  | t :: r, last, T =>
    match T.child pi t with
    | none => none
    | some x =>
      match MJ.markIn pi pu mk r last x with
      | none => none
      | some (x', d) => some (MJ.setChild pi t x' T, d)
