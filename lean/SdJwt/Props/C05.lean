import SdJwt.Lemmas.KB
import SdJwt.Lemmas.EndToEnd
/-!
# C05 — key binding enforced: bound SD-JWTs need a valid KB-JWT over this presentation

Statement: if the issuer bound the SD-JWT to a holder key, the verifier accepts a presentation
when, and only when, it ends with a key-binding JWT signed by that key under the expected
algorithm, typed kb+jwt, carrying an expected audience, whose hash commitment equals the hash of
exactly the presented issuer JWT and disclosures. A KB-JWT on an unbound SD-JWT is rejected, a
missing policy is rejected, and the holder cannot build without key binding from a bound SD-JWT.

`C05_accept_iff` is the decision logic of `Verifier::verify_raw` stated outright, for every
presentation string, every runtime (`Rt`: hashing and the JWT library's verdicts are parameters)
and both policies. `C05_verifyKb_iff` opens the key-binding check. `C05_tamper` shows that any
change of the disclosure list changes the string that is hashed. Signature and audience/algorithm
checks of the KB-JWT are the JWT library's (`kbDecode`), covered as in C04 / C11.
-/
open Impl Spec Assoc

/-- the key-binding check accepts iff the bound key is an RSA JWK with string `n`, `e`, the JWT
library accepts the KB-JWT under that key and the verifier's policy, and it is typed `kb+jwt` -/
theorem C05_verifyKb_iff (rt : Rt) (kb : String) (cnf : J) (kh kc : J) :
    verifyKb rt kb cnf = .ok (kh, kc) ↔
      (jidx cnf "kty").asStr = some "RSA" ∧ (jidx cnf "e").asStr ≠ none ∧
      (jidx cnf "n").asStr ≠ none ∧ rt.kbDecode kb cnf = .ok (kh, kc) ∧
      (jidx kh "typ").asStr = some "kb+jwt" := by
  unfold verifyKb
  split
  · simp_all
  · split
    · simp_all
    · split
      · simp_all
      · split
        · simp_all
        · simp_all
        · split
          · simp_all
            intro h1 h2; subst h1 h2; assumption
          · simp_all
            intro h1 h2; subst h1 h2; assumption

/-- **Key binding enforced.** Given that the issuer-signed JWT verifies and declares a supported
`_sd_alg`, the verifier accepts iff either the token is unbound and no KB-JWT is attached, or it is
bound, a KB-JWT is attached, a policy is configured, the key-binding check accepts it, and its
`sd_hash` is a string equal to the hash — under the declared algorithm — of the presentation up to
and including its last `~`. -/
theorem C05_accept_iff (rt : Rt) (tok : String) (policy : Bool) (parts : Parts) (header claims : J)
    (alg : String)
    (hp : sdJwtParts tok.toList = .ok parts)
    (hj : rt.jwtDecode (strOf parts.jwt) = .ok (header, claims))
    (ha : (jidx claims "_sd_alg").asStr = some alg) (hs : parseHashAlg alg = .ok alg) :
    (∃ r, Verifier.verifyRaw rt tok policy = .ok r) ↔
      (isNullJ (jidx claims "cnf") = true ∧ parts.kb = none) ∨
      (isNullJ (jidx claims "cnf") = false ∧ ∃ k, parts.kb = some k ∧ policy = true ∧
        ∃ kh kc, verifyKb rt (strOf k) (jidx claims "cnf") = .ok (kh, kc) ∧
          (jidx kc "sd_hash").asStr = some (rt.hash alg (strOf (dropKb tok.toList)))) := by
  unfold Verifier.verifyRaw
  simp only [hp, hj, ha, hs]
  cases hkb : parts.kb with
  | none =>
    cases hn : isNullJ (jidx claims "cnf") <;> simp [hn]
  | some k =>
    cases hn : isNullJ (jidx claims "cnf")
    · cases policy
      · simp [hn]
      · cases hv : verifyKb rt (strOf k) (jidx claims "cnf") with
        | panic => simp [hn, hv]
        | err e => simp [hn, hv]
        | ok x =>
          obtain ⟨kh, kc⟩ := x
          cases hh : (jidx kc "sd_hash").asStr with
          | none => simp [hn, hv, hh]
          | some h =>
            by_cases he : rt.hash alg (strOf (dropKb tok.toList)) = h
            · simp [hn, hv, hh, he]
              exact ⟨kh, kc, ⟨rfl, rfl⟩, hh⟩
            · simp [hn, hv, hh, he]
              exact fun e => he e.symm
    · simp [hn]

/-- the holder cannot build a presentation without key binding from a bound SD-JWT -/
theorem C05_holder_refuses (rt : Rt) (h : HolderState) (red : List String) (nonce : String) (now : Int)
    (seg : List Char) (claims : J)
    (hseg : getJwtPart h.sdJwt.toList .claims = .ok seg) (hc : rt.decodeClaims (strOf seg) = some claims)
    (hb : (jget? claims "cnf").isSome = true) :
    Holder.build rt h red none nonce now = .err .kbRequired := by
  unfold Holder.build
  simp [hseg, hc, hb]

/-- a KB-JWT attached to an SD-JWT without `cnf` is rejected -/
theorem C05_unbound_with_kb (rt : Rt) (tok : String) (policy : Bool) (parts : Parts) (header claims : J)
    (k : List Char)
    (hp : sdJwtParts tok.toList = .ok parts)
    (hj : rt.jwtDecode (strOf parts.jwt) = .ok (header, claims))
    (hn : isNullJ (jidx claims "cnf") = true) (hk : parts.kb = some k) :
    Verifier.verifyRaw rt tok policy = .err .rejected := by
  unfold Verifier.verifyRaw
  simp [hp, hj, hn, hk]

/-- Tampering: two presentations of the same issuer JWT whose `~`-free disclosure lists differ are
hashed over different strings — so, for a collision-free hash, a KB-JWT made for one is rejected
with the other (removing, adding, reordering or replacing any disclosure after binding). -/
theorem C05_tamper (jwt : String) (l1 l2 : List String)
    (h1 : ∀ d ∈ l1, '~' ∉ d.toList) (h2 : ∀ d ∈ l2, '~' ∉ d.toList) (hne : l1 ≠ l2) :
    assemble jwt l1 ≠ assemble jwt l2 := by
  intro heq
  apply hne
  have e := congrArg String.toList heq
  rw [toList_assemble, toList_assemble] at e
  have e2 : (l1.map (fun d => '~' :: d.toList)).flatten = (l2.map (fun d => '~' :: d.toList)).flatten := by
    have := List.append_cancel_right e
    exact List.append_cancel_left this
  -- decode the flattened `~`-prefixed, `~`-free segments back
  have inj : ∀ (a b : List String), (∀ d ∈ a, '~' ∉ d.toList) → (∀ d ∈ b, '~' ∉ d.toList) →
      (a.map (fun d => '~' :: d.toList)).flatten = (b.map (fun d => '~' :: d.toList)).flatten → a = b := by
    intro a
    induction a with
    | nil =>
      intro b _ _ hh
      cases b with
      | nil => rfl
      | cons y ys => simp at hh
    | cons x xs ih =>
      intro b ha hb hh
      cases b with
      | nil => simp at hh
      | cons y ys =>
        simp only [List.map_cons, List.flatten_cons, List.cons_append, List.cons.injEq, true_and] at hh
        -- x.toList ++ rest1 = y.toList ++ rest2, both rests start with '~' or are empty, x y are '~'-free
        have hx := ha x (by simp)
        have hy := hb y (by simp)
        have split : ∀ (u v r s : List Char), '~' ∉ u → '~' ∉ v →
            (r = [] ∨ ∃ r', r = '~' :: r') → (s = [] ∨ ∃ s', s = '~' :: s') →
            u ++ r = v ++ s → u = v ∧ r = s := by
          intro u
          induction u with
          | nil =>
            intro v r s _ hv hr hs huv
            cases v with
            | nil => exact ⟨rfl, by simpa using huv⟩
            | cons c v' =>
              simp at huv
              rcases hr with rfl | ⟨r', rfl⟩
              · simp at huv
              · simp at huv
                exact absurd (huv.1 ▸ (by simp : c ∈ c :: v')) (by
                  intro hm; exact hv (huv.1 ▸ hm))
          | cons c u' ihu =>
            intro v r s hu hv hr hs huv
            cases v with
            | nil =>
              simp at huv
              rcases hs with rfl | ⟨s', rfl⟩
              · simp at huv
              · simp at huv
                exact absurd (by simp [huv.1] : '~' ∈ c :: u') hu
            | cons d v' =>
              simp at huv
              obtain ⟨rfl, rest⟩ := huv
              have := ihu v' r s (fun m => hu (by simp [m])) (fun m => hv (by simp [m])) hr hs rest
              exact ⟨by simp [this.1], this.2⟩
        have tails : ∀ (l : List String), ((l.map (fun d => '~' :: d.toList)).flatten = [] ∨
            ∃ r', (l.map (fun d => '~' :: d.toList)).flatten = '~' :: r') := by
          intro l; cases l with
          | nil => left; rfl
          | cons z zs => right; exact ⟨z.toList ++ (zs.map (fun d => '~' :: d.toList)).flatten, by simp⟩
        obtain ⟨hxy, hrest⟩ := split _ _ _ _ hx hy (tails xs) (tails ys) hh
        have := ih ys (fun d hd => ha d (by simp [hd])) (fun d hd => hb d (by simp [hd])) hrest
        rw [String.toList_inj.mp hxy, this]
  exact inj l1 l2 h1 h2 e2

/-- non-vacuity of `C05_tamper`: reordering two disclosures -/
example : assemble "j" ["a", "b"] ≠ assemble "j" ["b", "a"] :=
  C05_tamper "j" ["a", "b"] ["b", "a"] (by decide) (by decide) (by decide)

/-- **C05, acceptance end to end in the model (bound token).**  The issuer binds the token to
the key `X` (`require_key_binding`); the holder presents ANY selection `kept` of the disclosures
followed by a key-binding JWT `kb` that the JWT library accepts under `X` and the verifier's
key-binding policy (`kbDecode`), typed `kb+jwt`, whose `sd_hash` is the hash — under the declared
`sha-256` — of exactly the presentation up to and including its last `~`.  Then the verifier
accepts and returns the header and the issued claims projected on the selection, plus `cnf`.
(The rejecting side, for every other presentation, is `C05_accept_iff`.) -/
theorem C05_bound_accepts (rt : Rt) (mk : Nat → Option String → J → String)
    (paths : List String) (addr : List (List String × String)) (ms : MMems) (Tn : MJ)
    (ds : List SDisc) (decoys : Option (List String)) (X : MJ) (jwt : String) (header : J)
    (kept : List String) (kb : String) (kh kc : J)
    (wf : (MJ.obj ms none).WF) (hplain : (MJ.obj ms none).digests = [])
    (hk1 : "_sd_alg" ∉ ms.keys) (hk2 : "cnf" ∉ ms.keys)
    (hp : ParsedAll paths addr) (h : markAll mk 0 addr (.obj ms none) = some (Tn, ds)) (hne : ds ≠ [])
    (hdec : ∀ l, decoys = some l → l.Nodup ∧ (∀ g ∈ l, g ∉ Tn.digests))
    (hX : X.WF ∧ X.digests = [])
    (hsig : ∀ payload dsrc,
      encode (MJ.obj ms none).payload paths mk decoys (some X.payload) = .ok (payload, dsrc) →
      rt.jwtDecode jwt = .ok (header, payload))
    (hstr : ∀ s ∈ kept, ∃ e ∈ ds,
      fromBase64 (rt.env "sha-256") s = .ok ⟨s, e.digest, e.key, e.value⟩)
    (hnd : (kept.map (rt.hash "sha-256")).Nodup)
    (hj : '~' ∉ jwt.toList) (hs : ∀ s ∈ kept, '~' ∉ s.toList)
    (hkb : '~' ∉ kb.toList) (hkbne : kb.toList ≠ [])
    (hkty : (jidx X.payload "kty").asStr = some "RSA")
    (he : (jidx X.payload "e").asStr.isSome = true) (hn : (jidx X.payload "n").asStr.isSome = true)
    (hkbdec : rt.kbDecode kb X.payload = .ok (kh, kc))
    (htyp : (jidx kh "typ").asStr = some "kb+jwt")
    (hhash : (jidx kc "sd_hash").asStr = some (rt.hash "sha-256" (assemble jwt kept))) :
    ∃ msn sdn, Tn = .obj msn sdn ∧
      Verifier.verify rt (assemble jwt kept ++ kb) true =
        .ok (header, .obj (ains "cnf" (X.project (fun g => kept.any fun s => decide (rt.hash "sha-256" s = g)))
          (msn.project (fun g => kept.any fun s => decide (rt.hash "sha-256" s = g))))) :=
  verifier_verify_issued_bound rt mk paths addr ms Tn ds decoys X jwt header kept kb kh kc wf hplain hk1 hk2
    hp h hne hdec hX hsig hstr hnd hj hs hkb hkbne hkty he hn hkbdec htyp hhash
