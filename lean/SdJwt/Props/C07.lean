import SdJwt.Impl.Restore
import SdJwt.Impl.Issuer
import SdJwt.Lemmas.IssuerL
import SdJwt.Lemmas.Assoc
import SdJwt.Lemmas.IssueAll
import SdJwt.Lemmas.RefSound
import SdJwt.Lemmas.MarkInv
import SdJwt.Lemmas.CodecL
import SdJwt.Lemmas.TextCodec
/-!
# C07 — issued SD-JWTs are spec-conformant as judged by an independent verifier

Statement: every SD-JWT the issuer produces is well formed as judged by an independent
implementation of the specification's verification algorithm; that verifier reconstructs exactly
the original claims from it, and the expected subset for every subset of the disclosures.

The independent verifier is `Spec/RefVerify.lean` (written from the specification text, shares no
definition with `Impl/`); it is *run* on the bytes of the real issuer's output by every check.
Proved here: the JSON-level disclosure round trip, that reserved names are never used, and the
local placement facts of the issuer model (digest of a member goes to the parent's `_sd`, digest of
an element takes the element's index). `C07_issue` is the global statement (T-issue): the
issuer model's output for a list of paths is `payload Tn` for the marked tree `Tn` obtained by
marking the addressed nodes one after another — each digest embedded exactly once, at the position
of the node it replaces (that is what `payload` of a marked tree is) — `Tn` is conformant and
stands for the same claims; `C07_pointer` shows every rendered JSON pointer is parsed back.
-/
open Impl Spec Assoc

/-- disclosure round trip at JSON level: a string that decodes to `[salt, name, value]` with a
non-reserved name is read back as exactly that name and value, with the digest of the string *as
presented* -/
theorem C07_disclosure_member (env : Env) (s : String) (salt v : J) (name : String)
    (hd : env.decodeDisc s = some (.arr [salt, .str name, v]))
    (hn : name ≠ "_sd" ∧ name ≠ "...") :
    fromBase64 env s = .ok { str := s, digest := env.hash s, key := some name, value := v } := by
  simp [fromBase64, hd, hn.1, hn.2]

theorem C07_disclosure_element (env : Env) (s : String) (salt v : J)
    (hd : env.decodeDisc s = some (.arr [salt, v])) :
    fromBase64 env s = .ok { str := s, digest := env.hash s, key := none, value := v } := by
  simp [fromBase64, hd]

/-- reserved names are never used as claim names: marking a member called `_sd` or `...` fails -/
theorem C07_reserved_never_disclosed (mk : Option String → J → String) (key : String)
    (ms : List (String × J)) (v : J) (hk : aget key ms = some v) (hr : key = "_sd" ∨ key = "...") :
    hideIn mk key (.obj ms) = .err .format := by
  simp [hideIn, hk, hr]

/-- placement, members: the member is removed and its digest — the digest of *its* disclosure — is
appended to the `_sd` of the same object -/
theorem C07_member_placement (mk : Option String → J → String) (key : String) (ms : List (String × J))
    (v : J) (hk : aget key ms = some v) (hr : key ≠ "_sd" ∧ key ≠ "...")
    (hsd : aget "_sd" (adel key ms) = none) :
    hideIn mk key (.obj ms) =
      .ok (.obj (ains "_sd" (.arr [.str (mk (some key) v)]) (adel key ms)),
           ⟨some key, v, mk (some key) v⟩) := by
  simp [hideIn, hk, hr.1, hr.2, hsd]

/-- placement, elements: the element is replaced, at the same index, by `{"...": digest}`; the
array keeps its length and every other element its position -/
theorem C07_element_placement (mk : Option String → J → String) (key : String) (xs : List J) (i : Nat)
    (v : J) (hp : parseUsize key.toList = some i) (hv : xs[i]? = some v) :
    hideIn mk key (.arr xs) = .ok (.arr (xs.set i (placeholder (mk none v))), ⟨none, v, mk none v⟩) := by
  simp [hideIn, hp, hv]

/-- `_sd_alg` is declared whenever a disclosure exists -/
theorem C07_sd_alg_declared (ms : List (String × J)) (p : String) (ps : List String)
    (mk : Nat → Option String → J → String) (payload : J) (ds : List DiscSrc)
    (h : encode (.obj ms) (p :: ps) mk none none = .ok (payload, ds)) :
    ∃ ms', payload = .obj ms' ∧ aget "_sd_alg" ms' = some (.str "sha-256") := by
  unfold encode at h
  cases ha : applyPaths mk 0 (.obj ms) (p :: ps) with
  | panic => simp [ha] at h
  | err e => simp [ha] at h
  | ok r =>
    obtain ⟨c1, ds1⟩ := r
    have ho := applyPaths_isObj mk 0 (.obj ms) (p :: ps) c1 ds1 ha rfl
    have hne : ds1.isEmpty = false := by
      unfold applyPaths at ha
      split at ha
      · cases ha
      · cases ha
      · split at ha
        · cases ha
        · cases ha
        · cases ha; rfl
    cases c1 with
    | obj ms1 =>
      simp [ha, hne, setMember] at h
      obtain ⟨rfl, _⟩ := h
      exact ⟨_, rfl, Assoc.aget_ains_self _ _ _⟩
    | _ => simp [J.isObj] at ho

/-- **T-issue.** For every claims tree `T` (possibly already partly marked), every list of path
strings addressing nodes `addr` and every digest function: if marking those nodes in that order is
defined (each path reaches a not yet hidden node through not yet hidden nodes — nested before
enclosing, no repeats — and each digest is new to the tree), the issuer's working copy is the
payload of the marked tree, the disclosures are those of the marked nodes in path order, the
marked tree is well formed, and its original claims are unchanged. -/
theorem C07_issue (mk : Nat → Option String → J → String) (paths : List String)
    (addr : List (List String × String)) (T Tn : MJ) (ds : List SDisc) (wf : T.WF)
    (hp : ParsedAll paths addr) (h : markAll mk 0 addr T = some (Tn, ds)) :
    applyPaths mk 0 T.payload paths = .ok (Tn.payload, ds.map toSrc) ∧ Tn.WF ∧ Tn.plain = T.plain :=
  applyPaths_markAll mk paths addr 0 T Tn ds wf hp h

/-- every JSON pointer rendered from names (any names: empty, numeric-looking, with `/` or `~`)
is parsed by the issuer into exactly those names (D20) -/
theorem C07_pointer (toks : List String) (last : String) : Parsed (renderPath toks last) toks last :=
  parsed_renderPath toks last

/-- non-vacuity: marking `/addr/street` and then `/addr` in `{"addr":{"street":"x"},"n":1}` is
defined, and the result hides both -/
example :
    let T : MJ := .obj (.clear "addr" (.obj (.clear "street" (.leaf (.str "x")) .nil) none)
                    (.clear "n" (.leaf (.num 1 0)) .nil)) none
    (markAll (fun i _ _ => "dg" ++ toString i) 0 [(["addr"], "street"), ([], "addr")] T).map (fun r => r.1.payload)
      = some (.obj [("_sd", .arr [.str "dg1"]), ("n", .num 1 0)]) := by
  rfl

/-- **T-ref: the independent verifier computes the projection.** `Ref.verify` is the draft's
verification algorithm (§7.1) written from the text; it shares no definition with the model of
the library.  For every conformant tree with pairwise distinct digests and every table of
disclosures in which the entry under a marked node's digest is that node's disclosure (and no
entry sits under a decoy), it returns exactly the tree's claims with those marked nodes present
whose own and enclosing disclosures are in the table, top-level `_sd_alg` dropped — the expected
subset for every subset, the original claims for all of them.  With `C07_issue` /
`C01_encode_ok` (the issuer model's payload is the payload of such a tree) this is C07's
statement for the model; on the real bytes `Ref.verify` is *run* by every check. -/
theorem C07_ref (T : MJ) (wf : T.WF) (nd : T.digests.Nodup) (ndm : T.allMarks.Nodup)
    (tbl : List (String × J)) (htbl : Ref.TblOn T.discs T.deepStale tbl)
    (hshape : Ref.shapesOk tbl = .ok ()) (hdup : Ref.dupFree tbl = true) :
    Ref.verify false T.payload tbl = .ok (Ref.dropAlgJ (T.project (Ref.sel tbl))) :=
  Ref.verify_project T wf nd ndm tbl htbl hshape hdup

/-- the fuel the independent verifier computes is enough for every conformant tree and table -/
theorem C07_ref_fuel (T : MJ) (wf : T.WF) (ndm : T.allMarks.Nodup) (tbl : List (String × J))
    (htbl : Ref.TblOn T.discs T.deepStale tbl) :
    T.need (Ref.sel tbl) ≤ Ref.jsize T.payload + (tbl.map (fun p => Ref.jsize p.2)).sum + 2 := by
  have h1 := Ref.MJ.need_le (Ref.sel tbl) T wf
  have h2 := Ref.sumSel_le_tbl tbl T.discs (by rw [MJ.discs_digest]; exact ndm) htbl.own
  omega

/-- **C07 in the model: what the issuer produces, judged by the independent verifier.**  For every
conformant start tree, every marking the issuer performs (`markAll` defined — `C07_issue` shows
the issuer model's payload is `Tn.payload`) and ANY selection `sub` of the issuer's disclosures
(each with any salt, no digest twice), in any order: the specification's verification algorithm
accepts and reconstructs exactly the issued tree's claims with those marked nodes present whose
own and enclosing disclosures are selected — the expected subset for every subset; with all of
them, the original claims (`Tn.plain = T.plain`). -/
theorem C07_issued_ref (mk : Nat → Option String → J → String) (addr : List (List String × String))
    (T Tn : MJ) (ds : List SDisc) (inv : TreeInv T) (h : markAll mk 0 addr T = some (Tn, ds))
    (sub : List (SDisc × J)) (hsub : ∀ p ∈ sub, p.1 ∈ ds) (hnd : (sub.map (·.1.digest)).Nodup) :
    Ref.verify false Tn.payload (Ref.tblOf sub) =
      .ok (Ref.dropAlgJ (Tn.project (fun g => sub.any (fun p => p.1.digest = g)))) ∧
    Tn.plain = T.plain := by
  obtain ⟨invn, hst, _, pdi, pd⟩ := markAll_inv mk addr 0 T Tn ds inv h
  have hndd : (ds.map (·.digest) ++ T.digests).Nodup := pd.nodup invn.nd
  refine ⟨Ref.verify_own Tn invn.wf invn.nd invn.ndm sub (fun p hp => ⟨?_, ?_⟩) hnd,
    markAll_plain mk addr 0 T Tn ds h⟩
  · exact pdi.symm.subset (by simp [hsub p hp])
  · intro hh
    have h1 : p.1.digest ∈ T.digests := MJ.deepStale_sub_digests T _ (hst _ hh)
    exact (List.nodup_append.mp hndd).2.2 p.1.digest (List.mem_map_of_mem (hsub p hp)) p.1.digest h1 rfl


/-- **the form of a disclosure string and of its digest**, with base64url in the model: the string
`Disclosure::build` makes is the base64url encoding of the JSON text of `[salt, name, value]` /
`[salt, value]` — decoding it gives back exactly those bytes —, it is unpadded (no `=`), holds none
of the framing characters `~` and `.`, and its digest is the base64url of the hash of the string
itself under the named algorithm; `Disclosure::from_base64` reads the same name and value back -/
theorem C07_disclosure_string_form (c : Codec) (alg salt : String) (key : Option String) (v : J) :
    B64.dec (c.discString salt key v).toList = some (c.render (discJson salt key v)) ∧
    '=' ∉ (c.discString salt key v).toList ∧ '~' ∉ (c.discString salt key v).toList ∧
    '.' ∉ (c.discString salt key v).toList ∧
    c.hash alg (c.discString salt key v) =
      String.ofList (B64.enc (c.sha alg (utf8 (c.discString salt key v)))) ∧
    ((∀ j, c.parse (c.render j) = some j) → (∀ k, key = some k → ¬(k = "_sd" ∨ k = "...")) →
      fromBase64 (c.env alg) (c.discString salt key v) =
        .ok ⟨c.discString salt key v, c.hash alg (c.discString salt key v), key, v⟩) := by
  refine ⟨?_, ?_, ?_, ?_, rfl, ?_⟩
  · simp [Codec.discString, String.toList_ofList, B64.dec_enc]
  · simp only [Codec.discString, String.toList_ofList]; exact B64.enc_no_pad _
  · exact discString_no_tilde c salt key v
  · simp only [Codec.discString, String.toList_ofList]; exact B64.enc_no_dot _
  · intro hc hk; exact fromBase64_discString c hc alg salt key v hk


/-- **the disclosure text itself**: for the codec of `Impl/JsonText.lean` a disclosure string is the
base64url of the UTF-8 bytes of the compact JSON text `["salt","name",value]` / `["salt",value]`,
strings escaped as JSON demands — and that text determines salt, name and value: two disclosures with
the same text are the same disclosure (`JText.render_injective`) -/
theorem C07_disclosure_text (salt salt' : String)
    (key key' : Option String) (v v' : J)
    (h : JText.render (discJson salt key v) = JText.render (discJson salt' key' v')) :
    salt = salt' ∧ key = key' ∧ v = v' := by
  have := JText.render_injective _ _ h
  cases key <;> cases key' <;> simp_all [discJson]

example : String.ofList (JText.render (discJson "2GLC42sKQveCfGfryNRN9w" (some "given_name") (.str "John\n"))) =
    "[\"2GLC42sKQveCfGfryNRN9w\",\"given_name\",\"John\\n\"]" := by decide
