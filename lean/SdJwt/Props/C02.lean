import SdJwt.Lemmas.Strip
import SdJwt.Lemmas.Kept
import SdJwt.Lemmas.RestoreAll
import SdJwt.Lemmas.MarkInv
import SdJwt.Lemmas.EndToEnd
import SdJwt.Lemmas.Example
import SdJwt.Lemmas.Redact
import SdJwt.Lemmas.RedactBound
import SdJwt.Lemmas.CodecL
import SdJwt.Lemmas.ObjectsL
/-!
# C02 — selective disclosure end to end: the verifier sees the original minus the redacted

Statement: for every SD-JWT and every set of redacted paths, the presentation is accepted and the
verifier's claims equal the original claims with exactly the redacted disclosable claims (and
everything inside them) absent; redacting a path that is not disclosable changes nothing.

The chain is: holder filter (`keptEntries`, below) → verifier restoration (T-restore, see C03/C08)
→ stripping (`C02_strip`: `remove_digests` of the restored view is the projection).
-/
open Impl Spec Assoc

/-- the verifier's last step: stripping the restored view gives the projection, for every
conformant tree and every set of presented disclosures -/
theorem C02_strip (S : String → Bool) (T : MJ) (wf : T.WF) : removeAll (T.hview S) = T.project S :=
  MJ.removeAll_hview S T wf

/-- what the holder presents: an entry is kept iff its path is not redacted and its path does not
extend (by `/`) the path of a redacted *disclosure* -/
theorem C02_kept_iff (paths : List PathEntry) (redacted : List String) (pe : PathEntry) :
    pe ∈ keptEntries paths redacted ↔
      pe ∈ paths ∧ pe.1 ∉ redacted ∧
      ∀ q ∈ paths, q.1 ∈ redacted → ¬ ((q.1 ++ "/").toList.isPrefixOf pe.1.toList = true) :=
  mem_keptEntries paths redacted pe

/-- redacting strings that are not the path of a disclosable claim (non-disclosable members,
non-existent paths, near misses) changes nothing -/
theorem C02_noop (paths : List PathEntry) (redacted : List String)
    (h : ∀ pe ∈ paths, pe.1 ∉ redacted) :
    keptDisclosures paths redacted = paths.map (fun pe => pe.2.str) := by
  rw [keptDisclosures_eq, keptEntries_noop paths redacted h]

/-- the order of the kept disclosures is the holder's order (a sub-list), whatever is redacted -/
theorem C02_kept_sublist (paths : List PathEntry) (redacted : List String) :
    (keptEntries paths redacted).Sublist paths := by
  unfold keptEntries
  exact List.filter_sublist.trans List.filter_sublist

/-- the verifier's restoration of what the holder kept (T-restore): if accepted, the claims are
the original with exactly the marked nodes present whose own and enclosing disclosures were kept —
i.e. the redacted disclosable claims, and everything inside them, absent; everything else present,
unchanged and in its original order (that is what `project` is) -/
theorem C02_verifier (env : Env) (T : MJ) (kept : List String) (inv : TreeInv T)
    (hacc : ∀ s ∈ kept, ∀ d, fromBase64 env s = .ok d → DOk T d) (c : J) (ps : List PathEntry)
    (h : restoreAll env T.payload kept = .ok (c, ps)) :
    removeAll c = T.project (fun g => kept.any (fun s => env.hash s = g)) := by
  rcases restoreAll_sound env T kept inv hacc with ⟨e, he⟩ | ⟨c', ps', h', hp⟩
  · rw [he] at h; cases h
  · rw [h'] at h; cases h; exact hp

/-- **C02, issuer → (holder's selection) → verifier composed.** For every conformant claims tree,
every marking the issuer performs (`markAll` defined) and ANY selection of the issuer's
disclosures in ANY order: the restorer accepts, and the claims are the issued tree's claims with
exactly those marked nodes present whose own and enclosing disclosures were selected — the
original minus the redacted, everything else unchanged and in place. -/
theorem C02_issue_select_verify (env : Env) (mk : Nat → Option String → J → String)
    (addr : List (List String × String)) (T Tn : MJ) (ds : List SDisc) (inv : TreeInv T)
    (h : markAll mk 0 addr T = some (Tn, ds)) (kept : List String)
    (hstr : ∀ s ∈ kept, ∃ e ∈ ds, fromBase64 env s = .ok ⟨s, e.digest, e.key, e.value⟩)
    (hnd : (kept.map env.hash).Nodup) :
    ∃ c ps, restoreAll env Tn.payload kept = .ok (c, ps) ∧
      removeAll c = Tn.project (fun g => kept.any (fun s => env.hash s = g)) ∧ Tn.plain = T.plain := by
  obtain ⟨c, ps, hr, hc⟩ := issue_restore env mk addr T Tn ds inv h kept hstr hnd
  exact ⟨c, ps, hr, hc, markAll_plain mk addr 0 T Tn ds h⟩

/-- **C02, end to end in the model: `Verifier::verify` of any selection of an issued token.**
For every claims object, every marking under which issuing is defined (|M| ≥ 1), every decoy
draw, and ANY selection `kept` of the issuer's disclosure strings in ANY order (what a holder
keeps after redacting — `C02_kept_iff` says which those are): the verifier model accepts
`jwt~kept…~` (unbound token, either key-binding policy) and returns the header and the issued
tree's claims with exactly those marked nodes present whose own and enclosing disclosures were
kept: the original minus the redacted claims and everything inside them, everything else
unchanged and in place.  Runtime assumptions as in `C01_end_to_end`. -/
theorem C02_end_to_end (rt : Rt) (mk : Nat → Option String → J → String)
    (paths : List String) (addr : List (List String × String)) (ms : MMems) (Tn : MJ)
    (ds : List SDisc) (decoys : Option (List String)) (jwt : String) (header : J)
    (kept : List String) (policy : Bool)
    (wf : (MJ.obj ms none).WF) (hplain : (MJ.obj ms none).digests = [])
    (hk1 : "_sd_alg" ∉ ms.keys) (hk2 : "cnf" ∉ ms.keys)
    (hp : ParsedAll paths addr) (h : markAll mk 0 addr (.obj ms none) = some (Tn, ds)) (hne : ds ≠ [])
    (hdec : ∀ l, decoys = some l → l.Nodup ∧ (∀ g ∈ l, g ∉ Tn.digests))
    (hsig : ∀ payload dsrc,
      encode (MJ.obj ms none).payload paths mk decoys none = .ok (payload, dsrc) →
      rt.jwtDecode jwt = .ok (header, payload))
    (hstr : ∀ s ∈ kept, ∃ e ∈ ds,
      fromBase64 (rt.env "sha-256") s = .ok ⟨s, e.digest, e.key, e.value⟩)
    (hnd : (kept.map (rt.hash "sha-256")).Nodup)
    (hj : '~' ∉ jwt.toList) (hs : ∀ s ∈ kept, '~' ∉ s.toList) :
    Verifier.verify rt (assemble jwt kept) policy =
      .ok (header, Tn.project (fun g => kept.any fun s => decide (rt.hash "sha-256" s = g))) ∧
    Tn.plain = (MJ.obj ms none).plain :=
  ⟨verifier_verify_issued rt mk paths addr ms Tn ds decoys jwt header kept policy wf hplain hk1 hk2 hp h
    hne hdec hsig hstr hnd hj hs, markAll_plain mk addr 0 _ Tn ds h⟩

/-- non-vacuity of `C02_end_to_end` (instance of C01's example): keeping only the disclosure of
`/a` out of `/n/1`, `/a` — the verifier returns the claims without the array element -/
example : Verifier.verify exRt (assemble "J" ["dg1"]) false =
      .ok (.null, .obj [("a", .num 1 0), ("n", .arr [.str "x"])]) := by
  have hwf : (MJ.obj exMs none).WF := by
    simp [exMs, MJ.WF, MMems.WF, MElems.WF, MMems.keysGt, MMems.marks, J.scalar]
  refine (C02_end_to_end exRt exMk ["/n/1", "/a"] [(["n"], "1"), ([], "a")] exMs _ _ none "J" .null
    ["dg1"] false hwf (by simp [exMs, MJ.digests, MMems.digests, MElems.digests])
    (by simp [exMs, MMems.keys]) (by simp [exMs, MMems.keys])
    ⟨parsed_renderPath ["n"] "1", parsed_renderPath [] "a", trivial⟩
    (rfl : markAll exMk 0 [(["n"], "1"), ([], "a")] (.obj exMs none) = some (_, _)) (by simp)
    (by simp) ?_ ?_ (by decide) (by decide) (by decide)).1
  · intro payload dsrc he
    simp only [exRt, he]
  · intro s hs
    simp only [List.mem_cons, List.not_mem_nil, or_false] at hs
    subst hs
    exact ⟨⟨"dg1", some "a", .num 1 0⟩, by simp; exact ⟨by decide, rfl⟩, by simp [fromBase64, Rt.env, exRt]⟩

/-- **What `Holder::build` keeps, in terms of the tree.** For the holder's path list of a
conformant tree (one entry per marked node: its pointer and its disclosure) and ANY list `R` of
redacted strings: an entry is kept iff its pointer is not in `R` and its node does not lie inside
a marked node whose pointer is in `R`.  The string test `starts_with(q + "/")` is exactly the
tree's ancestry (`starts_with_iff_under`: escaped segments contain no `/`, siblings have different
segments). -/
theorem C02_kept_tree (T : MJ) (wf : T.WF) (nd : T.allMarks.Nodup) (ps : List PathEntry)
    (hps : HolderList T ps) (R : List String) (pe : PathEntry) :
    pe ∈ keptEntries ps R ↔
      pe ∈ ps ∧ pe.1 ∉ R ∧ ∀ q ∈ ps, q.1 ∈ R → pe.2.digest ∉ T.under q.2.digest :=
  kept_iff_tree T wf nd ps hps R pe

/-- **C02, the whole chain in the model: issuer → holder → `redact(R)` → `build` → verifier.**
With the hypotheses of `C01_end_to_end` (unbound token): the holder obtains its path list `ps`;
for ANY list `R` of strings to redact — disclosable pointers, pointers of non-disclosable claims,
non-existent paths, near misses, nested and enclosing ones together — the verifier accepts what
`Holder::build` keeps and returns the issued claims minus exactly the marked nodes whose pointer
is in `R` and everything inside them (`notRedacted`), all else unchanged and in place. -/
theorem C02_redact (rt : Rt) (mk : Nat → Option String → J → String)
    (paths : List String) (addr : List (List String × String)) (ms : MMems) (Tn : MJ)
    (ds : List SDisc) (decoys : Option (List String)) (jwt : String) (header : J)
    (strs : List String) (R : List String) (policy : Bool)
    (wf : (MJ.obj ms none).WF) (hplain : (MJ.obj ms none).digests = [])
    (hk1 : "_sd_alg" ∉ ms.keys) (hk2 : "cnf" ∉ ms.keys)
    (hp : ParsedAll paths addr) (h : markAll mk 0 addr (.obj ms none) = some (Tn, ds)) (hne : ds ≠ [])
    (hdec : ∀ l, decoys = some l → l.Nodup ∧ (∀ g ∈ l, g ∉ Tn.digests))
    (hsig : ∀ payload dsrc,
      encode (MJ.obj ms none).payload paths mk decoys none = .ok (payload, dsrc) →
      rt.jwtDecode jwt = .ok (header, payload))
    (hstr : ∀ s ∈ strs, ∃ e ∈ ds,
      fromBase64 (rt.env "sha-256") s = .ok ⟨s, e.digest, e.key, e.value⟩)
    (hnd : (strs.map (rt.hash "sha-256")).Nodup)
    (hall : ∀ e ∈ ds, ∃ s ∈ strs, rt.hash "sha-256" s = e.digest)
    (hj : '~' ∉ jwt.toList) (hs : ∀ s ∈ strs, '~' ∉ s.toList) :
    ∃ ps, Holder.verify rt (assemble jwt strs) = .ok (header, expectedClaims ms none, ps) ∧
      Verifier.verify rt (assemble jwt (keptDisclosures ps R)) policy =
        .ok (header, Tn.project (notRedacted Tn R)) :=
  redact_verify_issued rt mk paths addr ms Tn ds decoys jwt header strs R policy wf hplain hk1 hk2 hp h
    hne hdec hsig hstr hnd hall hj hs

/-- `Holder::presentation` and `Holder::build` are the functions `C02_redact` speaks about: given
that reading the claims segment without verification yields the payload the JWT library returns,
`Holder::presentation` of the issued token has the path list of `Holder::verify`, and
`Holder::build` after `redact(R)` emits exactly `jwt~kept…~` with `kept = keptDisclosures ps R`. -/
theorem C02_presentation_build (rt : Rt) (jwt : String) (strs : List String) (header payload c : J)
    (ps : List PathEntry) (R : List String) (a b sig : List Char) (nonce : String) (now : Int)
    (hj : '~' ∉ jwt.toList) (hs : ∀ s ∈ strs, '~' ∉ s.toList)
    (hseg : splitOn '.' jwt.toList = [a, b, sig])
    (hclaims : rt.decodeClaims (strOf b) = some payload)
    (halg : (jidx payload "_sd_alg").asStr = some "sha-256")
    (hcnf : jget? payload "cnf" = none)
    (hr : restoreAll (rt.env "sha-256") payload strs = .ok (c, ps)) :
    Holder.presentation rt (assemble jwt strs) = .ok { sdJwt := jwt, paths := ps } ∧
    Holder.build rt { sdJwt := jwt, paths := ps } R none nonce now =
      .ok (assemble jwt (keptDisclosures ps R), none) :=
  holder_presentation_build rt jwt strs header payload c ps R a b sig nonce now hj hs hseg hclaims halg hcnf hr

/-- **C02 with key binding: issuer → holder → `redact(R)` → `build` with key binding → verifier.**
The token is bound to the holder key `X` (an RSA JWK). With the hypotheses of `C01_end_to_end`:
the holder obtains its path list `ps`; for ANY list `R` of strings to redact, if the presentation
`Holder::build` keeps is followed by a key-binding JWT which the JWT library accepts under `X`,
typed `kb+jwt`, with `sd_hash` the hash of the presentation up to its last `~` — what
`Holder::build` puts there (`C02_build_bound`) —, the verifier (with a key-binding policy) accepts
and returns the issued claims minus exactly the marked nodes whose pointer is in `R` and everything
inside them, plus `cnf`. -/
theorem C02_redact_bound (rt : Rt) (mk : Nat → Option String → J → String)
    (paths : List String) (addr : List (List String × String)) (ms : MMems) (Tn : MJ)
    (ds : List SDisc) (decoys : Option (List String)) (X : MJ) (jwt : String) (header : J)
    (strs : List String) (R : List String)
    (wf : (MJ.obj ms none).WF) (hplain : (MJ.obj ms none).digests = [])
    (hk1 : "_sd_alg" ∉ ms.keys) (hk2 : "cnf" ∉ ms.keys)
    (hp : ParsedAll paths addr) (h : markAll mk 0 addr (.obj ms none) = some (Tn, ds)) (hne : ds ≠ [])
    (hdec : ∀ l, decoys = some l → l.Nodup ∧ (∀ g ∈ l, g ∉ Tn.digests))
    (hX : X.WF ∧ X.digests = [])
    (hsig : ∀ payload dsrc,
      encode (MJ.obj ms none).payload paths mk decoys (some X.payload) = .ok (payload, dsrc) →
      rt.jwtDecode jwt = .ok (header, payload))
    (hstr : ∀ s ∈ strs, ∃ e ∈ ds,
      fromBase64 (rt.env "sha-256") s = .ok ⟨s, e.digest, e.key, e.value⟩)
    (hnd : (strs.map (rt.hash "sha-256")).Nodup)
    (hall : ∀ e ∈ ds, ∃ s ∈ strs, rt.hash "sha-256" s = e.digest)
    (hj : '~' ∉ jwt.toList) (hs : ∀ s ∈ strs, '~' ∉ s.toList)
    (hkty : (jidx X.payload "kty").asStr = some "RSA")
    (he : (jidx X.payload "e").asStr.isSome = true) (hn : (jidx X.payload "n").asStr.isSome = true) :
    ∃ ps, Holder.verify rt (assemble jwt strs) = .ok (header, expectedClaims ms (some X), ps) ∧
      ∀ (kb : String) (kh kc : J), '~' ∉ kb.toList → kb.toList ≠ [] →
        rt.kbDecode kb X.payload = .ok (kh, kc) →
        (jidx kh "typ").asStr = some "kb+jwt" →
        (jidx kc "sd_hash").asStr = some (rt.hash "sha-256" (assemble jwt (keptDisclosures ps R))) →
        ∃ msn sdn, Tn = .obj msn sdn ∧
          Verifier.verify rt (assemble jwt (keptDisclosures ps R) ++ kb) true =
            .ok (header, .obj (ains "cnf" X.plain (msn.project (notRedacted Tn R)))) :=
  redact_verify_issued_bound rt mk paths addr ms Tn ds decoys X jwt header strs R wf hplain hk1 hk2 hp h hne
    hdec hX hsig hstr hnd hall hj hs hkty he hn

/-- `Holder::build` on a bound token with key-binding parameters is the function `C02_redact_bound`
speaks about: it emits exactly `jwt~kept…~` with `kept = keptDisclosures ps R`, and the content of
its key-binding JWT commits to exactly that string under the declared digest algorithm -/
theorem C02_build_bound (rt : Rt) (jwt : String) (ps : List PathEntry) (R : List String)
    (p : KbParams) (nonce : String) (now : Int) (a b sig : List Char) (payload : J)
    (hseg : splitOn '.' jwt.toList = [a, b, sig])
    (hclaims : rt.decodeClaims (strOf b) = some payload)
    (halg : (jidx payload "_sd_alg").asStr = some "sha-256")
    (hcnf : (jget? payload "cnf").isSome = true) :
    Holder.build rt { sdJwt := jwt, paths := ps } R (some p) nonce now =
      .ok (assemble jwt (keptDisclosures ps R),
           some { typ := "kb+jwt", alg := p.alg, aud := p.aud, nonce := nonce, iat := now,
                  sdHash := rt.hash "sha-256" (assemble jwt (keptDisclosures ps R)) }) :=
  holder_build_bound rt jwt ps R p nonce now a b sig payload hseg hclaims halg hcnf



/-- **C02 down to the bytes of the disclosures.** `C02_redact` with the disclosure strings written
out as the crate makes them (base64url of the JSON text of `[salt, name, value]`, digest = base64url
of SHA-256 over the string; `Impl/Codec.lean`): issuer → holder → `redact(R)` → `build` → verifier
returns the issued claims minus exactly the redacted disclosable claims and everything inside them.
Of the byte level only the JSON text round trip is assumed (`hc`); that the strings decode to the
disclosures they were made from, hash to the embedded digests and hold no `~` is proved
(`wire_hyps`). -/
theorem C02_redact_bytes (c : Codec) (salt : Nat → String)
    (decodeClaims : String → Option J) (jwtDecode : String → Outcome (J × J))
    (kbDecode : String → J → Outcome (J × J))
    (paths : List String) (addr : List (List String × String)) (ms : MMems) (Tn : MJ)
    (ds : List SDisc) (decoys : Option (List String)) (jwt : String) (header : J)
    (strs : List String) (R : List String) (policy : Bool)
    (wf : (MJ.obj ms none).WF) (hplain : (MJ.obj ms none).digests = [])
    (hk1 : "_sd_alg" ∉ ms.keys) (hk2 : "cnf" ∉ ms.keys)
    (hp : ParsedAll paths addr)
    (h : markAll (c.digestFn "sha-256" salt) 0 addr (.obj ms none) = some (Tn, ds)) (hne : ds ≠ [])
    (hdec : ∀ l, decoys = some l → l.Nodup ∧ (∀ g ∈ l, g ∉ Tn.digests))
    (hsig : ∀ payload dsrc,
      encode (MJ.obj ms none).payload paths (c.digestFn "sha-256" salt) decoys none = .ok (payload, dsrc) →
      jwtDecode jwt = .ok (header, payload))
    (hc : ∀ j, c.parse (c.render j) = some j)
    (hperm : strs.Perm (c.wireStrs salt 0 ds))
    (hnd : (strs.map (c.hash "sha-256")).Nodup)
    (hj : '~' ∉ jwt.toList) :
    ∃ ps, Holder.verify (c.rt decodeClaims jwtDecode kbDecode) (assemble jwt strs) =
        .ok (header, expectedClaims ms none, ps) ∧
      Verifier.verify (c.rt decodeClaims jwtDecode kbDecode) (assemble jwt (keptDisclosures ps R)) policy =
        .ok (header, Tn.project (notRedacted Tn R)) := by
  obtain ⟨a1, a2, a3⟩ := wire_hyps c salt decodeClaims jwtDecode kbDecode addr _ Tn ds strs h hc hperm
  exact redact_verify_issued (c.rt decodeClaims jwtDecode kbDecode) (c.digestFn "sha-256" salt) paths addr ms
    Tn ds decoys jwt header strs R policy wf hplain hk1 hk2 hp h hne hdec hsig a1 hnd a2 hj a3

/-- **`Holder::presentation` and `Holder::build` on the bytes of a compact JWS.** `C02_presentation_build`
with the issuer-signed JWT written out as the JWS compact serialisation the JWT library produces
(`base64url(header).base64url(payload).base64url(signature)`, `Codec.compact`) and
`decode_claims_no_verification` as the crate does it (base64url, then JSON text: `Codec.decodeClaims`):
that the JWT holds no `~`, that `get_jwt_part` finds its three segments and that the unverified
reading of the middle one yields the signed payload are proved (`compact_no_tilde`,
`getJwtPart_compact`, `decodeClaims_compact`), not assumed. -/
theorem C02_presentation_build_bytes (c : Codec) (jwtDecode : String → Outcome (J × J))
    (kbDecode : String → J → Outcome (J × J)) (strs : List String) (header payload cl : J)
    (sig : List UInt8) (ps : List PathEntry) (R : List String) (nonce : String) (now : Int)
    (hc : ∀ j, c.parse (c.render j) = some j)
    (hs : ∀ s ∈ strs, '~' ∉ s.toList)
    (halg : (jidx payload "_sd_alg").asStr = some "sha-256")
    (hcnf : jget? payload "cnf" = none)
    (hr : restoreAll ((c.rt' jwtDecode kbDecode).env "sha-256") payload strs = .ok (cl, ps)) :
    Holder.presentation (c.rt' jwtDecode kbDecode) (assemble (c.compact header payload sig) strs) =
      .ok { sdJwt := c.compact header payload sig, paths := ps } ∧
    Holder.build (c.rt' jwtDecode kbDecode) { sdJwt := c.compact header payload sig, paths := ps } R none nonce now =
      .ok (assemble (c.compact header payload sig) (keptDisclosures ps R), none) :=
  C02_presentation_build (c.rt' jwtDecode kbDecode) (c.compact header payload sig) strs header payload cl ps R
    _ _ _ nonce now (compact_no_tilde c header payload sig) hs (getJwtPart_compact c header payload sig).1
    (decodeClaims_compact c hc payload) halg hcnf hr

/-- **"every set of paths the holder redacts"**: what the holder keeps, hence the presentation it builds and
what the verifier returns for it, depends on the redacted paths as a SET — calling `redact` in another order,
or twice with the same path, changes nothing -/
theorem C02_redaction_is_a_set (rt : Rt) (jwt : String) (ps : List PathEntry) (R R' : List String) (policy : Bool)
    (h : ∀ p, p ∈ R ↔ p ∈ R') :
    keptDisclosures ps R = keptDisclosures ps R' ∧
    Verifier.verify rt (assemble jwt (keptDisclosures ps R)) policy =
      Verifier.verify rt (assemble jwt (keptDisclosures ps R')) policy := by
  have e := keptDisclosures_set ps R R' h
  exact ⟨e, by rw [e]⟩
