import SdJwt.Lemmas.Policy
/-!
# C11 — validation policy: builder steps independent, every configured check enforced

Statement: each builder step changes only the setting it names, so the policy does not depend on
the order of steps; every configured setting is enforced when a token is verified.

`C11_frame`: frame condition for every builder and every field. `C11_order`: each field of the
result of ANY sequence of steps is determined by the sub-sequence of steps naming that field.
`C11_enforce_claims` / `C11_enforce`: the decision of `decode` (our `build_validation` composed
with the re-model of the JWT library's checks) is exactly the conjunction of the configured
constraints, outside the overflow region of D21 (known finding, see C10).
-/
open Impl Assoc

/-- frame condition: a step leaves every field it does not name unchanged
(`validateNbf` and `validateAud` are named by no step) -/
theorem C11_frame (v : Validation) (s : Step) :
    (s.field ≠ Field.required → (v.step s).required = v.required) ∧
    (s.field ≠ Field.leeway → (v.step s).leeway = v.leeway) ∧
    (s.field ≠ Field.validateExp → (v.step s).validateExp = v.validateExp) ∧
    (v.step s).validateNbf = v.validateNbf ∧
    (v.step s).validateAud = v.validateAud ∧
    (s.field ≠ Field.aud → (v.step s).aud = v.aud) ∧
    (s.field ≠ Field.iss → (v.step s).iss = v.iss) ∧
    (s.field ≠ Field.sub → (v.step s).sub = v.sub) ∧
    (s.field ≠ Field.alg → (v.step s).alg = v.alg) := by
  cases s <;> simp [Validation.step, Step.field]

/-- in particular `without_expiry` no longer resets the algorithm or anything else (D12) -/
theorem C11_without_expiry_keeps (v : Validation) :
    v.step .withoutExpiry = { v with validateExp := false } := rfl

/-- Order independence, at full strength: for ANY sequence of builder steps and any field, the
field's final value is what the sub-sequence of steps naming that field produces. Steps that name
different settings therefore commute, in any interleaving. -/
theorem C11_order (f : Field) (ss : List Step) (v : Validation) :
    proj f (v.steps ss) = proj f (v.steps (ss.filter (fun s => s.field = f))) := by
  induction ss generalizing v with
  | nil => rfl
  | cons s r ih =>
    simp only [Validation.steps, List.foldl_cons, List.filter_cons] at ih ⊢
    by_cases h : s.field = f
    · simp only [h, decide_true, if_true, List.foldl_cons]
      exact ih (v.step s)
    · simp only [h, decide_false]
      rw [ih (v.step s)]
      exact proj_foldl_congr f _ _ _ (proj_step_other f v s h)

/-- two steps naming different settings commute -/
theorem C11_commute (v : Validation) (s t : Step) (h : s.field ≠ t.field) :
    (v.step s).step t = (v.step t).step s := by
  cases s <;> cases t <;> simp_all [Validation.step, Step.field]

/-- non-vacuity of `C11_order`: a six-step sequence, its `alg` projection comes from the two
`with_algorithm` steps only -/
example : proj .alg (Validation.default.steps
    [.withAlgorithm .HS256, .withoutExpiry, .withAudience "a", .withAlgorithm .ES256, .withLeeway 5, .withoutExpiry])
    = proj .alg (Validation.default.steps [.withAlgorithm .HS256, .withAlgorithm .ES256]) := by
  decide

/-! ## enforcement -/

/-- Every configured setting is enforced: the claims checks accept exactly when all configured
constraints hold (`Holds`: exp and nbf with leeway, issuer, subject — D13 —, audience, required
claims), outside the overflow region of D21. -/
theorem C11_enforce_claims (v : Validation) (claims : List (String × J)) (now : Nat)
    (hno : NoOverflow v claims) :
    validateClaims (buildValidation v) claims now = .ok () ↔ Holds v claims now :=
  validateClaims_ok_iff v claims now hno

/-- the whole of `decode`: accepted iff the header names the configured algorithm, the key family
admits it and the signature primitive accepts, the payload is an object, and all configured
constraints hold. -/
theorem C11_enforce (v : Validation) (fam : KeyFam) (hdrAlg : JwtAlg) (sigOk : Bool)
    (claims : List (String × J)) (now : Nat) (hno : NoOverflow v claims) :
    decodeDecision v fam hdrAlg sigOk (.obj claims) now = .ok () ↔
      hdrAlg = toJwtAlgV v.alg ∧ famAllows fam hdrAlg = true ∧ sigOk = true ∧ Holds v claims now :=
  decodeDecision_ok_iff v fam hdrAlg sigOk claims now hno

/-- non-vacuity: a policy with audience, issuer, subject, a required claim and leeway, and claims
that satisfy it at `now = 1000` -/
example : Holds ((Validation.new .HS256).steps
      [.withAudience "a", .withIssuer "i", .withSubject "s", .withRequiredClaim "x", .withLeeway 60])
    [("aud", .arr [.str "z", .str "a"]), ("exp", .num 950 0), ("iss", .str "i"), ("sub", .str "s"), ("x", .null)]
    1000 := by
  refine ⟨?_, ?_, ?_, ?_, ?_, ?_⟩ <;> simp [Validation.steps, Validation.step, Validation.new, aget, asU64, u64Max, insertSet, strList, J.asStr]

/-- …and the subject is enforced: the same claims with another subject are refused -/
example : validateClaims (buildValidation ((Validation.new .HS256).steps [.withoutExpiry, .withSubject "s"]))
    [("sub", .str "t")] 1000 = .err .jwt := by
  decide
