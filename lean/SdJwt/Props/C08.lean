import SdJwt.Lemmas.Strip
import SdJwt.Lemmas.Total
import SdJwt.Lemmas.RestoreAll
import SdJwt.Lemmas.Complete
import SdJwt.Lemmas.SpecAgree
/-!
# C08 — conformant SD-JWTs from other issuers are processed as the specification says

Statement: for every specification-conformant SD-JWT of an independent issuer — any supported
digest algorithm, any order of disclosures, arbitrary JSON formatting inside disclosures, salts of
any length, decoys at any level, recursive disclosures — holder and verifier reconstruct the same
claims as the specification's algorithm.

A conformant SD-JWT *is* `payload T` plus `discs T` for a marked tree `T` with `T.WF` (any `_sd`
order, decoys anywhere, recursion): nothing in `MJ` is specific to this crate's issuer. `_sd_alg`,
salt length and JSON formatting do not occur in the structural statements at all: the model hashes
"the string as presented" through the parameter `Env.hash` and never re-serialises a disclosure,
which the correspondence run confirms on the real code for sha-256/384/512.
-/
open Impl Spec Assoc

/-- the digest of a presented disclosure is the hash of the string as presented — whatever JSON
whitespace, member order or salt it contains — under the environment's (i.e. the token's declared)
algorithm -/
theorem C08_digest_of_presented_string (env : Env) (s : String) (d : Disc)
    (h : fromBase64 env s = .ok d) : d.digest = env.hash s ∧ d.str = s := by
  unfold fromBase64 at h
  split at h
  · cases h
  · cases h; exact ⟨rfl, rfl⟩
  · split at h
    · split at h
      · cases h
      · cases h; exact ⟨rfl, rfl⟩
    · cases h
  · cases h

/-- stripping the fully restored view of ANY conformant tree gives its original claims -/
theorem C08_strip_all (T : MJ) (wf : T.WF) : removeAll (T.hview (fun _ => true)) = T.plain :=
  MJ.removeAll_hview _ T wf

/-- …and the projection for every subset of disclosures (decoys never surface: they are digests
without a disclosure) -/
theorem C08_strip (S : String → Bool) (T : MJ) (wf : T.WF) : removeAll (T.hview S) = T.project S :=
  MJ.removeAll_hview S T wf

/-- decoy placeholders and decoy digests leave no trace in the result: a tree consisting of
decoys only strips to the empty containers -/
example : removeAll ((MJ.obj (.clear "a" (.arr (.decoy "d1" (.decoy "d2" .nil))) .nil) (some ["d3", "d4"])).hview (fun _ => true))
    = .obj [("a", .arr [])] := by
  rfl

/-- **Interoperability (T-restore).** `T` ranges over ALL conformant structure — any `_sd` order,
decoys at any level, recursive disclosures, any depth. Whatever order the disclosures come in, if
the library accepts them it reconstructs exactly the specification's result: the claims with the
marked nodes present whose own and enclosing disclosures were presented. -/
theorem C08_interop (env : Env) (T : MJ) (strs : List String) (inv : TreeInv T)
    (hacc : ∀ s ∈ strs, ∀ d, fromBase64 env s = .ok d → DOk T d) (c : J) (ps : List PathEntry)
    (h : restoreAll env T.payload strs = .ok (c, ps)) :
    removeAll c = T.project (fun g => strs.any (fun s => env.hash s = g)) := by
  rcases restoreAll_sound env T strs inv hacc with ⟨e, he⟩ | ⟨c', ps', h', hp⟩
  · rw [he] at h; cases h
  · rw [h'] at h; cases h; exact hp

/-- with all disclosures presented (in any order) the result is the original claims -/
theorem C08_interop_all (env : Env) (T : MJ) (strs : List String) (inv : TreeInv T)
    (hacc : ∀ s ∈ strs, ∀ d, fromBase64 env s = .ok d → DOk T d) (c : J) (ps : List PathEntry)
    (h : restoreAll env T.payload strs = .ok (c, ps))
    (hall : ∀ g ∈ T.allMarks, ∃ s ∈ strs, env.hash s = g) :
    removeAll c = T.plain := by
  rw [C08_interop env T strs inv hacc c ps h]
  apply MJ.project_congr
  intro g hg
  obtain ⟨s, hs, e⟩ := hall g hg
  show (strs.any fun s => decide (env.hash s = g)) = true
  simp only [List.any_eq_true, decide_eq_true_eq]
  exact ⟨s, hs, e⟩

/-- the rounds never fail on acceptable disclosures of a conformant tree, in any order, nested
ones before or after their enclosing ones (D4) -/
theorem C08_rounds_total (T : MJ) (L : List Disc) (inv : TreeInv T) (hok : ∀ d ∈ L, DOk T d)
    (hdist : Distinct L) :
    ∃ c ps, rounds L.length T.payload L [] = .ok (c, ps) ∧
      removeAll c = T.project (fun h => L.any (fun d => d.digest = h)) :=
  rounds_project T L inv hok hdist

/-- …and they ARE accepted: every conformant SD-JWT of any issuer, its disclosures presented in
any order, any subset of them, is accepted and processed as the specification says -/
theorem C08_accepted (env : Env) (T : MJ) (strs : List String) (inv : TreeInv T)
    (hdec : ∀ s ∈ strs, ∃ d, fromBase64 env s = .ok d)
    (hnd : (strs.map env.hash).Nodup)
    (hacc : ∀ s ∈ strs, ∀ d, fromBase64 env s = .ok d →
      DOk T d ∧ ∃ x, (d.digest, x) ∈ T.hiddenE ∧ d.value = x.payload) :
    ∃ c ps, restoreAll env T.payload strs = .ok (c, ps) ∧
      removeAll c = T.project (fun h => strs.any (fun s => env.hash s = h)) :=
  restoreAll_complete env T strs inv hdec hnd hacc

/-- **C08: conformant SD-JWTs are processed as the specification says.**  `Ref.verify` is the
draft's verification algorithm written from the text (no shared definition).  For every
conformant tree — any issuer's: objects and arrays at any depth, decoys anywhere, `_sd` in any
order, recursive disclosures — and ANY selection of its disclosures presented as strings in ANY
order: the library's restorer accepts, the specification's algorithm accepts, and after the
library's `remove_digests` they return the same claims. -/
theorem C08_same_as_specification (env : Env) (T : MJ) (inv : TreeInv T)
    (sub : List (String × SDisc × J))
    (hsub : ∀ p ∈ sub, p.2.1 ∈ T.discs ∧ p.2.1.digest ∉ T.deepStale ∧
      env.decodeDisc p.1 = some (Ref.discJ p.2.2 p.2.1) ∧ env.hash p.1 = p.2.1.digest)
    (hnd : (sub.map (·.2.1.digest)).Nodup) :
    ∃ c ps, restoreAll env T.payload (sub.map (·.1)) = .ok (c, ps) ∧
      Ref.verify false T.payload (Ref.tblOf (sub.map (fun p => (p.2.1, p.2.2)))) = .ok (removeDigests c) :=
  restore_agrees_with_spec env T inv sub hsub hnd
