import SdJwt.Lemmas.Strip
import SdJwt.Lemmas.Total
/-!
# C08 — conformant SD-JWTs from other issuers are processed as the specification says

Statement: for every specification-conformant SD-JWT of an independent issuer — any supported
digest algorithm, any order of disclosures, arbitrary JSON formatting inside disclosures, salts of
any length, decoys at any level, recursive disclosures — holder and verifier reconstruct the same
claims as the specification's algorithm.

A conformant SD-JWT *is* `payload T` plus `discs T` for a marked tree `T` with `T.WF` (any `_sd`
order, decoys anywhere, recursion): nothing in `MJ` is specific to this crate's issuer. `_sd_alg`,
salt length and JSON formatting do not occur in the structural statements at all: the model hashes
"the string as presented" through the parameter `Env.hash` and never re-serialises a disclosure,
which the correspondence run confirms on the real code for sha-256/384/512.
-/
open Impl Spec Assoc

/-- the digest of a presented disclosure is the hash of the string as presented — whatever JSON
whitespace, member order or salt it contains — under the environment's (i.e. the token's declared)
algorithm -/
theorem C08_digest_of_presented_string (env : Env) (s : String) (d : Disc)
    (h : fromBase64 env s = .ok d) : d.digest = env.hash s ∧ d.str = s := by
  unfold fromBase64 at h
  split at h
  · cases h
  · cases h; exact ⟨rfl, rfl⟩
  · split at h
    · split at h
      · cases h
      · cases h; exact ⟨rfl, rfl⟩
    · cases h
  · cases h

/-- stripping the fully restored view of ANY conformant tree gives its original claims -/
theorem C08_strip_all (T : MJ) (wf : T.WF) : removeAll (T.hview (fun _ => true)) = T.plain :=
  MJ.removeAll_hview _ T wf

/-- …and the projection for every subset of disclosures (decoys never surface: they are digests
without a disclosure) -/
theorem C08_strip (S : String → Bool) (T : MJ) (wf : T.WF) : removeAll (T.hview S) = T.project S :=
  MJ.removeAll_hview S T wf

/-- decoy placeholders and decoy digests leave no trace in the result: a tree consisting of
decoys only strips to the empty containers -/
example : removeAll ((MJ.obj (.clear "a" (.arr (.decoy "d1" (.decoy "d2" .nil))) .nil) (some ["d3", "d4"])).hview (fun _ => true))
    = .obj [("a", .arr [])] := by
  rfl
