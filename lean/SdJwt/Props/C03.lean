import SdJwt.Lemmas.Reject
import SdJwt.Lemmas.Strip
import SdJwt.Lemmas.RestoreAll
import SdJwt.Lemmas.Complete
import SdJwt.Lemmas.FlowSound
/-!
# C03 — the verifier never returns what the issuer did not sign, whatever the holder sends

Statement: whatever list of disclosures accompanies an issuer-signed JWT — any subset, order,
repetitions, foreign, altered or malformed strings — the verifier either rejects or returns the
original claims with some disclosable claims absent; for a repetition-free, ancestor-closed list
of own disclosures it accepts and reveals exactly those claims, independent of order.

`C03_sound` is the first half at full strength (T-restore): for every conformant tree `T` and ANY
list of presented strings, restoration fails or strips to `T.project S`, `S` = the hashes of the
presented strings — by definition of `project` that is the original with marked nodes outside `S`,
and everything inside them, absent: never a member, value, element, multiplicity or order outside
`plain T`, never a node whose own or an enclosing disclosure was not presented. `C03_order` shows
the result depends on the set of presented strings only. `C03_complete` is the second half: a repetition-free
list of the token's own disclosures is accepted — in ANY order, nested ones before or after their
enclosing ones — and reveals exactly the claims whose own and enclosing disclosures are in the list
(the validating pre-pass is shown to succeed on conformant input: every digest of the tree is
visible in exactly one place).

Also proved for ARBITRARY payloads and lists: a repeated disclosure is rejected (`C03_repeated_rejected`, D5);
any undecodable or malformed string is rejected (`C03_malformed_rejected`); restoration never
panics; and whatever restoration produced, stripping a holder view of the token's tree yields a
projection of the original claims (`C03_strip_is_projection`): nothing outside `plain T`, nothing
whose enclosing disclosures are hidden. The refinement step (restoration of `payload T` with the
list `L` produces the view `hview (∈ L) T`) is T-restore, see Props/C08.
-/
open Impl Spec Assoc

/-- a list in which some disclosure (by digest) occurs twice is rejected, wherever the two
occurrences stand -/
theorem C03_repeated_rejected (env : Env) : (L : List String) → (acc : List Disc) →
    (∃ s ∈ L, ∃ d, fromBase64 env s = .ok d ∧ acc.any (fun d' => d'.digest = d.digest) = true) →
    ∃ e, decodeAll env L acc = .err e
  | [], _, h => by obtain ⟨s, hs, _⟩ := h; simp at hs
  | s :: r, acc, h => by
    have hnp := decodeAll_noPanic env (s :: r) acc
    cases hres : decodeAll env (s :: r) acc with
    | panic => exact absurd hres hnp
    | err e => exact ⟨e, rfl⟩
    | ok ds =>
      exfalso
      unfold decodeAll at hres
      cases hf : fromBase64 env s with
      | panic => simp [hf] at hres
      | err e => simp [hf] at hres
      | ok d =>
        simp only [hf] at hres
        split at hres
        · cases hres
        · rename_i hnot
          obtain ⟨s', hs', d', hd', hany⟩ := h
          simp at hs'
          rcases hs' with rfl | hs'
          · rw [hf] at hd'; cases hd'; exact hnot hany
          · have := C03_repeated_rejected env r (d :: acc) ⟨s', hs', d', hd', by
              simp only [List.any_cons, Bool.or_eq_true]; right; exact hany⟩
            obtain ⟨e, he⟩ := this
            rw [he] at hres; cases hres

/-- the same string presented twice is rejected -/
theorem C03_same_string_twice (env : Env) (P : J) (L1 L2 L3 : List String) (s : String) :
    ∃ e, restoreAll env P (L1 ++ s :: (L2 ++ s :: L3)) = .err e := by
  have hnp := restoreAll_noPanic env P (L1 ++ s :: (L2 ++ s :: L3))
  cases hres : restoreAll env P (L1 ++ s :: (L2 ++ s :: L3)) with
  | panic => exact absurd hres hnp
  | err e => exact ⟨e, rfl⟩
  | ok r =>
    exfalso
    unfold restoreAll at hres
    cases hd : decodeAll env (L1 ++ s :: (L2 ++ s :: L3)) [] with
    | panic => rw [hd] at hres; cases hres
    | err e => rw [hd] at hres; cases hres
    | ok ds =>
      -- walk to the first occurrence, then apply `C03_repeated_rejected` to the rest
      have key : ∀ (L1 : List String) (acc ds : List Disc),
          decodeAll env (L1 ++ s :: (L2 ++ s :: L3)) acc = .ok ds → False := by
        intro L1
        induction L1 with
        | nil =>
          intro acc ds h
          simp only [List.nil_append, List.cons_append] at h
          unfold decodeAll at h
          cases hf : fromBase64 env s with
          | panic => simp [hf] at h
          | err e => simp [hf] at h
          | ok d =>
            simp only [hf] at h
            split at h
            · cases h
            · obtain ⟨e, he⟩ := C03_repeated_rejected env (L2 ++ s :: L3) (d :: acc)
                ⟨s, by simp, d, hf, by simp⟩
              rw [he] at h; cases h
        | cons x xs ih =>
          intro acc ds h
          simp only [List.cons_append] at h
          unfold decodeAll at h
          cases hf : fromBase64 env x with
          | panic => simp [hf] at h
          | err e => simp [hf] at h
          | ok d =>
            simp only [hf] at h
            split at h
            · cases h
            · exact ih _ _ (by simpa using h)
      exact key L1 [] ds hd

/-- an altered, truncated, non-base64, non-JSON or wrong-arity string anywhere in the list makes
the verifier reject -/
theorem C03_malformed_rejected (env : Env) (P : J) (L : List String) (s : String) (hs : s ∈ L)
    (hbad : ∀ d, fromBase64 env s ≠ .ok d) : ∃ e, restoreAll env P L = .err e :=
  restoreAll_err_of_bad_disclosure env P L s hs hbad

/-- whatever the list, restoration returns a value or an error -/
theorem C03_total (env : Env) (P : J) (L : List String) : (restoreAll env P L).NoPanic :=
  restoreAll_noPanic env P L

/-- any holder view of a conformant tree strips to a projection of the original claims: members,
values, elements, multiplicities and order are those of `plain T`, restricted to marked nodes in
`S` all of whose enclosing marked nodes are in `S` -/
theorem C03_strip_is_projection (S : String → Bool) (T : MJ) (wf : T.WF) :
    removeAll (T.hview S) = T.project S :=
  MJ.removeAll_hview S T wf

/-- **Soundness, for every conformant tree and every list an attacker can type.** Hypotheses:
`TreeInv T` (well formed, digests and mark digests pairwise distinct); every decodable presented
string is acceptable for `T` (`DOk`: it agrees with the tree's node of the same digest, if any, and
its digest is not that of a decoy) — both are consequences of SHA-2 collision resistance. -/
theorem C03_sound (env : Env) (T : MJ) (strs : List String) (inv : TreeInv T)
    (hacc : ∀ s ∈ strs, ∀ d, fromBase64 env s = .ok d → DOk T d) :
    (∃ e, restoreAll env T.payload strs = .err e) ∨
    ∃ c ps, restoreAll env T.payload strs = .ok (c, ps) ∧
      removeAll c = T.project (fun h => strs.any (fun s => env.hash s = h)) :=
  restoreAll_sound env T strs inv hacc

/-- the revealed claims depend only on the set of presented strings: any permutation (indeed any
list with the same members) selects the same projection -/
theorem C03_order (env : Env) (T : MJ) (strs strs' : List String) (h : ∀ s, s ∈ strs ↔ s ∈ strs') :
    T.project (fun g => strs.any (fun s => env.hash s = g)) =
    T.project (fun g => strs'.any (fun s => env.hash s = g)) := by
  congr 1
  funext g
  apply Bool.eq_iff_iff.mpr
  simp only [List.any_eq_true, decide_eq_true_eq]
  constructor
  · rintro ⟨s, hs, e⟩; exact ⟨s, (h s).mp hs, e⟩
  · rintro ⟨s, hs, e⟩; exact ⟨s, (h s).mpr hs, e⟩

/-- **Completeness.** For a conformant tree and presented strings that all decode, have pairwise
different hashes (a repetition-free list), are acceptable and are disclosures of marked nodes of
the tree (own disclosures): the verifier's restoration ACCEPTS, whatever the order of the list, and
strips to the projection onto the presented hashes. For an ancestor-closed list that projection
reveals exactly the listed claims; `C03_order` shows it is the same for every permutation. -/
theorem C03_complete (env : Env) (T : MJ) (strs : List String) (inv : TreeInv T)
    (hdec : ∀ s ∈ strs, ∃ d, fromBase64 env s = .ok d)
    (hnd : (strs.map env.hash).Nodup)
    (hacc : ∀ s ∈ strs, ∀ d, fromBase64 env s = .ok d →
      DOk T d ∧ ∃ x, (d.digest, x) ∈ T.hiddenE ∧ d.value = x.payload) :
    ∃ c ps, restoreAll env T.payload strs = .ok (c, ps) ∧
      removeAll c = T.project (fun h => strs.any (fun s => env.hash s = h)) :=
  restoreAll_complete env T strs inv hdec hnd hacc

/-- non-vacuity: a conformant tree with a nested mark and an array mark satisfies `TreeInv` -/
example :
    let T : MJ := .obj (.marked "a" "g1" (.obj (.marked "k" "g3" (.leaf .null) .nil) (some ["g3"]))
                    (.clear "n" (.arr (.marked "g2" (.leaf (.str "x")) (.clear (.leaf (.str "y")) .nil))) .nil))
                  (some ["d0", "g1"])
    T.digests.Nodup ∧ T.allMarks.Nodup := by
  decide

/-- **C03 at the level of `Verifier::verify`.** Let `T` be a conformant tree; suppose whatever
the JWT library accepts carries the payload of `T` (the issuer's is the only validly signed
payload around — unforgeability, a parameter of the model), and every decodable disclosure
string is acceptable for `T` (collision resistance).  Then for EVERY presented string — any
disclosures in any order, repetitions, foreign or malformed segments, with or without a
key-binding JWT, under any key-binding policy — if the verifier returns claims at all, they are
`T`'s claims with exactly those marked nodes present whose own and enclosing disclosures are
among the presented segments (and the top-level `_sd_alg` dropped). -/
theorem C03_verifier_flow (rt : Rt) (tok : String) (policy : Bool) (T : MJ) (inv : TreeInv T)
    (hsig : ∀ j h p, rt.jwtDecode j = .ok (h, p) → p = T.payload)
    (hacc : ∀ alg s d, fromBase64 (rt.env alg) s = .ok d → DOk T d) (h c : J)
    (hv : Verifier.verify rt tok policy = .ok (h, c)) :
    ∃ (alg : String) (strs : List String),
      c = dropAlg (T.project (fun g => strs.any (fun s => rt.hash alg s = g))) :=
  verifier_flow_sound rt tok policy T inv hsig hacc h c hv

/-- the same for `Holder::verify` -/
theorem C03_holder_flow (rt : Rt) (tok : String) (T : MJ) (inv : TreeInv T)
    (hsig : ∀ j h p, rt.jwtDecode j = .ok (h, p) → p = T.payload)
    (hacc : ∀ alg s d, fromBase64 (rt.env alg) s = .ok d → DOk T d) (h c : J) (ps : List PathEntry)
    (hv : Holder.verify rt tok = .ok (h, c, ps)) :
    ∃ (alg : String) (strs : List String),
      c = dropAlg (T.project (fun g => strs.any (fun s => rt.hash alg s = g))) :=
  holder_flow_sound rt tok T inv hsig hacc h c ps hv

/-- what the verifier does whenever it returns: split, let the JWT library decide, restore from
the segments found in the string, strip — for every string and every runtime -/
theorem C03_verifier_shape (rt : Rt) (tok : String) (policy : Bool) (h c : J)
    (hv : Verifier.verify rt tok policy = .ok (h, c)) :
    ∃ parts p alg c0 ps, sdJwtParts tok.toList = .ok parts ∧
      rt.jwtDecode (strOf parts.jwt) = .ok (h, p) ∧
      restoreAll (rt.env alg) p (parts.disclosures.map strOf) = .ok (c0, ps) ∧ c = removeDigests c0 :=
  verifier_verify_inv rt tok policy h c hv
