import SdJwt.Lemmas.Conf
import SdJwt.Lemmas.Redact
/-!
# C06 — undisclosed claims stay confidential in the issuer JWT and in presentations

Statement: neither the name nor the value of a disclosable claim appears in the issuer-signed JWT;
a presentation contains no disclosure for any claim the holder redacted nor for any claim nested
inside a redacted claim.

Tree level (proved): `C06_payload_*` — every string that occurs in `payload T` (member name or
string value, at any depth) occurs in `T` outside every marked node, or is a digest, or is `_sd` /
`...`. `C06_presentation_*` — the disclosures `Holder::build` keeps exclude every redacted path and
every path below a redacted disclosure. Byte level (JSON text contains a string only if the tree
does; base64 of it) is checked by the sentinel search on the real output, not proved.
-/
open Impl Spec Assoc

/-- **Confidentiality of the payload.** A string that occurs in the signed payload occurs in the
claims outside every disclosable node, or is a digest, or is the bookkeeping name `_sd` / `...`.
Hence a name or value that occurs only inside a marked node (and is not itself a digest string)
is nowhere in the issuer-signed JWT's claims. -/
theorem C06_payload (T : MJ) (s : String) (h : s ∈ J.strings T.payload) :
    s ∈ T.clearStrings ∨ s ∈ T.digests ∨ s = "_sd" ∨ s = "..." :=
  MJ.payload_strings T s h

/-- the same for a disclosure: its value is the payload of the node it discloses, so it contains
the node's clear strings and digests for the marked nodes inside it — never their plaintext -/
theorem C06_disclosure_value (x : MJ) (s : String) (h : s ∈ J.strings x.payload) :
    s ∈ x.clearStrings ∨ s ∈ x.digests ∨ s = "_sd" ∨ s = "..." :=
  MJ.payload_strings x s h

/-- a redacted path is not presented -/
theorem C06_presentation_redacted (paths : List PathEntry) (redacted : List String) (pe : PathEntry)
    (h : pe ∈ keptEntries paths redacted) : pe.1 ∉ redacted :=
  ((mem_keptEntries paths redacted pe).mp h).2.1

/-- nothing below a redacted disclosure is presented (D6) -/
theorem C06_presentation_below (paths : List PathEntry) (redacted : List String) (pe q : PathEntry)
    (h : pe ∈ keptEntries paths redacted) (hq : q ∈ paths) (hr : q.1 ∈ redacted) :
    ¬ ((q.1 ++ "/").toList.isPrefixOf pe.1.toList = true) :=
  ((mem_keptEntries paths redacted pe).mp h).2.2 q hq hr

/-- non-vacuity: a tree whose marked member's name and value are absent from the payload -/
example :
    let T : MJ := .obj (.marked "secret-name" "dg1" (.leaf (.str "secret-value"))
                    (.clear "shown" (.leaf (.str "v")) .nil)) (some ["dg1"])
    "secret-name" ∉ J.strings T.payload ∧ "secret-value" ∉ J.strings T.payload ∧ "v" ∈ J.strings T.payload := by
  decide

/-- **No disclosure for a redacted claim nor for a claim nested inside a redacted claim, and
every other one is kept** — in terms of the tree, for ANY redaction list: the entry of a marked
node is kept iff its pointer is not redacted and the node does not lie inside a marked node whose
pointer is redacted.  Hence the number of kept disclosures is |M minus below-or-equal(R)|. -/
theorem C06_kept_tree (T : MJ) (wf : T.WF) (nd : T.allMarks.Nodup) (ps : List PathEntry)
    (hps : HolderList T ps) (R : List String) (pe : PathEntry) :
    pe ∈ keptEntries ps R ↔
      pe ∈ ps ∧ pe.1 ∉ R ∧ ∀ q ∈ ps, q.1 ∈ R → pe.2.digest ∉ T.under q.2.digest :=
  kept_iff_tree T wf nd ps hps R pe

/-- the string test of `Holder::build` is the tree's ancestry: for two marked nodes with pointers
`q'`, `q` and digests `g'`, `g`, `q` starts with `q' + "/"` iff `g` lies strictly inside `g'` -/
theorem C06_starts_with_is_ancestry (T : MJ) (wf : T.WF) (nd : T.allMarks.Nodup)
    (q' g' q g : String) (h' : (q', g') ∈ T.paths "") (h : (q, g) ∈ T.paths "") :
    ((q' ++ "/").toList.isPrefixOf q.toList = true) ↔ g ∈ T.under g' :=
  starts_with_iff_under T wf nd q' g' q g h' h
