import SdJwt.Lemmas.Kept
import SdJwt.Lemmas.Strip
/-!
# C06 — undisclosed claims stay confidential in the issuer JWT and in presentations

Statement: neither the name nor the value of a disclosable claim appears in the issuer-signed JWT;
a presentation contains no disclosure for any claim the holder redacted nor for any claim nested
inside a redacted claim.

Tree level (proved): `C06_payload_*` — every string that occurs in `payload T` (member name or
string value, at any depth) occurs in `T` outside every marked node, or is a digest, or is `_sd` /
`...`. `C06_presentation_*` — the disclosures `Holder::build` keeps exclude every redacted path and
every path below a redacted disclosure. Byte level (JSON text contains a string only if the tree
does; base64 of it) is checked by the sentinel search on the real output, not proved.
-/
open Impl Spec Assoc

/-- member names and string values of a JSON value, at any depth -/
def J.strings : J → List String
  | .str s => [s]
  | .arr xs => stringsL xs
  | .obj ms => stringsM ms
  | _ => []
where
  stringsL : List J → List String
    | [] => []
    | x :: r => J.strings x ++ stringsL r
  stringsM : List (String × J) → List String
    | [] => []
    | (k, v) :: r => k :: (J.strings v ++ stringsM r)

mutual
/-- the strings of `T` that lie outside every marked node (names of marked members excluded) -/
def MJ.clearStrings : MJ → List String
  | .leaf j => J.strings j
  | .arr xs => xs.clearStrings
  | .obj ms _ => ms.clearStrings
def MElems.clearStrings : MElems → List String
  | .nil => []
  | .clear x r => x.clearStrings ++ r.clearStrings
  | .marked _ _ r => r.clearStrings
  | .decoy _ r => r.clearStrings
def MMems.clearStrings : MMems → List String
  | .nil => []
  | .clear k x r => k :: (x.clearStrings ++ r.clearStrings)
  | .marked _ _ _ r => r.clearStrings
end

theorem strings_ains (k : String) (v : J) : (l : List (String × J)) →
    ∀ s ∈ J.strings.stringsM (ains k v l), s = k ∨ s ∈ J.strings v ∨ s ∈ J.strings.stringsM l
  | [], s, h => by simpa [ains, J.strings.stringsM] using h
  | (k', v') :: r, s, h => by
    unfold ains at h
    split at h
    · simp [J.strings.stringsM] at h ⊢; grind
    · split at h
      · simp [J.strings.stringsM] at h ⊢; grind
      · simp [J.strings.stringsM] at h ⊢
        rcases h with h | h | h
        · grind
        · grind
        · have := strings_ains k v r s h; grind

theorem strings_strs (ds : List String) : J.strings.stringsL (ds.map .str) = ds := by
  induction ds with
  | nil => rfl
  | cons d r ih => simp [J.strings.stringsL, J.strings, ih]

mutual
theorem MJ.payload_strings : (T : MJ) → ∀ s ∈ J.strings (T.hview (fun _ => false)),
    s ∈ T.clearStrings ∨ s ∈ T.digests ∨ s = "_sd" ∨ s = "..."
  | .leaf j, s, h => by left; simpa [MJ.hview, MJ.clearStrings] using h
  | .arr xs, s, h => by
    simp only [MJ.hview, J.strings] at h
    simpa [MJ.clearStrings, MJ.digests] using MElems.payload_strings xs s h
  | .obj ms sd, s, h => by
    simp only [MJ.hview, J.strings] at h
    cases sd with
    | none =>
      simp only [withSd] at h
      rcases MMems.payload_strings ms s h with h | h | h | h
      · left; simpa [MJ.clearStrings] using h
      · right; left; simp [MJ.digests, h]
      · grind
      · grind
    | some ds =>
      simp only [withSd] at h
      rcases strings_ains _ _ _ s h with h | h | h
      · grind
      · right; left
        simp only [J.strings, strings_strs] at h
        simp [MJ.digests, h]
      · rcases MMems.payload_strings ms s h with h | h | h | h
        · left; simpa [MJ.clearStrings] using h
        · right; left; simp [MJ.digests, h]
        · grind
        · grind
theorem MElems.payload_strings : (xs : MElems) → ∀ s ∈ J.strings.stringsL (xs.hview (fun _ => false)),
    s ∈ xs.clearStrings ∨ s ∈ xs.digests ∨ s = "_sd" ∨ s = "..."
  | .nil, s, h => by simp [MElems.hview, J.strings.stringsL] at h
  | .clear x r, s, h => by
    simp only [MElems.hview, J.strings.stringsL, List.mem_append] at h
    rcases h with h | h
    · rcases MJ.payload_strings x s h with h | h | h | h
      · left; simp [MElems.clearStrings, h]
      · right; left; simp [MElems.digests, h]
      · grind
      · grind
    · rcases MElems.payload_strings r s h with h | h | h | h
      · left; simp [MElems.clearStrings, h]
      · right; left; simp [MElems.digests, h]
      · grind
      · grind
  | .marked g x r, s, h => by
    simp only [MElems.hview, Bool.false_eq_true, if_false, J.strings.stringsL, List.mem_append] at h
    rcases h with h | h
    · simp [placeholder, J.strings, J.strings.stringsM] at h
      rcases h with h | h
      · grind
      · right; left; simp [MElems.digests, h]
    · rcases MElems.payload_strings r s h with h | h | h | h
      · left; simp [MElems.clearStrings, h]
      · right; left; simp [MElems.digests, h]
      · grind
      · grind
  | .decoy g r, s, h => by
    simp only [MElems.hview, J.strings.stringsL, List.mem_append] at h
    rcases h with h | h
    · simp [placeholder, J.strings, J.strings.stringsM] at h
      rcases h with h | h
      · grind
      · right; left; simp [MElems.digests, h]
    · rcases MElems.payload_strings r s h with h | h | h | h
      · left; simp [MElems.clearStrings, h]
      · right; left; simp [MElems.digests, h]
      · grind
      · grind
theorem MMems.payload_strings : (ms : MMems) → ∀ s ∈ J.strings.stringsM (ms.hview (fun _ => false)),
    s ∈ ms.clearStrings ∨ s ∈ ms.digests ∨ s = "_sd" ∨ s = "..."
  | .nil, s, h => by simp [MMems.hview, J.strings.stringsM] at h
  | .clear k x r, s, h => by
    simp only [MMems.hview, J.strings.stringsM, List.mem_cons, List.mem_append] at h
    rcases h with h | h | h
    · left; simp [MMems.clearStrings, h]
    · rcases MJ.payload_strings x s h with h | h | h | h
      · left; simp [MMems.clearStrings, h]
      · right; left; simp [MMems.digests, h]
      · grind
      · grind
    · rcases MMems.payload_strings r s h with h | h | h | h
      · left; simp [MMems.clearStrings, h]
      · right; left; simp [MMems.digests, h]
      · grind
      · grind
  | .marked k g x r, s, h => by
    simp only [MMems.hview, Bool.false_eq_true, if_false] at h
    rcases MMems.payload_strings r s h with h | h | h | h
    · left; simp [MMems.clearStrings, h]
    · right; left; simp [MMems.digests, h]
    · grind
    · grind
end

/-- **Confidentiality of the payload.** A string that occurs in the signed payload occurs in the
claims outside every disclosable node, or is a digest, or is the bookkeeping name `_sd` / `...`.
Hence a name or value that occurs only inside a marked node (and is not itself a digest string)
is nowhere in the issuer-signed JWT's claims. -/
theorem C06_payload (T : MJ) (s : String) (h : s ∈ J.strings T.payload) :
    s ∈ T.clearStrings ∨ s ∈ T.digests ∨ s = "_sd" ∨ s = "..." :=
  MJ.payload_strings T s h

/-- the same for a disclosure: its value is the payload of the node it discloses, so it contains
the node's clear strings and digests for the marked nodes inside it — never their plaintext -/
theorem C06_disclosure_value (x : MJ) (s : String) (h : s ∈ J.strings x.payload) :
    s ∈ x.clearStrings ∨ s ∈ x.digests ∨ s = "_sd" ∨ s = "..." :=
  MJ.payload_strings x s h

/-- a redacted path is not presented -/
theorem C06_presentation_redacted (paths : List PathEntry) (redacted : List String) (pe : PathEntry)
    (h : pe ∈ keptEntries paths redacted) : pe.1 ∉ redacted :=
  ((mem_keptEntries paths redacted pe).mp h).2.1

/-- nothing below a redacted disclosure is presented (D6) -/
theorem C06_presentation_below (paths : List PathEntry) (redacted : List String) (pe q : PathEntry)
    (h : pe ∈ keptEntries paths redacted) (hq : q ∈ paths) (hr : q.1 ∈ redacted) :
    ¬ ((q.1 ++ "/").toList.isPrefixOf pe.1.toList = true) :=
  ((mem_keptEntries paths redacted pe).mp h).2.2 q hq hr

/-- non-vacuity: a tree whose marked member's name and value are absent from the payload -/
example :
    let T : MJ := .obj (.marked "secret-name" "dg1" (.leaf (.str "secret-value"))
                    (.clear "shown" (.leaf (.str "v")) .nil)) (some ["dg1"])
    "secret-name" ∉ J.strings T.payload ∧ "secret-value" ∉ J.strings T.payload ∧ "v" ∈ J.strings T.payload := by
  decide
