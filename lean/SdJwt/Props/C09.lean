import SdJwt.Lemmas.KB
import SdJwt.Lemmas.ObjectsL
/-!
# C09 — the holder's key-binding JWT commits to exactly the presentation it is attached to  (partial)

Statement: the KB-JWT is typed kb+jwt, carries the supplied algorithm and audience, the current
time, a fresh nonce, and a hash — under the SD-JWT's declared digest algorithm — of exactly the
byte string that precedes it (issuer JWT, selected disclosures, each followed by `~`). Building
again yields the same disclosures, a different nonce, and again a valid commitment.

Proved over the model (nonce and clock are parameters): content of the KB-JWT, independence of the
disclosure part from nonce/clock, and that the verifier's `drop_kb` recomputes exactly the hashed
string. Partial: the CSPRNG (nonce freshness) and the clock are observed by the run, not proved;
the signature is RustCrypto's.
-/
open Impl

/-- content of the key-binding JWT, for every bound token, redaction list, audience, algorithm,
nonce and clock value -/
theorem C09_commit (rt : Rt) (h : HolderState) (red : List String) (p : KbParams) (nonce : String)
    (now : Int) (pre : String) (spec : KbSpec)
    (hb : Holder.build rt h red (some p) nonce now = .ok (pre, some spec)) :
    spec.typ = "kb+jwt" ∧ spec.alg = p.alg ∧ spec.aud = p.aud ∧ spec.nonce = nonce ∧ spec.iat = now ∧
    pre = assemble h.sdJwt (keptDisclosures h.paths red) ∧
    ∃ alg, spec.sdHash = rt.hash alg pre ∧
      ∃ claims seg, getJwtPart h.sdJwt.toList .claims = .ok seg ∧ rt.decodeClaims (strOf seg) = some claims ∧
        parseHashAlg ((jidx claims "_sd_alg").asStr.getD "") = .ok alg := by
  unfold Holder.build at hb
  cases hseg : getJwtPart h.sdJwt.toList .claims with
  | panic => simp [hseg] at hb
  | err e => simp [hseg] at hb
  | ok seg =>
    cases hclaims : rt.decodeClaims (strOf seg) with
    | none => simp [hseg, hclaims] at hb
    | some claims =>
      simp only [hseg, hclaims] at hb
      by_cases hbound : (jget? claims "cnf").isSome = true
      · cases halg : parseHashAlg ((jidx claims "_sd_alg").asStr.getD "") with
        | panic => simp [hbound, halg] at hb
        | err e => simp [hbound, halg] at hb
        | ok alg =>
          simp [hbound, halg] at hb
          obtain ⟨rfl, rfl⟩ := hb
          exact ⟨rfl, rfl, rfl, rfl, rfl, rfl, alg, rfl, claims, seg, rfl, hclaims, halg⟩
      · simp [hbound] at hb

/-- the disclosure part of a presentation is a function of the holder state and the redaction
list only: it is the same for every nonce and every clock value (repeated `build()`) -/
theorem C09_repeat (rt : Rt) (h : HolderState) (red : List String) (kb : Option KbParams)
    (n1 n2 : String) (t1 t2 : Int) (pre1 pre2 : String) (s1 s2 : Option KbSpec)
    (h1 : Holder.build rt h red kb n1 t1 = .ok (pre1, s1))
    (h2 : Holder.build rt h red kb n2 t2 = .ok (pre2, s2)) :
    pre1 = pre2 ∧ pre1 = assemble h.sdJwt (keptDisclosures h.paths red) := by
  have key : ∀ (n : String) (t : Int) (pre : String) (s : Option KbSpec),
      Holder.build rt h red kb n t = .ok (pre, s) → pre = assemble h.sdJwt (keptDisclosures h.paths red) := by
    intro n t pre s hb
    unfold Holder.build at hb
    cases hseg : getJwtPart h.sdJwt.toList .claims with
    | panic => simp [hseg] at hb
    | err e => simp [hseg] at hb
    | ok seg =>
      cases hclaims : rt.decodeClaims (strOf seg) with
      | none => simp [hseg, hclaims] at hb
      | some claims =>
        simp only [hseg, hclaims] at hb
        by_cases hbound : (jget? claims "cnf").isSome = true
        · cases kb with
          | none => simp [hbound] at hb
          | some p =>
            cases halg : parseHashAlg ((jidx claims "_sd_alg").asStr.getD "") with
            | panic => simp [hbound, halg] at hb
            | err e => simp [hbound, halg] at hb
            | ok alg =>
              simp [hbound, halg] at hb
              exact hb.1.symm
        · simp [hbound] at hb
          exact hb.1.symm
  exact ⟨(key _ _ _ _ h1).trans (key _ _ _ _ h2).symm, key _ _ _ _ h1⟩

/-- what the verifier hashes (`drop_kb` of the whole presentation) is exactly the string the
holder hashed, for every `~`-free key-binding JWT appended to it -/
theorem C09_dropKb_recovers (jwt : String) (ds : List String) (kb : List Char) (hkb : '~' ∉ kb) :
    dropKb ((assemble jwt ds).toList ++ kb) = (assemble jwt ds).toList := by
  rw [toList_assemble]
  have : (jwt.toList ++ (ds.map (fun d => '~' :: d.toList)).flatten ++ ['~']) ++ kb
      = (jwt.toList ++ (ds.map (fun d => '~' :: d.toList)).flatten) ++ '~' :: kb := by simp
  rw [this, dropKb_append _ _ hkb]

/-- a compact JWT (base64url segments joined by `.`) contains no `~` — the hypothesis of
`C09_dropKb_recovers` is met by every KB-JWT; here for a concrete one -/
example : '~' ∉ "eyJhbGciOiJSUzI1NiJ9.eyJhdWQiOiJ4In0.c2ln".toList := by decide


/-! ## The holder as an object: histories -/

/-- **what `build` returns depends on the calls made so far only through the set of redacted paths
and the last `key_binding`**: after any history of `redact` / `key_binding` / `build` calls the
holder holds the token it was made from, every redacted path, and the parameters of the last
`key_binding` call; earlier `build` calls leave no trace; and two histories that redact the same
set of paths (in any order, with repetitions, before or after `key_binding`) keep the same
disclosures — hence the key-binding JWT, whose `sd_hash` is computed by `build` over what is kept
*then* (`C09_commit`), commits to the presentation it is attached to whatever the order of calls -/
theorem C09_build_history (rt : Rt) (h : HolderObj) (ops ops' : List HolderOp) (nonce : String) (now : Int)
    (hset : ∀ p, p ∈ h.redacted ++ redactsOf ops ↔ p ∈ h.redacted ++ redactsOf ops')
    (hkb : (lastKb ops).orElse (fun _ => h.kb) = (lastKb ops').orElse (fun _ => h.kb)) :
    (h.run ops) = h.run (ops.filter (fun o => !o.isBuild)) ∧
    (h.run ops).observe rt nonce now = (h.run ops').observe rt nonce now := by
  refine ⟨HolderObj.run_drop_builds ops h, ?_⟩
  obtain ⟨a1, a2, a3⟩ := HolderObj.run_state ops h
  obtain ⟨b1, b2, b3⟩ := HolderObj.run_state ops' h
  simp only [HolderObj.observe, Holder.build, a1, b1, a2, b2, a3, b3, hkb,
    keptDisclosures_set h.st.paths _ _ hset]
