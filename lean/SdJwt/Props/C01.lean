import SdJwt.Lemmas.Strip
import SdJwt.Lemmas.RestoreAll
import SdJwt.Lemmas.Complete
import SdJwt.Lemmas.MarkInv
import SdJwt.Lemmas.EndToEnd
import SdJwt.Lemmas.Example
import SdJwt.Lemmas.IssuedPaths
import SdJwt.Lemmas.Defined
import SdJwt.Lemmas.CodecL
import SdJwt.Lemmas.TextCodec
/-!
# C01 — issuance round trip returns exactly the original claims and their paths

Full statement (properties.jsonl): ∀ claims trees `C`, ∀ markings `M` (descendants first,
|M| ≥ 1), ∀ decoy settings, ∀ algorithms:
`Holder::verify(Issuer(C, M).encode()) = (header, C [+cnf], {(m, name m, value m) | m ∈ M})`,
with no `_sd`, `_sd_alg`, `...` left behind.

A pair (`C`, `M`) is a marked tree `T` with `C = T.plain`. The statement decomposes into
T-issue (the issuer's payload is `T.payload` and its disclosures are `T.discs`), T-restore (the
restorer turns `T.payload` plus the disclosures with digests in `S` into `T.hview S`) and the
stripping law below. See DESIGN.md §4.
-/
open Impl Spec Assoc

/-- Stripping the bookkeeping from what the holder has restored gives exactly the claims with
the undisclosed marked nodes absent — for every conformant tree and every set of disclosures. -/
theorem C01_strip (S : String → Bool) (T : MJ) (wf : T.WF) :
    removeAll (T.hview S) = T.project S :=
  MJ.removeAll_hview S T wf

/-- With every disclosure put back, stripping gives exactly the original claims. -/
theorem C01_strip_all (T : MJ) (wf : T.WF) :
    removeAll (T.hview (fun _ => true)) = T.plain :=
  MJ.removeAll_hview _ T wf

/-- non-vacuity: a conformant tree with a marked member, a marked array element and a nested
mark, and its original claims -/
example :
    let T : MJ := .obj (.marked "a" "g1" (.leaf (.num 1 0))
                    (.clear "n" (.arr (.marked "g2" (.obj (.marked "k" "g3" (.leaf .null) .nil) (some ["g3"]))
                       (.clear (.leaf (.str "y")) .nil))) .nil)) (some ["g1"])
    T.plain = .obj [("a", .num 1 0), ("n", .arr [.obj [("k", .null)], .str "y"])] := by
  rfl

/-- **Holder side of the round trip (T-restore).** For every conformant marked tree `T` — i.e.
every claims tree `C = T.plain` with every marking — and the list of all its disclosures in ANY
order: if the holder accepts, it returns exactly the original claims, no `_sd`, no placeholder. -/
theorem C01_restore_all (env : Env) (T : MJ) (strs : List String) (inv : TreeInv T)
    (hacc : ∀ s ∈ strs, ∀ d, fromBase64 env s = .ok d → DOk T d) (c : J) (ps : List PathEntry)
    (h : restoreAll env T.payload strs = .ok (c, ps))
    (hall : ∀ g ∈ T.allMarks, ∃ s ∈ strs, env.hash s = g) :
    removeAll c = T.plain := by
  rcases restoreAll_sound env T strs inv hacc with ⟨e, he⟩ | ⟨c', ps', h', hp⟩
  · rw [he] at h; cases h
  · rw [h'] at h; cases h
    rw [hp]
    apply MJ.project_congr
    intro g hg
    obtain ⟨s, hs, e⟩ := hall g hg
    show (strs.any fun s => decide (env.hash s = g)) = true
    simp only [List.any_eq_true, decide_eq_true_eq]
    exact ⟨s, hs, e⟩

/-- one walk of `restore_disclosure` over the payload with the disclosure of a visible marked
node puts exactly that node back, in place, and reports exactly its JSON pointer; with any other
acceptable disclosure it changes nothing and reports nothing (the step of T-restore) -/
theorem C01_walk (d : Disc) (T : MJ) (p : String) (wf : T.WF) (nd : T.vdigests.Nodup)
    (hs : d.digest ∉ T.stale) (hm : Match d T.topDiscs) :
    restoreOne d p T.payload =
      .ok ((T.revealTop d.digest).payload, decide (d.digest ∈ T.topMarks), T.tpaths d.digest p) :=
  MJ.step d T p wf nd hs hm

/-- **The holder accepts and returns exactly the original claims**: all disclosures of a
conformant tree, in any order (in particular the issuer's descendants-first order), restore to
`T.plain` — same members, same values, same array lengths and element order, no bookkeeping. -/
theorem C01_roundtrip_claims (env : Env) (T : MJ) (strs : List String) (inv : TreeInv T)
    (hdec : ∀ s ∈ strs, ∃ d, fromBase64 env s = .ok d)
    (hnd : (strs.map env.hash).Nodup)
    (hacc : ∀ s ∈ strs, ∀ d, fromBase64 env s = .ok d →
      DOk T d ∧ ∃ x, (d.digest, x) ∈ T.hiddenE ∧ d.value = x.payload)
    (hall : ∀ g ∈ T.allMarks, ∃ s ∈ strs, env.hash s = g) :
    ∃ c ps, restoreAll env T.payload strs = .ok (c, ps) ∧ removeAll c = T.plain := by
  obtain ⟨c, ps, h, _⟩ := restoreAll_complete env T strs inv hdec hnd hacc
  exact ⟨c, ps, h, C01_restore_all env T strs inv (fun s hs d hf => (hacc s hs d hf).1) c ps h hall⟩

/-- **C01, issuer and holder composed (T-issue ∘ T-restore ∘ strip).** For every conformant
claims tree `T` (in particular every plain claims tree: nothing marked), every list of path
strings, every digest function under which marking is defined (each path reaches a not yet hidden
node — nested before enclosing — and each digest is new), and the issuer's disclosures presented
as strings in ANY order: the issuer model's working copy is `Tn.payload`; the holder model accepts
it with those strings; and what it returns strips to exactly the original claims `T.plain`. -/
theorem C01_issue_then_hold (env : Env) (mk : Nat → Option String → J → String)
    (paths : List String) (addr : List (List String × String)) (T Tn : MJ) (ds : List SDisc)
    (inv : TreeInv T) (hclear : T.allMarks = []) (hp : ParsedAll paths addr)
    (h : markAll mk 0 addr T = some (Tn, ds)) (strs : List String)
    (hstr : ∀ s ∈ strs, ∃ e ∈ ds, fromBase64 env s = .ok ⟨s, e.digest, e.key, e.value⟩)
    (hnd : (strs.map env.hash).Nodup)
    (hall : ∀ e ∈ ds, ∃ s ∈ strs, env.hash s = e.digest) :
    ∃ c ps, applyPaths mk 0 T.payload paths = .ok (Tn.payload, ds.map toSrc) ∧
      restoreAll env Tn.payload strs = .ok (c, ps) ∧ removeAll c = T.plain := by
  obtain ⟨hissue, _, hplain⟩ := applyPaths_markAll mk paths addr 0 T Tn ds inv.wf hp h
  obtain ⟨c, ps, hr, hc⟩ := issue_restore env mk addr T Tn ds inv h strs hstr hnd
  refine ⟨c, ps, hissue, hr, ?_⟩
  rw [hc, ← hplain]
  apply MJ.project_congr
  intro g hg
  obtain ⟨_, _, pm, _, _⟩ := markAll_inv mk addr 0 T Tn ds inv h
  have : g ∈ ds.map (·.digest) := by simpa [hclear] using pm.subset hg
  obtain ⟨e, he, rfl⟩ := List.mem_map.mp this
  obtain ⟨s, hs, hh⟩ := hall e he
  show (strs.any fun s => decide (env.hash s = e.digest)) = true
  simp only [List.any_eq_true, decide_eq_true_eq]
  exact ⟨s, hs, hh⟩

/-- non-vacuity of `C01_issue_then_hold`: claims `{"a":1,"n":["x","y"]}`, paths `/n/1` then `/a`,
digest function "dg<i>", the identity as string hash, and the two disclosures presented in the
reverse order satisfy every hypothesis -/
example :
    let T : MJ := .obj (.clear "a" (.leaf (.num 1 0))
                    (.clear "n" (.arr (.clear (.leaf (.str "x")) (.clear (.leaf (.str "y")) .nil))) .nil)) none
    let mk : Nat → Option String → J → String := fun i _ _ => "dg" ++ toString i
    let env : Env := { hash := id, decodeDisc := fun s =>
      if s = "dg0" then some (.arr [.str "s0", .str "y"])
      else if s = "dg1" then some (.arr [.str "s1", .str "a", .num 1 0]) else none }
    let addr : List (List String × String) := [(["n"], "1"), ([], "a")]
    ∃ Tn ds, TreeInv T ∧ T.allMarks = [] ∧ ParsedAll ["/n/1", "/a"] addr ∧
      markAll mk 0 addr T = some (Tn, ds) ∧
      (∀ s ∈ ["dg1", "dg0"], ∃ e ∈ ds, fromBase64 env s = .ok ⟨s, e.digest, e.key, e.value⟩) ∧
      (["dg1", "dg0"].map env.hash).Nodup ∧ (∀ e ∈ ds, ∃ s ∈ ["dg1", "dg0"], env.hash s = e.digest) := by
  refine ⟨_, _, ⟨?_, ?_, ?_⟩, rfl, ?_, rfl, ?_, ?_, ?_⟩
  · simp [MJ.WF, MMems.WF, MElems.WF, MMems.keysGt, MMems.marks, J.scalar]
  · simp [MJ.digests, MMems.digests, MElems.digests]
  · simp [MJ.allMarks, MMems.allMarks, MElems.allMarks]
  · exact ⟨parsed_renderPath ["n"] "1", parsed_renderPath [] "a", trivial⟩
  · intro s hs
    simp only [List.mem_cons, List.not_mem_nil, or_false] at hs
    rcases hs with rfl | rfl
    · exact ⟨⟨"dg1", some "a", .num 1 0⟩, by simp; exact ⟨by decide, rfl⟩, by simp [fromBase64]⟩
    · exact ⟨⟨"dg0", none, .str "y"⟩, by simp; exact ⟨by decide, rfl⟩, by simp [fromBase64]⟩
  · decide
  · intro e he
    simp only [List.mem_cons, List.not_mem_nil, or_false] at he
    rcases he with rfl | rfl
    · exact ⟨"dg0", by simp, rfl⟩
    · exact ⟨"dg1", by simp, rfl⟩

/-- **C01, end to end in the model: `Holder::verify(Issuer(C, M).encode())`.**
For every claims object `C` (a conformant tree `obj ms` with no digests in it, not using the names
`_sd_alg` / `cnf`), every list of path strings under which marking is defined (|M| ≥ 1; each path
reaches a not yet hidden node, nested before enclosing, each digest new), every choice of decoy
digests (distinct, new to the tree) and optional holder key (a plain value): serialise the
issuer model's output as `jwt~d₁~…~dₙ~` with the disclosure strings in ANY order; assume of the
runtime only that the JWT library returns the header and the payload that were signed
(`hsig`), that each string decodes to the disclosure it was made from and hashes to its digest
(`hstr`), and that no segment contains `~`.  Then the holder model accepts and returns that
header and exactly the original claims — plus `cnf` for a bound token — with no `_sd`,
`_sd_alg` or placeholder left; and the reported path list is, up to order, exactly one entry per
marked node: its JSON pointer (`format_path`) paired with the decoded disclosure of that node
(`Tn.paths ""` lists (pointer, digest) of every marked node of the issued tree). -/
theorem C01_end_to_end (rt : Rt) (mk : Nat → Option String → J → String)
    (paths : List String) (addr : List (List String × String)) (ms : MMems) (Tn : MJ)
    (ds : List SDisc) (decoys : Option (List String)) (cnf : Option MJ) (jwt : String) (header : J)
    (strs : List String)
    (wf : (MJ.obj ms none).WF) (hplain : (MJ.obj ms none).digests = [])
    (hk1 : "_sd_alg" ∉ ms.keys) (hk2 : "cnf" ∉ ms.keys)
    (hp : ParsedAll paths addr) (h : markAll mk 0 addr (.obj ms none) = some (Tn, ds)) (hne : ds ≠ [])
    (hdec : ∀ l, decoys = some l → l.Nodup ∧ (∀ g ∈ l, g ∉ Tn.digests))
    (hX : ∀ X, cnf = some X → X.WF ∧ X.digests = [])
    (hsig : ∀ payload dsrc,
      encode (MJ.obj ms none).payload paths mk decoys (cnf.map (·.payload)) = .ok (payload, dsrc) →
      rt.jwtDecode jwt = .ok (header, payload))
    (hstr : ∀ s ∈ strs, ∃ e ∈ ds,
      fromBase64 (rt.env "sha-256") s = .ok ⟨s, e.digest, e.key, e.value⟩)
    (hnd : (strs.map (rt.hash "sha-256")).Nodup)
    (hall : ∀ e ∈ ds, ∃ s ∈ strs, rt.hash "sha-256" s = e.digest)
    (hj : '~' ∉ jwt.toList) (hs : ∀ s ∈ strs, '~' ∉ s.toList) :
    ∃ ps, Holder.verify rt (assemble jwt strs) = .ok (header, expectedClaims ms cnf, ps) ∧
      (ps.map (fun e => (e.1, e.2.digest))).Perm (Tn.paths "") ∧
      (∀ e ∈ ps, ∃ s ∈ strs, fromBase64 (rt.env "sha-256") s = .ok e.2) :=
  holder_verify_issued rt mk paths addr ms Tn ds decoys cnf jwt header strs wf hplain hk1 hk2 hp h hne
    hdec hX hsig hstr hnd hall hj hs

/-- the issuer model's output is what `C01_end_to_end` starts from: it succeeds and its payload is
the payload of the finished tree (decoys, `_sd_alg`, `cnf`) -/
theorem C01_encode_ok (mk : Nat → Option String → J → String) (paths : List String)
    (addr : List (List String × String)) (ms : MMems) (Tn : MJ) (ds : List SDisc)
    (decoys : Option (List String)) (cnf : Option MJ) (wf : (MJ.obj ms none).WF)
    (hp : ParsedAll paths addr) (h : markAll mk 0 addr (.obj ms none) = some (Tn, ds))
    (hk1 : "_sd_alg" ∉ ms.keys) (hk2 : "cnf" ∉ ms.keys) :
    encode (MJ.obj ms none).payload paths mk decoys (cnf.map (·.payload)) =
      .ok ((finish Tn decoys (!ds.isEmpty) cnf).payload, ds.map toSrc) :=
  encode_tree mk paths addr ms none Tn ds decoys cnf wf hp h hk1 hk2

/-- non-vacuity of `C01_end_to_end`: claims `{"a":1,"n":["x","y"]}`, paths `/n/1` then `/a`, a
runtime whose JWT library returns what the issuer model produced — every hypothesis is met, and
the holder returns the original claims -/
example : ∃ ps, Holder.verify exRt (assemble "J" ["dg1", "dg0"]) =
      .ok (.null, .obj [("a", .num 1 0), ("n", .arr [.str "x", .str "y"])], ps) ∧
      (ps.map (fun e => (e.1, e.2.digest))).Perm [("/a", "dg1"), ("/n/1", "dg0")] := by
  suffices h : ∃ ps, Holder.verify exRt (assemble "J" ["dg1", "dg0"]) =
      .ok (.null, .obj [("a", .num 1 0), ("n", .arr [.str "x", .str "y"])], ps) ∧
      (ps.map (fun e => (e.1, e.2.digest))).Perm [("/a", "dg1"), ("/n/1", "dg0")] ∧
      (∀ e ∈ ps, ∃ s ∈ ["dg1", "dg0"], fromBase64 (exRt.env "sha-256") s = .ok e.2) by
    obtain ⟨ps, h1, h2, _⟩ := h
    exact ⟨ps, h1, h2⟩
  have hwf : (MJ.obj exMs none).WF := by
    simp [exMs, MJ.WF, MMems.WF, MElems.WF, MMems.keysGt, MMems.marks, J.scalar]
  refine C01_end_to_end exRt exMk ["/n/1", "/a"] [(["n"], "1"), ([], "a")] exMs _ _ none none "J" .null
    ["dg1", "dg0"] hwf (by simp [exMs, MJ.digests, MMems.digests, MElems.digests])
    (by simp [exMs, MMems.keys]) (by simp [exMs, MMems.keys])
    ⟨parsed_renderPath ["n"] "1", parsed_renderPath [] "a", trivial⟩
    (rfl : markAll exMk 0 [(["n"], "1"), ([], "a")] (.obj exMs none) = some (_, _)) (by simp)
    (by simp) (by simp) ?_ ?_ (by decide) ?_ (by decide) (by decide)
  · intro payload dsrc he
    have : (Option.map (fun x : MJ => x.payload) none) = none := rfl
    rw [this] at he
    simp only [exRt, he]
  · intro s hs
    simp only [List.mem_cons, List.not_mem_nil, or_false] at hs
    rcases hs with rfl | rfl
    · exact ⟨⟨"dg1", some "a", .num 1 0⟩, by simp; exact ⟨by decide, rfl⟩, by simp [fromBase64, Rt.env, exRt]⟩
    · exact ⟨⟨"dg0", none, .str "y"⟩, by simp; exact ⟨by decide, rfl⟩, by simp [fromBase64, Rt.env, exRt]⟩
  · intro e he
    simp only [List.mem_cons, List.not_mem_nil, or_false] at he
    rcases he with rfl | rfl
    · exact ⟨"dg0", by simp, rfl⟩
    · exact ⟨"dg1", by simp, rfl⟩

/-- **The reported paths (T-restore, paths).** For every conformant tree and own disclosures in any
order: the holder's path list pairs each decoded disclosure with the JSON pointer of the node it
belongs to (`sound`), reports no node twice (`nodup`), and — when every marked node's disclosure
is presented — is up to order exactly (pointer, digest) of all marked nodes (`all`). -/
theorem C01_paths (env : Env) (T : MJ) (strs : List String) (inv : TreeInv T)
    (hdec : ∀ s ∈ strs, ∃ d, fromBase64 env s = .ok d)
    (hnd : (strs.map env.hash).Nodup)
    (hacc : ∀ s ∈ strs, ∀ d, fromBase64 env s = .ok d →
      DOk T d ∧ ∃ x, (d.digest, x) ∈ T.hiddenE ∧ d.value = x.payload) :
    ∃ c ps L, restoreAll env T.payload strs = .ok (c, ps) ∧
      removeAll c = T.project (fun h => strs.any (fun s => env.hash s = h)) ∧
      (∀ d ∈ L, ∃ s ∈ strs, fromBase64 env s = .ok d) ∧
      (∀ s ∈ strs, ∃ d ∈ L, fromBase64 env s = .ok d) ∧ PathsOK T L ps :=
  restoreAll_paths env T strs inv hdec hnd hacc

/-- **The holder reports the paths the issuer was given.** With the hypotheses of
`C01_end_to_end`, when the issuer is given JSON pointers in `format_path`'s canonical form (the
rendering of their tokens; a token that addresses an array element is the decimal of its index):
the path strings `Holder::verify` returns are, up to order, exactly the strings the issuer was
given — one per marked claim. -/
theorem C01_reported_paths (rt : Rt) (mk : Nat → Option String → J → String)
    (addr : List (List String × String)) (ms : MMems) (Tn : MJ)
    (ds : List SDisc) (decoys : Option (List String)) (cnf : Option MJ) (jwt : String) (header : J)
    (strs : List String)
    (wf : (MJ.obj ms none).WF) (hplain : (MJ.obj ms none).digests = [])
    (hk1 : "_sd_alg" ∉ ms.keys) (hk2 : "cnf" ∉ ms.keys)
    (hcanon : ∀ a ∈ addr, CanonToks (a.1 ++ [a.2]))
    (h : markAll mk 0 addr (.obj ms none) = some (Tn, ds)) (hne : ds ≠ [])
    (hdec : ∀ l, decoys = some l → l.Nodup ∧ (∀ g ∈ l, g ∉ Tn.digests))
    (hX : ∀ X, cnf = some X → X.WF ∧ X.digests = [])
    (hsig : ∀ payload dsrc,
      encode (MJ.obj ms none).payload (addr.map (fun a => renderPath a.1 a.2)) mk decoys
        (cnf.map (·.payload)) = .ok (payload, dsrc) →
      rt.jwtDecode jwt = .ok (header, payload))
    (hstr : ∀ s ∈ strs, ∃ e ∈ ds,
      fromBase64 (rt.env "sha-256") s = .ok ⟨s, e.digest, e.key, e.value⟩)
    (hnd : (strs.map (rt.hash "sha-256")).Nodup)
    (hall : ∀ e ∈ ds, ∃ s ∈ strs, rt.hash "sha-256" s = e.digest)
    (hj : '~' ∉ jwt.toList) (hs : ∀ s ∈ strs, '~' ∉ s.toList) :
    ∃ ps, Holder.verify rt (assemble jwt strs) = .ok (header, expectedClaims ms cnf, ps) ∧
      (ps.map (·.1)).Perm (addr.map (fun a => renderPath a.1 a.2)) := by
  obtain ⟨ps, hv, hperm, _⟩ := C01_end_to_end rt mk (addr.map (fun a => renderPath a.1 a.2)) addr ms Tn ds
    decoys cnf jwt header strs wf hplain hk1 hk2 (parsedAll_render addr) h hne hdec hX hsig hstr hnd hall hj hs
  refine ⟨ps, hv, ?_⟩
  have hm0 := (Impl.no_digests _ wf hplain).1
  have h1 := issued_pointers mk addr (.obj ms none) Tn ds hm0 hcanon h
  have h2 : (ps.map (·.1)).Perm ((Tn.paths "").map (·.1)) := by
    have := hperm.map (·.1)
    simpa [List.map_map, Function.comp_def] using this
  exact h2.trans h1

/-- **The marking hypothesis of `C01_end_to_end`, in the property's own terms.** For plain claims
(no digests in them) and a non-empty list of addresses each of which reaches an existing member
or element (`Addressable`; index tokens canonical), listed descendants before ancestors without
repetition (`NestedFirst`), and a digest function that never repeats a value
across draws: marking is defined and yields at least one disclosure — the hypotheses `h` and
`hne` of `C01_end_to_end` / `C01_reported_paths` hold. -/
theorem C01_valid_marking_defined (mk : Nat → Option String → J → String)
    (hmk : ∀ i j k v k' v', mk i k v = mk j k' v' → i = j)
    (addr : List (List String × String)) (ms : MMems) (hplain : (MJ.obj ms none).digests = [])
    (haddr : ∀ a ∈ addr, Addressable (.obj ms none) a)
    (hnf : NestedFirst addr) (hne : addr ≠ []) :
    ∃ Tn ds, markAll mk 0 addr (.obj ms none) = some (Tn, ds) ∧ ds ≠ [] := by
  obtain ⟨Tn, ds, h⟩ := markAll_defined mk hmk addr 0 (.obj ms none) haddr hnf
    (fun g hg => by rw [hplain] at hg; cases hg)
  refine ⟨Tn, ds, h, ?_⟩
  intro e
  have := markAll_length mk addr 0 _ Tn ds h
  rw [e] at this
  exact hne (List.length_eq_zero_iff.mp this.symm)

/-- **C01 for valid markings, stated without reference to the marked tree.** Plain claims `ms`
(conformant, no digests, not using `_sd_alg` / `cnf`), a non-empty list of addresses each reaching an
existing member or element (index tokens canonical; member names unrestricted, `"01"` included),
descendants before ancestors, no repeats; a digest function that never repeats a value across
draws.  Then marking is defined, and for *the* disclosures `ds` it makes — with the runtime
assumptions of `C01_end_to_end` about decoys, `cnf`, the JWT library and the disclosure strings —
the holder accepts the serialised token in any order of the disclosures, returns exactly the
original claims (plus `cnf`), and reports, up to order, exactly the path strings the issuer was
given. -/
theorem C01_valid_marking_round_trip (rt : Rt) (mk : Nat → Option String → J → String)
    (hmk : ∀ i j k v k' v', mk i k v = mk j k' v' → i = j)
    (addr : List (List String × String)) (ms : MMems)
    (wf : (MJ.obj ms none).WF) (hplain : (MJ.obj ms none).digests = [])
    (hk1 : "_sd_alg" ∉ ms.keys) (hk2 : "cnf" ∉ ms.keys)
    (haddr : ∀ a ∈ addr, Addressable (.obj ms none) a) (hnf : NestedFirst addr) (hne : addr ≠ []) :
    ∃ Tn ds, markAll mk 0 addr (.obj ms none) = some (Tn, ds) ∧ ds.length = addr.length ∧
      ∀ (decoys : Option (List String)) (cnf : Option MJ) (jwt : String) (header : J) (strs : List String),
        (∀ l, decoys = some l → l.Nodup ∧ (∀ g ∈ l, g ∉ Tn.digests)) →
        (∀ X, cnf = some X → X.WF ∧ X.digests = []) →
        (∀ payload dsrc,
          encode (MJ.obj ms none).payload (addr.map (fun a => renderPath a.1 a.2)) mk decoys
            (cnf.map (·.payload)) = .ok (payload, dsrc) →
          rt.jwtDecode jwt = .ok (header, payload)) →
        (∀ s ∈ strs, ∃ e ∈ ds, fromBase64 (rt.env "sha-256") s = .ok ⟨s, e.digest, e.key, e.value⟩) →
        (strs.map (rt.hash "sha-256")).Nodup →
        (∀ e ∈ ds, ∃ s ∈ strs, rt.hash "sha-256" s = e.digest) →
        '~' ∉ jwt.toList → (∀ s ∈ strs, '~' ∉ s.toList) →
        ∃ ps, Holder.verify rt (assemble jwt strs) = .ok (header, expectedClaims ms cnf, ps) ∧
          (ps.map (·.1)).Perm (addr.map (fun a => renderPath a.1 a.2)) := by
  obtain ⟨Tn, ds, h, hdsne⟩ := C01_valid_marking_defined mk hmk addr ms hplain haddr hnf hne
  refine ⟨Tn, ds, h, markAll_length mk addr 0 _ Tn ds h, ?_⟩
  intro decoys cnf jwt header strs hdec hX hsig hstr hnd hall hj hs
  obtain ⟨ps, hv, hperm, _⟩ := C01_end_to_end rt mk (addr.map (fun a => renderPath a.1 a.2)) addr ms Tn ds
    decoys cnf jwt header strs wf hplain hk1 hk2 (parsedAll_render addr) h hdsne hdec hX hsig hstr hnd hall hj hs
  refine ⟨ps, hv, ?_⟩
  have hm0 := (Impl.no_digests _ wf hplain).1
  have h1 := issued_pointers_r mk addr (.obj ms none) Tn ds hm0 haddr hnf h
  have h2 : (ps.map (·.1)).Perm ((Tn.paths "").map (·.1)) := by
    have := hperm.map (·.1)
    simpa [List.map_map, Function.comp_def] using this
  exact h2.trans h1



/-- **C01 down to the bytes of the disclosures.** `C01_end_to_end` with the disclosure strings
written out as the crate makes them: the `i`-th disclosure is the base64url (`Impl/Base64.lean`) of
the JSON text of `[salt i, name, value]` / `[salt i, value]`, its digest the base64url of SHA-256
over that string, and the holder starts by base64url-decoding each string. What `C01_end_to_end`
assumed of the strings (each decodes to the disclosure it was made from, hashes to the embedded
digest, holds no `~`) is proved here from the base64url round trip (`B64.dec_enc`), the alphabet
lemma (`B64.enc_no_tilde`) and one assumption on the JSON text codec: the parser reads back what the
printer wrote (`hc`). Still assumed: pairwise different digests (`hnd`), a JWT library that returns
what was signed (`hsig`) and a JWT without `~` (`hj`). The strings may be presented in any order
(`hperm`). -/
theorem C01_end_to_end_bytes (c : Codec) (salt : Nat → String)
    (decodeClaims : String → Option J) (jwtDecode : String → Outcome (J × J))
    (kbDecode : String → J → Outcome (J × J))
    (paths : List String) (addr : List (List String × String)) (ms : MMems) (Tn : MJ)
    (ds : List SDisc) (decoys : Option (List String)) (cnf : Option MJ) (jwt : String) (header : J)
    (strs : List String)
    (wf : (MJ.obj ms none).WF) (hplain : (MJ.obj ms none).digests = [])
    (hk1 : "_sd_alg" ∉ ms.keys) (hk2 : "cnf" ∉ ms.keys)
    (hp : ParsedAll paths addr)
    (h : markAll (c.digestFn "sha-256" salt) 0 addr (.obj ms none) = some (Tn, ds)) (hne : ds ≠ [])
    (hdec : ∀ l, decoys = some l → l.Nodup ∧ (∀ g ∈ l, g ∉ Tn.digests))
    (hX : ∀ X, cnf = some X → X.WF ∧ X.digests = [])
    (hsig : ∀ payload dsrc,
      encode (MJ.obj ms none).payload paths (c.digestFn "sha-256" salt) decoys (cnf.map (·.payload)) =
        .ok (payload, dsrc) → jwtDecode jwt = .ok (header, payload))
    (hc : ∀ j, c.parse (c.render j) = some j)
    (hperm : strs.Perm (c.wireStrs salt 0 ds))
    (hnd : (strs.map (c.hash "sha-256")).Nodup)
    (hj : '~' ∉ jwt.toList) :
    ∃ ps, Holder.verify (c.rt decodeClaims jwtDecode kbDecode) (assemble jwt strs) =
        .ok (header, expectedClaims ms cnf, ps) ∧
      (ps.map (fun e => (e.1, e.2.digest))).Perm (Tn.paths "") :=
  holder_verify_issued_wire c salt decodeClaims jwtDecode kbDecode paths addr ms Tn ds decoys cnf jwt
    header strs wf hplain hk1 hk2 hp h hne hdec hX hsig hc hperm hnd hj


/-- **C01 with the JSON text in the model too.** `C01_end_to_end_bytes` for the codec whose JSON
text is `JText.render` (compact text as `serde_json` writes it: `Impl/JsonText.lean`) read back by
`JText.parseAll`: the assumption "the reader reads back what the printer wrote" is discharged by
`JText.parseAll_render`, so nothing is assumed of JSON text, UTF-8 or base64url any more. What is
still assumed: the digests of the strings are pairwise different (`hnd`: SHA-2 and fresh salts), the
JWT library returns what was signed (`hsig`) and the JWT holds no `~` (`hj`). -/
theorem C01_end_to_end_text (sha : String → List UInt8 → List UInt8) (salt : Nat → String)
    (decodeClaims : String → Option J) (jwtDecode : String → Outcome (J × J))
    (kbDecode : String → J → Outcome (J × J))
    (paths : List String) (addr : List (List String × String)) (ms : MMems) (Tn : MJ)
    (ds : List SDisc) (decoys : Option (List String)) (cnf : Option MJ) (jwt : String) (header : J)
    (strs : List String)
    (wf : (MJ.obj ms none).WF) (hplain : (MJ.obj ms none).digests = [])
    (hk1 : "_sd_alg" ∉ ms.keys) (hk2 : "cnf" ∉ ms.keys)
    (hp : ParsedAll paths addr)
    (h : markAll ((textCodec sha).digestFn "sha-256" salt) 0 addr (.obj ms none) = some (Tn, ds)) (hne : ds ≠ [])
    (hdec : ∀ l, decoys = some l → l.Nodup ∧ (∀ g ∈ l, g ∉ Tn.digests))
    (hX : ∀ X, cnf = some X → X.WF ∧ X.digests = [])
    (hsig : ∀ payload dsrc,
      encode (MJ.obj ms none).payload paths ((textCodec sha).digestFn "sha-256" salt) decoys (cnf.map (·.payload)) =
        .ok (payload, dsrc) → jwtDecode jwt = .ok (header, payload))
    (hperm : strs.Perm ((textCodec sha).wireStrs salt 0 ds))
    (hnd : (strs.map ((textCodec sha).hash "sha-256")).Nodup)
    (hj : '~' ∉ jwt.toList) :
    ∃ ps, Holder.verify ((textCodec sha).rt decodeClaims jwtDecode kbDecode) (assemble jwt strs) =
        .ok (header, expectedClaims ms cnf, ps) ∧
      (ps.map (fun e => (e.1, e.2.digest))).Perm (Tn.paths "") :=
  holder_verify_issued_wire (textCodec sha) salt decodeClaims jwtDecode kbDecode paths addr ms Tn ds decoys
    cnf jwt header strs wf hplain hk1 hk2 hp h hne hdec hX hsig (textCodec_roundtrip sha) hperm hnd hj

/-- the hypothesis `hc` of `C01_end_to_end_bytes` / `C02_redact_bytes` is satisfiable: a codec whose
reader reads back what its printer wrote exists, for every hash function -/
example (sha : String → List UInt8 → List UInt8) : ∃ c : Codec, c.sha = sha ∧ ∀ j, c.parse (c.render j) = some j :=
  ⟨textCodec sha, rfl, textCodec_roundtrip sha⟩
