import SdJwt.Lemmas.Strip
/-!
# C01 — issuance round trip returns exactly the original claims and their paths

Full statement (properties.jsonl): ∀ claims trees `C`, ∀ markings `M` (descendants first,
|M| ≥ 1), ∀ decoy settings, ∀ algorithms:
`Holder::verify(Issuer(C, M).encode()) = (header, C [+cnf], {(m, name m, value m) | m ∈ M})`,
with no `_sd`, `_sd_alg`, `...` left behind.

A pair (`C`, `M`) is a marked tree `T` with `C = T.plain`. The statement decomposes into
T-issue (the issuer's payload is `T.payload` and its disclosures are `T.discs`), T-restore (the
restorer turns `T.payload` plus the disclosures with digests in `S` into `T.hview S`) and the
stripping law below. See DESIGN.md §4.
-/
open Impl Spec

/-- Stripping the bookkeeping from what the holder has restored gives exactly the claims with
the undisclosed marked nodes absent — for every conformant tree and every set of disclosures. -/
theorem C01_strip (S : String → Bool) (T : MJ) (wf : T.WF) :
    removeAll (T.hview S) = T.project S :=
  MJ.removeAll_hview S T wf

/-- With every disclosure put back, stripping gives exactly the original claims. -/
theorem C01_strip_all (T : MJ) (wf : T.WF) :
    removeAll (T.hview (fun _ => true)) = T.plain :=
  MJ.removeAll_hview _ T wf

/-- non-vacuity: a conformant tree with a marked member, a marked array element and a nested
mark, and its original claims -/
example :
    let T : MJ := .obj (.marked "a" "g1" (.leaf (.num 1 0))
                    (.clear "n" (.arr (.marked "g2" (.obj (.marked "k" "g3" (.leaf .null) .nil) (some ["g3"]))
                       (.clear (.leaf (.str "y")) .nil))) .nil)) (some ["g1"])
    T.plain = .obj [("a", .num 1 0), ("n", .arr [.obj [("k", .null)], .str "y"])] := by
  rfl
