import SdJwt.Lemmas.Total
/-!
# C10 — no untrusted input can crash or hang the holder, the verifier or the parsers  (partial)

Statement (properties.jsonl): no input string, however malformed, makes SD-JWT splitting,
disclosure decoding, holder- or verifier-side restoration … panic, abort or fail to terminate;
each returns an error or a value.

What is proved here: for **every** input, each modelled function returns `ok` or `err`, never
`panic`. The model has an explicit `panic` outcome wherever the Rust can panic, so this is not
vacuous: `C10_prefix_witness` shows that the literal transcription of `sd_jwt_parts` *before* the
repair of D1 does yield `panic`. Termination is Lean's totality check of the definitions (the
only non-structural loop, the restoration rounds, runs on fuel = length of the pending list).

Partial: third-party parsers and crypto (base64, serde_json, serde_yaml, RustCrypto) are
parameters of the model (`Env`), exercised by the correspondence run, not proved.
-/
open Impl Outcome

/-- `sd_jwt_parts` returns for every string (D1 repaired). -/
theorem C10_total_sdJwtParts (s : List Char) : (sdJwtParts s).NoPanic :=
  sdJwtParts_noPanic s

/-- the pre-fix transcription really panics on a string without `~`: the `panic` outcome is live -/
theorem C10_prefix_witness : sdJwtPartsPreFix ['a', '.', 'b'] = .panic := by decide

/-- …and the repaired function does not, on the same input -/
theorem C10_fixed_witness :
    sdJwtParts ['a', '.', 'b'] = .ok { jwt := ['a', '.', 'b'], disclosures := [], kb := none } := by
  decide

theorem C10_total_getJwtPart (s : List Char) (p : JwtPart) : (getJwtPart s p).NoPanic :=
  getJwtPart_noPanic s p

/-- `Disclosure::from_base64` on any string, whatever the byte-level decoders return -/
theorem C10_total_fromBase64 (env : Env) (s : String) : (fromBase64 env s).NoPanic :=
  fromBase64_noPanic env s

/-- the validating pre-pass, on any JSON value -/
theorem C10_total_checkDigests (j : J) (seen : List String) : (checkDigests j seen).NoPanic :=
  checkDigests_noPanic j seen

/-- one restoration walk, on any JSON value and any disclosure -/
theorem C10_total_restoreOne (d : Disc) (p : String) (j : J) : (restoreOne d p j).NoPanic :=
  restoreOne_noPanic d p j

/-- `restore_disclosures` on any payload and any list of presented strings: decoding, the
repeat check, validation and all rounds -/
theorem C10_total_restoreAll (env : Env) (payload : J) (presented : List String) :
    (restoreAll env payload presented).NoPanic :=
  restoreAll_noPanic env payload presented

/-- the rounds terminate within their fuel: with fuel = length of the pending list the loop is
never cut short (if fuel runs out the pending list is empty). Stated as: a list longer than the
fuel is impossible along the loop, i.e. each productive round strictly shortens the list. -/
theorem C10_round_shrinks (c : J) (pending : List Disc) (c' : J) (unplaced : List Disc)
    (ps : List PathEntry) (h : roundOnce c pending = .ok (c', unplaced, ps)) :
    unplaced.length ≤ pending.length := by
  induction pending generalizing c c' unplaced ps with
  | nil => simp [roundOnce] at h; simp [h.2.1]
  | cons d r ih =>
    unfold roundOnce at h
    split at h <;> try simp at h
    rename_i c1 found ps1 _
    split at h <;> try simp at h
    rename_i c2 un ps2 h2
    obtain ⟨_, hu, _⟩ := h
    have := ih _ _ _ _ h2
    subst hu
    split <;> simp <;> omega
