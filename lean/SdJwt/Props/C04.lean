import SdJwt.Lemmas.Policy
import SdJwt.Impl.Flows
import SdJwt.Impl.Header
import SdJwt.Lemmas.First
/-!
# C04 — only the exact issuer-signed JWT, the right key and the configured algorithm verify  (partial)

Statement: for every supported signature algorithm, holder- and verifier-side verification succeed
for, and only for, the byte-exact issuer-signed JWT, the matching key and the configured algorithm.

What is proved: the decision logic around the signature primitive. `C04_accept_iff`: `decode`
accepts iff the header names exactly the configured algorithm, the key family admits it, the
signature primitive accepts (key, alg, signing input, signature) and the claims policy holds.
`C04_alg_table_*`: the two hand-written 13-row algorithm tables are the identity on names (the
table is the quantifier, decided completely). `C04_first_*`: holder and verifier return an error,
whatever the disclosures, when `decode` fails.

Partial: that the primitive accepts only the genuine signature (unforgeability, byte-exactness)
is a property of RustCrypto, exercised by the correspondence run (13×13×12 matrix, all single
character / bit mutations), not proved.
-/
open Impl Assoc

theorem C04_alg_table_validation : ∀ a ∈ Alg.all, (toJwtAlgV a).name = a.name := by decide

theorem C04_alg_table_header : ∀ a ∈ Alg.all, (toJwtAlgH a).name = a.name := by decide

/-- `Alg.all` really lists every algorithm, so the two tables are covered completely -/
theorem C04_alg_all (a : Alg) : a ∈ Alg.all := by cases a <;> decide

/-- the tables are injective: no two configured algorithms map to the same library algorithm -/
theorem C04_alg_table_injective (a b : Alg) (h : toJwtAlgV a = toJwtAlgV b) : a = b := by
  cases a <;> cases b <;> first | rfl | cases h

/-- `decode` accepts iff the header names exactly the configured algorithm, the key family admits
it, the signature primitive accepts, and the claims policy holds (`Holds`, see C11) -/
theorem C04_accept_iff (v : Validation) (fam : KeyFam) (hdrAlg : JwtAlg) (sigOk : Bool)
    (claims : List (String × J)) (now : Nat) (hno : NoOverflow v claims) :
    decodeDecision v fam hdrAlg sigOk (.obj claims) now = .ok () ↔
      hdrAlg = toJwtAlgV v.alg ∧ famAllows fam hdrAlg = true ∧ sigOk = true ∧ Holds v claims now :=
  decodeDecision_ok_iff v fam hdrAlg sigOk claims now hno

/-- a header naming any algorithm other than the configured one is refused, whatever the key and
the signature -/
theorem C04_other_alg_rejected (v : Validation) (fam : KeyFam) (hdrAlg : JwtAlg) (sigOk : Bool)
    (payload : J) (now : Nat) (h : hdrAlg ≠ toJwtAlgV v.alg) :
    decodeDecision v fam hdrAlg sigOk payload now = .err .jwt := by
  unfold decodeDecision
  simp [buildValidation]
  intro e; exact absurd e h

/-- a key of another family is refused, whatever the signature primitive says -/
theorem C04_other_family_rejected (v : Validation) (fam : KeyFam) (hdrAlg : JwtAlg) (sigOk : Bool)
    (payload : J) (now : Nat) (h : famAllows fam hdrAlg = false) :
    decodeDecision v fam hdrAlg sigOk payload now = .err .jwt := by
  unfold decodeDecision
  by_cases h1 : hdrAlg = toJwtAlgV v.alg
  · subst h1; simp [buildValidation, h]
  · simp [buildValidation]
    intro e; exact absurd e h1

/-- an HMAC secret (also: RSA/EC public-key bytes used as one) never verifies an RS/PS/ES token,
and an RSA or EC key never verifies an HS token -/
theorem C04_no_family_confusion :
    (∀ a, famAllows .secret a = true → a = .HS256 ∨ a = .HS384 ∨ a = .HS512) ∧
    (∀ a, famAllows .rsa a = true → a ≠ .HS256 ∧ a ≠ .HS384 ∧ a ≠ .HS512) ∧
    (∀ a, famAllows .ec a = true → a ≠ .HS256 ∧ a ≠ .HS384 ∧ a ≠ .HS512) := by
  refine ⟨?_, ?_, ?_⟩ <;> intro a <;> cases a <;> simp [famAllows]

/-- a signature the primitive does not accept is refused -/
theorem C04_bad_signature_rejected (v : Validation) (fam : KeyFam) (hdrAlg : JwtAlg)
    (payload : J) (now : Nat) :
    decodeDecision v fam hdrAlg false payload now = .err .jwt := by
  unfold decodeDecision
  simp [buildValidation]

/-- holder side: when `decode` of the first `~`-segment fails, `Holder::verify` fails, whatever
disclosures follow — the disclosures are not touched -/
theorem C04_first_holder (rt : Rt) (tok : String)
    (h : ∀ jwt, ∃ e, rt.jwtDecode jwt = .err e) : ∃ e, Holder.verify rt tok = .err e := by
  obtain ⟨e, he⟩ := holder_verifyRaw_err rt tok h
  exact ⟨e, by simp [Holder.verify, he]⟩

/-- verifier side, same statement -/
theorem C04_first_verifier (rt : Rt) (tok : String) (policy : Bool)
    (h : ∀ jwt, ∃ e, rt.jwtDecode jwt = .err e) : ∃ e, Verifier.verify rt tok policy = .err e := by
  obtain ⟨e, he⟩ := verifier_verifyRaw_err rt tok policy h
  exact ⟨e, by simp [Verifier.verify, he]⟩
