import SdJwt.Lemmas.HeaderL
/-!
# C16 — the JOSE header set by the issuer reaches holder and verifier unchanged

Statement: whatever protected-header values the issuer is configured with, the header returned by
holder- and verifier-side verification contains exactly those values, each under the member that
corresponds to the field it was set in, and no member that was not set.

`C16_header` states this member by member, for every header record (every subset of the optional
fields, arbitrary strings and lists, all 13 algorithms): looking up ANY member name in the
returned JSON gives the field of that name when it is set and nothing otherwise.
-/
open Impl Assoc

/-- what the specification expects under member name `k` -/
def expectedMember (h : Header) (k : String) : Option J :=
  if k = "alg" then some (.str h.alg.name)
  else if k = "typ" then h.typ.map .str
  else if k = "cty" then h.cty.map .str
  else if k = "jku" then h.jku.map .str
  else if k = "kid" then h.kid.map .str
  else if k = "x5u" then h.x5u.map .str
  else if k = "x5c" then h.x5c.map (fun xs => .arr (xs.map .str))
  else if k = "x5t" then h.x5t.map .str
  else if k = "x5t_s256" then h.x5tS256.map .str
  else if k = "crit" then h.crit.map (fun xs => .arr (xs.map .str))
  else none

theorem C16_alg_name (a : Alg) : (toJwtAlgH a).name = a.name := by
  cases a <;> rfl

/-- every member of the returned header is the field of that name, and only set fields appear -/
theorem C16_header (h : Header) (k : String) :
    (match headerRoundTrip h with
     | .obj ms => aget k ms
     | _ => none) = expectedMember h k := by
  simp only [headerRoundTrip, JwtHeader.toJson, buildHeader, expectedMember, C16_alg_name]
  by_cases h0 : k = "alg"
  · subst h0
    simp [aget_optList_ne, aget_optStr_ne, aget]
  by_cases h1 : k = "typ"
  · subst h1
    simp [aget_optList_ne, aget_optStr_ne, aget_optStr_self, aget]
  by_cases h2 : k = "cty"
  · subst h2
    simp [aget_optList_ne, aget_optStr_ne, aget_optStr_self, aget]
  by_cases h3 : k = "jku"
  · subst h3
    simp [aget_optList_ne, aget_optStr_ne, aget_optStr_self, aget]
  by_cases h4 : k = "kid"
  · subst h4
    simp [aget_optList_ne, aget_optStr_ne, aget_optStr_self, aget]
  by_cases h5 : k = "x5u"
  · subst h5
    simp [aget_optList_ne, aget_optStr_ne, aget_optStr_self, aget]
  by_cases h6 : k = "x5c"
  · subst h6
    simp [aget_optList_ne, aget_optStr_ne, aget_optList_self, aget]
  by_cases h7 : k = "x5t"
  · subst h7
    simp [aget_optList_ne, aget_optStr_ne, aget_optStr_self, aget]
  by_cases h8 : k = "x5t_s256"
  · subst h8
    simp [aget_optList_ne, aget_optStr_ne, aget_optStr_self, aget]
  by_cases h9 : k = "crit"
  · subst h9
    simp [aget_optList_ne, aget_optStr_ne, aget_optList_self, aget]
  simp [h0, h1, h2, h3, h4, h5, h6, h7, h8, h9, aget_optList_ne, aget_optStr_ne, aget]

/-- non-vacuity / concrete instance: typ, kid and crit set, everything else unset -/
def sampleHeader : Header where
  typ := some "sd-jwt"
  alg := .ES256
  cty := none
  jku := none
  kid := some "k1"
  x5u := none
  x5c := none
  x5t := none
  x5tS256 := none
  crit := some ["b64"]

example : (match headerRoundTrip sampleHeader with | .obj ms => aget "kid" ms | _ => none) = some (.str "k1") := by
  rw [C16_header]; rfl

example : (match headerRoundTrip sampleHeader with | .obj ms => aget "x5t" ms | _ => none) = none := by
  rw [C16_header]; rfl
