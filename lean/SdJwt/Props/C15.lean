import SdJwt.Lemmas.YamlL
import SdJwt.Lemmas.YamlParse
/-!
# C15 — YAML claims with `!sd` tags mean the same as JSON claims plus those paths

Statement: parsing YAML claims yields the same JSON claims as the document without its tags, and
exactly one path per `!sd`-tagged node — the JSON pointer of that node — ordered so that issuing
with them succeeds; no tagged node is silently ignored and no untagged node is reported.

`C15_parse` and `C15_paths` are the general statement: for *every* marked claims tree a YAML
document can express (tags on keys at any depth — inside sequences, below other tagged keys, in
single-entry mappings — and on string sequence items), parsing the annotated document `T.toY`
returns the tree's plain claims and a path list that is, as a multiset, exactly the JSON pointers
of the marked nodes, nested ones first.  The remaining theorems are the local rules.

The model starts at the parsed YAML value (`serde_yaml::Value`; YAML text → value is trusted and
exercised by the generated documents only).
-/
open Impl

/-- the tag walk and the conversion return a value or an error for every YAML value -/
theorem C15_total (doc : Y) : (parseYaml doc).NoPanic := parseYaml_noPanic doc

/-- a tagged key whose content is not a string is an error, not a silently ignored tag -/
theorem C15_tagged_key_must_be_string (tv : Y) (h : tv.asStr = none) :
    keyKind (.tagged "!sd" tv) = .err .yaml := by
  simp [keyKind, h]

/-- a tagged string key is reported with `tagged = true` and its name, i.e. it is descended into
(tags below a tagged key are not lost — D19) and its own path is pushed after the nested ones -/
theorem C15_tagged_key_descends (name : String) (path : List String) (v : Y) (r : List (Y × Y))
    (v' : Y) (p1 : List String) (r' : List (Y × Y)) (p2 : List String)
    (hv : collect (path ++ [Path.escapeSeg name]) v = .ok (v', p1))
    (hr : collect.collectM path r = .ok (r', p2)) :
    collect.collectM path ((.tagged "!sd" (.str name), v) :: r) =
      .ok ((.str name, v') :: r', p1 ++ [joinPath (path ++ [Path.escapeSeg name])] ++ p2) := by
  simp [collect.collectM, keyKind, Y.asStr, hv, hr]

/-- a single-entry mapping whose only key is tagged parses, its key untagged (D19) -/
theorem C15_single_entry (name : String) (s : String) :
    parseYaml (.map [(.tagged "!sd" (.str name), .str s)]) =
      .ok (.obj [(name, .str s)], ["/" ++ Path.escapeSeg name]) := by
  simp [parseYaml, collect, collect.collectM, keyKind, Y.asStr, yamlToJson, yamlToJson.mapToJson,
    Assoc.ofList, Assoc.ains, joinPath]

/-- a tagged string sequence item is reported once, with its index, and loses its tag -/
theorem C15_tagged_item (s : String) :
    parseYaml (.map [(.str "n", .seq [.str "a", .tagged "!sd" (.str s)])]) =
      .ok (.obj [("n", .arr [.str "a", .str s])], ["/n/1"]) := by
  simp [parseYaml, collect, collect.collectM, collect.collectS, keyKind, stripItemTag, Y.asStr, yamlToJson,
    yamlToJson.mapToJson, yamlToJson.seqToJson, Assoc.ofList, Assoc.ains, joinPath, Path.escapeSeg,
    Path.escapeL]
  decide

/-- **C15, general (claims and order).** Parsing the document that annotates the marked tree `T`
with `!sd` tags returns `T`'s plain claims — the document without its tags — and the path list
`T.ypaths []`: for each tagged key the paths below it first, then its own. -/
theorem C15_parse (T : MJ) (wf : T.WF) (hy : T.YamlOK) :
    parseYaml T.toY = .ok (T.plain, T.ypaths []) := parseYaml_toY T wf hy

/-- **C15, general (exactly the tagged nodes).** The reported path list is a permutation of the
JSON pointers (`format_path`, RFC 6901 escaping) of the marked nodes of `T`: one path per tagged
node, none for an untagged one. -/
theorem C15_paths (T : MJ) (hy : T.YamlOK) :
    (T.ypaths []).Perm ((T.paths "").map (·.1)) := by
  simpa [joinPath] using MJ.ypaths_perm T [] hy

/-- non-vacuity: a tagged key below a tagged key, inside a sequence, next to a tagged item -/
example :
    let T : MJ := .obj (.clear "l" (.arr (.clear (.obj (.marked "a/b" "d1"
                        (.obj (.marked "c" "d2" (.leaf (.str "x")) .nil) (some ["d2"])) .nil) (some ["d1"]))
                      (.marked "d3" (.leaf (.str "s")) .nil))) .nil) none
    T.WF ∧ T.YamlOK ∧ T.ypaths [] = ["/l/0/a~1b/c", "/l/0/a~1b", "/l/1"] := by
  refine ⟨?_, ?_, by decide⟩
  · simp [MJ.WF, MMems.WF, MElems.WF, MMems.keysGt, MMems.marks, J.scalar]
  · simp [MJ.YamlOK, MMems.YamlOK, MElems.YamlOK, J.scalar]
