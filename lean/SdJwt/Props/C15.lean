import SdJwt.Lemmas.YamlL
/-!
# C15 — YAML claims with `!sd` tags mean the same as JSON claims plus those paths

Statement: parsing YAML claims yields the same JSON claims as the document without its tags, and
exactly one path per `!sd`-tagged node — the JSON pointer of that node — ordered so that issuing
with them succeeds; no tagged node is silently ignored and no untagged node is reported.

The model starts at the parsed YAML value (`serde_yaml::Value`; YAML text → value is trusted and
exercised by the generated documents only).
-/
open Impl

/-- the tag walk and the conversion return a value or an error for every YAML value -/
theorem C15_total (doc : Y) : (parseYaml doc).NoPanic := parseYaml_noPanic doc

/-- a tagged key whose content is not a string is an error, not a silently ignored tag -/
theorem C15_tagged_key_must_be_string (tv : Y) (h : tv.asStr = none) :
    keyKind (.tagged "!sd" tv) = .err .yaml := by
  simp [keyKind, h]

/-- a tagged string key is reported with `tagged = true` and its name, i.e. it is descended into
(tags below a tagged key are not lost — D19) and its own path is pushed after the nested ones -/
theorem C15_tagged_key_descends (name : String) (path : List String) (v : Y) (r : List (Y × Y))
    (v' : Y) (p1 : List String) (r' : List (Y × Y)) (p2 : List String)
    (hv : collect (path ++ [Path.escapeSeg name]) v = .ok (v', p1))
    (hr : collect.collectM path r = .ok (r', p2)) :
    collect.collectM path ((.tagged "!sd" (.str name), v) :: r) =
      .ok ((.str name, v') :: r', p1 ++ [joinPath (path ++ [Path.escapeSeg name])] ++ p2) := by
  simp [collect.collectM, keyKind, Y.asStr, hv, hr]

/-- a single-entry mapping whose only key is tagged parses, its key untagged (D19) -/
theorem C15_single_entry (name : String) (s : String) :
    parseYaml (.map [(.tagged "!sd" (.str name), .str s)]) =
      .ok (.obj [(name, .str s)], ["/" ++ Path.escapeSeg name]) := by
  simp [parseYaml, collect, collect.collectM, keyKind, Y.asStr, yamlToJson, yamlToJson.mapToJson,
    Assoc.ofList, Assoc.ains, joinPath]

/-- a tagged string sequence item is reported once, with its index, and loses its tag -/
theorem C15_tagged_item (s : String) :
    parseYaml (.map [(.str "n", .seq [.str "a", .tagged "!sd" (.str s)])]) =
      .ok (.obj [("n", .arr [.str "a", .str s])], ["/n/1"]) := by
  simp [parseYaml, collect, collect.collectM, collect.collectS, keyKind, stripItemTag, Y.asStr, yamlToJson,
    yamlToJson.mapToJson, yamlToJson.seqToJson, Assoc.ofList, Assoc.ains, joinPath, Path.escapeSeg,
    Path.escapeL]
  decide
