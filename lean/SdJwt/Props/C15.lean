import SdJwt.Lemmas.YamlL
import SdJwt.Lemmas.YamlParse
import SdJwt.Lemmas.YamlIssue
import SdJwt.Lemmas.EndToEnd
/-!
# C15 — YAML claims with `!sd` tags mean the same as JSON claims plus those paths

Statement: parsing YAML claims yields the same JSON claims as the document without its tags, and
exactly one path per `!sd`-tagged node — the JSON pointer of that node — ordered so that issuing
with them succeeds; no tagged node is silently ignored and no untagged node is reported.

`C15_parse` and `C15_paths` are the general statement: for *every* marked claims tree a YAML
document can express (tags on keys at any depth — inside sequences, below other tagged keys, in
single-entry mappings — and on string sequence items), parsing the annotated document `T.toY`
returns the tree's plain claims and a path list that is, as a multiset, exactly the JSON pointers
of the marked nodes, nested ones first.  `C15_issuing_succeeds` is the statement's "ordered so that
issuing with them succeeds": the issuer model run on exactly what `parse_yaml` returns succeeds
with one disclosure per path; `C15_end_to_end` continues through the wire format and the holder:
the holder gets back the document without its tags and the reported paths.  The remaining
theorems are the local rules.

The model starts at the parsed YAML value (`serde_yaml::Value`; YAML text → value is trusted and
exercised by the generated documents only).
-/
open Impl

/-- the tag walk and the conversion return a value or an error for every YAML value -/
theorem C15_total (doc : Y) : (parseYaml doc).NoPanic := parseYaml_noPanic doc

/-- a tagged key whose content is not a string is an error, not a silently ignored tag -/
theorem C15_tagged_key_must_be_string (tv : Y) (h : tv.asStr = none) :
    keyKind (.tagged "!sd" tv) = .err .yaml := by
  simp [keyKind, h]

/-- a tagged string key is reported with `tagged = true` and its name, i.e. it is descended into
(tags below a tagged key are not lost — D19) and its own path is pushed after the nested ones -/
theorem C15_tagged_key_descends (name : String) (path : List String) (v : Y) (r : List (Y × Y))
    (v' : Y) (p1 : List String) (r' : List (Y × Y)) (p2 : List String)
    (hv : collect (path ++ [Path.escapeSeg name]) v = .ok (v', p1))
    (hr : collect.collectM path r = .ok (r', p2)) :
    collect.collectM path ((.tagged "!sd" (.str name), v) :: r) =
      .ok ((.str name, v') :: r', p1 ++ [joinPath (path ++ [Path.escapeSeg name])] ++ p2) := by
  simp [collect.collectM, keyKind, Y.asStr, hv, hr]

/-- a single-entry mapping whose only key is tagged parses, its key untagged (D19) -/
theorem C15_single_entry (name : String) (s : String) :
    parseYaml (.map [(.tagged "!sd" (.str name), .str s)]) =
      .ok (.obj [(name, .str s)], ["/" ++ Path.escapeSeg name]) := by
  simp [parseYaml, collect, collect.collectM, keyKind, Y.asStr, yamlToJson, yamlToJson.mapToJson,
    Assoc.ofList, Assoc.ains, joinPath]

/-- a tagged string sequence item is reported once, with its index, and loses its tag -/
theorem C15_tagged_item (s : String) :
    parseYaml (.map [(.str "n", .seq [.str "a", .tagged "!sd" (.str s)])]) =
      .ok (.obj [("n", .arr [.str "a", .str s])], ["/n/1"]) := by
  simp [parseYaml, collect, collect.collectM, collect.collectS, keyKind, stripItemTag, Y.asStr, yamlToJson,
    yamlToJson.mapToJson, yamlToJson.seqToJson, Assoc.ofList, Assoc.ains, joinPath, Path.escapeSeg,
    Path.escapeL]
  decide

/-- **C15, general (claims and order).** Parsing the document that annotates the marked tree `T`
with `!sd` tags returns `T`'s plain claims — the document without its tags — and the path list
`T.ypaths []`: for each tagged key the paths below it first, then its own. -/
theorem C15_parse (T : MJ) (wf : T.WF) (hy : T.YamlOK) :
    parseYaml T.toY = .ok (T.plain, T.ypaths []) := parseYaml_toY T wf hy

/-- **C15, general (exactly the tagged nodes).** The reported path list is a permutation of the
JSON pointers (`format_path`, RFC 6901 escaping) of the marked nodes of `T`: one path per tagged
node, none for an untagged one. -/
theorem C15_paths (T : MJ) (hy : T.YamlOK) :
    (T.ypaths []).Perm ((T.paths "").map (·.1)) := by
  simpa [joinPath] using MJ.ypaths_perm T [] hy

/-- non-vacuity: a tagged key below a tagged key, inside a sequence, next to a tagged item -/
example :
    let T : MJ := .obj (.clear "l" (.arr (.clear (.obj (.marked "a/b" "d1"
                        (.obj (.marked "c" "d2" (.leaf (.str "x")) .nil) (some ["d2"])) .nil) (some ["d1"]))
                      (.marked "d3" (.leaf (.str "s")) .nil))) .nil) none
    T.WF ∧ T.YamlOK ∧ T.ypaths [] = ["/l/0/a~1b/c", "/l/0/a~1b", "/l/1"] := by
  refine ⟨?_, ?_, by decide⟩
  · simp [MJ.WF, MMems.WF, MElems.WF, MMems.keysGt, MMems.marks, J.scalar]
  · simp [MJ.YamlOK, MMems.YamlOK, MElems.YamlOK, J.scalar]

/-- **C15: the order is one with which issuing succeeds.** For every marked tree a YAML document
can express (arrays shorter than 2^64, which is what a `usize` index can address) and every digest
function that never returns the same value for two draws: the issuer model, run on exactly what
`parse_yaml` returns — the plain claims and the reported paths in the reported order — succeeds
and makes one disclosure per reported path.  ("Issuing from the parsed result" *is* issuing from
the plain claims with those paths: `parse_yaml` returns nothing else.) -/
theorem C15_issuing_succeeds (mk : Nat → Option String → J → String)
    (hmk : ∀ i j k v k' v', mk i k v = mk j k' v' → i = j)
    (T : MJ) (wf : T.WF) (hy : T.YamlOK) (hs : T.Small) :
    ∃ c paths payload ds, parseYaml T.toY = .ok (c, paths) ∧
      applyPaths mk 0 c paths = .ok (payload, ds) ∧ ds.length = paths.length := by
  obtain ⟨hp, Tn, ds, h, hlen⟩ := yaml_paths_markAll mk hmk T wf hy hs
  have h1 := (applyPaths_markAll mk (T.ypaths []) (T.yaddrs []) 0 T.unmark Tn ds (MJ.unmark_wf T wf) hp h).1
  rw [MJ.unmark_payload] at h1
  exact ⟨T.plain, T.ypaths [], Tn.payload, ds.map toSrc, C15_parse T wf hy, h1, by simpa using hlen⟩

/-- **C15 end to end: what the holder gets back is the document without its tags.** For a YAML
mapping that tags at least one node: issue from what `parse_yaml` returns, serialise, hand the
token to the holder (runtime assumptions exactly those of `C01_end_to_end`: the JWT library
returns what was signed, each disclosure string decodes to the disclosure it was made from and
hashes to its digest, no `~` inside a segment): the holder accepts and returns the plain claims
of the document (plus `cnf` for a bound token), and reports, up to order, exactly the path
strings `parse_yaml` reported. -/
theorem C15_end_to_end (rt : Rt) (mk : Nat → Option String → J → String)
    (hmk : ∀ i j k v k' v', mk i k v = mk j k' v' → i = j)
    (ms : MMems) (sd : Option (List String))
    (wf : (MJ.obj ms sd).WF) (hy : (MJ.obj ms sd).YamlOK) (hs : (MJ.obj ms sd).Small)
    (hk1 : "_sd_alg" ∉ ms.keys) (hk2 : "cnf" ∉ ms.keys) (hne : (MJ.obj ms sd).ypaths [] ≠ []) :
    ∃ Tn ds, markAll mk 0 ((MJ.obj ms sd).yaddrs []) (.obj ms.unmark none) = some (Tn, ds) ∧
      ∀ (decoys : Option (List String)) (cnf : Option MJ) (jwt : String) (header : J) (strs : List String),
        (∀ l, decoys = some l → l.Nodup ∧ (∀ g ∈ l, g ∉ Tn.digests)) →
        (∀ X, cnf = some X → X.WF ∧ X.digests = []) →
        (∀ payload dsrc,
          encode (MJ.obj ms sd).plain ((MJ.obj ms sd).ypaths []) mk decoys (cnf.map (·.payload)) = .ok (payload, dsrc) →
          rt.jwtDecode jwt = .ok (header, payload)) →
        (∀ s ∈ strs, ∃ e ∈ ds, fromBase64 (rt.env "sha-256") s = .ok ⟨s, e.digest, e.key, e.value⟩) →
        (strs.map (rt.hash "sha-256")).Nodup →
        (∀ e ∈ ds, ∃ s ∈ strs, rt.hash "sha-256" s = e.digest) →
        '~' ∉ jwt.toList → (∀ s ∈ strs, '~' ∉ s.toList) →
        ∃ ps, Holder.verify rt (assemble jwt strs) = .ok (header, expectedClaims ms cnf, ps) ∧
          (ps.map (·.1)).Perm ((MJ.obj ms sd).ypaths []) := by
  obtain ⟨hp, Tn, ds, h, hlen⟩ := yaml_paths_markAll mk hmk (.obj ms sd) wf hy hs
  have hu : (MJ.obj ms sd).unmark = .obj ms.unmark none := by simp [MJ.unmark]
  rw [hu] at h
  refine ⟨Tn, ds, h, ?_⟩
  intro decoys cnf jwt header strs hdec hX hsig hstr hnd hall hj hss
  have wfu : (MJ.obj ms.unmark none).WF := by rw [← hu]; exact MJ.unmark_wf _ wf
  have hpl : (MJ.obj ms.unmark none).digests = [] := by rw [← hu]; exact MJ.unmark_digests _
  have hdsne : ds ≠ [] := by
    intro e
    rw [e] at hlen
    exact hne (List.length_eq_zero_iff.mp hlen.symm)
  have hpay : (MJ.obj ms.unmark none).payload = (MJ.obj ms sd).plain := by
    rw [← hu]; exact MJ.unmark_payload _
  obtain ⟨ps, hv, hperm, _⟩ := holder_verify_issued rt mk ((MJ.obj ms sd).ypaths []) ((MJ.obj ms sd).yaddrs []) ms.unmark Tn ds
    decoys cnf jwt header strs wfu hpl (by rw [unmark_keys]; exact hk1) (by rw [unmark_keys]; exact hk2) hp h hdsne
    hdec hX (by rw [hpay]; exact hsig) hstr hnd hall hj hss
  refine ⟨ps, ?_, ?_⟩
  · have : expectedClaims ms.unmark cnf = expectedClaims ms cnf := by
      unfold expectedClaims
      cases cnf <;> simp [MMems.unmark_project]
    rw [← this]; exact hv
  · have hclear : (MJ.obj ms.unmark none).allMarks = [] := by
      apply List.eq_nil_iff_forall_not_mem.mpr
      intro g hg
      have := MJ.allMarks_sub_digests _ wfu g hg
      rw [hpl] at this
      cases this
    have haddr : ∀ a ∈ (MJ.obj ms sd).yaddrs [], Addressable (MJ.obj ms.unmark none) a := by
      rw [← hu]; exact yaddrs_addressable _ wf hy hs
    have hcanon := issued_pointers_r mk _ _ Tn ds hclear haddr (MJ.yaddrs_nested _ [] wf) h
    have hr := MJ.ypaths_render (MJ.obj ms sd) []
    simp only [List.map_nil] at hr
    rw [← hr] at hcanon
    have h2 := hperm.map (·.1)
    simp only [List.map_map] at h2
    exact h2.trans hcanon

/-- non-vacuity of `C15_issuing_succeeds` / `C15_end_to_end`: the document of the example above
(a tagged key below a tagged key with `/` in its name, inside a sequence, next to a tagged item)
meets every hypothesis, and so does the digest function "draw counter" -/
example :
    let T : MJ := .obj (.clear "l" (.arr (.clear (.obj (.marked "a/b" "d1"
                        (.obj (.marked "c" "d2" (.leaf (.str "x")) .nil) (some ["d2"])) .nil) (some ["d1"]))
                      (.marked "d3" (.leaf (.str "s")) .nil))) .nil) none
    T.Small ∧ T.ypaths [] ≠ [] ∧
      (∀ i j (k : Option String) (v : J) (k' : Option String) (v' : J),
        (fun (n : Nat) (_ : Option String) (_ : J) => toString n) i k v =
        (fun (n : Nat) (_ : Option String) (_ : J) => toString n) j k' v' → i = j) := by
  refine ⟨?_, by decide, fun i j _ _ _ _ h => toString_nat_inj h⟩
  simp [MJ.Small, MMems.Small, MElems.Small, elemCount]

