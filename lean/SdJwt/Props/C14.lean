import SdJwt.Lemmas.IssuerL
import SdJwt.Lemmas.IssueAll
import SdJwt.Lemmas.Defined
import SdJwt.Lemmas.ObjectsL
/-!
# C14 — issuing is total, side-effect free and repeatable

Statement: for every claims object and list of paths, issuing either succeeds or returns an error
when a path cannot be resolved; it never panics, also not for zero or negative decoy maxima.
Issuing does not change the issuer object.

`C14_total`: the model of `Issuer::encode` (with an explicit `panic` outcome wherever the Rust can
panic: `IndexMut` on a non-object, `Vec::remove`, `gen_range`) never panics on a claims *object*,
for all path lists, all digests, all decoy draws and with or without `cnf`. `C14_root_must_be_object`
shows the `panic` outcome is live (a non-object root with a marked element does panic — outside the
property's quantifier, recorded in DESIGN §3). Error classification lemmas follow.
In the model `encode` is a function of the issuer's fields and returns no new issuer state: the
issuer object is unchanged by construction; that the real `encode(&mut self)` leaves the object
unchanged is observed by the run (Debug rendering before/after three calls), not proved.
-/
open Impl Assoc

/-- never a panic, for every claims object, path list, digest function, decoy draw, cnf -/
theorem C14_total (ms : List (String × J)) (paths : List String)
    (mk : Nat → Option String → J → String) (decoys : Option (List String)) (cnf : Option J) :
    (encode (.obj ms) paths mk decoys cnf).NoPanic :=
  encode_noPanic_obj (.obj ms) paths mk decoys cnf rfl

/-- the panic outcome is not decoration: a root that is an array, with one element marked, makes
`updated_claims["_sd_alg"] = …` panic (claims objects — the property's quantifier — never do) -/
theorem C14_root_must_be_object :
    encode (.arr [.str "x"]) ["/0"] (fun _ _ _ => "dg") none none = .panic := by
  rfl

/-- no leading slash (no `/` at all): `InvalidPathPointer` -/
theorem C14_err_no_slash (mk : Option String → J → String) (c : J) (p : String) (h : '/' ∉ p.toList) :
    buildDisclosure mk c p = .err .path := by
  simp [buildDisclosure, parentElem_no_slash p.toList h]

/-- unknown member of the addressed parent object -/
theorem C14_err_unknown_member (mk : Option String → J → String) (key : String) (ms : List (String × J))
    (h : aget key ms = none) : hideIn mk key (.obj ms) = .err .path := by
  simp [hideIn, h]

/-- index out of range (D8: an error, not a panic) -/
theorem C14_err_index_out_of_range (mk : Option String → J → String) (key : String) (xs : List J) (i : Nat)
    (hp : parseUsize key.toList = some i) (h : xs.length ≤ i) : hideIn mk key (.arr xs) = .err .path := by
  have : xs[i]? = none := by simp [h]
  simp [hideIn, hp, this]

/-- non-numeric index -/
theorem C14_err_non_numeric_index (mk : Option String → J → String) (key : String) (xs : List J)
    (hp : parseUsize key.toList = none) : hideIn mk key (.arr xs) = .err .path := by
  simp [hideIn, hp]

/-- a path into a scalar (e.g. below an already hidden scalar claim) -/
theorem C14_err_into_scalar (mk : Option String → J → String) (key : String) (j : J) (h : J.scalar j) :
    hideIn mk key j = .err .path := by
  cases j <;> simp_all [hideIn, J.scalar]

/-- a path through a member that an earlier path has removed cannot be resolved -/
theorem C14_err_through_removed {α : Type} (f : J → Outcome (J × α)) (t : String) (r : List String)
    (ms : List (String × J)) (h : aget t ms = none) : updateAt f (t :: r) (.obj ms) = .err .path := by
  simp [updateAt, h]

/-- what the class of the result depends on: not on the digests (as long as `_sd` is not itself a
claim name), shown here for the first step — an unresolvable first path fails under every draw -/
theorem C14_err_independent_of_randomness (c : J) (p : String) (mk1 mk2 : Option String → J → String)
    (h : '/' ∉ p.toList) : buildDisclosure mk1 c p = buildDisclosure mk2 c p := by
  rw [C14_err_no_slash mk1 c p h, C14_err_no_slash mk2 c p h]

/-- zero, negative or absent decoy maxima mean "no decoys" in the repaired code (D9): the model's
`decoys = none`; the payload is then produced without touching `_sd` at the top level -/
theorem C14_no_decoys (ms : List (String × J)) (mk : Nat → Option String → J → String) :
    encode (.obj ms) [] mk none none = .ok (.obj ms, []) := by
  simp [encode, applyPaths]

/-- **Valid markings succeed** — including when only nested members or only array elements are
disclosable (D7): whenever marking the addressed nodes in the given order is defined on the claims
tree, `applyPaths` returns `ok` (with the payload of the marked tree, see C07_issue) -/
theorem C14_valid_ok (mk : Nat → Option String → J → String) (paths : List String)
    (addr : List (List String × String)) (T Tn : MJ) (ds : List SDisc) (wf : T.WF)
    (hp : ParsedAll paths addr) (h : markAll mk 0 addr T = some (Tn, ds)) :
    ∃ r, applyPaths mk 0 T.payload paths = .ok r :=
  ⟨_, (applyPaths_markAll mk paths addr 0 T Tn ds wf hp h).1⟩

/-- non-vacuity with only a nested array element disclosable: `/n/1` in `{"n":["a","b"]}` -/
example :
    let T : MJ := .obj (.clear "n" (.arr (.clear (.leaf (.str "a")) (.clear (.leaf (.str "b")) .nil))) .nil) none
    (markAll (fun _ _ _ => "dg") 0 [(["n"], "1")] T).map (fun r => r.1.payload)
      = some (.obj [("n", .arr [.str "a", .obj [("...", .str "dg")]])]) := by
  rfl

/-- **Valid markings succeed, in the property's own terms.** Issuing succeeds *whenever each path
addresses an existing member or element, nested paths precede enclosing ones and no path repeats*:
`Addressable T a` — the tokens of the path lead through existing (not yet hidden) members /
elements of the claims to an existing one that is not a reserved name, a token that addresses an
array element being the canonical decimal of its index (`/a/1`, not `/a/01` or `/a/+1`, which
alias the same element and are left to the run; member names are unrestricted: `"01"` is a fine
name) — `canMarkChild_obj`, `canMarkChild_arr` spell this out for claims in which nothing is
hidden; `NestedFirst` — no later path is equal to or inside an earlier one; and the digests
are fresh: the digest function never returns the same value for two different draws, nor a
string the claims already contain as a digest. This discharges the hypothesis `markAll … = some _`
of `C14_valid_ok`, `C01_end_to_end`, `C07_issue`. -/
theorem C14_valid_marking_ok (mk : Nat → Option String → J → String)
    (hmk : ∀ i j k v k' v', mk i k v = mk j k' v' → i = j)
    (paths : List String) (addr : List (List String × String)) (T : MJ) (wf : T.WF)
    (hp : ParsedAll paths addr)
    (haddr : ∀ a ∈ addr, Addressable T a)
    (hnf : NestedFirst addr)
    (hfresh : ∀ g ∈ T.digests, ∀ j k v, g ≠ mk j k v) :
    ∃ r, applyPaths mk 0 T.payload paths = .ok r := by
  obtain ⟨Tn, ds, h⟩ := markAll_defined mk hmk addr 0 T haddr hnf (fun g hg j k v _ => hfresh g hg j k v)
  exact C14_valid_ok mk paths addr T Tn ds wf hp h

/-- non-vacuity: `{"a":{"b":1,"c":2},"n":["x","y"]}` with `/a/b`, `/n/1`, `/a` (nested before
enclosing, only nested and array paths first): every hypothesis holds -/
example :
    let T : MJ := .obj (.clear "a" (.obj (.clear "b" (.leaf (.num 1 0)) (.clear "c" (.leaf (.num 2 0)) .nil)) none)
                  (.clear "n" (.arr (.clear (.leaf (.str "x")) (.clear (.leaf (.str "y")) .nil))) .nil)) none
    let addr : List (List String × String) := [(["a"], "b"), (["n"], "1"), ([], "a")]
    (∀ a ∈ addr, Addressable T a) ∧ NestedFirst addr := by
  refine ⟨?_, ?_⟩
  · intro a ha
    simp only [List.mem_cons, List.not_mem_nil, or_false] at ha
    rcases ha with rfl | rfl | rfl <;> (unfold Addressable; rfl)
  · simp only [NestedFirst, List.mem_cons, List.not_mem_nil, or_false, and_true]
    refine ⟨?_, ?_, ?_⟩
    · intro b hb; rcases hb with rfl | rfl <;> decide
    · intro b hb; subst hb; decide
    · intro b hb; cases hb



/-! ## The issuer as an object: histories -/

/-- **issuing does not change the issuer object**: what the object holds after any history of
calls is what it holds after the same history with every `encode` call removed — so what a later
`encode` returns (header, payload, disclosures: `IssuerObj.observe`) does not depend on whether,
when or how often `encode` was called before -/
theorem C14_encode_leaves_object (s : IssuerObj) (ops : List IssuerOp) :
    s.run ops = s.run (ops.filter (fun o => !o.isEncode)) ∧
    ∀ mk drawn, (s.run ops).observe mk drawn = (s.run (ops.filter (fun o => !o.isEncode))).observe mk drawn := by
  have h := IssuerObj.run_drop_encodes ops s
  exact ⟨h, fun mk drawn => by rw [← h]⟩

/-- **what the object holds after a history, field by field**: the paths are those of the
`disclosable` calls in call order (appended to what was there); header, decoy maximum and bound key
are those of the *last* call that set them (an earlier value never survives a later call, whatever
happened in between); the claims are the original ones with `exp` = the last requested `now + n`.
Each setter touches its own field only. -/
theorem C14_history (s : IssuerObj) (ops : List IssuerOp) :
    (s.run ops).paths = s.paths ++ pathsOf ops ∧
    (s.run ops).header = (lastHeader ops).getD s.header ∧
    (s.run ops).maxDecoys = (lastDecoy ops).orElse (fun _ => s.maxDecoys) ∧
    (s.run ops).cnf = (lastCnf ops).orElse (fun _ => s.cnf) ∧
    (s.run ops).claims = (match lastExp ops with
      | some v => setExp v s.claims
      | none => s.claims) :=
  ⟨IssuerObj.run_paths ops s, IssuerObj.run_header ops s, IssuerObj.run_decoy ops s,
   IssuerObj.run_cnf ops s, IssuerObj.run_claims ops s⟩

/-- an expiry requested as `n` seconds from `now` is recorded as `now + n`, replacing whatever `exp`
the claims carried and whatever was requested before -/
theorem C14_expiry_recorded (ms : List (String × J)) (n now : Int) :
    aget "exp" (match setExp (now + n) (.obj ms) with | .obj m => m | _ => []) = some (.num (now + n) 0) := by
  simp [setExp, aget_ains_self]

example : (({ claims := .obj [("exp", .num 5 0)], paths := [], maxDecoys := none, header := .null, cnf := none } : IssuerObj).run
    [.expiresIn 60 1000, .encode, .header (.str "h1"), .disclosable "/a", .encode, .expiresIn 3600 2000,
     .header (.str "h2"), .encode]).claims = .obj [("exp", .num 5600 0)] := by
  simp [IssuerObj.run, IssuerObj.step, setExp, ains]

/-- **it can be repeated**: calling `encode` any number of times in a row leaves the object where it was,
so every one of these calls observes the same claims, paths, header, decoy maximum and bound key — each
with its own draw of salts (`mk`) and decoys (`drawn`). Each observation is therefore an issuance of the
same claims with the same markings, to which `C01_end_to_end` applies separately: every one of the
tokens verifies to the same claims. -/
theorem C14_repeat (s : IssuerObj) (ops more : List IssuerOp) (h : ∀ o ∈ more, o.isEncode = true) :
    s.run (ops ++ more) = s.run ops ∧
    ∀ mk drawn, (s.run (ops ++ more)).observe mk drawn = (s.run ops).observe mk drawn := by
  have e : s.run (ops ++ more) = s.run ops := by
    rw [IssuerObj.run_append, IssuerObj.run_drop_encodes more]
    have : more.filter (fun o => !o.isEncode) = [] := by
      apply List.filter_eq_nil_iff.mpr
      intro o ho; simp [h o ho]
    rw [this]; rfl
  exact ⟨e, fun mk drawn => by rw [e]⟩
