import SdJwt.Lemmas.Reject
import SdJwt.Lemmas.RestoreAll
import SdJwt.Lemmas.CodecL
/-!
# C12 — SD-JWTs the specification says must be rejected are rejected

Each rule below is proved for ARBITRARY payloads `P` and ARBITRARY presented lists `L` (not only
conformant ones), over the model of `restore_disclosures`, which `Verifier::verify`,
`Holder::verify` and `Holder::presentation` all run (`restoreAll`).

Rules about a *disclosure* (shape, name type, reserved name) hold for every presented string,
referenced or not. Rules about *embedding* (`_sd` type, placeholder shape, repeated digest) hold
for a defect anywhere in the payload, at any depth, because the validating pre-pass visits all of
it before anything is placed. The placement rules (arity vs. place, name collision) hold where the
digest is reached.
-/
open Impl Assoc

/-- a presented string whose content is not a JSON array of 2 or 3 elements -/
theorem C12_arity_shape (env : Env) (P : J) (L : List String) (s : String) (hs : s ∈ L) (j : J)
    (hd : env.decodeDisc s = some j)
    (hshape : (∀ a b, j ≠ .arr [a, b]) ∧ (∀ a b c, j ≠ .arr [a, b, c])) :
    ∃ e, restoreAll env P L = .err e := by
  apply restoreAll_err_of_bad_disclosure env P L s hs
  intro d hok
  unfold fromBase64 at hok
  rw [hd] at hok
  split at hok <;> try cases hok
  · rename_i a b heq; cases heq; exact hshape.1 _ _ rfl
  · rename_i a b c heq; cases heq; exact hshape.2 _ _ _ rfl

/-- a three-element disclosure whose claim name is not a string (D14) -/
theorem C12_name_type (env : Env) (P : J) (L : List String) (s : String) (hs : s ∈ L) (salt name v : J)
    (hd : env.decodeDisc s = some (.arr [salt, name, v])) (hn : ∀ k, name ≠ .str k) :
    ∃ e, restoreAll env P L = .err e := by
  apply restoreAll_err_of_bad_disclosure env P L s hs
  intro d hok
  unfold fromBase64 at hok
  rw [hd] at hok
  cases name with
  | str k => exact hn k rfl
  | null => simp at hok
  | bool b => simp at hok
  | num m e => simp at hok
  | arr xs => simp at hok
  | obj ms => simp at hok

/-- a disclosure named `_sd` or `...` (D15) -/
theorem C12_name_reserved (env : Env) (P : J) (L : List String) (s : String) (hs : s ∈ L) (salt v : J)
    (name : String) (hd : env.decodeDisc s = some (.arr [salt, .str name, v]))
    (hr : name = "_sd" ∨ name = "...") :
    ∃ e, restoreAll env P L = .err e := by
  apply restoreAll_err_of_bad_disclosure env P L s hs
  intro d hok
  unfold fromBase64 at hok
  rw [hd] at hok
  simp only [hr, if_true] at hok
  cases hok

/-- a string that is not base64url / UTF-8 / JSON at all -/
theorem C12_undecodable (env : Env) (P : J) (L : List String) (s : String) (hs : s ∈ L)
    (hd : env.decodeDisc s = none) : ∃ e, restoreAll env P L = .err e := by
  apply restoreAll_err_of_bad_disclosure env P L s hs
  intro d hok
  unfold fromBase64 at hok
  rw [hd] at hok
  cases hok

/-- an `_sd` that is not an array, in any object at any depth of the payload (D18) -/
theorem C12_sd_not_array (env : Env) (P : J) (L : List String) (h : hasBadSd P = true) :
    ∀ r, restoreAll env P L ≠ .ok r := by
  intro r hok
  obtain ⟨seen, hc⟩ := restoreAll_ok_check env P L r hok
  have := (checkDigests_ok P [] seen hc).2.2.2.1
  simp [h] at this

/-- an array placeholder object with additional members, in any array at any depth (D18) -/
theorem C12_placeholder_extra (env : Env) (P : J) (L : List String) (h : hasBadPlaceholder P = true) :
    ∀ r, restoreAll env P L ≠ .ok r := by
  intro r hok
  obtain ⟨seen, hc⟩ := restoreAll_ok_check env P L r hok
  have := (checkDigests_ok P [] seen hc).2.2.2.2
  simp [h] at this

/-- the same digest embedded more than once anywhere in the payload (D17) -/
theorem C12_digest_twice (env : Env) (P : J) (L : List String) (h : ¬ (embedded P).Nodup) :
    ∀ r, restoreAll env P L ≠ .ok r := by
  intro r hok
  obtain ⟨seen, hc⟩ := restoreAll_ok_check env P L r hok
  exact h (checkDigests_ok P [] seen hc).2.2.1

/-- with `NoPanic`, "not ok" is "an error": the three rules above as `∃ e, … = err e` -/
theorem C12_embedding_err (env : Env) (P : J) (L : List String)
    (h : hasBadSd P = true ∨ hasBadPlaceholder P = true ∨ ¬ (embedded P).Nodup) :
    ∃ e, restoreAll env P L = .err e := by
  have hnp := restoreAll_noPanic env P L
  cases hr : restoreAll env P L with
  | panic => exact absurd hr hnp
  | err e => exact ⟨e, rfl⟩
  | ok r =>
    exfalso
    rcases h with h | h | h
    · exact C12_sd_not_array env P L h r hr
    · exact C12_placeholder_extra env P L h r hr
    · exact C12_digest_twice env P L h r hr

/-- a disclosed claim whose name already exists next to the digest is refused at that object:
a disclosure can never replace or shadow a member that is already there (D16) -/
theorem C12_collision (d : Disc) (p : String) (ms : List (String × J)) (sd : J) (k : String) (v : J)
    (hsd : aget "_sd" ms = some sd) (hc : sdContains sd d.digest = .ok true)
    (hk : d.key = some k) (hex : aget k ms = some v) :
    restoreOne d p (.obj ms) = .err .rejected := by
  have : ownSd d ms = .err .rejected := by simp [ownSd, hsd, hc, hk, hex]
  simp [restoreOne, this]

/-- arity against place, members: a two-element disclosure whose digest is found in an `_sd` -/
theorem C12_arity_place_member (d : Disc) (p : String) (ms : List (String × J)) (sd : J)
    (hsd : aget "_sd" ms = some sd) (hc : sdContains sd d.digest = .ok true) (hk : d.key = none) :
    restoreOne d p (.obj ms) = .err .rejected := by
  have : ownSd d ms = .err .rejected := by simp [ownSd, hsd, hc, hk]
  simp [restoreOne, this]

/-- arity against place, elements: a three-element disclosure whose digest is found at `...` -/
theorem C12_arity_place_element (d : Disc) (k : String) (hk : d.key = some k) :
    elemHit d (.obj [("...", .str d.digest)]) = .err .rejected := by
  simp [elemHit, aget, hk]

/-- an unsupported `_sd_alg` name -/
theorem C12_sd_alg (s : String) (h : s ≠ "sha-256" ∧ s ≠ "sha-384" ∧ s ≠ "sha-512") :
    parseHashAlg s = .err .hashAlg := by
  simp [parseHashAlg, h.1, h.2.1, h.2.2]

/-- …makes the holder and the verifier reject, whatever the disclosures -/
theorem C12_sd_alg_holder (rt : Rt) (tok : String) (parts : Parts) (header claims : J) (s : String)
    (hp : sdJwtParts tok.toList = .ok parts) (hk : parts.kb = none)
    (hj : rt.jwtDecode (strOf parts.jwt) = .ok (header, claims))
    (ha : (jidx claims "_sd_alg").asStr = some s)
    (h : s ≠ "sha-256" ∧ s ≠ "sha-384" ∧ s ≠ "sha-512") :
    Holder.verify rt tok = .err .hashAlg := by
  simp [Holder.verify, Holder.verifyRaw, hp, hk, hj, ha, C12_sd_alg s h]

theorem C12_sd_alg_verifier (rt : Rt) (tok : String) (policy : Bool) (parts : Parts) (header claims : J)
    (s : String) (hp : sdJwtParts tok.toList = .ok parts) (hk : parts.kb = none)
    (hj : rt.jwtDecode (strOf parts.jwt) = .ok (header, claims))
    (hc : isNullJ (jidx claims "cnf") = true)
    (ha : (jidx claims "_sd_alg").asStr = some s)
    (h : s ≠ "sha-256" ∧ s ≠ "sha-384" ∧ s ≠ "sha-512") :
    Verifier.verify rt tok policy = .err .hashAlg := by
  simp [Verifier.verify, Verifier.verifyRaw, hp, hk, hj, hc, ha, C12_sd_alg s h]

/-! non-vacuity: concrete payloads with each embedding defect, two levels down -/
example : hasBadSd (.obj [("a", .arr [.obj [("_sd", .str "x")]])]) = true := by decide
example : hasBadPlaceholder (.obj [("a", .arr [.obj [("...", .str "g"), ("y", .null)]])]) = true := by decide
example : ¬ (embedded (.obj [("_sd", .arr [.str "g"]), ("a", .arr [.obj [("...", .str "g")]])])).Nodup := by decide

/-- **The embedding rules hold globally: payload AND the values of all presented disclosures.**
If the restorer accepts, then no `_sd` is a non-array and no placeholder has extra members
anywhere in the payload or in any decoded disclosure's value, and all digests embedded in the
payload and in all disclosure values together are pairwise distinct (one shared set — D17). -/
theorem C12_global (env : Env) (P : J) (L : List String) (r : J × List PathEntry)
    (h : restoreAll env P L = .ok r) :
    ∃ ds, decodeAll env L [] = .ok ds ∧ (embedded P ++ embeddedValues ds).Nodup ∧
      hasBadSd P = false ∧ hasBadPlaceholder P = false ∧
      ∀ d ∈ ds, hasBadSd d.value = false ∧ hasBadPlaceholder d.value = false :=
  restoreAll_ok_global env P L r h

/-- a defect inside the VALUE of any presented disclosure — referenced or not, wherever it
stands in the list — makes the restoration fail: a non-array `_sd`, a placeholder with extra
members, a digest that is also embedded in the payload -/
theorem C12_defect_in_value (env : Env) (P : J) (L : List String) (s : String) (hs : s ∈ L) (d : Disc)
    (hd : fromBase64 env s = .ok d)
    (hbad : hasBadSd d.value = true ∨ hasBadPlaceholder d.value = true ∨
      ∃ g ∈ embedded d.value, g ∈ embedded P) :
    ∀ r, restoreAll env P L ≠ .ok r := by
  intro r hok
  obtain ⟨ds, hL, hnd, _, _, hclean⟩ := restoreAll_ok_global env P L r hok
  obtain ⟨_, _, hto, _⟩ := decodeAll_ok env L [] ds hL (by simp [Distinct])
  obtain ⟨d', hd', hf⟩ := hto s hs
  rw [hd] at hf
  cases hf
  rcases hbad with hb | hb | ⟨g, hg1, hg2⟩
  · have := (hclean d hd').1; rw [hb] at this; cases this
  · have := (hclean d hd').2; rw [hb] at this; cases this
  · have hmem : g ∈ embeddedValues ds := by
      unfold embeddedValues
      simp only [List.mem_flatten, List.mem_map]
      exact ⟨embedded d.value, ⟨d, hd', rfl⟩, hg1⟩
    exact (List.nodup_append.mp hnd).2.2 g hg2 g hmem rfl


/-- **a disclosure string with any character outside the base64url alphabet is rejected** — `=`
padding, the standard alphabet's `+` and `/`, white space, anything: `Disclosure::from_base64` fails
at its first step, whatever the rest of the string is; so does a string whose length is 1 modulo 4.
(With `B64.dec_injective`: no two different strings decode to the same bytes, so a re-spelled
disclosure is never read as the original.) -/
theorem C12_foreign_character_rejected (c : Codec) (alg s : String) (ch : Char) (hin : ch ∈ s.toList)
    (hout : B64.val ch = none) : fromBase64 (c.env alg) s = .err .decoding := by
  have : (c.env alg).decodeDisc s = none := by
    simp [Codec.env, Codec.decodeDisc, B64.dec_rejects_foreign s.toList ch hin hout]
  simp [fromBase64, this]

example : B64.val '=' = none ∧ B64.val '+' = none ∧ B64.val '/' = none ∧ B64.val ' ' = none ∧
    B64.val '~' = none := by decide

/-- **a disclosure string whose length is 1 modulo 4 is rejected** — a dangling sextet carries fewer
than eight bits, so no byte string has that spelling; `Disclosure::from_base64` fails at its first
step. -/
theorem C12_dangling_character_rejected (c : Codec) (alg s : String) (hlen : s.toList.length % 4 = 1) :
    fromBase64 (c.env alg) s = .err .decoding := by
  have hd : B64.dec s.toList = none := by
    cases h : B64.dec s.toList with
    | none => rfl
    | some bs => exact absurd hlen (B64.dec_length s.toList bs h)
  have : (c.env alg).decodeDisc s = none := by simp [Codec.env, Codec.decodeDisc, hd]
  simp [fromBase64, this]

/-- **one spelling per disclosure**: two strings that the decoder maps to the same bytes are the same
string — trailing bits, padding or another alphabet never give a second text for a disclosure, so a
disclosure's digest (taken over the text) is determined by the bytes it decodes to. -/
theorem C12_one_spelling (s t : String) (bs : List UInt8) (hs : B64.dec s.toList = some bs)
    (ht : B64.dec t.toList = some bs) : s = t :=
  String.toList_injective (B64.dec_injective s.toList t.toList bs hs ht)

example : B64.dec "QQ".toList = some [65] ∧ B64.dec "QR".toList = none ∧ B64.dec "QQ==".toList = none ∧
    B64.dec "Q".toList = none := by decide
