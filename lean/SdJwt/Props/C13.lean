import SdJwt.Impl.Issuer
import SdJwt.Lemmas.IssuerL
import SdJwt.Lemmas.CodecL
import SdJwt.Lemmas.SdOrderInv
import SdJwt.Props.C01
import SdJwt.Lemmas.Shuffle
import SdJwt.Lemmas.IssueShuffled
import SdJwt.Lemmas.SdOrderChild
/-!
# C13 — salts, digests and decoys give no handle for linking or counting claims  (partial)

Statement: every disclosure carries its own fresh salt of at least 128 bits, so digests never
repeat; decoys come from a space too large to enumerate, number between 1 and the maximum, never
coincide with real digests and look like them; the order of digests in every digest list is
independent of the order of the claims they hide.

The truth of this property lives in the CSPRNG; the run observes it over long histories with the
property's own numbers. What the model can carry, with randomness as an explicit argument:
every disclosure gets its own draw (`C13_one_draw_per_path`); distinct draws give pairwise distinct
digests even for identical names and values (`C13_distinct`); composing with a fixed reordering
is a bijection on orders, so a uniformly shuffled list has the same distribution whatever the
marking order was (`C13_order_transfer`).
-/
open Impl Assoc

/-- the `i`-th listed path is hidden with the digest drawn for index `i`, and no other index:
the digests recorded for the disclosures are `mk start …, mk (start+1) …, …` in path order -/
theorem C13_one_draw_per_path (mk : Nat → Option String → J → String) :
    (start : Nat) → (c : J) → (ps : List String) → (c' : J) → (ds : List DiscSrc) →
    applyPaths mk start c ps = .ok (c', ds) →
    ds.length = ps.length ∧
    ∀ k (hk : k < ds.length), ds[k].digest = mk (start + k) ds[k].key ds[k].value
  | _, _, [], _, _, h => by
    simp [applyPaths] at h
    obtain ⟨_, rfl⟩ := h
    simp
  | start, c, p :: r, c', ds, h => by
    unfold applyPaths at h
    cases hb : buildDisclosure (mk start) c p with
    | panic => simp [hb] at h
    | err e => simp [hb] at h
    | ok x =>
      obtain ⟨c1, d⟩ := x
      simp only [hb] at h
      cases ha : applyPaths mk (start+1) c1 r with
      | panic => simp [ha] at h
      | err e => simp [ha] at h
      | ok y =>
        obtain ⟨c2, ds2⟩ := y
        simp only [ha] at h
        cases h
        obtain ⟨hl, hrest⟩ := C13_one_draw_per_path mk (start+1) c1 r _ _ ha
        refine ⟨by simp [hl], ?_⟩
        intro k hk
        cases k with
        | zero => simpa using buildDisclosure_digest (mk start) c c1 p d hb
        | succ k' =>
          have hk' : k' < ds2.length := by simpa using hk
          have := hrest k' hk'
          simpa [Nat.add_assoc, Nat.add_comm 1 k'] using this

/-- distinct draws ⇒ pairwise distinct digests, even for identical claim names and values and
across repeated issuance: if the digest function separates indices (fresh salt per disclosure,
collision-free hash), the digests of one issuance are pairwise distinct -/
theorem C13_distinct (mk : Nat → Option String → J → String)
    (hsep : ∀ i j n v n' v', i ≠ j → mk i n v ≠ mk j n' v') :
    (start : Nat) → (c : J) → (ps : List String) → (c' : J) → (ds : List DiscSrc) →
    applyPaths mk start c ps = .ok (c', ds) → (ds.map (·.digest)).Nodup
  | _, _, [], _, _, h => by
    simp [applyPaths] at h
    obtain ⟨_, rfl⟩ := h
    simp
  | start, c, p :: r, c', ds, h => by
    unfold applyPaths at h
    cases hb : buildDisclosure (mk start) c p with
    | panic => simp [hb] at h
    | err e => simp [hb] at h
    | ok x =>
      obtain ⟨c1, d⟩ := x
      simp only [hb] at h
      cases ha : applyPaths mk (start+1) c1 r with
      | panic => simp [ha] at h
      | err e => simp [ha] at h
      | ok y =>
        obtain ⟨c2, ds2⟩ := y
        simp only [ha] at h
        cases h
        have ih := C13_distinct mk hsep (start+1) c1 r _ _ ha
        obtain ⟨_, hall⟩ := C13_one_draw_per_path mk (start+1) c1 r _ _ ha
        have hd := buildDisclosure_digest (mk start) c c1 p d hb
        simp only [List.map_cons, List.nodup_cons]
        refine ⟨?_, ih⟩
        intro hm
        simp only [List.mem_map] at hm
        obtain ⟨d', hd', heq⟩ := hm
        obtain ⟨k, hk, rfl⟩ := List.getElem_of_mem hd'
        rw [hall k hk, hd] at heq
        exact hsep (start + 1 + k) start _ _ _ _ (by omega) heq

/-- order transfer: composing with a fixed permutation is injective on lists of positions — so if
the shuffle's output is uniformly distributed, it is uniformly distributed for every marking
order (the marking order only pre-composes a fixed reordering) -/
theorem C13_order_transfer {α : Type} (σ : List α → List α) (τ : List α → List α)
    (hτ : ∀ l, τ (σ l) = l) : Function.Injective σ := by
  intro a b h
  have := congrArg τ h
  simpa [hτ] using this



/-- **a salt carries every bit the generator returned**: `generate_salt(n)` is the base64url of the
`n` random bytes, decoding the salt gives those bytes back, and different bytes give different
salts — 16 bytes are 128 bits, in 22 characters -/
theorem C13_salt_carries_all_bits (rnd rnd' : List UInt8) :
    B64.dec (saltOf rnd).toList = some rnd ∧ (saltOf rnd = saltOf rnd' → rnd = rnd') ∧
    (saltOf rnd).toList.length = (4 * rnd.length + 2) / 3 := by
  refine ⟨by simp [saltOf, String.toList_ofList, B64.dec_enc], saltOf_injective rnd rnd', ?_⟩
  simp [saltOf, String.toList_ofList, B64.enc_length]

/-- **digests repeat only if the generator repeats a salt or SHA-2 collides**: if the digests of
two disclosures coincide — in one issuance or across issuances, for identical or different claims —
then the generator returned the same salt bytes for both (and name and value agree), or two
different byte strings with the same hash have been found -/
theorem C13_repeat_is_collision (c : Codec) (hc : ∀ j, c.parse (c.render j) = some j) (alg : String)
    (rnd rnd' : List UInt8) (k k' : Option String) (v v' : J)
    (h : c.hash alg (c.discString (saltOf rnd) k v) = c.hash alg (c.discString (saltOf rnd') k' v')) :
    (rnd = rnd' ∧ k = k' ∧ v = v') ∨ ∃ x y, x ≠ y ∧ c.sha alg x = c.sha alg y := by
  rcases digest_repeat c hc alg _ _ k k' v v' h with ⟨h1, h2, h3⟩ | h
  · exact .inl ⟨saltOf_injective _ _ h1, h2, h3⟩
  · exact .inr h

/-- **decoys have the form of real digests**: both are the base64url of a hash value, so under
`sha-256` (32 bytes) both are 43 characters of the base64url alphabet, whatever was hashed -/
theorem C13_decoy_same_form (c : Codec) (hlen : ∀ x, (c.sha "sha-256" x).length = 32)
    (rnd : List UInt8) (s : String) :
    (c.decoy rnd).toList.length = 43 ∧ (c.hash "sha-256" s).toList.length = 43 ∧
    (∀ ch ∈ (c.decoy rnd).toList, ∃ n, B64.val ch = some n) ∧
    (∀ ch ∈ (c.hash "sha-256" s).toList, ∃ n, B64.val ch = some n) := by
  simp only [Codec.decoy, Codec.hash, String.toList_ofList, B64.enc_length, hlen]
  exact ⟨trivial, trivial, B64.enc_alphabet _, B64.enc_alphabet _⟩

/-- a decoy coincides with a real digest only if SHA-2 collides or a disclosure string equals a
32-byte salt string (43 characters; a disclosure string is longer than that as soon as its JSON text
has more than 32 bytes) -/
theorem C13_decoy_vs_digest (c : Codec) (rnd : List UInt8) (s : String)
    (h : c.decoy rnd = c.hash "sha-256" s) :
    s = saltOf rnd ∨ ∃ x y, x ≠ y ∧ c.sha "sha-256" x = c.sha "sha-256" y := by
  simp only [Codec.decoy, Codec.hash] at h
  have h1 := B64.enc_injective _ _ (String.ofList_inj.mp h)
  by_cases he : utf8 (saltOf rnd) = utf8 s
  · exact .inl (utf8_injective _ _ he).symm
  · exact .inr ⟨_, _, he, h1⟩


/-- **the order of the digests in the digest lists of the signed claims carries nothing**: let `T'` be the
issued tree `T` with every `_sd` list that is visible in the payload permuted in any way (what the
issuer's final `shuffle_digests` does: `T.sdPermVis T'`). Then `T'` is conformant with pairwise distinct
digests like `T`; it has the same disclosures, the same hidden nodes, the same original claims and the
same projection on every selection; and the holder / verifier, given the payload of `T'` and the token's
disclosures (all of them, in any order), accept and return exactly the original claims — whatever the
permutation was. So the order is free to be drawn at random, and nothing a recipient computes depends
on it. -/
theorem C13_visible_order_irrelevant (env : Env) (T T' : MJ) (strs : List String)
    (hperm : T.sdPermVis T') (inv : TreeInv T)
    (hdec : ∀ s ∈ strs, ∃ d, fromBase64 env s = .ok d)
    (hnd : (strs.map env.hash).Nodup)
    (hacc : ∀ s ∈ strs, ∀ d, fromBase64 env s = .ok d →
      DOk T d ∧ ∃ x, (d.digest, x) ∈ T.hiddenE ∧ d.value = x.payload)
    (hall : ∀ g ∈ T.allMarks, ∃ s ∈ strs, env.hash s = g) :
    TreeInv T' ∧ T'.discs = T.discs ∧ T'.plain = T.plain ∧ (∀ S, T'.project S = T.project S) ∧
    ∃ c ps, restoreAll env T'.payload strs = .ok (c, ps) ∧ removeAll c = T.plain := by
  have inv' := TreeInv.sdPermVis hperm inv
  have hp : T'.plain = T.plain := MJ.project_sdPermVis _ T T' hperm
  refine ⟨inv', MJ.discs_sdPermVis T T' hperm, hp, fun S => MJ.project_sdPermVis S T T' hperm, ?_⟩
  obtain ⟨c, ps, h1, h2⟩ := C01_roundtrip_claims env T' strs inv' hdec hnd
    (fun s hs d hf => by
      obtain ⟨ok, x, hx, hv⟩ := hacc s hs d hf
      exact ⟨DOk.sdPermVis hperm ok, x, by rw [MJ.hiddenE_sdPermVis T T' hperm]; exact hx, hv⟩)
    (by rw [MJ.allMarks_sdPermVis T T' hperm]; exact hall)
  exact ⟨c, ps, h1, by rw [h2, hp]⟩

/-- non-vacuity: a tree with two hidden members whose digest list is written in the other order -/
example : (MJ.obj (.marked "a" "d1" (.leaf (.num 1 0)) (.marked "b" "d2" (.leaf (.num 2 0)) .nil)) (some ["d1", "d2", "decoy"])).sdPermVis
    (MJ.obj (.marked "a" "d1" (.leaf (.num 1 0)) (.marked "b" "d2" (.leaf (.num 2 0)) .nil)) (some ["decoy", "d2", "d1"])) := by
  refine ⟨_, _, rfl, ⟨_, rfl, _, rfl, rfl⟩, ?_⟩
  show List.Perm ["d1", "d2", "decoy"] ["decoy", "d2", "d1"]
  decide


/-- **the issuer's `shuffle_digests` on the claims it signs changes nothing a recipient computes.**
`shuffleJ σ` is `shuffle_digests` with the random permutation as a parameter (`Lemmas/Shuffle.lean`): every
`_sd` array replaced by `σ` of it, every member value and array element visited. For every conformant issued
tree `T` and every `σ` that returns a permutation of its argument, the shuffled payload is the payload of a tree
`T'` that differs from `T` only in the order of the visible digest lists (`MJ.shuffle_payload`), and so
(`C13_visible_order_irrelevant`) the holder / verifier, given the shuffled payload and the token's
disclosures in any order, accept and return exactly the original claims. The drawn order is irrelevant to
every recipient — which is what leaves the issuer free to draw it uniformly at random. -/
theorem C13_shuffle_changes_nothing (env : Env) (σ : List J → List J) (hσ : ∀ l, (σ l).Perm l)
    (T : MJ) (strs : List String) (inv : TreeInv T)
    (hdec : ∀ s ∈ strs, ∃ d, fromBase64 env s = .ok d)
    (hnd : (strs.map env.hash).Nodup)
    (hacc : ∀ s ∈ strs, ∀ d, fromBase64 env s = .ok d →
      DOk T d ∧ ∃ x, (d.digest, x) ∈ T.hiddenE ∧ d.value = x.payload)
    (hall : ∀ g ∈ T.allMarks, ∃ s ∈ strs, env.hash s = g) :
    ∃ c ps, restoreAll env (shuffleJ σ T.payload) strs = .ok (c, ps) ∧ removeAll c = T.plain := by
  obtain ⟨T', hperm, hpay⟩ := MJ.shuffle_payload σ hσ T inv.wf
  obtain ⟨_, _, _, _, c, ps, h1, h2⟩ := C13_visible_order_irrelevant env T T' strs hperm inv hdec hnd hacc hall
  exact ⟨c, ps, by rw [hpay]; exact h1, h2⟩

/-- `shuffle_digests` reaches a digest list below an object that has no `_sd` of its own and inside arrays
(the reversal stands for any permutation) -/
example : shuffleJ List.reverse (.obj [("a", .obj [("_sd", .arr [.str "x", .str "y"])]),
      ("l", .arr [.obj [("_sd", .arr [.str "p", .str "q", .str "r"])]])]) =
    .obj [("a", .obj [("_sd", .arr [.str "y", .str "x"])]),
      ("l", .arr [.obj [("_sd", .arr [.str "r", .str "q", .str "p"])]])] := by
  simp [shuffleJ, shuffleMems, shuffleElems]


/-- **the issuer with ALL its shuffles.** The crate shuffles the digest lists of a value right before hiding
it and the lists of the signed claims at the end; `IssueRun` is issuing at tree level with an arbitrary
permutation of the visible digest lists before every marking step and after the last one. Starting from
claims without digests: whatever permutations are drawn, the issued tree is conformant, stands for the same
claims, and the holder — given its payload and all of the issuer's disclosures in any order — returns
exactly those claims. Randomising the order of every digest list, top-level and nested, is invisible to
every recipient. -/
theorem C13_shuffled_issuance_round_trip (env : Env) (mk : Nat → Option String → J → String)
    (addr : List (List String × String)) (T Tn : MJ) (ds : List SDisc) (inv : TreeInv T)
    (hclean : T.deepStale = []) (hnomarks : T.allMarks = [])
    (h : IssueRun mk 0 addr T Tn ds) (strs : List String)
    (hstr : ∀ s ∈ strs, ∃ e ∈ ds, fromBase64 env s = .ok ⟨s, e.digest, e.key, e.value⟩)
    (hnd : (strs.map env.hash).Nodup)
    (hall : ∀ e ∈ ds, ∃ s ∈ strs, env.hash s = e.digest) :
    TreeInv Tn ∧ ∃ c ps, restoreAll env Tn.payload strs = .ok (c, ps) ∧ removeAll c = T.plain := by
  obtain ⟨invn, pln, _, amn, _⟩ := issueRun_inv mk addr 0 T Tn ds inv h
  obtain ⟨c, ps, h1, h2⟩ := issueRun_restore env mk addr T Tn ds inv hclean h strs hstr hnd
  refine ⟨invn, c, ps, h1, ?_⟩
  rw [h2, ← pln]
  apply MJ.project_congr
  intro g hg
  have hg' : g ∈ ds.map (·.digest) := by
    have := amn.subset hg
    simpa [hnomarks] using this
  obtain ⟨e, he, rfl⟩ := List.mem_map.mp hg'
  obtain ⟨s, hs, hh⟩ := hall e he
  show (strs.any fun s => decide (env.hash s = e.digest)) = true
  simp only [List.any_eq_true, decide_eq_true_eq]
  exact ⟨s, hs, hh⟩


/-- **what `build_disclosure` does before it hides a value is a step of `IssueRun`**: the value `x` at the
address `toks` is still in the clear; `shuffle_digests` on it (`shuffleJ σ`, any `σ` returning permutations)
gives the payload of a value `x'` that differs from `x` only in the order of its visible digest lists, and
the working tree with `x'` in the place of `x` differs from the working tree only in the order of visible
digest lists — exactly the permutation step `IssueRun` allows before a marking step. -/
theorem C13_hide_time_shuffle_is_a_run_step (σ : List J → List J) (hσ : ∀ l, (σ l).Perm l)
    (toks : List String) (T x : MJ) (hget : MJ.getDeep pI toks T = some x) (hwf : x.WF) :
    ∃ x', shuffleJ σ x.payload = x'.payload ∧ T.sdPermVis (MJ.replaceDeep pI toks T x') := by
  obtain ⟨x', hp, he⟩ := MJ.shuffle_payload σ hσ x hwf
  exact ⟨x', he, MJ.sdPermVis_replaceDeep pI x x' hp toks T hget⟩

/-- the same for every SELECTION of the disclosures (the verifier's side, C02 / C03): the shuffled payload with
any repetition-free, ancestor-closed or not, selection of the token's own disclosures is accepted and strips to
the same projection of the original claims as the unshuffled one -/
theorem C13_shuffle_changes_no_selection (env : Env) (σ : List J → List J) (hσ : ∀ l, (σ l).Perm l)
    (T : MJ) (strs : List String) (inv : TreeInv T)
    (hdec : ∀ s ∈ strs, ∃ d, fromBase64 env s = .ok d)
    (hnd : (strs.map env.hash).Nodup)
    (hacc : ∀ s ∈ strs, ∀ d, fromBase64 env s = .ok d →
      DOk T d ∧ ∃ x, (d.digest, x) ∈ T.hiddenE ∧ d.value = x.payload) :
    ∃ c ps, restoreAll env (shuffleJ σ T.payload) strs = .ok (c, ps) ∧
      removeAll c = T.project (fun h => strs.any (fun s => env.hash s = h)) := by
  obtain ⟨T', hperm, hpay⟩ := MJ.shuffle_payload σ hσ T inv.wf
  obtain ⟨c, ps, h1, h2⟩ := restoreAll_complete env T' strs (TreeInv.sdPermVis hperm inv) hdec hnd
    (fun s hs d hf => by
      obtain ⟨ok, x, hx, hv⟩ := hacc s hs d hf
      exact ⟨DOk.sdPermVis hperm ok, x, by rw [MJ.hiddenE_sdPermVis T T' hperm]; exact hx, hv⟩)
  exact ⟨c, ps, by rw [hpay]; exact h1, by rw [h2]; exact MJ.project_sdPermVis _ T T' hperm⟩
