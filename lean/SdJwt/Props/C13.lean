import SdJwt.Impl.Issuer
import SdJwt.Lemmas.IssuerL
/-!
# C13 — salts, digests and decoys give no handle for linking or counting claims  (partial)

Statement: every disclosure carries its own fresh salt of at least 128 bits, so digests never
repeat; decoys come from a space too large to enumerate, number between 1 and the maximum, never
coincide with real digests and look like them; the order of digests in every digest list is
independent of the order of the claims they hide.

The truth of this property lives in the CSPRNG; the run observes it over long histories with the
property's own numbers. What the model can carry, with randomness as an explicit argument:
every disclosure gets its own draw (`C13_one_draw_per_path`); distinct draws give pairwise distinct
digests even for identical names and values (`C13_distinct`); composing with a fixed reordering
is a bijection on orders, so a uniformly shuffled list has the same distribution whatever the
marking order was (`C13_order_transfer`).
-/
open Impl Assoc

/-- the `i`-th listed path is hidden with the digest drawn for index `i`, and no other index:
the digests recorded for the disclosures are `mk start …, mk (start+1) …, …` in path order -/
theorem C13_one_draw_per_path (mk : Nat → Option String → J → String) :
    (start : Nat) → (c : J) → (ps : List String) → (c' : J) → (ds : List DiscSrc) →
    applyPaths mk start c ps = .ok (c', ds) →
    ds.length = ps.length ∧
    ∀ k (hk : k < ds.length), ds[k].digest = mk (start + k) ds[k].key ds[k].value
  | _, _, [], _, _, h => by
    simp [applyPaths] at h
    obtain ⟨_, rfl⟩ := h
    simp
  | start, c, p :: r, c', ds, h => by
    unfold applyPaths at h
    cases hb : buildDisclosure (mk start) c p with
    | panic => simp [hb] at h
    | err e => simp [hb] at h
    | ok x =>
      obtain ⟨c1, d⟩ := x
      simp only [hb] at h
      cases ha : applyPaths mk (start+1) c1 r with
      | panic => simp [ha] at h
      | err e => simp [ha] at h
      | ok y =>
        obtain ⟨c2, ds2⟩ := y
        simp only [ha] at h
        cases h
        obtain ⟨hl, hrest⟩ := C13_one_draw_per_path mk (start+1) c1 r _ _ ha
        refine ⟨by simp [hl], ?_⟩
        intro k hk
        cases k with
        | zero => simpa using buildDisclosure_digest (mk start) c c1 p d hb
        | succ k' =>
          have hk' : k' < ds2.length := by simpa using hk
          have := hrest k' hk'
          simpa [Nat.add_assoc, Nat.add_comm 1 k'] using this

/-- distinct draws ⇒ pairwise distinct digests, even for identical claim names and values and
across repeated issuance: if the digest function separates indices (fresh salt per disclosure,
collision-free hash), the digests of one issuance are pairwise distinct -/
theorem C13_distinct (mk : Nat → Option String → J → String)
    (hsep : ∀ i j n v n' v', i ≠ j → mk i n v ≠ mk j n' v') :
    (start : Nat) → (c : J) → (ps : List String) → (c' : J) → (ds : List DiscSrc) →
    applyPaths mk start c ps = .ok (c', ds) → (ds.map (·.digest)).Nodup
  | _, _, [], _, _, h => by
    simp [applyPaths] at h
    obtain ⟨_, rfl⟩ := h
    simp
  | start, c, p :: r, c', ds, h => by
    unfold applyPaths at h
    cases hb : buildDisclosure (mk start) c p with
    | panic => simp [hb] at h
    | err e => simp [hb] at h
    | ok x =>
      obtain ⟨c1, d⟩ := x
      simp only [hb] at h
      cases ha : applyPaths mk (start+1) c1 r with
      | panic => simp [ha] at h
      | err e => simp [ha] at h
      | ok y =>
        obtain ⟨c2, ds2⟩ := y
        simp only [ha] at h
        cases h
        have ih := C13_distinct mk hsep (start+1) c1 r _ _ ha
        obtain ⟨_, hall⟩ := C13_one_draw_per_path mk (start+1) c1 r _ _ ha
        have hd := buildDisclosure_digest (mk start) c c1 p d hb
        simp only [List.map_cons, List.nodup_cons]
        refine ⟨?_, ih⟩
        intro hm
        simp only [List.mem_map] at hm
        obtain ⟨d', hd', heq⟩ := hm
        obtain ⟨k, hk, rfl⟩ := List.getElem_of_mem hd'
        rw [hall k hk, hd] at heq
        exact hsep (start + 1 + k) start _ _ _ _ (by omega) heq

/-- order transfer: composing with a fixed permutation is injective on lists of positions — so if
the shuffle's output is uniformly distributed, it is uniformly distributed for every marking
order (the marking order only pre-composes a fixed reordering) -/
theorem C13_order_transfer {α : Type} (σ : List α → List α) (τ : List α → List α)
    (hτ : ∀ l, τ (σ l) = l) : Function.Injective σ := by
  intro a b h
  have := congrArg τ h
  simpa [hτ] using this

