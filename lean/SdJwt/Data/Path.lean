/-!
# `format_path` (utils.rs): JSON-pointer paths with RFC 6901 escaping of each segment (D20)
-/
namespace Path

/-- `key.replace('~', "~0").replace('/', "~1")` -/
def escapeL : List Char → List Char
  | [] => []
  | c :: r => if c = '~' then '~' :: '0' :: escapeL r
              else if c = '/' then '~' :: '1' :: escapeL r
              else c :: escapeL r

def escapeSeg (k : String) : String := String.ofList (escapeL k.toList)

/-- `format_path(parent_path, key)` -/
def fmtPath (p k : String) : String :=
  if p = "" then "/" ++ escapeSeg k else p ++ "/" ++ escapeSeg k

/-- inverse of `escapeL` on its image (`~1` ↦ `/`, `~0` ↦ `~`), as RFC 6901 decodes a token -/
def unescapeL : List Char → List Char
  | [] => []
  | '~' :: '0' :: r => '~' :: unescapeL r
  | '~' :: '1' :: r => '/' :: unescapeL r
  | c :: r => c :: unescapeL r

end Path
