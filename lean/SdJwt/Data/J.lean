/-!
# JSON values as the crate sees them

`serde_json` is built without `preserve_order`, so every object is a `BTreeMap<String, Value>`:
member order is not observable, keys are unique and iterate in byte-wise (= code point) order.
Objects are therefore modelled as association lists kept sorted by `String.<`, and Lean `=` on
`J` is `==` on `serde_json::Value` (for the number forms the generators produce).

Numbers are opaque to every modelled function: `num m e` is the decimal `m · 10^-e`.
-/

inductive J where
  | null
  | bool (b : Bool)
  | num (m : Int) (e : Nat)
  | str (s : String)
  | arr (xs : List J)
  | obj (ms : List (String × J))
  deriving Repr, Inhabited, BEq

namespace J

def isObj : J → Bool
  | .obj _ => true
  | _ => false

def isArr : J → Bool
  | .arr _ => true
  | _ => false

def isStr : J → Bool
  | .str _ => true
  | _ => false

/-- `Value::as_str` -/
def asStr : J → Option String
  | .str s => some s
  | _ => none

/-- scalars: everything the tree walks treat as a leaf -/
def scalar : J → Prop
  | .arr _ => False
  | .obj _ => False
  | _ => True

instance : DecidablePred scalar := fun j => by
  cases j <;> simp [scalar] <;> infer_instance

end J

/-! ## Sorted association lists (the `BTreeMap` of an object) -/
namespace Assoc
variable {α : Type}

/-- `Map::get` -/
def aget (k : String) : List (String × α) → Option α
  | [] => none
  | (k', v) :: r => if k = k' then some v else aget k r

/-- `Map::insert`: sorted insert, replacing an existing binding -/
def ains (k : String) (v : α) : List (String × α) → List (String × α)
  | [] => [(k, v)]
  | (k', v') :: r =>
    if k < k' then (k, v) :: (k', v') :: r
    else if k = k' then (k, v) :: r
    else (k', v') :: ains k v r

/-- `Map::remove` (the map without the binding) -/
def adel (k : String) : List (String × α) → List (String × α)
  | [] => []
  | (k', v') :: r => if k = k' then r else (k', v') :: adel k r

def keys (l : List (String × α)) : List String := l.map (·.1)

/-- all keys strictly greater than `k` -/
def AllGt (k : String) : List (String × α) → Prop
  | [] => True
  | (k', _) :: r => k < k' ∧ AllGt k r

/-- strictly sorted by key (hence unique keys) -/
def Sorted : List (String × α) → Prop
  | [] => True
  | (k, _) :: r => AllGt k r ∧ Sorted r

/-- build a map from arbitrary bindings; later bindings win (both JSON parsers do that) -/
def ofList (l : List (String × α)) : List (String × α) :=
  l.foldl (fun acc kv => ains kv.1 kv.2 acc) []

end Assoc
