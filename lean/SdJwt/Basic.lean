def hello := "world"
