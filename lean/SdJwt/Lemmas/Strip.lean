import SdJwt.Impl.Restore
import SdJwt.Spec.Marked
import SdJwt.Lemmas.Assoc
/-! `remove_digests` applied to a holder view is the projection: `removeAll (hview S T) = project S T`. -/
open Assoc Spec
namespace Impl

theorem removeM_ains_sd (v : J) : (l : List (String × J)) →
    removeAll.removeM (ains "_sd" v l) = removeAll.removeM l
  | [] => by simp [ains, removeAll.removeM]
  | (k', v') :: r => by
    unfold ains
    split
    · simp [removeAll.removeM]
    · split
      · rename_i h; subst h; simp [removeAll.removeM]
      · rename_i h1 h2
        have : k' ≠ "_sd" := fun e => h2 e.symm
        simp [removeAll.removeM, this, removeM_ains_sd v r]

theorem removeM_withSd (sd : Option (List String)) (l : List (String × J)) :
    removeAll.removeM (withSd sd l) = removeAll.removeM l := by
  cases sd with
  | none => rfl
  | some ds => exact removeM_ains_sd _ l

theorem aget_dots_hview (S : String → Bool) : (ms : MMems) → ms.WF → aget "..." (ms.hview S) = none
  | .nil, _ => rfl
  | .clear k x r, wf => by
      simp only [MMems.WF] at wf
      have : "..." ≠ k := fun e => wf.2.1 e.symm
      simp [MMems.hview, aget, this, aget_dots_hview S r wf.2.2.2.2]
  | .marked k g x r, wf => by
      simp only [MMems.WF] at wf
      have : "..." ≠ k := fun e => wf.2.1 e.symm
      simp only [MMems.hview]
      split
      · simp [aget, this, aget_dots_hview S r wf.2.2.2.2]
      · exact aget_dots_hview S r wf.2.2.2.2

theorem aget_dots_withSd (sd : Option (List String)) (l : List (String × J)) :
    aget "..." (withSd sd l) = aget "..." l := by
  cases sd with
  | none => rfl
  | some ds => exact aget_ains_ne _ (by decide) l

/-- a shown node is never mistaken for a placeholder -/
theorem not_placeholderLike_hview (S : String → Bool) : (T : MJ) → T.WF →
    isPlaceholderLike (T.hview S) = false
  | .leaf j, wf => by cases j <;> simp_all [MJ.hview, isPlaceholderLike, MJ.WF, J.scalar]
  | .arr xs, _ => by simp [MJ.hview, isPlaceholderLike]
  | .obj ms sd, wf => by
      simp only [MJ.WF] at wf
      simp [MJ.hview, isPlaceholderLike, aget_dots_withSd, aget_dots_hview S ms wf.1]

theorem placeholderLike_placeholder (g : String) : isPlaceholderLike (placeholder g) = true := by
  simp [placeholder, isPlaceholderLike, aget]

mutual
theorem MJ.removeAll_hview (S : String → Bool) : (T : MJ) → T.WF →
    removeAll (T.hview S) = T.project S
  | .leaf j, wf => by cases j <;> simp_all [MJ.hview, MJ.project, removeAll, MJ.WF, J.scalar]
  | .arr xs, wf => by
      simp only [MJ.WF] at wf
      simp [MJ.hview, MJ.project, removeAll, MElems.removeL_hview S xs wf]
  | .obj ms sd, wf => by
      simp only [MJ.WF] at wf
      simp [MJ.hview, MJ.project, removeAll, removeM_withSd, MMems.removeM_hview S ms wf.1]
theorem MElems.removeL_hview (S : String → Bool) : (xs : MElems) → xs.WF →
    removeAll.removeL (xs.hview S) = xs.project S
  | .nil, _ => by simp [MElems.hview, MElems.project, removeAll.removeL]
  | .clear x r, wf => by
      simp only [MElems.WF] at wf
      simp [MElems.hview, MElems.project, removeAll.removeL, not_placeholderLike_hview S x wf.1,
        MJ.removeAll_hview S x wf.1, MElems.removeL_hview S r wf.2]
  | .marked g x r, wf => by
      simp only [MElems.WF] at wf
      simp only [MElems.hview, MElems.project]
      split
      · simp [removeAll.removeL, not_placeholderLike_hview S x wf.1,
          MJ.removeAll_hview S x wf.1, MElems.removeL_hview S r wf.2]
      · simp [removeAll.removeL, placeholderLike_placeholder, MElems.removeL_hview S r wf.2]
  | .decoy g r, wf => by
      simp only [MElems.WF] at wf
      simp [MElems.hview, MElems.project, removeAll.removeL, placeholderLike_placeholder,
        MElems.removeL_hview S r wf]
theorem MMems.removeM_hview (S : String → Bool) : (ms : MMems) → ms.WF →
    removeAll.removeM (ms.hview S) = ms.project S
  | .nil, _ => by simp [MMems.hview, MMems.project, removeAll.removeM]
  | .clear k x r, wf => by
      simp only [MMems.WF] at wf
      simp [MMems.hview, MMems.project, removeAll.removeM, wf.1, MJ.removeAll_hview S x wf.2.2.1,
        MMems.removeM_hview S r wf.2.2.2.2]
  | .marked k g x r, wf => by
      simp only [MMems.WF] at wf
      simp only [MMems.hview, MMems.project]
      split
      · simp [removeAll.removeM, wf.1, MJ.removeAll_hview S x wf.2.2.1,
          MMems.removeM_hview S r wf.2.2.2.2]
      · exact MMems.removeM_hview S r wf.2.2.2.2
end

end Impl
