import SdJwt.Lemmas.Finish
import SdJwt.Lemmas.KB
import SdJwt.Impl.Flows
/-!
# Issuer → wire → holder, in one statement

`Holder.verify` applied to the serialisation of what `encode` produced returns the header, the
original claims (plus `cnf` for a bound token) and a path list.  Everything below the JSON level
is the runtime record `Rt`; the only thing assumed of it is that the JWT library returns the
header and payload that were signed, and that each disclosure string decodes to the disclosure it
was made from and hashes to its digest.
-/
open Assoc Spec
namespace Impl

/-! ### the wire format -/

theorem splitOn_joined (c : Char) : (ds : List (List Char)) → (a : List Char) → c ∉ a →
    (∀ d ∈ ds, c ∉ d) → splitOn c (a ++ (ds.map (fun d => c :: d)).flatten) = a :: ds
  | [], a, ha, _ => by simpa using splitOn_of_not_mem c a ha
  | d :: r, a, ha, hd => by
    simp only [List.map_cons, List.flatten_cons, List.cons_append]
    rw [splitOn_prefix c a _ ha, splitOn_joined c r d (hd d (by simp)) (fun x hx => hd x (by simp [hx]))]

/-- an assembled presentation without key binding splits into exactly its parts -/
theorem sdJwtParts_assemble (jwt : String) (strs : List String) (hj : '~' ∉ jwt.toList)
    (hs : ∀ s ∈ strs, '~' ∉ s.toList) :
    sdJwtParts (assemble jwt strs).toList =
      .ok { jwt := jwt.toList, disclosures := strs.map (·.toList), kb := none } := by
  have hsplit : splitOn '~' (assemble jwt strs).toList = jwt.toList :: (strs.map (·.toList) ++ [[]]) := by
    rw [toList_assemble]
    have : (jwt.toList ++ (strs.map (fun d => '~' :: d.toList)).flatten) ++ ['~'] =
        (jwt.toList ++ ((strs.map (·.toList)).map (fun d => '~' :: d)).flatten) ++ '~' :: [] := by
      simp [List.map_map, Function.comp_def]
    rw [this, splitOn_append_sep '~' _ [] (by simp),
      splitOn_joined '~' (strs.map (·.toList)) jwt.toList hj (by
        intro d hd
        obtain ⟨s, hs', rfl⟩ := List.mem_map.mp hd
        exact hs s hs')]
    rfl
  unfold sdJwtParts
  simp only [hsplit]
  have hlen : (jwt.toList :: (strs.map (·.toList) ++ [[]])).length = strs.length + 2 := by simp
  have hlast : (jwt.toList :: (strs.map (·.toList) ++ [[]])).getLast? = some [] := by
    rw [List.getLast?_cons, List.getLast?_append]; simp
  have htake : ((jwt.toList :: (strs.map (·.toList) ++ [[]])).drop 1).take (strs.length + 2 - 2) =
      strs.map (·.toList) := by
    simp
  simp only [hlen, hlast, htake, Option.getD_some, ne_eq, not_true_eq_false, and_false, if_false]
  by_cases hn : strs.length + 2 > 2
  · simp [hn]
  · have : strs = [] := by
      cases strs with
      | nil => rfl
      | cons a r => simp at hn
    subst this
    simp

/-! ### `remove_digests` -/

/-- drop a top-level `_sd_alg` member -/
def dropAlg : J → J
  | .obj l => .obj (adel "_sd_alg" l)
  | j => j

theorem removeDigests_eq (c : J) : removeDigests c = dropAlg (removeAll c) := by
  cases c with
  | obj ms => rw [removeDigests_obj]; simp [removeAll, dropAlg]
  | arr xs => simp [removeDigests, removeAll, dropAlg]
  | null => simp [removeDigests, removeAll, dropAlg]
  | bool b => simp [removeDigests, removeAll, dropAlg]
  | num m e => simp [removeDigests, removeAll, dropAlg]
  | str s => simp [removeDigests, removeAll, dropAlg]

theorem sorted_projectS (S : String → Bool) : (ms : MMems) → ms.WF → Sorted (ms.project S)
  | .nil, _ => trivial
  | .clear k x r, wf => by
    simp only [MMems.WF] at wf
    exact ⟨keysGt_project S k r wf.2.2.2.1, sorted_projectS S r wf.2.2.2.2⟩
  | .marked k dg x r, wf => by
    simp only [MMems.WF] at wf
    simp only [MMems.project]
    split
    · exact ⟨keysGt_project S k r wf.2.2.2.1, sorted_projectS S r wf.2.2.2.2⟩
    · exact sorted_projectS S r wf.2.2.2.2

theorem aget_project_none (S : String → Bool) (k : String) : (ms : MMems) → k ∉ ms.keys →
    aget k (ms.project S) = none
  | .nil, _ => rfl
  | .clear k' x r, h => by
    simp only [MMems.keys, List.mem_cons, not_or] at h
    simp [MMems.project, aget, h.1, aget_project_none S k r h.2]
  | .marked k' dg x r, h => by
    simp only [MMems.keys, List.mem_cons, not_or] at h
    simp only [MMems.project]
    split
    · simp [aget, h.1, aget_project_none S k r h.2]
    · exact aget_project_none S k r h.2

theorem aget_hview_none (S : String → Bool) (k : String) : (ms : MMems) → k ∉ ms.keys →
    aget k (ms.hview S) = none
  | .nil, _ => rfl
  | .clear k' x r, h => by
    simp only [MMems.keys, List.mem_cons, not_or] at h
    simp [MMems.hview, aget, h.1, aget_hview_none S k r h.2]
  | .marked k' dg x r, h => by
    simp only [MMems.keys, List.mem_cons, not_or] at h
    simp only [MMems.hview]
    split
    · simp [aget, h.1, aget_hview_none S k r h.2]
    · exact aget_hview_none S k r h.2

theorem aget_hview_clear (S : String → Bool) (k : String) (x : MJ) :
    (ms : MMems) → ms.WF → k ∉ ms.keys → aget k ((ms.insClear k x).hview S) = some (x.hview S) := by
  intro ms wf hk
  rw [hview_insClear S k x ms wf hk, aget_ains_self]

end Impl

namespace Impl

/-- the claims a holder expects back: the original members, plus `cnf` for a bound token -/
def expectedClaims (ms : MMems) (cnf : Option MJ) : J :=
  match cnf with
  | none => .obj (ms.project (fun _ => true))
  | some X => .obj (ains "cnf" X.plain (ms.project (fun _ => true)))

theorem project_plain_of_no_marks (S : String → Bool) (x : MJ) (h : x.allMarks = []) :
    x.project S = x.plain := by
  apply MJ.project_congr
  intro g hg
  simp [h] at hg

/-- the members after `cnf` has been set (if it is) -/
def cnfIns (cnf : Option MJ) (S : String → Bool) (l : List (String × J)) : List (String × J) :=
  match cnf with
  | none => l
  | some X => ains "cnf" (X.project S) l

theorem expected_eq (ms : MMems) (cnf : Option MJ) (S : String → Bool)
    (hX : ∀ X, cnf = some X → X.WF ∧ X.digests = []) :
    J.obj (cnfIns cnf S (ms.project (fun _ => true))) = expectedClaims ms cnf := by
  cases cnf with
  | none => rfl
  | some X =>
    obtain ⟨hXwf, hXd⟩ := hX X rfl
    simp [cnfIns, expectedClaims, project_plain_of_no_marks _ X (no_digests X hXwf hXd).1]

/-- step 1 of the tail: decoys -/
theorem finish_step1 (msn : MMems) (sdn : Option (List String)) (decoys : Option (List String))
    (invn : TreeInv (.obj msn sdn))
    (hdec : ∀ l, decoys = some l → l.Nodup ∧ (∀ g ∈ l, g ∉ (MJ.obj msn sdn).digests)) :
    ∃ sd1, decoyed (.obj msn sdn) decoys = MJ.obj msn sd1 ∧ TreeInv (.obj msn sd1) ∧
      (∀ g ∈ (MJ.obj msn sd1).deepStale, g ∈ (MJ.obj msn sdn).deepStale ∨ g ∈ decoys.getD []) := by
  cases decoys with
  | none => exact ⟨sdn, rfl, invn, fun g hg => .inl hg⟩
  | some l =>
    obtain ⟨hl1, hl2⟩ := hdec l rfl
    obtain ⟨i1, i2⟩ := withDecoys_inv msn sdn l invn hl1 hl2
    exact ⟨some (sdn.getD [] ++ l), rfl, i1, by simpa using i2⟩

/-- steps 2 and 3 of the tail: `_sd_alg`, `cnf` -/
theorem finish_step23 (msn : MMems) (sdn sd1 : Option (List String)) (decoys : Option (List String))
    (cnf : Option MJ) (wfn : msn.WF) (inv1 : TreeInv (.obj msn sd1))
    (hT1 : decoyed (.obj msn sdn) decoys = MJ.obj msn sd1)
    (hk1n : "_sd_alg" ∉ msn.keys) (hk2n : "cnf" ∉ msn.keys)
    (hX : ∀ X, cnf = some X → X.WF ∧ X.digests = []) :
    ∃ msF, finish (.obj msn sdn) decoys true cnf = .obj msF sd1 ∧ TreeInv (.obj msF sd1) ∧
      (MJ.obj msF sd1).discs = (MJ.obj msn sd1).discs ∧
      (MJ.obj msF sd1).allMarks = (MJ.obj msn sd1).allMarks ∧
      (MJ.obj msF sd1).deepStale = (MJ.obj msn sd1).deepStale ∧
      aget "_sd_alg" (msF.hview (fun _ => false)) = some (.str "sha-256") ∧
      (∀ S : String → Bool, adel "_sd_alg" (msF.project S) = cnfIns cnf S (msn.project S)) ∧
      msF.paths "" = msn.paths "" ∧
      aget "cnf" (msF.hview (fun _ => false)) = cnf.map (·.payload) := by
  let alg : MJ := .leaf (.str "sha-256")
  have halgwf : alg.WF := by simp [alg, MJ.WF, J.scalar]
  obtain ⟨inv2, hdiscs2, hmarks2, hst2, _⟩ :=
    insTop_inv msn sd1 "_sd_alg" alg inv1 hk1n (by decide) (by decide) halgwf rfl
  have wf2 : (msn.insClear "_sd_alg" alg).WF := by have := inv2.wf; simp only [MJ.WF] at this; exact this.1
  have hk3 : "cnf" ∉ (msn.insClear "_sd_alg" alg).keys := by
    rw [mem_keys_insClear]
    intro hh
    rcases hh with hh | hh
    · exact absurd hh (by decide)
    · exact hk2n hh
  have hdel : ∀ S : String → Bool,
      adel "_sd_alg" (ains "_sd_alg" (alg.project S) (msn.project S)) = msn.project S :=
    fun S => adel_ains _ (aget_project_none S "_sd_alg" msn hk1n)
  cases cnf with
  | none =>
    refine ⟨msn.insClear "_sd_alg" alg, ?_, inv2, hdiscs2, hmarks2, hst2, ?_, ?_,
      paths_insClear "_sd_alg" alg "" rfl msn, ?_⟩
    rotate_right
    · rw [hview_insClear _ "_sd_alg" alg msn wfn hk1n, aget_ains_ne _ (by decide)]
      exact aget_hview_none _ "cnf" msn hk2n
    · simp only [finish, hT1, if_true, MJ.insTop, cnfTop]; rfl
    · exact aget_hview_clear _ "_sd_alg" alg msn wfn hk1n
    · intro S
      rw [project_insClear S "_sd_alg" alg msn wfn hk1n]
      exact hdel S
  | some X =>
    obtain ⟨hXwf, hXd⟩ := hX X rfl
    obtain ⟨inv3, hdiscs3, hmarks3, hst3, _⟩ :=
      insTop_inv (msn.insClear "_sd_alg" alg) sd1 "cnf" X inv2 hk3 (by decide) (by decide) hXwf hXd
    refine ⟨(msn.insClear "_sd_alg" alg).insClear "cnf" X, ?_, inv3,
      hdiscs3.trans hdiscs2, hmarks3.trans hmarks2, hst3.trans hst2, ?_, ?_,
      (paths_insClear "cnf" X "" (no_digests X hXwf hXd).1 _).trans (paths_insClear "_sd_alg" alg "" rfl msn),
      by rw [hview_insClear _ "cnf" X _ wf2 hk3, aget_ains_self]; rfl⟩
    · simp only [finish, hT1, if_true, MJ.insTop, cnfTop]; rfl
    · rw [hview_insClear _ "cnf" X _ wf2 hk3, aget_ains_ne _ (by decide)]
      exact aget_hview_clear _ "_sd_alg" alg msn wfn hk1n
    · intro S
      rw [project_insClear S "cnf" X _ wf2 hk3, project_insClear S "_sd_alg" alg msn wfn hk1n,
        adel_ains_ne "_sd_alg" "cnf" _ _ (sorted_ains _ _ _ (sorted_projectS S msn wfn)) (by decide),
        hdel S]
      rfl

/-- what issuing establishes, for ANY selection `strs` of the issuer's disclosures in any order:
the JWT carries the payload of a conformant object `F` (the finished tree) that declares
`sha-256`, the restorer accepts the selection on it, and what it returns strips — `_sd_alg`
dropped — to the issued claims projected on the selection (plus `cnf`) -/
theorem issued_core (rt : Rt) (mk : Nat → Option String → J → String)
    (paths : List String) (addr : List (List String × String)) (ms : MMems) (Tn : MJ)
    (ds : List SDisc) (decoys : Option (List String)) (cnf : Option MJ) (jwt : String) (header : J)
    (strs : List String)
    (wf : (MJ.obj ms none).WF) (hplain : (MJ.obj ms none).digests = [])
    (hk1 : "_sd_alg" ∉ ms.keys) (hk2 : "cnf" ∉ ms.keys)
    (hp : ParsedAll paths addr) (h : markAll mk 0 addr (.obj ms none) = some (Tn, ds)) (hne : ds ≠ [])
    (hdec : ∀ l, decoys = some l → l.Nodup ∧ (∀ g ∈ l, g ∉ Tn.digests))
    (hX : ∀ X, cnf = some X → X.WF ∧ X.digests = [])
    (hsig : ∀ payload dsrc,
      encode (MJ.obj ms none).payload paths mk decoys (cnf.map (·.payload)) = .ok (payload, dsrc) →
      rt.jwtDecode jwt = .ok (header, payload))
    (hstr : ∀ s ∈ strs, ∃ e ∈ ds,
      fromBase64 (rt.env "sha-256") s = .ok ⟨s, e.digest, e.key, e.value⟩)
    (hnd : (strs.map (rt.hash "sha-256")).Nodup) :
    ∃ msn sdn msF sd1 c ps L, Tn = .obj msn sdn ∧
      rt.jwtDecode jwt = .ok (header, (MJ.obj msF sd1).payload) ∧
      aget "_sd_alg" (msF.hview (fun _ => false)) = some (.str "sha-256") ∧
      aget "cnf" (msF.hview (fun _ => false)) = cnf.map (·.payload) ∧
      restoreAll (rt.env "sha-256") (MJ.obj msF sd1).payload strs = .ok (c, ps) ∧
      dropAlg (removeAll c) = .obj (cnfIns cnf (fun g => strs.any fun s => decide (rt.hash "sha-256" s = g))
        (msn.project (fun g => strs.any fun s => decide (rt.hash "sha-256" s = g)))) ∧
      (∀ d ∈ L, ∃ s ∈ strs, fromBase64 (rt.env "sha-256") s = .ok d) ∧
      (∀ s ∈ strs, ∃ d ∈ L, fromBase64 (rt.env "sha-256") s = .ok d) ∧
      PathsOK (.obj msF sd1) L ps ∧ (MJ.obj msF sd1).paths "" = (MJ.obj msn sdn).paths "" ∧
      (MJ.obj msF sd1).allMarks = (MJ.obj msn sdn).allMarks := by
  obtain ⟨hm0, _, hst0⟩ := no_digests _ wf hplain
  have inv : TreeInv (.obj ms none) := ⟨wf, by rw [hplain]; exact List.nodup_nil, by rw [hm0]; exact List.nodup_nil⟩
  obtain ⟨invn, hst, pm, pdi, _⟩ := markAll_inv mk addr 0 (.obj ms none) Tn ds inv h
  obtain ⟨hobj, hkeys⟩ := markAll_top mk addr 0 (.obj ms none) Tn ds h
  have henc := encode_tree mk paths addr ms none Tn ds decoys cnf wf hp h hk1 hk2
  obtain ⟨msn, sdn, rfl⟩ := MJ.eq_obj_of_isObj Tn (by rw [hobj]; rfl)
  simp only [MJ.topKeys] at hkeys
  have hk1n : "_sd_alg" ∉ msn.keys := by rw [hkeys]; exact hk1
  have hk2n : "cnf" ∉ msn.keys := by rw [hkeys]; exact hk2
  have hdsne : (!ds.isEmpty) = true := by cases ds with
    | nil => exact absurd rfl hne
    | cons a r => rfl
  rw [hdsne] at henc
  have hjwt := hsig _ _ henc
  have wfn := invn.wf
  simp only [MJ.WF] at wfn
  obtain ⟨sd1, hT1, inv1, hst1⟩ := finish_step1 msn sdn decoys invn hdec
  obtain ⟨msF, hF, invF, hdiscsF, hmarksF, hstF, halgF, hprojF, hpathsF, hcnfF⟩ :=
    finish_step23 msn sdn sd1 decoys cnf wfn.1 inv1 hT1 hk1n hk2n hX
  have hdiscs1 : (MJ.obj msn sd1).discs = (MJ.obj msn sdn).discs := rfl
  rw [hF] at hjwt
  have hT0stale : ∀ g, g ∉ (MJ.obj ms none).deepStale := by simp [hst0]
  have hstrF : ∀ s ∈ strs, ∃ e ∈ (MJ.obj msF sd1).discs, e.digest ∉ (MJ.obj msF sd1).deepStale ∧
      fromBase64 (rt.env "sha-256") s = .ok ⟨s, e.digest, e.key, e.value⟩ := by
    intro s hs'
    obtain ⟨e, he, hf⟩ := hstr s hs'
    have hein : e ∈ (MJ.obj msn sdn).discs := pdi.symm.subset (by simp [he])
    refine ⟨e, by rw [hdiscsF, hdiscs1]; exact hein, ?_, hf⟩
    rw [hstF]
    intro hh
    rcases hst1 _ hh with h1 | h1
    · exact hT0stale _ (hst _ h1)
    · obtain (hdc | ⟨l, hdc⟩) : decoys = none ∨ ∃ l, decoys = some l := by cases decoys <;> simp
      · simp [hdc] at h1
      · have hmem : e.digest ∈ (MJ.obj msn sdn).allMarks := by
          rw [← MJ.discs_digest]; exact List.mem_map_of_mem hein
        have := MJ.allMarks_sub_digests _ invn.wf _ hmem
        exact (hdec l hdc).2 _ (by simpa [hdc] using h1) this
  obtain ⟨c, ps, L, hr, hc, hLfrom, hLto, hpok⟩ :=
    restore_own_paths (rt.env "sha-256") (.obj msF sd1) invF strs hstrF hnd
  refine ⟨msn, sdn, msF, sd1, c, ps, L, rfl, hjwt, halgF, hcnfF, hr, ?_, hLfrom, hLto, hpok, ?_, ?_⟩
  · rw [hc]
    simp only [MJ.project, dropAlg]
    rw [hprojF]
    rfl
  · simp [MJ.paths, hpathsF]
  · rw [hmarksF]; rfl

/-- **Issuer → wire → holder.** -/
theorem holder_verify_issued (rt : Rt) (mk : Nat → Option String → J → String)
    (paths : List String) (addr : List (List String × String)) (ms : MMems) (Tn : MJ)
    (ds : List SDisc) (decoys : Option (List String)) (cnf : Option MJ) (jwt : String) (header : J)
    (strs : List String)
    (wf : (MJ.obj ms none).WF) (hplain : (MJ.obj ms none).digests = [])
    (hk1 : "_sd_alg" ∉ ms.keys) (hk2 : "cnf" ∉ ms.keys)
    (hp : ParsedAll paths addr) (h : markAll mk 0 addr (.obj ms none) = some (Tn, ds)) (hne : ds ≠ [])
    (hdec : ∀ l, decoys = some l → l.Nodup ∧ (∀ g ∈ l, g ∉ Tn.digests))
    (hX : ∀ X, cnf = some X → X.WF ∧ X.digests = [])
    (hsig : ∀ payload dsrc,
      encode (MJ.obj ms none).payload paths mk decoys (cnf.map (·.payload)) = .ok (payload, dsrc) →
      rt.jwtDecode jwt = .ok (header, payload))
    (hstr : ∀ s ∈ strs, ∃ e ∈ ds,
      fromBase64 (rt.env "sha-256") s = .ok ⟨s, e.digest, e.key, e.value⟩)
    (hnd : (strs.map (rt.hash "sha-256")).Nodup)
    (hall : ∀ e ∈ ds, ∃ s ∈ strs, rt.hash "sha-256" s = e.digest)
    (hj : '~' ∉ jwt.toList) (hs : ∀ s ∈ strs, '~' ∉ s.toList) :
    ∃ ps, Holder.verify rt (assemble jwt strs) = .ok (header, expectedClaims ms cnf, ps) ∧
      (ps.map (fun e => (e.1, e.2.digest))).Perm (Tn.paths "") ∧
      (∀ e ∈ ps, ∃ s ∈ strs, fromBase64 (rt.env "sha-256") s = .ok e.2) := by
  obtain ⟨hm0, _, _⟩ := no_digests _ wf hplain
  have inv : TreeInv (.obj ms none) := ⟨wf, by rw [hplain]; exact List.nodup_nil, by rw [hm0]; exact List.nodup_nil⟩
  obtain ⟨_, _, pm, _, _⟩ := markAll_inv mk addr 0 (.obj ms none) Tn ds inv h
  have hplainn := markAll_plain mk addr 0 (.obj ms none) Tn ds h
  obtain ⟨msn, sdn, msF, sd1, c, ps, L, rfl, hjwt, halgF, _, hr, hc, hLfrom, hLto, hpok, hpathsF, hmarksF⟩ :=
    issued_core rt mk paths addr ms Tn ds decoys cnf jwt header strs wf hplain hk1 hk2 hp h hne hdec hX
      hsig hstr hnd
  have hS : ∀ g ∈ (MJ.obj msn sdn).allMarks, (strs.any fun s => decide (rt.hash "sha-256" s = g)) = true := by
    intro g hg
    have : g ∈ ds.map (·.digest) := by simpa [hm0] using pm.subset hg
    obtain ⟨e, he, rfl⟩ := List.mem_map.mp this
    obtain ⟨s, hs', hh⟩ := hall e he
    simp only [List.any_eq_true, decide_eq_true_eq]
    exact ⟨s, hs', hh⟩
  refine ⟨ps, ?_, ?_, ?_⟩
  rotate_left
  · have hallL : ∀ g ∈ (MJ.obj msF sd1).allMarks, ∃ d ∈ L, d.digest = g := by
      intro g hg
      rw [hmarksF] at hg
      have : g ∈ ds.map (·.digest) := by simpa [hm0] using pm.subset hg
      obtain ⟨e, he, rfl⟩ := List.mem_map.mp this
      obtain ⟨s, hs', hh⟩ := hall e he
      obtain ⟨d, hd, hf⟩ := hLto s hs'
      exact ⟨d, hd, by rw [fromBase64_digest _ s d hf]; exact hh⟩
    have := hpok.all hallL
    rwa [hpathsF] at this
  · intro e he
    exact hLfrom e.2 (hpok.sound e he).2
  -- run the holder
  have halgJ : (jidx (MJ.obj msF sd1).payload "_sd_alg").asStr = some "sha-256" := by
    simp only [MJ.payload, MJ.hview, jidx, aget_withSd_ne sd1 "_sd_alg" _ (by decide)]
    rw [halgF]; rfl
  have hparts := sdJwtParts_assemble jwt strs hj hs
  have hstrs : (strs.map (·.toList)).map strOf = strs := by
    simp [List.map_map, Function.comp_def, strOf, String.ofList_toList]
  have hraw : Holder.verifyRaw rt (assemble jwt strs) = .ok (header, (MJ.obj msF sd1).payload, strs) := by
    simp [Holder.verifyRaw, hparts, strOf, String.ofList_toList, hjwt, halgJ, parseHashAlg, hstrs]
  have hres : Holder.verify rt (assemble jwt strs) = .ok (header, removeDigests c, ps) := by
    simp [Holder.verify, hraw, halgJ, parseHashAlg, hr]
  rw [hres, removeDigests_eq, hc]
  have hproj : msn.project (fun g => strs.any fun s => decide (rt.hash "sha-256" s = g)) =
      ms.project (fun _ => true) := by
    have h1 : (MJ.obj msn sdn).project (fun g => strs.any fun s => decide (rt.hash "sha-256" s = g)) =
        (MJ.obj msn sdn).plain := MJ.project_congr _ _ _ (fun g hg => by simpa using hS g hg)
    rw [hplainn] at h1
    simpa [MJ.project, MJ.plain] using h1
  rw [hproj, expected_eq ms cnf _ hX]

/-- **Issuer → any selection → wire → verifier** (unbound token).  For ANY selection `kept` of the
issuer's disclosures, in any order: the verifier accepts `jwt~kept…~` under either key-binding
policy and returns the header and the issued claims with exactly those marked nodes present
whose own and enclosing disclosures were kept. -/
theorem verifier_verify_issued (rt : Rt) (mk : Nat → Option String → J → String)
    (paths : List String) (addr : List (List String × String)) (ms : MMems) (Tn : MJ)
    (ds : List SDisc) (decoys : Option (List String)) (jwt : String) (header : J)
    (kept : List String) (policy : Bool)
    (wf : (MJ.obj ms none).WF) (hplain : (MJ.obj ms none).digests = [])
    (hk1 : "_sd_alg" ∉ ms.keys) (hk2 : "cnf" ∉ ms.keys)
    (hp : ParsedAll paths addr) (h : markAll mk 0 addr (.obj ms none) = some (Tn, ds)) (hne : ds ≠ [])
    (hdec : ∀ l, decoys = some l → l.Nodup ∧ (∀ g ∈ l, g ∉ Tn.digests))
    (hsig : ∀ payload dsrc,
      encode (MJ.obj ms none).payload paths mk decoys none = .ok (payload, dsrc) →
      rt.jwtDecode jwt = .ok (header, payload))
    (hstr : ∀ s ∈ kept, ∃ e ∈ ds,
      fromBase64 (rt.env "sha-256") s = .ok ⟨s, e.digest, e.key, e.value⟩)
    (hnd : (kept.map (rt.hash "sha-256")).Nodup)
    (hj : '~' ∉ jwt.toList) (hs : ∀ s ∈ kept, '~' ∉ s.toList) :
    Verifier.verify rt (assemble jwt kept) policy =
      .ok (header, Tn.project (fun g => kept.any fun s => decide (rt.hash "sha-256" s = g))) := by
  obtain ⟨msn, sdn, msF, sd1, c, ps, L, rfl, hjwt, halgF, hcnfF, hr, hc, _, _, _, _, _⟩ :=
    issued_core rt mk paths addr ms Tn ds decoys none jwt header kept wf hplain hk1 hk2 hp h hne hdec
      (by simp) hsig hstr hnd
  have halgJ : (jidx (MJ.obj msF sd1).payload "_sd_alg").asStr = some "sha-256" := by
    simp only [MJ.payload, MJ.hview, jidx, aget_withSd_ne sd1 "_sd_alg" _ (by decide)]
    rw [halgF]; rfl
  have hcnfJ : jidx (MJ.obj msF sd1).payload "cnf" = .null := by
    simp only [MJ.payload, MJ.hview, jidx, aget_withSd_ne sd1 "cnf" _ (by decide)]
    rw [hcnfF]; rfl
  have hparts := sdJwtParts_assemble jwt kept hj hs
  have hstrs : (kept.map (·.toList)).map strOf = kept := by
    simp [List.map_map, Function.comp_def, strOf, String.ofList_toList]
  have hraw : Verifier.verifyRaw rt (assemble jwt kept) policy =
      .ok (header, (MJ.obj msF sd1).payload, kept) := by
    simp [Verifier.verifyRaw, hparts, strOf, String.ofList_toList, hjwt, halgJ, hcnfJ, isNullJ,
      parseHashAlg, hstrs]
  have hres : Verifier.verify rt (assemble jwt kept) policy = .ok (header, removeDigests c) := by
    simp [Verifier.verify, hraw, halgJ, parseHashAlg, hr]
  rw [hres, removeDigests_eq, hc]
  rfl

end Impl

namespace Impl

/-- a presentation with a key-binding JWT splits into its parts -/
theorem sdJwtParts_assemble_kb (jwt : String) (strs : List String) (kb : String)
    (hj : '~' ∉ jwt.toList) (hs : ∀ s ∈ strs, '~' ∉ s.toList) (hk : '~' ∉ kb.toList) (hne : kb.toList ≠ []) :
    sdJwtParts (assemble jwt strs ++ kb).toList =
      .ok { jwt := jwt.toList, disclosures := strs.map (·.toList), kb := some kb.toList } := by
  have hsplit : splitOn '~' (assemble jwt strs ++ kb).toList =
      jwt.toList :: (strs.map (·.toList) ++ [kb.toList]) := by
    rw [String.toList_append, toList_assemble]
    have : ((jwt.toList ++ (strs.map (fun d => '~' :: d.toList)).flatten) ++ ['~']) ++ kb.toList =
        (jwt.toList ++ ((strs.map (·.toList)).map (fun d => '~' :: d)).flatten) ++ '~' :: kb.toList := by
      simp [List.map_map, Function.comp_def]
    rw [this, splitOn_append_sep '~' _ kb.toList hk,
      splitOn_joined '~' (strs.map (·.toList)) jwt.toList hj (by
        intro d hd
        obtain ⟨s, hs', rfl⟩ := List.mem_map.mp hd
        exact hs s hs')]
    rfl
  unfold sdJwtParts
  simp only [hsplit]
  have hlen : (jwt.toList :: (strs.map (·.toList) ++ [kb.toList])).length = strs.length + 2 := by simp
  have hlast : (jwt.toList :: (strs.map (·.toList) ++ [kb.toList])).getLast? = some kb.toList := by
    rw [List.getLast?_cons, List.getLast?_append]; simp
  have htake : ((jwt.toList :: (strs.map (·.toList) ++ [kb.toList])).drop 1).take (strs.length + 2 - 2) =
      strs.map (·.toList) := by
    simp
  simp only [hlen, hlast, htake, Option.getD_some, ne_eq, hne, not_false_eq_true, and_true]
  by_cases hn : strs.length + 2 > 2
  · simp [hn]
  · have : strs = [] := by
      cases strs with
      | nil => rfl
      | cons a r => simp at hn
    subst this
    simp

/-- **Issuer → any selection → wire → verifier, bound token.**  The token is bound to the key
`X`; the presentation ends with a key-binding JWT `kb` which the JWT library accepts under `X`
(`kbDecode`), typed `kb+jwt`, whose `sd_hash` is the hash of the presentation up to and including
its last `~`.  Then the verifier (with a key-binding policy) accepts and returns the header and
the issued claims, projected on the selection, plus `cnf`. -/
theorem verifier_verify_issued_bound (rt : Rt) (mk : Nat → Option String → J → String)
    (paths : List String) (addr : List (List String × String)) (ms : MMems) (Tn : MJ)
    (ds : List SDisc) (decoys : Option (List String)) (X : MJ) (jwt : String) (header : J)
    (kept : List String) (kb : String) (kh kc : J)
    (wf : (MJ.obj ms none).WF) (hplain : (MJ.obj ms none).digests = [])
    (hk1 : "_sd_alg" ∉ ms.keys) (hk2 : "cnf" ∉ ms.keys)
    (hp : ParsedAll paths addr) (h : markAll mk 0 addr (.obj ms none) = some (Tn, ds)) (hne : ds ≠ [])
    (hdec : ∀ l, decoys = some l → l.Nodup ∧ (∀ g ∈ l, g ∉ Tn.digests))
    (hX : X.WF ∧ X.digests = [])
    (hsig : ∀ payload dsrc,
      encode (MJ.obj ms none).payload paths mk decoys (some X.payload) = .ok (payload, dsrc) →
      rt.jwtDecode jwt = .ok (header, payload))
    (hstr : ∀ s ∈ kept, ∃ e ∈ ds,
      fromBase64 (rt.env "sha-256") s = .ok ⟨s, e.digest, e.key, e.value⟩)
    (hnd : (kept.map (rt.hash "sha-256")).Nodup)
    (hj : '~' ∉ jwt.toList) (hs : ∀ s ∈ kept, '~' ∉ s.toList)
    (hkb : '~' ∉ kb.toList) (hkbne : kb.toList ≠ [])
    (hkty : (jidx X.payload "kty").asStr = some "RSA")
    (he : (jidx X.payload "e").asStr.isSome = true) (hn : (jidx X.payload "n").asStr.isSome = true)
    (hkbdec : rt.kbDecode kb X.payload = .ok (kh, kc))
    (htyp : (jidx kh "typ").asStr = some "kb+jwt")
    (hhash : (jidx kc "sd_hash").asStr = some (rt.hash "sha-256" (assemble jwt kept))) :
    ∃ msn sdn, Tn = .obj msn sdn ∧
      Verifier.verify rt (assemble jwt kept ++ kb) true =
        .ok (header, .obj (ains "cnf" (X.project (fun g => kept.any fun s => decide (rt.hash "sha-256" s = g)))
          (msn.project (fun g => kept.any fun s => decide (rt.hash "sha-256" s = g))))) := by
  obtain ⟨msn, sdn, msF, sd1, c, ps, L, rfl, hjwt, halgF, hcnfF, hr, hc, _, _, _, _, _⟩ :=
    issued_core rt mk paths addr ms Tn ds decoys (some X) jwt header kept wf hplain hk1 hk2 hp h hne hdec
      (by intro X' hX'; cases hX'; exact hX) hsig hstr hnd
  refine ⟨msn, sdn, rfl, ?_⟩
  have halgJ : (jidx (MJ.obj msF sd1).payload "_sd_alg").asStr = some "sha-256" := by
    simp only [MJ.payload, MJ.hview, jidx, aget_withSd_ne sd1 "_sd_alg" _ (by decide)]
    rw [halgF]; rfl
  have hcnfJ : jidx (MJ.obj msF sd1).payload "cnf" = X.payload := by
    simp only [MJ.payload, MJ.hview, jidx, aget_withSd_ne sd1 "cnf" _ (by decide)]
    rw [hcnfF]; rfl
  have hnotnull : isNullJ X.payload = false := by
    cases hxp : X.payload with
    | null => rw [hxp] at hkty; simp [jidx, J.asStr] at hkty
    | _ => rfl
  have hparts := sdJwtParts_assemble_kb jwt kept kb hj hs hkb hkbne
  have hstrs : (kept.map (·.toList)).map strOf = kept := by
    simp [List.map_map, Function.comp_def, strOf, String.ofList_toList]
  have hvkb : verifyKb rt kb X.payload = .ok (kh, kc) := by
    have he' : ¬ (jidx X.payload "e").asStr.isNone = true := by
      cases hh : (jidx X.payload "e").asStr <;> simp_all
    have hn' : ¬ (jidx X.payload "n").asStr.isNone = true := by
      cases hh : (jidx X.payload "n").asStr <;> simp_all
    simp [verifyKb, hkty, he', hn', hkbdec, htyp]
  have hdrop : dropKb (assemble jwt kept ++ kb).toList = (assemble jwt kept).toList := by
    rw [String.toList_append, toList_assemble]
    have : ((jwt.toList ++ (kept.map (fun d => '~' :: d.toList)).flatten) ++ ['~']) ++ kb.toList =
        (jwt.toList ++ (kept.map (fun d => '~' :: d.toList)).flatten) ++ '~' :: kb.toList := by simp
    rw [this, dropKb_append _ _ hkb]
  have hparts' : sdJwtParts ((assemble jwt kept).toList ++ kb.toList) =
      .ok { jwt := jwt.toList, disclosures := kept.map (·.toList), kb := some kb.toList } := by
    rw [← String.toList_append]; exact hparts
  have hdrop' : dropKb ((assemble jwt kept).toList ++ kb.toList) = (assemble jwt kept).toList := by
    rw [← String.toList_append]; exact hdrop
  have hstrs' : List.map (strOf ∘ fun x : String => x.toList) kept = kept := by
    rw [← List.map_map]; exact hstrs
  have hraw : Verifier.verifyRaw rt (assemble jwt kept ++ kb) true =
      .ok (header, (MJ.obj msF sd1).payload, kept) := by
    simp [Verifier.verifyRaw, hparts', strOf, String.ofList_toList, hjwt, halgJ, hcnfJ, hnotnull,
      parseHashAlg, hstrs', hvkb, hhash, hdrop']
  have hres : Verifier.verify rt (assemble jwt kept ++ kb) true = .ok (header, removeDigests c) := by
    simp [Verifier.verify, hraw, halgJ, parseHashAlg, hr]
  rw [hres, removeDigests_eq, hc]
  rfl

end Impl
