import SdJwt.Lemmas.CodecL
import SdJwt.Lemmas.JsonTextL
/-!
# A codec whose JSON text is the model's: the byte-level assumption of the end-to-end theorems discharged

`textCodec sha` writes disclosures as the UTF-8 bytes of `JText.render` (compact JSON text as
`serde_json` writes it) and reads them with `String.fromUTF8?` + `JText.parseAll`. For it the one
assumption `C01_end_to_end_bytes` / `C02_redact_bytes` make of the byte level — the reader reads back
what the printer wrote — is a theorem (`textCodec_roundtrip`), so those theorems hold for it with no
assumption on JSON text at all; what is left is SHA-2 (digests pairwise different) and the JWT library.
-/
namespace Impl

def textCodec (sha : String → List UInt8 → List UInt8) : Codec :=
  { render := fun j => utf8 (String.ofList (JText.render j))
    parse := fun bs =>
      match String.fromUTF8? (ByteArray.mk bs.toArray) with
      | none => none
      | some s => JText.parseAll s.toList
    sha := sha }

theorem fromUTF8_utf8 (s : String) : String.fromUTF8? (ByteArray.mk (utf8 s).toArray) = some s := by
  have h : ByteArray.mk (utf8 s).toArray = s.toUTF8 := by
    simp [utf8]
  rw [h]
  simp [String.fromUTF8?, String.fromUTF8, s.isValidUTF8]

theorem textCodec_roundtrip (sha : String → List UInt8 → List UInt8) (j : J) :
    (textCodec sha).parse ((textCodec sha).render j) = some j := by
  simp [textCodec, fromUTF8_utf8, String.toList_ofList, JText.parseAll_render]

end Impl
