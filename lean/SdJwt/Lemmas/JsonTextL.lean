import SdJwt.Impl.JsonText
/-! # `parse (render j) = some j` for the JSON text model -/
namespace JText

/-! ## strings -/

theorem hex_round : ∀ n : Fin 32,
    hexVal (hexDigit (n.val / 16)) = some (n.val / 16) ∧ hexVal (hexDigit (n.val % 16)) = some (n.val % 16) := by
  decide

theorem char_of_toNat (c : Char) : Char.ofNat c.toNat = c := Char.ofNat_toNat c

theorem ne_of_toNat_ne {c d : Char} (h : c.toNat ≠ d.toNat) : c ≠ d := fun e => h (e ▸ rfl)

/-- one escaped character is read back as that character -/
theorem parseStrBody_esc (c : Char) (r acc : List Char) :
    parseStrBody (escChar c ++ r) acc = parseStrBody r (c :: acc) := by
  unfold escChar
  split
  · rename_i h; subst h; rw [parseStrBody.eq_def]; simp
  split
  · rename_i h; subst h; rw [parseStrBody.eq_def]; simp
  split
  · rename_i h
    have : c = Char.ofNat 8 := by rw [← h, char_of_toNat]
    subst this; rw [parseStrBody.eq_def]; simp
  split
  · rename_i h
    have : c = Char.ofNat 12 := by rw [← h, char_of_toNat]
    subst this; rw [parseStrBody.eq_def]; simp
  split
  · rename_i h; subst h; rw [parseStrBody.eq_def]; simp
  split
  · rename_i h; subst h; rw [parseStrBody.eq_def]; simp
  split
  · rename_i h; subst h; rw [parseStrBody.eq_def]; simp
  split
  · rename_i h1 h2 h3 h4 h5 h6 h7 h
    obtain ⟨e1, e2⟩ := hex_round ⟨c.toNat, h⟩
    simp only at e1 e2
    have hsum : c.toNat / 16 * 16 + c.toNat % 16 = c.toNat := by omega
    rw [parseStrBody.eq_def]
    simp [e1, e2, hsum, h, char_of_toNat]
  · rename_i h1 h2 h3 h4 h5 h6 h7 h
    rw [parseStrBody.eq_def]
    simp [h1, h2, h]

theorem parseStrBody_body (s r : List Char) : ∀ acc : List Char,
    parseStrBody (escBody s ++ '"' :: r) acc = some (acc.reverse ++ s, r) := by
  induction s with
  | nil => intro acc; rw [parseStrBody.eq_def]; simp [escBody]
  | cons c t ih =>
    intro acc
    simp only [escBody, List.append_assoc]
    rw [parseStrBody_esc, ih]
    simp

theorem parseStr_render (s : String) (r : List Char) : parseStr (renderStr s ++ r) = some (s, r) := by
  simp [renderStr, parseStr, parseStrBody_body, String.ofList_toList]

end JText

namespace JText

/-! ## numbers -/

/-- what may follow a number: nothing, or a character that is neither a digit nor the point -/
def NumStop : List Char → Prop
  | [] => True
  | c :: _ => c.isDigit = false ∧ c ≠ '.'

/-- what ends a run of digits -/
def NoDigitHead : List Char → Prop
  | [] => True
  | c :: _ => c.isDigit = false

theorem spanDigits_append (ds rest : List Char) (hd : ∀ c ∈ ds, c.isDigit = true)
    (hr : NoDigitHead rest) :
    spanDigits (ds ++ rest) = (ds, rest) := by
  induction ds with
  | nil =>
    cases rest with
    | nil => simp [spanDigits]
    | cons c r => simp [NoDigitHead] at hr; simp [spanDigits, hr]
  | cons d t ih =>
    have h1 : d.isDigit = true := hd d (by simp)
    have h2 := ih (fun c hc => hd c (by simp [hc]))
    simp [spanDigits, h1, h2]

theorem digits_isDigit (n : Nat) : ∀ c ∈ digits n, c.isDigit = true :=
  fun _ hc => Nat.isDigit_of_mem_toDigits (by decide) (by decide) hc

theorem digits_ne_nil (n : Nat) : digits n ≠ [] := Nat.toDigits_ne_nil

theorem digits_value (n : Nat) : Nat.ofDigitChars 10 (digits n) 0 = n := Nat.ofDigitChars_ten_toDigits

theorem zero_isDigit : ∀ c ∈ List.replicate k '0', c.isDigit = true := by
  intro c hc; rw [List.eq_of_mem_replicate hc]; decide

theorem numStop_digit {rest : List Char} (h : NumStop rest) : NoDigitHead rest := by
  cases rest with
  | nil => trivial
  | cons c r => exact h.1

theorem parseUnsigned_render (a e : Nat) (rest : List Char) (h : NumStop rest) :
    parseUnsigned (renderUnsigned a e ++ rest) = some (a, e, rest) := by
  unfold renderUnsigned
  by_cases he : e = 0
  · subst he
    simp only [if_true]
    unfold parseUnsigned
    rw [spanDigits_append _ _ (digits_isDigit a) (numStop_digit h)]
    have hne := digits_ne_nil a
    cases hd : digits a with
    | nil => exact absurd hd hne
    | cons d t =>
      cases rest with
      | nil => simp [← hd, digits_value]
      | cons c r =>
        have hc : c ≠ '.' := h.2
        simp only
        split
        · rename_i heq; cases heq; exact absurd rfl hc
        · simp [← hd, digits_value]
  · simp only [he, if_false]
    -- the padded digit string
    generalize hds : List.replicate (e + 1 - (digits a).length) '0' ++ digits a = ds
    have hlen : e + 1 ≤ ds.length := by
      rw [← hds]; simp only [List.length_append, List.length_replicate]; omega
    have hdig : ∀ c ∈ ds, c.isDigit = true := by
      intro c hc; rw [← hds] at hc
      rcases List.mem_append.mp hc with h1 | h1
      · exact zero_isDigit c h1
      · exact digits_isDigit a c h1
    have hval : Nat.ofDigitChars 10 ds 0 = a := by
      rw [← hds, Nat.ofDigitChars_append, Nat.ofDigitChars_replicate_zero]
      simp [digits_value]
    have hip : ∀ c ∈ ds.take (ds.length - e), c.isDigit = true := fun c hc => hdig c (List.mem_of_mem_take hc)
    have hfp : ∀ c ∈ ds.drop (ds.length - e), c.isDigit = true := fun c hc => hdig c (List.mem_of_mem_drop hc)
    have hipne : ds.take (ds.length - e) ≠ [] := by
      intro h0
      have := congrArg List.length h0
      simp at this; omega
    have hfplen : (ds.drop (ds.length - e)).length = e := by simp; omega
    have hfpne : ds.drop (ds.length - e) ≠ [] := by
      intro h0; rw [h0] at hfplen; simp at hfplen; omega
    unfold parseUnsigned
    rw [List.append_assoc, spanDigits_append _ _ hip (by simp [NoDigitHead])]
    cases hi : ds.take (ds.length - e) with
    | nil => exact absurd hi hipne
    | cons i0 it =>
      simp only [List.cons_append]
      rw [spanDigits_append _ _ hfp (numStop_digit h)]
      cases hf : ds.drop (ds.length - e) with
      | nil => exact absurd hf hfpne
      | cons f0 ft =>
        simp only
        have e1 : i0 :: (it ++ f0 :: ft) = ds := by
          rw [← List.cons_append, ← hi, ← hf, List.take_append_drop]
        have e2 : (f0 :: ft).length = e := by rw [← hf]; exact hfplen
        rw [e1, hval, e2]

theorem natAbs_neg (m : Int) (h : m < 0) : -((m.natAbs : Nat) : Int) = m := by omega

theorem natAbs_nonneg (m : Int) (h : ¬ m < 0) : ((m.natAbs : Nat) : Int) = m := by omega

theorem renderUnsigned_head (a e : Nat) : ∃ c r, renderUnsigned a e = c :: r ∧ c.isDigit = true := by
  unfold renderUnsigned
  by_cases he : e = 0
  · simp only [he, if_true]
    cases hd : digits a with
    | nil => exact absurd hd (digits_ne_nil a)
    | cons d t => exact ⟨d, t, rfl, digits_isDigit a d (by simp [hd])⟩
  · simp only [he, if_false]
    generalize hds : List.replicate (e + 1 - (digits a).length) '0' ++ digits a = ds
    have hlen : e + 1 ≤ ds.length := by
      rw [← hds]; simp only [List.length_append, List.length_replicate]; omega
    have hdig : ∀ c ∈ ds, c.isDigit = true := by
      intro c hc; rw [← hds] at hc
      rcases List.mem_append.mp hc with h1 | h1
      · exact zero_isDigit c h1
      · exact digits_isDigit a c h1
    cases hi : ds.take (ds.length - e) with
    | nil =>
      have := congrArg List.length hi
      simp at this; omega
    | cons i0 it =>
      exact ⟨i0, it ++ '.' :: ds.drop (ds.length - e), by simp, hdig i0 (List.mem_of_mem_take (by rw [hi]; simp))⟩

theorem parseNum_render (m : Int) (e : Nat) (rest : List Char) (h : NumStop rest) :
    parseNum (renderNum m e ++ rest) = some (.num m e, rest) := by
  unfold renderNum
  by_cases hm : m < 0
  · simp only [hm, if_true, List.cons_append]
    simp [parseNum, parseUnsigned_render _ _ _ h, natAbs_neg m hm]
  · simp only [hm, if_false]
    obtain ⟨c, r, hc, hdg⟩ := renderUnsigned_head m.natAbs e
    have hne : c ≠ '-' := by intro e0; subst e0; revert hdg; decide
    have hp := parseUnsigned_render m.natAbs e rest h
    rw [hc] at hp ⊢
    simp only [List.cons_append] at hp ⊢
    unfold parseNum
    split
    · rename_i heq; cases heq; exact absurd rfl hne
    · simp [hp, natAbs_nonneg m hm]

end JText

namespace JText

/-! ## values -/

mutual
def sz : J → Nat
  | .arr xs => 1 + szL xs
  | .obj ms => 1 + szM ms
  | _ => 1
def szL : List J → Nat
  | [] => 0
  | x :: r => 1 + sz x + szL r
def szM : List (String × J) → Nat
  | [] => 0
  | (_, v) :: r => 1 + sz v + szM r
end

/-- what may follow a value inside a text: nothing, or `,` `]` `}` -/
def Stop : List Char → Prop
  | [] => True
  | c :: _ => c = ',' ∨ c = ']' ∨ c = '}'

theorem Stop.numStop {rest : List Char} (h : Stop rest) : NumStop rest := by
  cases rest with
  | nil => trivial
  | cons c r =>
    rcases h with rfl | rfl | rfl <;> exact ⟨by decide, by decide⟩

/-- the first character of a value's text: never one that closes or separates -/
def GoodHead (c : Char) : Prop := c ≠ ']' ∧ c ≠ '}' ∧ c ≠ ','

theorem isDigit_good {c : Char} (h : c.isDigit = true) :
    c ≠ 'n' ∧ c ≠ 't' ∧ c ≠ 'f' ∧ c ≠ '"' ∧ c ≠ '[' ∧ c ≠ '{' ∧ c ≠ '-' ∧ GoodHead c := by
  refine ⟨?_, ?_, ?_, ?_, ?_, ?_, ?_, ?_, ?_, ?_⟩ <;> (intro e; subst e; revert h; decide)

theorem renderNum_head (m : Int) (e : Nat) : ∃ c r, renderNum m e = c :: r ∧
    c ≠ 'n' ∧ c ≠ 't' ∧ c ≠ 'f' ∧ c ≠ '"' ∧ c ≠ '[' ∧ c ≠ '{' ∧ GoodHead c := by
  unfold renderNum
  by_cases hm : m < 0
  · simp only [hm, if_true]
    exact ⟨'-', _, rfl, by decide, by decide, by decide, by decide, by decide, by decide, by decide, by decide, by decide⟩
  · simp only [hm, if_false]
    obtain ⟨c, r, hc, hd⟩ := renderUnsigned_head m.natAbs e
    obtain ⟨a1, a2, a3, a4, a5, a6, _, a8⟩ := isDigit_good hd
    exact ⟨c, r, hc, a1, a2, a3, a4, a5, a6, a8⟩

theorem render_head (j : J) : ∃ c r, render j = c :: r ∧ GoodHead c := by
  cases j with
  | null => exact ⟨'n', _, by simp [render]; rfl, by decide, by decide, by decide⟩
  | bool b => cases b
              · exact ⟨'f', _, by simp [render]; rfl, by decide, by decide, by decide⟩
              · exact ⟨'t', _, by simp [render]; rfl, by decide, by decide, by decide⟩
  | num m e =>
    obtain ⟨c, r, hc, _, _, _, _, _, _, hg⟩ := renderNum_head m e
    exact ⟨c, r, by simp [render, hc], hg⟩
  | str s => exact ⟨'"', escBody s.toList ++ ['"'], by simp [render, renderStr], by decide, by decide, by decide⟩
  | arr xs => exact ⟨'[', renderElems xs ++ [']'], by simp [render], by decide, by decide, by decide⟩
  | obj ms => exact ⟨'{', renderMems ms ++ ['}'], by simp [render], by decide, by decide, by decide⟩

end JText

namespace JText

theorem parse_other (n : Nat) (c : Char) (r : List Char) (h1 : c ≠ 'n') (h2 : c ≠ 't') (h3 : c ≠ 'f')
    (h4 : c ≠ '"') (h5 : c ≠ '[') (h6 : c ≠ '{') : parse (n+1) (c :: r) = parseNum (c :: r) := by
  rw [parse.eq_def]
  simp only [if_neg h1, if_neg h2, if_neg h3, if_neg h4, if_neg h5, if_neg h6]

theorem parse_arr (n : Nat) (c : Char) (r : List Char) (h : c ≠ ']') :
    parse (n+1) ('[' :: c :: r) = (parseElems n (c :: r)).map fun (xs, r') => (.arr xs, r') := by
  rw [parse.eq_def]
  simp [h]

theorem parse_obj (n : Nat) (c : Char) (r : List Char) (h : c ≠ '}') :
    parse (n+1) ('{' :: c :: r) = (parseMems n (c :: r)).map fun (ms, r') => (.obj ms, r') := by
  rw [parse.eq_def]
  simp [h]

theorem parseStr_render' (s : String) (r : List Char) :
    parseStr ('"' :: (escBody s.toList ++ '"' :: r)) = some (s, r) := by
  have h := parseStr_render s r
  simpa [renderStr] using h

theorem stop_close_arr (rest : List Char) : Stop (']' :: rest) := Or.inr (Or.inl rfl)
theorem stop_close_obj (rest : List Char) : Stop ('}' :: rest) := Or.inr (Or.inr rfl)
theorem stop_comma (rest : List Char) : Stop (',' :: rest) := Or.inl rfl

theorem renderElems_head : (x : J) → (xs : List J) → ∃ c r, renderElems (x :: xs) = c :: r ∧ GoodHead c
  | x, [] => by simpa [renderElems] using render_head x
  | x, y :: r => by
    obtain ⟨c, t, hc, hg⟩ := render_head x
    exact ⟨c, t ++ ',' :: renderElems (y :: r), by simp [renderElems, hc], hg⟩
theorem renderMems_head : (k : String) → (v : J) → (ms : List (String × J)) →
    ∃ r, renderMems ((k, v) :: ms) = '"' :: r
  | k, v, [] => ⟨_, by simp [renderMems, renderStr]; rfl⟩
  | k, v, p :: r => ⟨_, by simp [renderMems, renderStr]; rfl⟩

mutual
/-- **the reader reads back what the printer wrote**, with anything that may follow a value after it -/
theorem parse_render : (j : J) → (fuel : Nat) → (rest : List Char) → sz j ≤ fuel → Stop rest →
    parse fuel (render j ++ rest) = some (j, rest)
  | .null, fuel, rest, hf, _ => by
    obtain ⟨n, rfl⟩ : ∃ n, fuel = n + 1 := ⟨fuel - 1, by simp [sz] at hf; omega⟩
    simp [render, parse]
  | .bool true, fuel, rest, hf, _ => by
    obtain ⟨n, rfl⟩ : ∃ n, fuel = n + 1 := ⟨fuel - 1, by simp [sz] at hf; omega⟩
    simp [render, parse]
  | .bool false, fuel, rest, hf, _ => by
    obtain ⟨n, rfl⟩ : ∃ n, fuel = n + 1 := ⟨fuel - 1, by simp [sz] at hf; omega⟩
    simp [render, parse]
  | .num m e, fuel, rest, hf, hs => by
    obtain ⟨n, rfl⟩ : ∃ n, fuel = n + 1 := ⟨fuel - 1, by simp [sz] at hf; omega⟩
    obtain ⟨c, r, hc, a1, a2, a3, a4, a5, a6, _⟩ := renderNum_head m e
    have h := parseNum_render m e rest hs.numStop
    rw [hc] at h
    simp only [render, hc, List.cons_append] at h ⊢
    rw [parse_other n c _ a1 a2 a3 a4 a5 a6, h]
  | .str s, fuel, rest, hf, _ => by
    obtain ⟨n, rfl⟩ : ∃ n, fuel = n + 1 := ⟨fuel - 1, by simp [sz] at hf; omega⟩
    simp [render, renderStr, parse, parseStr_render']
  | .arr [], fuel, rest, hf, _ => by
    obtain ⟨n, rfl⟩ : ∃ n, fuel = n + 1 := ⟨fuel - 1, by simp [sz] at hf; omega⟩
    simp [render, renderElems, parse]
  | .arr (x :: xs), fuel, rest, hf, _ => by
    obtain ⟨n, rfl⟩ : ∃ n, fuel = n + 1 := ⟨fuel - 1, by simp [sz] at hf; omega⟩
    have hE := parseElems_render x xs n rest (by simp only [sz] at hf; omega)
    obtain ⟨c, r, hc, hg⟩ := renderElems_head x xs
    simp only [render, List.cons_append, List.append_assoc, List.nil_append] at hE ⊢
    rw [hc] at hE ⊢
    simp only [List.cons_append] at hE ⊢
    rw [parse_arr n c _ hg.1, hE]
    rfl
  | .obj [], fuel, rest, hf, _ => by
    obtain ⟨n, rfl⟩ : ∃ n, fuel = n + 1 := ⟨fuel - 1, by simp [sz] at hf; omega⟩
    simp [render, renderMems, parse]
  | .obj ((k, v) :: ms), fuel, rest, hf, _ => by
    obtain ⟨n, rfl⟩ : ∃ n, fuel = n + 1 := ⟨fuel - 1, by simp [sz] at hf; omega⟩
    have hM := parseMems_render k v ms n rest (by simp only [sz] at hf; omega)
    obtain ⟨r, hc⟩ := renderMems_head k v ms
    simp only [render, List.cons_append, List.append_assoc, List.nil_append] at hM ⊢
    rw [hc] at hM ⊢
    simp only [List.cons_append] at hM ⊢
    rw [parse_obj n '"' _ (by decide), hM]
    rfl
termination_by j => sz j
decreasing_by all_goals (simp only [sz, szL, szM]; omega)
theorem parseElems_render : (x : J) → (xs : List J) → (fuel : Nat) → (rest : List Char) →
    szL (x :: xs) ≤ fuel → parseElems fuel (renderElems (x :: xs) ++ ']' :: rest) = some (x :: xs, rest)
  | x, [], fuel, rest, hf => by
    obtain ⟨n, rfl⟩ : ∃ n, fuel = n + 1 := ⟨fuel - 1, by simp [szL] at hf; omega⟩
    have h := parse_render x n (']' :: rest) (by simp only [szL] at hf; omega) (stop_close_arr rest)
    simp [renderElems, parseElems, h]
  | x, y :: r, fuel, rest, hf => by
    obtain ⟨n, rfl⟩ : ∃ n, fuel = n + 1 := ⟨fuel - 1, by simp [szL] at hf; omega⟩
    have h := parse_render x n (',' :: (renderElems (y :: r) ++ ']' :: rest))
      (by simp only [szL] at hf; omega) (stop_comma _)
    have h2 := parseElems_render y r n rest (by simp only [szL] at hf ⊢; omega)
    simp [renderElems, parseElems, h, h2]
termination_by x xs => szL (x :: xs)
decreasing_by all_goals (simp only [sz, szL, szM]; omega)
theorem parseMems_render : (k : String) → (v : J) → (ms : List (String × J)) → (fuel : Nat) →
    (rest : List Char) → szM ((k, v) :: ms) ≤ fuel →
    parseMems fuel (renderMems ((k, v) :: ms) ++ '}' :: rest) = some ((k, v) :: ms, rest)
  | k, v, [], fuel, rest, hf => by
    obtain ⟨n, rfl⟩ : ∃ n, fuel = n + 1 := ⟨fuel - 1, by simp [szM] at hf; omega⟩
    have h := parse_render v n ('}' :: rest) (by simp only [szM] at hf; omega) (stop_close_obj rest)
    have hk := parseStr_render k (':' :: (render v ++ '}' :: rest))
    simp only [renderMems, List.append_assoc, List.cons_append] at hk ⊢
    simp [parseMems, hk, h]
  | k, v, (k2, v2) :: r, fuel, rest, hf => by
    obtain ⟨n, rfl⟩ : ∃ n, fuel = n + 1 := ⟨fuel - 1, by simp [szM] at hf; omega⟩
    have h := parse_render v n (',' :: (renderMems ((k2, v2) :: r) ++ '}' :: rest))
      (by simp only [szM] at hf; omega) (stop_comma _)
    have h2 := parseMems_render k2 v2 r n rest (by simp only [szM] at hf ⊢; omega)
    have hk := parseStr_render k (':' :: (render v ++ ',' :: (renderMems ((k2, v2) :: r) ++ '}' :: rest)))
    simp only [renderMems, List.append_assoc, List.cons_append] at hk ⊢
    simp [parseMems, hk, h, h2]
termination_by k v ms => szM ((k, v) :: ms)
decreasing_by all_goals (simp only [sz, szL, szM]; omega)
end

end JText

namespace JText

theorem render_pos (j : J) : 1 ≤ (render j).length := by
  obtain ⟨c, r, hc, _⟩ := render_head j
  rw [hc]; simp

mutual
theorem sz_le_length : (j : J) → sz j ≤ (render j).length
  | .null => by simp [sz, render]
  | .bool true => by simp [sz, render]
  | .bool false => by simp [sz, render]
  | .num m e => by simpa [sz] using render_pos (.num m e)
  | .str s => by simpa [sz] using render_pos (.str s)
  | .arr [] => by simp [sz, szL, render, renderElems]
  | .arr (x :: xs) => by
    have := szL_le_length x xs
    simp only [sz, render, List.length_cons, List.length_append, List.length_nil] at this ⊢
    omega
  | .obj [] => by simp [sz, szM, render, renderMems]
  | .obj ((k, v) :: ms) => by
    have := szM_le_length k v ms
    simp only [sz, render, List.length_cons, List.length_append, List.length_nil] at this ⊢
    omega
termination_by j => sz j
decreasing_by all_goals (simp only [sz, szL, szM]; omega)
theorem szL_le_length : (x : J) → (xs : List J) → szL (x :: xs) ≤ (renderElems (x :: xs)).length + 1
  | x, [] => by
    have := sz_le_length x
    simp only [szL, renderElems] at this ⊢; omega
  | x, y :: r => by
    have h1 := sz_le_length x
    have h2 := szL_le_length y r
    simp only [szL, renderElems, List.length_append, List.length_cons] at h1 h2 ⊢; omega
termination_by x xs => szL (x :: xs)
decreasing_by all_goals (simp only [sz, szL, szM]; omega)
theorem szM_le_length : (k : String) → (v : J) → (ms : List (String × J)) →
    szM ((k, v) :: ms) ≤ (renderMems ((k, v) :: ms)).length + 1
  | k, v, [] => by
    have := sz_le_length v
    simp only [szM, renderMems, List.length_append, List.length_cons] at this ⊢; omega
  | k, v, (k2, v2) :: r => by
    have h1 := sz_le_length v
    have h2 := szM_le_length k2 v2 r
    simp only [szM, renderMems, List.length_append, List.length_cons] at h1 h2 ⊢; omega
termination_by k v ms => szM ((k, v) :: ms)
decreasing_by all_goals (simp only [sz, szL, szM]; omega)
end

/-- **`parse (render j) = some j`**: the text of a value is read back as that value -/
theorem parseAll_render (j : J) : parseAll (render j) = some j := by
  have h := parse_render j ((render j).length + 1) [] (by have := sz_le_length j; omega) trivial
  simp only [List.append_nil] at h
  simp [parseAll, h]

/-- two different values never have the same text -/
theorem render_injective (a b : J) (h : render a = render b) : a = b := by
  have := parseAll_render a; rw [h, parseAll_render b] at this; exact (Option.some.inj this).symm

end JText
