import SdJwt.Spec.Marked
import SdJwt.Lemmas.Assoc
/-! Facts about views of marked trees: sortedness, absence of reserved keys, `revealTop`. -/
open Assoc Spec

/-- the all-hidden selector -/
abbrev noneShown : String → Bool := fun _ => false

theorem keysGt_hview (S : String → Bool) (k0 : String) :
    (ms : MMems) → ms.keysGt k0 → AllGt k0 (ms.hview S)
  | .nil, _ => trivial
  | .clear k x r, h => by
      simp only [MMems.keysGt] at h
      exact ⟨h.1, keysGt_hview S k0 r h.2⟩
  | .marked k dg x r, h => by
      simp only [MMems.keysGt] at h
      simp only [MMems.hview]
      split
      · exact ⟨h.1, keysGt_hview S k0 r h.2⟩
      · exact keysGt_hview S k0 r h.2

theorem sorted_hview (S : String → Bool) : (ms : MMems) → ms.WF → Sorted (ms.hview S)
  | .nil, _ => trivial
  | .clear k x r, wf => by
      simp only [MMems.WF] at wf
      exact ⟨keysGt_hview S k r wf.2.2.2.1, sorted_hview S r wf.2.2.2.2⟩
  | .marked k dg x r, wf => by
      simp only [MMems.WF] at wf
      simp only [MMems.hview]
      split
      · exact ⟨keysGt_hview S k r wf.2.2.2.1, sorted_hview S r wf.2.2.2.2⟩
      · exact sorted_hview S r wf.2.2.2.2

theorem aget_sd_hview (S : String → Bool) : (ms : MMems) → ms.WF → aget "_sd" (ms.hview S) = none
  | .nil, _ => rfl
  | .clear k x r, wf => by
      simp only [MMems.WF] at wf
      have : "_sd" ≠ k := fun e => wf.1 e.symm
      simp [MMems.hview, aget, this, aget_sd_hview S r wf.2.2.2.2]
  | .marked k g x r, wf => by
      simp only [MMems.WF] at wf
      have : "_sd" ≠ k := fun e => wf.1 e.symm
      simp only [MMems.hview]
      split
      · simp [aget, this, aget_sd_hview S r wf.2.2.2.2]
      · exact aget_sd_hview S r wf.2.2.2.2

/-- a key greater than… is absent: lookup of a key in a view whose keys are all greater -/
theorem aget_hview_of_keysGt (S : String → Bool) (k : String) (ms : MMems) (h : ms.keysGt k) :
    aget k (ms.hview S) = none :=
  aget_of_allGt (keysGt_hview S k ms h)

/-- extensionality of sorted association lists -/
theorem sorted_ext {α : Type} : (l1 l2 : List (String × α)) → Sorted l1 → Sorted l2 →
    (∀ k, aget k l1 = aget k l2) → l1 = l2
  | [], [], _, _, _ => rfl
  | [], (k, v) :: r, _, _, h => by have := h k; simp [aget] at this
  | (k, v) :: r, [], _, _, h => by have := h k; simp [aget] at this
  | (k1, v1) :: r1, (k2, v2) :: r2, s1, s2, h => by
    have hk : k1 = k2 := by
      rcases slt_tri k1 k2 with hlt | heq | hgt
      · exfalso
        have h1 := h k1
        have : aget k1 ((k2, v2) :: r2) = none := aget_of_allGt ⟨hlt, AllGt.mono hlt s2.1⟩
        rw [this] at h1
        simp [aget] at h1
      · exact heq
      · exfalso
        have h1 := h k2
        have : aget k2 ((k1, v1) :: r1) = none := aget_of_allGt ⟨hgt, AllGt.mono hgt s1.1⟩
        rw [this] at h1
        simp [aget] at h1
    subst hk
    have hv : v1 = v2 := by have := h k1; simpa [aget] using this
    subst hv
    have hr : r1 = r2 := by
      apply sorted_ext r1 r2 s1.2 s2.2
      intro k
      by_cases hkk : k = k1
      · subst hkk
        rw [aget_of_allGt s1.1, aget_of_allGt s2.1]
      · have := h k
        simpa [aget, hkk] using this
    rw [hr]

theorem ains_comm {α : Type} (k1 k2 : String) (v1 v2 : α) (l : List (String × α)) (hs : Sorted l)
    (hne : k1 ≠ k2) : ains k1 v1 (ains k2 v2 l) = ains k2 v2 (ains k1 v1 l) := by
  apply sorted_ext
  · exact sorted_ains _ _ _ (sorted_ains _ _ _ hs)
  · exact sorted_ains _ _ _ (sorted_ains _ _ _ hs)
  · intro k
    by_cases h1 : k = k1
    · subst h1
      rw [aget_ains_self, aget_ains_ne _ hne, aget_ains_self]
    · by_cases h2 : k = k2
      · subst h2
        rw [aget_ains_ne _ h1, aget_ains_self, aget_ains_self]
      · rw [aget_ains_ne _ h1, aget_ains_ne _ h2, aget_ains_ne _ h2, aget_ains_ne _ h1]

mutual
theorem MJ.topMarks_sub_vdigests : (T : MJ) → T.WF → ∀ g ∈ T.topMarks, g ∈ T.vdigests
  | .leaf _, _, g, h => by simp [MJ.topMarks] at h
  | .arr xs, wf, g, h => by
    simp only [MJ.WF] at wf
    simpa [MJ.vdigests] using MElems.topMarks_sub_vdigests xs wf g (by simpa [MJ.topMarks] using h)
  | .obj ms sd, wf, g, h => by
    simp only [MJ.WF] at wf
    simp only [MJ.topMarks] at h
    simp only [MJ.vdigests, List.mem_append]
    exact MMems.topMarks_sub_vdigests ms sd wf.1 wf.2.1 g h
theorem MElems.topMarks_sub_vdigests : (xs : MElems) → xs.WF → ∀ g ∈ xs.topMarks, g ∈ xs.vdigests
  | .nil, _, g, h => by simp [MElems.topMarks] at h
  | .clear x r, wf, g, h => by
    simp only [MElems.WF] at wf
    simp only [MElems.topMarks, List.mem_append] at h
    simp only [MElems.vdigests, List.mem_append]
    rcases h with h | h
    · left; exact MJ.topMarks_sub_vdigests x wf.1 g h
    · right; exact MElems.topMarks_sub_vdigests r wf.2 g h
  | .marked dg x r, wf, g, h => by
    simp only [MElems.WF] at wf
    simp only [MElems.topMarks, List.mem_cons] at h
    simp only [MElems.vdigests, List.mem_cons]
    rcases h with h | h
    · left; exact h
    · right; exact MElems.topMarks_sub_vdigests r wf.2 g h
  | .decoy dg r, wf, g, h => by
    simp only [MElems.WF] at wf
    simp only [MElems.topMarks] at h
    simp only [MElems.vdigests, List.mem_cons]
    right; exact MElems.topMarks_sub_vdigests r wf g h
/-- for members the own marks are found in the enclosing object's `sd` -/
theorem MMems.topMarks_sub_vdigests : (ms : MMems) → (sd : Option (List String)) → ms.WF →
    (∀ g, g ∈ ms.marks → g ∈ sd.getD []) → ∀ g ∈ ms.topMarks, g ∈ sd.getD [] ∨ g ∈ ms.vdigests
  | .nil, _, _, _, g, h => by simp [MMems.topMarks] at h
  | .clear k x r, sd, wf, hm, g, h => by
    simp only [MMems.WF] at wf
    simp only [MMems.topMarks, List.mem_append] at h
    simp only [MMems.vdigests, List.mem_append]
    rcases h with h | h
    · right; left; exact MJ.topMarks_sub_vdigests x wf.2.2.1 g h
    · rcases MMems.topMarks_sub_vdigests r sd wf.2.2.2.2 (fun g hg => hm g (by simpa [MMems.marks] using hg)) g h with h | h
      · left; exact h
      · right; right; exact h
  | .marked k dg x r, sd, wf, hm, g, h => by
    simp only [MMems.WF] at wf
    simp only [MMems.topMarks, List.mem_cons] at h
    simp only [MMems.vdigests]
    rcases h with h | h
    · left; exact hm g (by simp [MMems.marks, h])
    · exact MMems.topMarks_sub_vdigests r sd wf.2.2.2.2 (fun g hg => hm g (by simp [MMems.marks, hg])) g h
end

mutual
theorem MJ.revealTop_id (g : String) : (T : MJ) → g ∉ T.topMarks → T.revealTop g = T
  | .leaf _, _ => rfl
  | .arr xs, h => by simp [MJ.revealTop, MElems.revealTop_id g xs (by simpa [MJ.topMarks] using h)]
  | .obj ms sd, h => by simp [MJ.revealTop, MMems.revealTop_id g ms (by simpa [MJ.topMarks] using h)]
theorem MElems.revealTop_id (g : String) : (xs : MElems) → g ∉ xs.topMarks → xs.revealTop g = xs
  | .nil, _ => rfl
  | .clear x r, h => by
    simp only [MElems.topMarks, List.mem_append, not_or] at h
    simp [MElems.revealTop, MJ.revealTop_id g x h.1, MElems.revealTop_id g r h.2]
  | .marked dg x r, h => by
    simp only [MElems.topMarks, List.mem_cons, not_or] at h
    have : dg ≠ g := fun e => h.1 e.symm
    simp [MElems.revealTop, this, MElems.revealTop_id g r h.2]
  | .decoy dg r, h => by
    simp only [MElems.topMarks] at h
    simp [MElems.revealTop, MElems.revealTop_id g r h]
theorem MMems.revealTop_id (g : String) : (ms : MMems) → g ∉ ms.topMarks → ms.revealTop g = ms
  | .nil, _ => rfl
  | .clear k x r, h => by
    simp only [MMems.topMarks, List.mem_append, not_or] at h
    simp [MMems.revealTop, MJ.revealTop_id g x h.1, MMems.revealTop_id g r h.2]
  | .marked k dg x r, h => by
    simp only [MMems.topMarks, List.mem_cons, not_or] at h
    have : dg ≠ g := fun e => h.1 e.symm
    simp [MMems.revealTop, this, MMems.revealTop_id g r h.2]
end
