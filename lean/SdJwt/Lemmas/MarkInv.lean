import SdJwt.Lemmas.IssueAll
import SdJwt.Lemmas.Rounds
import SdJwt.Lemmas.Hidden
import SdJwt.Lemmas.Complete
/-!
# What marking a node does to a tree's digests, marks, stale digests and disclosures

`markIn` turns exactly one clear node into a marked one.  Every list the holder-side theorems
speak about (all digests, all marks, the disclosures) grows by exactly the new entry, and no
digest becomes stale.  Hence the invariant the restorer needs (`TreeInv`) is preserved by
issuance, and the issuer's own disclosures are acceptable (`DOk`) for the tree it produced.
-/
open Assoc Spec
namespace Impl

/-! ### an induction principle for `markIn` -/

theorem markIn_ind (P : MJ → MJ → SDisc → Prop) (mk : Option String → J → String)
    (hobj : ∀ ms sd last x, ¬(last = "_sd" ∨ last = "...") → ms.getClear last = some x →
      P (.obj ms sd)
        (.obj (ms.toMarked last (mk (some last) x.payload)) (some (sd.getD [] ++ [mk (some last) x.payload])))
        ⟨mk (some last) x.payload, some last, x.payload⟩)
    (harr : ∀ xs i x, xs.getClearAt i = some x →
      P (.arr xs) (.arr (xs.toMarkedAt (mk none x.payload) i)) ⟨mk none x.payload, none, x.payload⟩)
    (hsetM : ∀ ms sd t x x' d, ms.getClear t = some x → P x x' d →
      P (.obj ms sd) (.obj (ms.setClear t x') sd) d)
    (hsetE : ∀ xs i x x' d, xs.getClearAt i = some x → P x x' d →
      P (.arr xs) (.arr (xs.setClearAt x' i)) d) (last : String) :
    (toks : List String) → (T T' : MJ) → (d : SDisc) →
    MJ.markIn pI pU mk toks last T = some (T', d) → P T T' d
  | [], T, T', d, h => by
    simp only [MJ.markIn] at h
    cases T with
    | leaf j => simp [MJ.markChild] at h
    | arr xs =>
      simp only [MJ.markChild] at h
      cases hp : pU last with
      | none => simp [hp] at h
      | some i =>
        simp only [hp] at h
        cases hg : xs.getClearAt i with
        | none => simp [hg] at h
        | some x =>
          simp only [hg, Option.some.injEq, Prod.mk.injEq] at h
          obtain ⟨rfl, rfl⟩ := h
          exact harr xs i x hg
    | obj ms sd =>
      simp only [MJ.markChild] at h
      by_cases hr : last = "_sd" ∨ last = "..."
      · simp [hr] at h
      · simp only [hr, if_false] at h
        cases hg : ms.getClear last with
        | none => simp [hg] at h
        | some x =>
          simp only [hg, Option.some.injEq, Prod.mk.injEq] at h
          obtain ⟨rfl, rfl⟩ := h
          exact hobj ms sd last x hr hg
  | t :: r, T, T', d, h => by
    simp only [MJ.markIn] at h
    cases hc : T.child pI t with
    | none => simp [hc] at h
    | some x =>
      simp only [hc] at h
      cases hm : MJ.markIn pI pU mk r last x with
      | none => simp [hm] at h
      | some res =>
        obtain ⟨x', d'⟩ := res
        simp only [hm, Option.some.injEq, Prod.mk.injEq] at h
        obtain ⟨rfl, rfl⟩ := h
        have ih := markIn_ind P mk hobj harr hsetM hsetE last r x x' d' hm
        cases T with
        | leaf j => simp [MJ.child] at hc
        | arr xs =>
          simp only [MJ.child] at hc
          cases hp : pI t with
          | none => simp [hp] at hc
          | some i =>
            simp only [hp, Option.bind_some] at hc
            simpa [MJ.setChild, hp] using hsetE xs i x x' d' hc ih
        | obj ms sd =>
          simp only [MJ.child] at hc
          simpa [MJ.setChild] using hsetM ms sd t x x' d' hc ih

/-! ### generic: replacing / marking one clear entry of a member list or element list -/

section generic
variable {α : Type} (fJ : MJ → List α)

theorem setClear_perm (fM : MMems → List α) (pre : String → String → MJ → List α)
    (hc : ∀ k x r, fM (.clear k x r) = fJ x ++ fM r)
    (hm : ∀ k dg x r, fM (.marked k dg x r) = pre k dg x ++ fM r)
    (k : String) (y x : MJ) (a : α) (hy : (fJ y).Perm (a :: fJ x)) :
    (ms : MMems) → ms.getClear k = some x → (fM (ms.setClear k y)).Perm (a :: fM ms)
  | .nil, h => by simp [MMems.getClear] at h
  | .clear k' x' r, h => by
    simp only [MMems.getClear] at h
    by_cases hk : k' = k
    · simp only [hk, if_true, Option.some.injEq] at h; subst h
      simp only [MMems.setClear, hk, if_true, hc]
      exact (hy.append_right _)
    · simp only [hk, if_false] at h
      simp only [MMems.setClear, hk, if_false, hc]
      exact ((setClear_perm fM pre hc hm k y x a hy r h).append_left _).trans List.perm_middle
  | .marked k' dg x' r, h => by
    simp only [MMems.getClear] at h
    simp only [MMems.setClear, hm]
    exact ((setClear_perm fM pre hc hm k y x a hy r h).append_left _).trans List.perm_middle

theorem toMarked_perm (fM : MMems → List α) (pre : String → String → MJ → List α)
    (hc : ∀ k x r, fM (.clear k x r) = fJ x ++ fM r)
    (hm : ∀ k dg x r, fM (.marked k dg x r) = pre k dg x ++ fM r)
    (k dg : String) (x : MJ) :
    (ms : MMems) → ms.getClear k = some x →
    ∃ l1 l2, fM ms = l1 ++ fJ x ++ l2 ∧ fM (ms.toMarked k dg) = l1 ++ pre k dg x ++ l2
  | .nil, h => by simp [MMems.getClear] at h
  | .clear k' x' r, h => by
    simp only [MMems.getClear] at h
    by_cases hk : k' = k
    · simp only [hk, if_true, Option.some.injEq] at h; subst h
      refine ⟨[], fM r, ?_, ?_⟩
      · simp [hc]
      · simp [MMems.toMarked, hk, hm]
    · simp only [hk, if_false] at h
      obtain ⟨l1, l2, e1, e2⟩ := toMarked_perm fM pre hc hm k dg x r h
      refine ⟨fJ x' ++ l1, l2, ?_, ?_⟩
      · simp [hc, e1]
      · simp [MMems.toMarked, hk, hc, e2]
  | .marked k' dg' x' r, h => by
    simp only [MMems.getClear] at h
    obtain ⟨l1, l2, e1, e2⟩ := toMarked_perm fM pre hc hm k dg x r h
    refine ⟨pre k' dg' x' ++ l1, l2, ?_, ?_⟩
    · simp [hm, e1]
    · simp [MMems.toMarked, hm, e2]

theorem setClearAt_perm (fE : MElems → List α) (preM : String → MJ → List α) (preD : String → List α)
    (hc : ∀ x r, fE (.clear x r) = fJ x ++ fE r)
    (hm : ∀ dg x r, fE (.marked dg x r) = preM dg x ++ fE r)
    (hd : ∀ dg r, fE (.decoy dg r) = preD dg ++ fE r)
    (y x : MJ) (a : α) (hy : (fJ y).Perm (a :: fJ x)) :
    (i : Nat) → (xs : MElems) → xs.getClearAt i = some x → (fE (xs.setClearAt y i)).Perm (a :: fE xs)
  | _, .nil, h => by simp [MElems.getClearAt] at h
  | 0, .clear x' r, h => by
    simp only [MElems.getClearAt, Option.some.injEq] at h; subst h
    simp only [MElems.setClearAt, hc]
    exact hy.append_right _
  | 0, .marked _ _ _, h => by simp [MElems.getClearAt] at h
  | 0, .decoy _ _, h => by simp [MElems.getClearAt] at h
  | i+1, .clear x' r, h => by
    simp only [MElems.getClearAt] at h
    simp only [MElems.setClearAt, hc]
    exact ((setClearAt_perm fE preM preD hc hm hd y x a hy i r h).append_left _).trans List.perm_middle
  | i+1, .marked dg x' r, h => by
    simp only [MElems.getClearAt] at h
    simp only [MElems.setClearAt, hm]
    exact ((setClearAt_perm fE preM preD hc hm hd y x a hy i r h).append_left _).trans List.perm_middle
  | i+1, .decoy dg r, h => by
    simp only [MElems.getClearAt] at h
    simp only [MElems.setClearAt, hd]
    exact ((setClearAt_perm fE preM preD hc hm hd y x a hy i r h).append_left _).trans List.perm_middle

theorem toMarkedAt_perm (fE : MElems → List α) (preM : String → MJ → List α) (preD : String → List α)
    (hc : ∀ x r, fE (.clear x r) = fJ x ++ fE r)
    (hm : ∀ dg x r, fE (.marked dg x r) = preM dg x ++ fE r)
    (hd : ∀ dg r, fE (.decoy dg r) = preD dg ++ fE r)
    (dg : String) (x : MJ) :
    (i : Nat) → (xs : MElems) → xs.getClearAt i = some x →
    ∃ l1 l2, fE xs = l1 ++ fJ x ++ l2 ∧ fE (xs.toMarkedAt dg i) = l1 ++ preM dg x ++ l2
  | _, .nil, h => by simp [MElems.getClearAt] at h
  | 0, .clear x' r, h => by
    simp only [MElems.getClearAt, Option.some.injEq] at h; subst h
    exact ⟨[], fE r, by simp [hc], by simp [MElems.toMarkedAt, hm]⟩
  | 0, .marked _ _ _, h => by simp [MElems.getClearAt] at h
  | 0, .decoy _ _, h => by simp [MElems.getClearAt] at h
  | i+1, .clear x' r, h => by
    simp only [MElems.getClearAt] at h
    obtain ⟨l1, l2, e1, e2⟩ := toMarkedAt_perm fE preM preD hc hm hd dg x i r h
    exact ⟨fJ x' ++ l1, l2, by simp [hc, e1], by simp [MElems.toMarkedAt, hc, e2]⟩
  | i+1, .marked dg' x' r, h => by
    simp only [MElems.getClearAt] at h
    obtain ⟨l1, l2, e1, e2⟩ := toMarkedAt_perm fE preM preD hc hm hd dg x i r h
    exact ⟨preM dg' x' ++ l1, l2, by simp [hm, e1], by simp [MElems.toMarkedAt, hm, e2]⟩
  | i+1, .decoy dg' r, h => by
    simp only [MElems.getClearAt] at h
    obtain ⟨l1, l2, e1, e2⟩ := toMarkedAt_perm fE preM preD hc hm hd dg x i r h
    exact ⟨preD dg' ++ l1, l2, by simp [hd, e1], by simp [MElems.toMarkedAt, hd, e2]⟩

end generic

theorem perm_insert_mid {α : Type} (a : α) (l1 m l2 : List α) :
    (l1 ++ (a :: m) ++ l2).Perm (a :: (l1 ++ m ++ l2)) := by
  simp only [List.append_assoc, List.cons_append]
  exact List.perm_middle

/-! ### all digests -/

theorem markIn_digests (mk : Option String → J → String) (last : String) (toks : List String)
    (T T' : MJ) (d : SDisc) (h : MJ.markIn pI pU mk toks last T = some (T', d)) :
    T'.digests.Perm (d.digest :: T.digests) := by
  refine markIn_ind (fun T T' d => T'.digests.Perm (d.digest :: T.digests)) mk ?_ ?_ ?_ ?_ last toks T T' d h
  · intro ms sd last x _ hg
    obtain ⟨l1, l2, e1, e2⟩ := toMarked_perm MJ.digests MMems.digests (fun _ _ x => x.digests)
      (fun _ _ _ => rfl) (fun _ _ _ _ => rfl) last (mk (some last) x.payload) x ms hg
    simp only [MJ.digests, Option.getD_some, e1, e2]
    simp only [List.append_assoc]
    exact List.perm_middle
  · intro xs i x hg
    obtain ⟨l1, l2, e1, e2⟩ := toMarkedAt_perm MJ.digests MElems.digests (fun dg x => dg :: x.digests)
      (fun dg => [dg]) (fun _ _ => rfl) (fun _ _ _ => by simp [MElems.digests])
      (fun _ _ => by simp [MElems.digests]) (mk none x.payload) x i xs hg
    simp only [MJ.digests, e1, e2]
    exact perm_insert_mid _ _ _ _
  · intro ms sd t x x' d hg ih
    simp only [MJ.digests]
    exact ((setClear_perm MJ.digests MMems.digests (fun _ _ x => x.digests) (fun _ _ _ => rfl)
      (fun _ _ _ _ => rfl) t x' x d.digest ih ms hg).append_left _).trans List.perm_middle
  · intro xs i x x' d hg ih
    simp only [MJ.digests]
    exact setClearAt_perm MJ.digests MElems.digests (fun dg x => dg :: x.digests) (fun dg => [dg])
      (fun _ _ => rfl) (fun _ _ _ => by simp [MElems.digests]) (fun _ _ => by simp [MElems.digests])
      x' x d.digest ih i xs hg

/-! ### all marks -/

theorem markIn_allMarks (mk : Option String → J → String) (last : String) (toks : List String)
    (T T' : MJ) (d : SDisc) (h : MJ.markIn pI pU mk toks last T = some (T', d)) :
    T'.allMarks.Perm (d.digest :: T.allMarks) := by
  refine markIn_ind (fun T T' d => T'.allMarks.Perm (d.digest :: T.allMarks)) mk ?_ ?_ ?_ ?_ last toks T T' d h
  · intro ms sd last x _ hg
    obtain ⟨l1, l2, e1, e2⟩ := toMarked_perm MJ.allMarks MMems.allMarks (fun _ dg x => dg :: x.allMarks)
      (fun _ _ _ => rfl) (fun _ _ _ _ => by simp [MMems.allMarks]) last (mk (some last) x.payload) x ms hg
    simp only [MJ.allMarks, e1, e2]
    exact perm_insert_mid _ _ _ _
  · intro xs i x hg
    obtain ⟨l1, l2, e1, e2⟩ := toMarkedAt_perm MJ.allMarks MElems.allMarks (fun dg x => dg :: x.allMarks)
      (fun _ => []) (fun _ _ => rfl) (fun _ _ _ => by simp [MElems.allMarks])
      (fun _ _ => by simp [MElems.allMarks]) (mk none x.payload) x i xs hg
    simp only [MJ.allMarks, e1, e2]
    exact perm_insert_mid _ _ _ _
  · intro ms sd t x x' d hg ih
    simp only [MJ.allMarks]
    exact setClear_perm MJ.allMarks MMems.allMarks (fun _ dg x => dg :: x.allMarks) (fun _ _ _ => rfl)
      (fun _ _ _ _ => by simp [MMems.allMarks]) t x' x d.digest ih ms hg
  · intro xs i x x' d hg ih
    simp only [MJ.allMarks]
    exact setClearAt_perm MJ.allMarks MElems.allMarks (fun dg x => dg :: x.allMarks) (fun _ => [])
      (fun _ _ => rfl) (fun _ _ _ => by simp [MElems.allMarks]) (fun _ _ => by simp [MElems.allMarks])
      x' x d.digest ih i xs hg

/-! ### disclosures -/

theorem markIn_discs (mk : Option String → J → String) (last : String) (toks : List String)
    (T T' : MJ) (d : SDisc) (h : MJ.markIn pI pU mk toks last T = some (T', d)) :
    T'.discs.Perm (d :: T.discs) := by
  refine markIn_ind (fun T T' d => T'.discs.Perm (d :: T.discs)) mk ?_ ?_ ?_ ?_ last toks T T' d h
  · intro ms sd last x _ hg
    obtain ⟨l1, l2, e1, e2⟩ := toMarked_perm MJ.discs MMems.discs
      (fun k dg x => ⟨dg, some k, x.payload⟩ :: x.discs)
      (fun _ _ _ => rfl) (fun _ _ _ _ => by simp [MMems.discs]) last (mk (some last) x.payload) x ms hg
    simp only [MJ.discs, e1, e2]
    exact perm_insert_mid _ _ _ _
  · intro xs i x hg
    obtain ⟨l1, l2, e1, e2⟩ := toMarkedAt_perm MJ.discs MElems.discs
      (fun dg x => ⟨dg, none, x.payload⟩ :: x.discs)
      (fun _ => []) (fun _ _ => rfl) (fun _ _ _ => by simp [MElems.discs])
      (fun _ _ => by simp [MElems.discs]) (mk none x.payload) x i xs hg
    simp only [MJ.discs, e1, e2]
    exact perm_insert_mid _ _ _ _
  · intro ms sd t x x' d hg ih
    simp only [MJ.discs]
    exact setClear_perm MJ.discs MMems.discs (fun k dg x => ⟨dg, some k, x.payload⟩ :: x.discs)
      (fun _ _ _ => rfl) (fun _ _ _ _ => by simp [MMems.discs]) t x' x d ih ms hg
  · intro xs i x x' d hg ih
    simp only [MJ.discs]
    exact setClearAt_perm MJ.discs MElems.discs (fun dg x => ⟨dg, none, x.payload⟩ :: x.discs) (fun _ => [])
      (fun _ _ => rfl) (fun _ _ _ => by simp [MElems.discs]) (fun _ _ => by simp [MElems.discs])
      x' x d ih i xs hg

end Impl

namespace Impl

/-! ### stale digests: marking creates none -/

theorem marks_toMarked_sup (k dg : String) : (ms : MMems) → ∀ g ∈ ms.marks, g ∈ (ms.toMarked k dg).marks
  | .nil, g, h => by simp [MMems.marks] at h
  | .clear k' x r, g, h => by
    simp only [MMems.marks] at h
    simp only [MMems.toMarked]
    split
    · simp [MMems.marks, h]
    · simpa [MMems.marks] using marks_toMarked_sup k dg r g h
  | .marked k' dg' x r, g, h => by
    simp only [MMems.marks, List.mem_cons] at h
    simp only [MMems.toMarked, MMems.marks, List.mem_cons]
    rcases h with h | h
    · exact .inl h
    · exact .inr (marks_toMarked_sup k dg r g h)

theorem marks_toMarked_new (k dg : String) : (ms : MMems) → (x : MJ) → ms.getClear k = some x →
    dg ∈ (ms.toMarked k dg).marks
  | .nil, _, h => by simp [MMems.getClear] at h
  | .clear k' x' r, x, h => by
    simp only [MMems.getClear] at h
    simp only [MMems.toMarked]
    by_cases hk : k' = k
    · simp [hk, MMems.marks]
    · simp only [hk, if_false] at h ⊢
      simpa [MMems.marks] using marks_toMarked_new k dg r x h
  | .marked k' dg' x' r, x, h => by
    simp only [MMems.getClear] at h
    simp only [MMems.toMarked, MMems.marks, List.mem_cons]
    exact .inr (marks_toMarked_new k dg r x h)

theorem deepStale_toMarked (k dg : String) : (ms : MMems) → (ms.toMarked k dg).deepStale = ms.deepStale
  | .nil => rfl
  | .clear k' x r => by
    simp only [MMems.toMarked]
    split
    · simp [MMems.deepStale]
    · simp [MMems.deepStale, deepStale_toMarked k dg r]
  | .marked k' dg' x r => by simp [MMems.toMarked, MMems.deepStale, deepStale_toMarked k dg r]

theorem deepStale_toMarkedAt (dg : String) : (i : Nat) → (xs : MElems) → (xs.toMarkedAt dg i).deepStale = xs.deepStale
  | _, .nil => by cases ‹Nat› <;> rfl
  | 0, .clear x r => by simp [MElems.toMarkedAt, MElems.deepStale]
  | 0, .marked _ _ _ => rfl
  | 0, .decoy _ _ => rfl
  | i+1, .clear x r => by simp [MElems.toMarkedAt, MElems.deepStale, deepStale_toMarkedAt dg i r]
  | i+1, .marked dg' x r => by simp [MElems.toMarkedAt, MElems.deepStale, deepStale_toMarkedAt dg i r]
  | i+1, .decoy dg' r => by simp [MElems.toMarkedAt, MElems.deepStale, deepStale_toMarkedAt dg i r]

theorem deepStale_setClear (k : String) (y x : MJ) (hy : ∀ h ∈ y.deepStale, h ∈ x.deepStale) :
    (ms : MMems) → ms.getClear k = some x → ∀ h ∈ (ms.setClear k y).deepStale, h ∈ ms.deepStale
  | .nil, hg, _, _ => by simp [MMems.getClear] at hg
  | .clear k' x' r, hg, h, hh => by
    simp only [MMems.getClear] at hg
    by_cases hk : k' = k
    · simp only [hk, if_true, Option.some.injEq] at hg; subst hg
      simp only [MMems.setClear, hk, if_true, MMems.deepStale, List.mem_append] at hh ⊢
      rcases hh with hh | hh
      · exact .inl (hy h hh)
      · exact .inr hh
    · simp only [hk, if_false] at hg
      simp only [MMems.setClear, hk, if_false, MMems.deepStale, List.mem_append] at hh ⊢
      rcases hh with hh | hh
      · exact .inl hh
      · exact .inr (deepStale_setClear k y x hy r hg h hh)
  | .marked k' dg x' r, hg, h, hh => by
    simp only [MMems.getClear] at hg
    simp only [MMems.setClear, MMems.deepStale, List.mem_append] at hh ⊢
    rcases hh with hh | hh
    · exact .inl hh
    · exact .inr (deepStale_setClear k y x hy r hg h hh)

theorem deepStale_setClearAt (y x : MJ) (hy : ∀ h ∈ y.deepStale, h ∈ x.deepStale) :
    (i : Nat) → (xs : MElems) → xs.getClearAt i = some x →
    ∀ h ∈ (xs.setClearAt y i).deepStale, h ∈ xs.deepStale
  | _, .nil, hg, _, _ => by simp [MElems.getClearAt] at hg
  | 0, .clear x' r, hg, h, hh => by
    simp only [MElems.getClearAt, Option.some.injEq] at hg; subst hg
    simp only [MElems.setClearAt, MElems.deepStale, List.mem_append] at hh ⊢
    rcases hh with hh | hh
    · exact .inl (hy h hh)
    · exact .inr hh
  | 0, .marked _ _ _, hg, _, _ => by simp [MElems.getClearAt] at hg
  | 0, .decoy _ _, hg, _, _ => by simp [MElems.getClearAt] at hg
  | i+1, .clear x' r, hg, h, hh => by
    simp only [MElems.getClearAt] at hg
    simp only [MElems.setClearAt, MElems.deepStale, List.mem_append] at hh ⊢
    rcases hh with hh | hh
    · exact .inl hh
    · exact .inr (deepStale_setClearAt y x hy i r hg h hh)
  | i+1, .marked dg x' r, hg, h, hh => by
    simp only [MElems.getClearAt] at hg
    simp only [MElems.setClearAt, MElems.deepStale, List.mem_append] at hh ⊢
    rcases hh with hh | hh
    · exact .inl hh
    · exact .inr (deepStale_setClearAt y x hy i r hg h hh)
  | i+1, .decoy dg r, hg, h, hh => by
    simp only [MElems.getClearAt] at hg
    simp only [MElems.setClearAt, MElems.deepStale, List.mem_cons] at hh ⊢
    rcases hh with hh | hh
    · exact .inl hh
    · exact .inr (deepStale_setClearAt y x hy i r hg h hh)

/-- marking a node makes no digest stale -/
theorem markIn_deepStale (mk : Option String → J → String) (last : String) (toks : List String)
    (T T' : MJ) (d : SDisc) (h : MJ.markIn pI pU mk toks last T = some (T', d)) :
    ∀ g ∈ T'.deepStale, g ∈ T.deepStale := by
  refine markIn_ind (fun T T' _ => ∀ g ∈ T'.deepStale, g ∈ T.deepStale) mk ?_ ?_ ?_ ?_ last toks T T' d h
  · intro ms sd last x _ hg g hgs
    simp only [MJ.deepStale, Option.getD_some, deepStale_toMarked, List.mem_append, List.mem_filter,
      Bool.not_eq_true', List.filter_append] at hgs ⊢
    rcases hgs with (⟨hin, hnm⟩ | ⟨hin, hnm⟩) | hgs
    · refine .inl ⟨hin, ?_⟩
      cases hc : ms.marks.contains g with
      | false => rfl
      | true =>
        have : g ∈ ms.marks := by simpa using hc
        have := marks_toMarked_sup last (mk (some last) x.payload) ms g this
        simp [this] at hnm
    · simp only [List.mem_singleton] at hin
      subst hin
      have := marks_toMarked_new last (mk (some last) x.payload) ms x hg
      simp [this] at hnm
    · exact .inr hgs
  · intro xs i x _ g hgs
    simpa [MJ.deepStale, deepStale_toMarkedAt] using hgs
  · intro ms sd t x x' d hg ih g hgs
    simp only [MJ.deepStale, marks_setClear, List.mem_append] at hgs ⊢
    rcases hgs with hgs | hgs
    · exact .inl hgs
    · exact .inr (deepStale_setClear t x' x ih ms hg g hgs)
  · intro xs i x x' d hg ih g hgs
    simp only [MJ.deepStale] at hgs ⊢
    exact deepStale_setClearAt x' x ih i xs hg g hgs

/-! ### stale digests and marks are among the digests -/

mutual
theorem MJ.deepStale_sub_digests : (T : MJ) → ∀ g ∈ T.deepStale, g ∈ T.digests
  | .leaf _, g, h => by simp [MJ.deepStale] at h
  | .arr xs, g, h => by simpa [MJ.digests] using MElems.deepStale_sub_digests xs g (by simpa [MJ.deepStale] using h)
  | .obj ms sd, g, h => by
    simp only [MJ.deepStale, List.mem_append, List.mem_filter] at h
    simp only [MJ.digests, List.mem_append]
    rcases h with h | h
    · exact .inl h.1
    · exact .inr (MMems.deepStale_sub_digests ms g h)
theorem MElems.deepStale_sub_digests : (xs : MElems) → ∀ g ∈ xs.deepStale, g ∈ xs.digests
  | .nil, g, h => by simp [MElems.deepStale] at h
  | .clear x r, g, h => by
    simp only [MElems.deepStale, List.mem_append] at h
    simp only [MElems.digests, List.mem_append]
    rcases h with h | h
    · exact .inl (MJ.deepStale_sub_digests x g h)
    · exact .inr (MElems.deepStale_sub_digests r g h)
  | .marked dg x r, g, h => by
    simp only [MElems.deepStale, List.mem_append] at h
    simp only [MElems.digests, List.mem_cons, List.mem_append]
    rcases h with h | h
    · exact .inr (.inl (MJ.deepStale_sub_digests x g h))
    · exact .inr (.inr (MElems.deepStale_sub_digests r g h))
  | .decoy dg r, g, h => by
    simp only [MElems.deepStale, List.mem_cons] at h
    simp only [MElems.digests, List.mem_cons]
    rcases h with h | h
    · exact .inl h
    · exact .inr (MElems.deepStale_sub_digests r g h)
theorem MMems.deepStale_sub_digests : (ms : MMems) → ∀ g ∈ ms.deepStale, g ∈ ms.digests
  | .nil, g, h => by simp [MMems.deepStale] at h
  | .clear k x r, g, h => by
    simp only [MMems.deepStale, List.mem_append] at h
    simp only [MMems.digests, List.mem_append]
    rcases h with h | h
    · exact .inl (MJ.deepStale_sub_digests x g h)
    · exact .inr (MMems.deepStale_sub_digests r g h)
  | .marked k dg x r, g, h => by
    simp only [MMems.deepStale, List.mem_append] at h
    simp only [MMems.digests, List.mem_append]
    rcases h with h | h
    · exact .inl (MJ.deepStale_sub_digests x g h)
    · exact .inr (MMems.deepStale_sub_digests r g h)
end


mutual
/-- in a conformant tree every mark is one of the tree's digests -/
theorem MJ.allMarks_sub_digests : (T : MJ) → T.WF → ∀ g ∈ T.allMarks, g ∈ T.digests
  | .leaf _, _, g, h => by simp [MJ.allMarks] at h
  | .arr xs, wf, g, h => by
    simp only [MJ.WF] at wf
    simpa [MJ.digests] using MElems.allMarks_sub_digests xs wf g (by simpa [MJ.allMarks] using h)
  | .obj ms sd, wf, g, h => by
    simp only [MJ.WF] at wf
    simp only [MJ.allMarks] at h
    simp only [MJ.digests, List.mem_append]
    rcases MMems.allMarks_sub_digests ms wf.1 g h with h1 | h1
    · exact .inl (wf.2.1 g h1)
    · exact .inr h1
theorem MElems.allMarks_sub_digests : (xs : MElems) → xs.WF → ∀ g ∈ xs.allMarks, g ∈ xs.digests
  | .nil, _, g, h => by simp [MElems.allMarks] at h
  | .clear x r, wf, g, h => by
    simp only [MElems.WF] at wf
    simp only [MElems.allMarks, List.mem_append] at h
    simp only [MElems.digests, List.mem_append]
    rcases h with h | h
    · exact .inl (MJ.allMarks_sub_digests x wf.1 g h)
    · exact .inr (MElems.allMarks_sub_digests r wf.2 g h)
  | .marked dg x r, wf, g, h => by
    simp only [MElems.WF] at wf
    simp only [MElems.allMarks, List.mem_cons, List.mem_append] at h
    simp only [MElems.digests, List.mem_cons, List.mem_append]
    rcases h with h | h | h
    · exact .inl h
    · exact .inr (.inl (MJ.allMarks_sub_digests x wf.1 g h))
    · exact .inr (.inr (MElems.allMarks_sub_digests r wf.2 g h))
  | .decoy dg r, wf, g, h => by
    simp only [MElems.WF] at wf
    simp only [MElems.allMarks] at h
    simp only [MElems.digests, List.mem_cons]
    exact .inr (MElems.allMarks_sub_digests r wf g h)
/-- a mark below a member list is either the mark of one of the members (listed in the parent's
`_sd`) or a digest inside one of them -/
theorem MMems.allMarks_sub_digests : (ms : MMems) → ms.WF → ∀ g ∈ ms.allMarks, g ∈ ms.marks ∨ g ∈ ms.digests
  | .nil, _, g, h => by simp [MMems.allMarks] at h
  | .clear k x r, wf, g, h => by
    simp only [MMems.WF] at wf
    simp only [MMems.allMarks, List.mem_append] at h
    simp only [MMems.digests, MMems.marks, List.mem_append]
    rcases h with h | h
    · exact .inr (.inl (MJ.allMarks_sub_digests x wf.2.2.1 g h))
    · rcases MMems.allMarks_sub_digests r wf.2.2.2.2 g h with h1 | h1
      · exact .inl h1
      · exact .inr (.inr h1)
  | .marked k dg x r, wf, g, h => by
    simp only [MMems.WF] at wf
    simp only [MMems.allMarks, List.mem_cons, List.mem_append] at h
    simp only [MMems.digests, MMems.marks, List.mem_cons, List.mem_append]
    rcases h with h | h | h
    · exact .inl (.inl h)
    · exact .inr (.inl (MJ.allMarks_sub_digests x wf.2.2.1 g h))
    · rcases MMems.allMarks_sub_digests r wf.2.2.2.2 g h with h1 | h1
      · exact .inl (.inr h1)
      · exact .inr (.inr h1)
end

mutual
theorem MJ.discs_digest : (T : MJ) → T.discs.map (·.digest) = T.allMarks
  | .leaf _ => rfl
  | .arr xs => by simpa [MJ.discs, MJ.allMarks] using MElems.discs_digest xs
  | .obj ms _ => by simpa [MJ.discs, MJ.allMarks] using MMems.discs_digest ms
theorem MElems.discs_digest : (xs : MElems) → xs.discs.map (·.digest) = xs.allMarks
  | .nil => rfl
  | .clear x r => by simp [MElems.discs, MElems.allMarks, MJ.discs_digest x, MElems.discs_digest r]
  | .marked dg x r => by simp [MElems.discs, MElems.allMarks, MJ.discs_digest x, MElems.discs_digest r]
  | .decoy _ r => by simpa [MElems.discs, MElems.allMarks] using MElems.discs_digest r
theorem MMems.discs_digest : (ms : MMems) → ms.discs.map (·.digest) = ms.allMarks
  | .nil => rfl
  | .clear _ x r => by simp [MMems.discs, MMems.allMarks, MJ.discs_digest x, MMems.discs_digest r]
  | .marked _ dg x r => by simp [MMems.discs, MMems.allMarks, MJ.discs_digest x, MMems.discs_digest r]
end

end Impl

namespace Impl

theorem nodup_map_inj {α β : Type} (f : α → β) : (l : List α) → (l.map f).Nodup →
    ∀ a ∈ l, ∀ b ∈ l, f a = f b → a = b
  | [], _, a, ha, _, _, _ => by simp at ha
  | x :: r, hn, a, ha, b, hb, e => by
    simp only [List.map_cons, List.nodup_cons, List.mem_map, not_exists, not_and] at hn
    simp only [List.mem_cons] at ha hb
    rcases ha with rfl | ha <;> rcases hb with rfl | hb
    · rfl
    · exact absurd e.symm (hn.1 b hb)
    · exact absurd e (hn.1 a ha)
    · exact nodup_map_inj f r hn.2 a ha b hb e

/-- **Issuance preserves what restoration needs.** If marking the addressed nodes one after
another is defined (each digest new to the tree), then the resulting tree is conformant with
pairwise distinct digests and marks, no digest became stale, and its marks / disclosures /
digests are those of the start tree plus exactly one per marked node. -/
theorem markAll_inv (mk : Nat → Option String → J → String) :
    (addr : List (List String × String)) → (i : Nat) → (T Tn : MJ) → (ds : List SDisc) →
    TreeInv T → markAll mk i addr T = some (Tn, ds) →
    TreeInv Tn ∧ (∀ g ∈ Tn.deepStale, g ∈ T.deepStale) ∧
      Tn.allMarks.Perm (ds.map (·.digest) ++ T.allMarks) ∧
      Tn.discs.Perm (ds ++ T.discs) ∧
      Tn.digests.Perm (ds.map (·.digest) ++ T.digests)
  | [], i, T, Tn, ds, inv, h => by
    simp only [markAll, Option.some.injEq, Prod.mk.injEq] at h
    obtain ⟨rfl, rfl⟩ := h
    exact ⟨inv, fun _ h => h, by simp, by simp, by simp⟩
  | (toks, last) :: r, i, T, Tn, ds, inv, h => by
    simp only [markAll] at h
    cases hm : MJ.markIn pI pU (mk i) toks last T with
    | none => simp [hm] at h
    | some res =>
      obtain ⟨T1, d⟩ := res
      simp only [hm] at h
      by_cases hf : d.digest ∈ T.digests
      · simp [hf] at h
      · simp only [hf, if_false] at h
        cases ha : markAll mk (i+1) r T1 with
        | none => simp [ha] at h
        | some res2 =>
          obtain ⟨T2, ds2⟩ := res2
          simp only [ha, Option.some.injEq, Prod.mk.injEq] at h
          obtain ⟨rfl, rfl⟩ := h
          have wf1 := markIn_wf (mk i) last toks T T1 d inv.wf hm (fun g hg => hg ▸ hf)
          have pd := markIn_digests (mk i) last toks T T1 d hm
          have pm := markIn_allMarks (mk i) last toks T T1 d hm
          have pdi := markIn_discs (mk i) last toks T T1 d hm
          have pst := markIn_deepStale (mk i) last toks T T1 d hm
          have hfm : d.digest ∉ T.allMarks := fun hh => hf (MJ.allMarks_sub_digests T inv.wf _ hh)
          have inv1 : TreeInv T1 :=
            ⟨wf1, pd.symm.nodup (List.nodup_cons.mpr ⟨hf, inv.nd⟩),
              pm.symm.nodup (List.nodup_cons.mpr ⟨hfm, inv.ndm⟩)⟩
          obtain ⟨i1, i2, i3, i4, i5⟩ := markAll_inv mk r (i+1) T1 T2 ds2 inv1 ha
          refine ⟨i1, fun g hg => pst g (i2 g hg), ?_, ?_, ?_⟩
          · refine i3.trans ?_
            simp only [List.map_cons, List.cons_append]
            exact ((pm.append_left _).trans List.perm_middle)
          · refine i4.trans ?_
            simp only [List.cons_append]
            exact ((pdi.append_left _).trans List.perm_middle)
          · refine i5.trans ?_
            simp only [List.map_cons, List.cons_append]
            exact ((pd.append_left _).trans List.perm_middle)

/-- marking never changes what the tree stands for -/
theorem markAll_plain (mk : Nat → Option String → J → String) :
    (addr : List (List String × String)) → (i : Nat) → (T Tn : MJ) → (ds : List SDisc) →
    markAll mk i addr T = some (Tn, ds) → Tn.plain = T.plain
  | [], i, T, Tn, ds, h => by
    simp only [markAll, Option.some.injEq, Prod.mk.injEq] at h
    rw [h.1]
  | (toks, last) :: r, i, T, Tn, ds, h => by
    simp only [markAll] at h
    cases hm : MJ.markIn pI pU (mk i) toks last T with
    | none => simp [hm] at h
    | some res =>
      obtain ⟨T1, d⟩ := res
      simp only [hm] at h
      split at h
      · cases h
      · cases ha : markAll mk (i+1) r T1 with
        | none => simp [ha] at h
        | some res2 =>
          obtain ⟨T2, ds2⟩ := res2
          simp only [ha, Option.some.injEq, Prod.mk.injEq] at h
          obtain ⟨rfl, rfl⟩ := h
          exact (markAll_plain mk r (i+1) T1 T2 ds2 ha).trans (markIn_plain (mk i) last toks T T1 d hm)

/-- **Issuer then holder, at the level of marked trees (T-issue ∘ T-restore).**  Start from any
conformant tree `T`, let the issuer mark any list of addressed nodes (`markAll` defined), and
present to the holder ANY selection, in ANY order, of the issuer's disclosures `ds` (as strings
that decode to them and hash to their digests, no string twice).  Then the holder accepts, and
what it returns strips to the issued tree's claims with exactly those marked nodes present whose
own and enclosing disclosures were all presented. -/
theorem issue_restore (env : Env) (mk : Nat → Option String → J → String)
    (addr : List (List String × String)) (T Tn : MJ) (ds : List SDisc) (inv : TreeInv T)
    (h : markAll mk 0 addr T = some (Tn, ds)) (strs : List String)
    (hstr : ∀ s ∈ strs, ∃ e ∈ ds, fromBase64 env s = .ok ⟨s, e.digest, e.key, e.value⟩)
    (hnd : (strs.map env.hash).Nodup) :
    ∃ c ps, restoreAll env Tn.payload strs = .ok (c, ps) ∧
      removeAll c = Tn.project (fun g => strs.any (fun s => env.hash s = g)) := by
  obtain ⟨invn, hst, pm, pdi, pd⟩ := markAll_inv mk addr 0 T Tn ds inv h
  have hndd : (ds.map (·.digest) ++ T.digests).Nodup := pd.nodup invn.nd
  have hdisj : ∀ e ∈ ds, e.digest ∉ T.digests := by
    intro e he hin
    have := (List.nodup_append.mp hndd).2.2 e.digest (List.mem_map_of_mem he) e.digest hin
    exact this rfl
  have hndiscs : (Tn.discs.map (·.digest)).Nodup := by rw [MJ.discs_digest]; exact invn.ndm
  refine restoreAll_complete env Tn strs invn (fun s hs => ?_) hnd (fun s hs d hf => ?_)
  · obtain ⟨e, _, hf⟩ := hstr s hs
    exact ⟨_, hf⟩
  · obtain ⟨e, he, hf'⟩ := hstr s hs
    rw [hf'] at hf
    cases hf
    have hein : e ∈ Tn.discs := pdi.symm.subset (by simp [he])
    refine ⟨⟨?_, ?_⟩, ?_⟩
    · intro hh
      exact hdisj e he (MJ.deepStale_sub_digests T _ (hst _ hh))
    · intro e' he' heq
      have := nodup_map_inj (·.digest) Tn.discs hndiscs e' he' e hein heq
      subst this
      exact ⟨rfl, rfl⟩
    · exact MJ.discs_hiddenE Tn e hein

end Impl
