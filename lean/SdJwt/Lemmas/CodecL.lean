import SdJwt.Impl.Codec
import SdJwt.Lemmas.Base64L
import SdJwt.Lemmas.EndToEnd
/-!
# The disclosure strings of the issuer, down to base64url

With base64url in the model, what `holder_verify_issued` assumed of the disclosure strings —
each decodes to the disclosure it was made from, hashes to its digest, contains no `~` — is
derived from one assumption on the JSON text codec (`parse (render j) = some j`).
-/
open Assoc Spec
namespace Impl

theorem ofList_toList' (l : List Char) : (String.ofList l).toList = l := String.toList_ofList

/-- what `Disclosure::build` makes, `Disclosure::from_base64` reads back: same name, same value, and
the digest is `base64_hash` of the string itself -/
theorem fromBase64_discString (c : Codec) (hc : ∀ j, c.parse (c.render j) = some j) (alg salt : String)
    (key : Option String) (v : J) (hk : ∀ k, key = some k → ¬(k = "_sd" ∨ k = "...")) :
    fromBase64 (c.env alg) (c.discString salt key v) =
      .ok ⟨c.discString salt key v, c.hash alg (c.discString salt key v), key, v⟩ := by
  have hd : (c.env alg).decodeDisc (c.discString salt key v) = some (discJson salt key v) := by
    simp [Codec.env, Codec.decodeDisc, Codec.discString, ofList_toList', B64.dec_enc, hc]
  unfold fromBase64
  rw [hd]
  cases key with
  | none => simp [discJson, Codec.env]
  | some k => simp [discJson, Codec.env, hk k rfl]

theorem discString_no_tilde (c : Codec) (salt : String) (key : Option String) (v : J) :
    '~' ∉ (c.discString salt key v).toList := by
  simp only [Codec.discString, ofList_toList']; exact B64.enc_no_tilde _

theorem hash_no_tilde (c : Codec) (alg s : String) : '~' ∉ (c.hash alg s).toList := by
  simp only [Codec.hash, ofList_toList']; exact B64.enc_no_tilde _

/-- different `(salt, name, value)` give different disclosure strings (JSON text and base64url are
both injective) -/
theorem discString_injective (c : Codec) (hc : ∀ j, c.parse (c.render j) = some j)
    (s s' : String) (k k' : Option String) (v v' : J)
    (h : c.discString s k v = c.discString s' k' v') : s = s' ∧ k = k' ∧ v = v' := by
  simp only [Codec.discString] at h
  have h1 := B64.enc_injective _ _ (String.ofList_inj.mp h)
  have h2 : discJson s k v = discJson s' k' v' := by
    have := congrArg c.parse h1; rw [hc, hc] at this; exact Option.some.inj this
  cases k <;> cases k' <;> simp_all [discJson]

/-- the disclosure made by one marking step: its digest is the digest function applied to its own
name and value, and its name is not reserved -/
theorem markIn_disc_eq (mk : Option String → J → String) (last : String) (toks : List String)
    (T T' : MJ) (d : SDisc) (h : MJ.markIn pI pU mk toks last T = some (T', d)) :
    d.digest = mk d.key d.value ∧ ∀ k, d.key = some k → ¬(k = "_sd" ∨ k = "...") := by
  refine markIn_ind (fun _ _ d => d.digest = mk d.key d.value ∧ ∀ k, d.key = some k → ¬(k = "_sd" ∨ k = "..."))
    mk ?_ ?_ ?_ ?_ last toks T T' d h
  · intro ms sd last x hr _
    refine ⟨rfl, ?_⟩
    intro k hk; simp only [Option.some.injEq] at hk; subst hk; exact hr
  · intro xs i x _; exact ⟨rfl, by intro k hk; cases hk⟩
  · intro ms sd t x x' d _ ih; exact ih
  · intro xs i x x' d _ ih; exact ih

/-- the digest function of an issuer whose `i`-th disclosure gets the salt `salt i` -/
def Codec.digestFn (c : Codec) (alg : String) (salt : Nat → String) : Nat → Option String → J → String :=
  fun i k v => c.hash alg (c.discString (salt i) k v)

/-- the disclosure strings of the issuer, in path order -/
def Codec.wireStrs (c : Codec) (salt : Nat → String) : Nat → List SDisc → List String
  | _, [] => []
  | i, d :: r => c.discString (salt i) d.key d.value :: Codec.wireStrs c salt (i+1) r

theorem markAll_wire (c : Codec) (alg : String) (salt : Nat → String) :
    (addr : List (List String × String)) → (i : Nat) → (T Tn : MJ) → (ds : List SDisc) →
    markAll (c.digestFn alg salt) i addr T = some (Tn, ds) →
    (∀ s ∈ c.wireStrs salt i ds, ∃ e ∈ ds, ∃ n, s = c.discString (salt n) e.key e.value ∧
        c.hash alg s = e.digest ∧ ∀ k, e.key = some k → ¬(k = "_sd" ∨ k = "...")) ∧
    (∀ e ∈ ds, ∃ s ∈ c.wireStrs salt i ds, c.hash alg s = e.digest)
  | [], i, T, Tn, ds, h => by
    simp only [markAll, Option.some.injEq, Prod.mk.injEq] at h
    obtain ⟨_, rfl⟩ := h
    simp [Codec.wireStrs]
  | (toks, last) :: r, i, T, Tn, ds, h => by
    simp only [markAll] at h
    cases hm : MJ.markIn pI pU (c.digestFn alg salt i) toks last T with
    | none => simp [hm] at h
    | some res =>
      obtain ⟨T1, d⟩ := res
      simp only [hm] at h
      by_cases hf : d.digest ∈ T.digests
      · simp [hf] at h
      · simp only [hf, if_false] at h
        cases ha : markAll (c.digestFn alg salt) (i+1) r T1 with
        | none => simp [ha] at h
        | some res2 =>
          obtain ⟨T2, ds2⟩ := res2
          simp only [ha, Option.some.injEq, Prod.mk.injEq] at h
          obtain ⟨_, rfl⟩ := h
          obtain ⟨hd, hk⟩ := markIn_disc_eq _ last toks T T1 d hm
          obtain ⟨ih1, ih2⟩ := markAll_wire c alg salt r (i+1) T1 T2 ds2 ha
          constructor
          · intro s hs
            simp only [Codec.wireStrs, List.mem_cons] at hs
            rcases hs with rfl | hs
            · exact ⟨d, List.mem_cons_self, i, rfl, hd.symm, hk⟩
            · obtain ⟨e, he, n, h1, h2, h3⟩ := ih1 s hs
              exact ⟨e, List.mem_cons_of_mem _ he, n, h1, h2, h3⟩
          · intro e he
            simp only [List.mem_cons] at he
            rcases he with rfl | he
            · exact ⟨_, by simp [Codec.wireStrs], hd.symm⟩
            · obtain ⟨s, hs, h1⟩ := ih2 e he
              exact ⟨s, by simp [Codec.wireStrs, hs], h1⟩

/-- **Issuer → bytes → holder.** `holder_verify_issued` with the disclosure strings written out: the
`i`-th disclosure is the base64url of the JSON text of `[salt i, name, value]`, its digest the
base64url of SHA-256 over that string. Of the byte level only this is assumed: the JSON text parser
reads back what the printer wrote (`hc`), the digests of the strings are pairwise different (`hnd`,
collision resistance + fresh salts), the JWT library returns what was signed (`hsig`) and the JWT
holds no `~` (`hj`). That the strings hold no `~`, decode to the disclosures they were made from and
hash to the embedded digests is now proved. -/
theorem holder_verify_issued_wire (c : Codec) (salt : Nat → String)
    (decodeClaims : String → Option J) (jwtDecode : String → Outcome (J × J))
    (kbDecode : String → J → Outcome (J × J))
    (paths : List String) (addr : List (List String × String)) (ms : MMems) (Tn : MJ)
    (ds : List SDisc) (decoys : Option (List String)) (cnf : Option MJ) (jwt : String) (header : J)
    (strs : List String)
    (wf : (MJ.obj ms none).WF) (hplain : (MJ.obj ms none).digests = [])
    (hk1 : "_sd_alg" ∉ ms.keys) (hk2 : "cnf" ∉ ms.keys)
    (hp : ParsedAll paths addr)
    (h : markAll (c.digestFn "sha-256" salt) 0 addr (.obj ms none) = some (Tn, ds)) (hne : ds ≠ [])
    (hdec : ∀ l, decoys = some l → l.Nodup ∧ (∀ g ∈ l, g ∉ Tn.digests))
    (hX : ∀ X, cnf = some X → X.WF ∧ X.digests = [])
    (hsig : ∀ payload dsrc,
      encode (MJ.obj ms none).payload paths (c.digestFn "sha-256" salt) decoys (cnf.map (·.payload)) = .ok (payload, dsrc) →
      jwtDecode jwt = .ok (header, payload))
    (hc : ∀ j, c.parse (c.render j) = some j)
    (hperm : strs.Perm (c.wireStrs salt 0 ds))
    (hnd : (strs.map (c.hash "sha-256")).Nodup)
    (hj : '~' ∉ jwt.toList) :
    ∃ ps, Holder.verify (c.rt decodeClaims jwtDecode kbDecode) (assemble jwt strs) =
        .ok (header, expectedClaims ms cnf, ps) ∧
      (ps.map (fun e => (e.1, e.2.digest))).Perm (Tn.paths "") := by
  obtain ⟨w1, w2⟩ := markAll_wire c "sha-256" salt addr 0 _ Tn ds h
  have henv : (c.rt decodeClaims jwtDecode kbDecode).env "sha-256" = c.env "sha-256" := rfl
  obtain ⟨ps, h1, h2, _⟩ := holder_verify_issued (c.rt decodeClaims jwtDecode kbDecode) (c.digestFn "sha-256" salt)
    paths addr ms Tn ds decoys cnf jwt header strs wf hplain hk1 hk2 hp h hne hdec hX hsig
    (by
      intro s hs
      obtain ⟨e, he, n, rfl, hh, hk⟩ := w1 s (hperm.mem_iff.mp hs)
      refine ⟨e, he, ?_⟩
      rw [henv, fromBase64_discString c hc "sha-256" (salt n) e.key e.value hk, hh])
    hnd
    (by
      intro e he
      obtain ⟨s, hs, hh⟩ := w2 e he
      exact ⟨s, hperm.mem_iff.mpr hs, hh⟩)
    hj
    (by
      intro s hs
      obtain ⟨e, _, n, rfl, _, _⟩ := w1 s (hperm.mem_iff.mp hs)
      exact discString_no_tilde c _ _ _)
  exact ⟨ps, h1, h2⟩

end Impl

namespace Impl

theorem utf8_injective (s t : String) (h : utf8 s = utf8 t) : s = t := by
  simp only [utf8, String.toUTF8_eq_toByteArray] at h
  apply String.toByteArray_inj.mp
  have h2 : s.toByteArray.data = t.toByteArray.data := Array.toList_inj.mp h
  cases hs : s.toByteArray; cases ht : t.toByteArray
  simp_all

theorem saltOf_injective (a b : List UInt8) (h : saltOf a = saltOf b) : a = b :=
  B64.enc_injective _ _ (String.ofList_inj.mp h)

/-- **digests repeat only if a salt repeats or SHA-2 collides.** If the digests drawn for two
disclosures coincide, then the two disclosures have the same salt, name and value, or two different
byte strings with the same hash have been exhibited -/
theorem digest_repeat (c : Codec) (hc : ∀ j, c.parse (c.render j) = some j) (alg : String)
    (s s' : String) (k k' : Option String) (v v' : J)
    (h : c.hash alg (c.discString s k v) = c.hash alg (c.discString s' k' v')) :
    (s = s' ∧ k = k' ∧ v = v') ∨ ∃ x y, x ≠ y ∧ c.sha alg x = c.sha alg y := by
  simp only [Codec.hash] at h
  have h1 := B64.enc_injective _ _ (String.ofList_inj.mp h)
  by_cases he : utf8 (c.discString s k v) = utf8 (c.discString s' k' v')
  · exact .inl (discString_injective c hc s s' k k' v v' (utf8_injective _ _ he))
  · exact .inr ⟨_, _, he, h1⟩

end Impl

namespace Impl
open Spec

/-- what the end-to-end theorems assume of the disclosure strings, derived for the strings the
issuer makes (any order): each decodes to the disclosure it was made from with the digest embedded
for it, every disclosure has its string, and no string holds a `~` -/
theorem wire_hyps (c : Codec) (salt : Nat → String) (decodeClaims : String → Option J)
    (jwtDecode : String → Outcome (J × J)) (kbDecode : String → J → Outcome (J × J))
    (addr : List (List String × String)) (T Tn : MJ) (ds : List SDisc) (strs : List String)
    (h : markAll (c.digestFn "sha-256" salt) 0 addr T = some (Tn, ds))
    (hc : ∀ j, c.parse (c.render j) = some j) (hperm : strs.Perm (c.wireStrs salt 0 ds)) :
    (∀ s ∈ strs, ∃ e ∈ ds, fromBase64 ((c.rt decodeClaims jwtDecode kbDecode).env "sha-256") s =
        .ok ⟨s, e.digest, e.key, e.value⟩) ∧
    (∀ e ∈ ds, ∃ s ∈ strs, (c.rt decodeClaims jwtDecode kbDecode).hash "sha-256" s = e.digest) ∧
    (∀ s ∈ strs, '~' ∉ s.toList) := by
  obtain ⟨w1, w2⟩ := markAll_wire c "sha-256" salt addr 0 T Tn ds h
  have henv : (c.rt decodeClaims jwtDecode kbDecode).env "sha-256" = c.env "sha-256" := rfl
  refine ⟨?_, ?_, ?_⟩
  · intro s hs
    obtain ⟨e, he, n, rfl, hh, hk⟩ := w1 s (hperm.mem_iff.mp hs)
    refine ⟨e, he, ?_⟩
    rw [henv, fromBase64_discString c hc "sha-256" (salt n) e.key e.value hk, hh]
  · intro e he
    obtain ⟨s, hs, hh⟩ := w2 e he
    exact ⟨s, hperm.mem_iff.mpr hs, hh⟩
  · intro s hs
    obtain ⟨e, _, n, rfl, _, _⟩ := w1 s (hperm.mem_iff.mp hs)
    exact discString_no_tilde c _ _ _

end Impl

namespace Impl

/-- a compact JWS holds no `~`: its three segments are base64url, its separators are `.` -/
theorem compact_no_tilde (c : Codec) (header payload : J) (sig : List UInt8) :
    '~' ∉ (c.compact header payload sig).toList := by
  simp only [Codec.compact, String.toList_ofList, List.mem_append, List.mem_cons]
  intro h
  rcases h with h | h | h | h | h
  · exact B64.enc_no_tilde _ h
  · exact absurd h (by decide)
  · exact B64.enc_no_tilde _ h
  · exact absurd h (by decide)
  · exact B64.enc_no_tilde _ h

/-- `get_jwt_part` finds the three segments of a compact JWS, and `decode_claims_no_verification`
reads the payload back from the middle one -/
theorem getJwtPart_compact (c : Codec) (header payload : J) (sig : List UInt8) :
    splitOn '.' (c.compact header payload sig).toList =
      [B64.enc (c.render header), B64.enc (c.render payload), B64.enc sig] ∧
    getJwtPart (c.compact header payload sig).toList .claims = .ok (B64.enc (c.render payload)) := by
  have hs : splitOn '.' (c.compact header payload sig).toList =
      [B64.enc (c.render header), B64.enc (c.render payload), B64.enc sig] := by
    simp only [Codec.compact, String.toList_ofList]
    rw [splitOn_prefix '.' _ _ (B64.enc_no_dot _), splitOn_prefix '.' _ _ (B64.enc_no_dot _),
      splitOn_of_not_mem '.' _ (B64.enc_no_dot _)]
  exact ⟨hs, by simp [getJwtPart, hs]⟩

theorem decodeClaims_compact (c : Codec) (hc : ∀ j, c.parse (c.render j) = some j) (payload : J) :
    c.decodeClaims (strOf (B64.enc (c.render payload))) = some payload := by
  simp [Codec.decodeClaims, strOf, String.toList_ofList, B64.dec_enc, hc]

end Impl
