import SdJwt.Spec.RefVerify
import SdJwt.Lemmas.View
import SdJwt.Lemmas.MarkInv
import SdJwt.Lemmas.Ancestry
/-!
# The specification's verification algorithm computes the projection (T-ref)

`Ref.process` — written from the text of the draft, sharing nothing with `Impl/` — applied to
the payload of a conformant tree with a table of disclosures returns the tree's claims with
exactly the marked nodes present whose own and enclosing disclosures are in the table.
-/
open Assoc Spec Impl
namespace Ref

/-- the JSON array a disclosure string decodes to -/
def discJ (salt : J) (e : SDisc) : J :=
  match e.key with
  | some k => .arr [salt, .str k, e.value]
  | none => .arr [salt, e.value]

/-- the selection a table stands for -/
def sel (tbl : List (String × J)) : String → Bool := fun g => (lookup tbl g).isSome

/-- table entries under digests of marked nodes are those nodes' disclosures; no entry under a
digest that marks nothing -/
structure TblFor (T : MJ) (tbl : List (String × J)) : Prop where
  own : ∀ e ∈ T.discs, ∀ j, lookup tbl e.digest = some j → ∃ salt, j = discJ salt e
  stale : ∀ g ∈ T.deepStale, lookup tbl g = none

mutual
/-- nesting of replaced values that `process` has to follow -/
def _root_.MJ.need (S : String → Bool) : MJ → Nat
  | .leaf _ => 1
  | .arr xs => 1 + xs.need S
  | .obj ms _ => 1 + ms.need S
def _root_.MElems.need (S : String → Bool) : MElems → Nat
  | .nil => 0
  | .clear x r => max (x.need S) (r.need S)
  | .marked dg x r => max (if S dg then x.need S else 0) (r.need S)
  | .decoy _ r => r.need S
def _root_.MMems.need (S : String → Bool) : MMems → Nat
  | .nil => 0
  | .clear _ x r => max (x.need S) (r.need S)
  | .marked _ dg x r => max (if S dg then x.need S else 0) (r.need S)
end

/-- (name, digest, subtree) of the marked members of one object -/
def _root_.MMems.markedTriples : MMems → List (String × String × MJ)
  | .nil => []
  | .clear _ _ r => r.markedTriples
  | .marked k dg x r => (k, dg, x) :: r.markedTriples

theorem _root_.MMems.triple_key {k dg : String} {x : MJ} : (ms : MMems) → (k, dg, x) ∈ ms.markedTriples →
    k ∈ ms.keys
  | .nil, h => by simp [MMems.markedTriples] at h
  | .clear k' x' r, h => by
    simp only [MMems.markedTriples] at h
    simp [MMems.keys, MMems.triple_key r h]
  | .marked k' dg' x' r, h => by
    simp only [MMems.markedTriples, List.mem_cons, Prod.mk.injEq] at h
    rcases h with ⟨rfl, _, _⟩ | h
    · simp [MMems.keys]
    · simp [MMems.keys, MMems.triple_key r h]

theorem _root_.MMems.triple_mark {k dg : String} {x : MJ} : (ms : MMems) → (k, dg, x) ∈ ms.markedTriples →
    dg ∈ ms.marks
  | .nil, h => by simp [MMems.markedTriples] at h
  | .clear k' x' r, h => by
    simp only [MMems.markedTriples] at h
    simp [MMems.marks, MMems.triple_mark r h]
  | .marked k' dg' x' r, h => by
    simp only [MMems.markedTriples, List.mem_cons, Prod.mk.injEq] at h
    rcases h with ⟨_, rfl, _⟩ | h
    · simp [MMems.marks]
    · simp [MMems.marks, MMems.triple_mark r h]

theorem _root_.MMems.mark_triple {dg : String} : (ms : MMems) → dg ∈ ms.marks →
    ∃ k x, (k, dg, x) ∈ ms.markedTriples
  | .nil, h => by simp [MMems.marks] at h
  | .clear k' x' r, h => by
    simp only [MMems.marks] at h
    obtain ⟨k, x, hh⟩ := MMems.mark_triple r h
    exact ⟨k, x, by simpa [MMems.markedTriples] using hh⟩
  | .marked k' dg' x' r, h => by
    simp only [MMems.marks, List.mem_cons] at h
    rcases h with rfl | h
    · exact ⟨k', x', by simp [MMems.markedTriples]⟩
    · obtain ⟨k, x, hh⟩ := MMems.mark_triple r h
      exact ⟨k, x, by simp [MMems.markedTriples, hh]⟩

/-- members with the marked ones included iff their digest is in `A` and selected -/
def _root_.MMems.projectOn (A : List String) (S : String → Bool) : MMems → List (String × J)
  | .nil => []
  | .clear k x r => (k, x.project S) :: r.projectOn A S
  | .marked k dg x r => if dg ∈ A ∧ S dg = true then (k, x.project S) :: r.projectOn A S else r.projectOn A S

/-- digests met inside the members that `projectOn A` includes -/
def _root_.MMems.digestsOn (A : List String) (S : String → Bool) : MMems → List String
  | .nil => []
  | .clear _ x r => x.digests ++ r.digestsOn A S
  | .marked _ dg x r => (if dg ∈ A ∧ S dg = true then x.digests else []) ++ r.digestsOn A S

theorem projectOn_all (S : String → Bool) (A : List String) : (ms : MMems) → (∀ g ∈ ms.marks, g ∈ A) →
    ms.projectOn A S = ms.project S
  | .nil, _ => rfl
  | .clear k x r, h => by simp [MMems.projectOn, MMems.project, projectOn_all S A r (by simpa [MMems.marks] using h)]
  | .marked k dg x r, h => by
    simp only [MMems.marks, List.mem_cons, forall_eq_or_imp] at h
    simp [MMems.projectOn, MMems.project, h.1, projectOn_all S A r h.2]

theorem keysGt_projectOn (A : List String) (S : String → Bool) (k0 : String) :
    (ms : MMems) → ms.keysGt k0 → AllGt k0 (ms.projectOn A S)
  | .nil, _ => trivial
  | .clear k x r, h => by
    simp only [MMems.keysGt] at h
    exact ⟨h.1, keysGt_projectOn A S k0 r h.2⟩
  | .marked k dg x r, h => by
    simp only [MMems.keysGt] at h
    simp only [MMems.projectOn]
    split
    · exact ⟨h.1, keysGt_projectOn A S k0 r h.2⟩
    · exact keysGt_projectOn A S k0 r h.2

theorem sorted_projectOn (A : List String) (S : String → Bool) : (ms : MMems) → ms.WF → Sorted (ms.projectOn A S)
  | .nil, _ => trivial
  | .clear k x r, wf => by
    simp only [MMems.WF] at wf
    exact ⟨keysGt_projectOn A S k r wf.2.2.2.1, sorted_projectOn A S r wf.2.2.2.2⟩
  | .marked k dg x r, wf => by
    simp only [MMems.WF] at wf
    simp only [MMems.projectOn]
    split
    · exact ⟨keysGt_projectOn A S k r wf.2.2.2.1, sorted_projectOn A S r wf.2.2.2.2⟩
    · exact sorted_projectOn A S r wf.2.2.2.2

/-- a digest that marks no member does not matter -/
theorem projectOn_cons_other (A : List String) (S : String → Bool) (g : String) :
    (ms : MMems) → (g ∉ ms.marks ∨ S g = false) → ms.projectOn (g :: A) S = ms.projectOn A S
  | .nil, _ => rfl
  | .clear k x r, h => by
    simp [MMems.projectOn, projectOn_cons_other A S g r (by simpa [MMems.marks] using h)]
  | .marked k dg x r, h => by
    have hr : g ∉ r.marks ∨ S g = false := by
      rcases h with h | h
      · exact .inl (fun hh => h (by simp [MMems.marks, hh]))
      · exact .inr h
    have : (dg ∈ g :: A ∧ S dg = true) ↔ (dg ∈ A ∧ S dg = true) := by
      constructor
      · rintro ⟨h1, h2⟩
        simp only [List.mem_cons] at h1
        rcases h1 with rfl | h1
        · rcases h with h | h
          · exact absurd (by simp [MMems.marks]) h
          · rw [h] at h2; cases h2
        · exact ⟨h1, h2⟩
      · rintro ⟨h1, h2⟩; exact ⟨by simp [h1], h2⟩
    simp only [MMems.projectOn, this, projectOn_cons_other A S g r hr]

/-- inserting the disclosed member marked `dg` -/
theorem projectOn_cons_mark (A : List String) (S : String → Bool) (k dg : String) (x : MJ) :
    (ms : MMems) → ms.WF → ms.marks.Nodup → (k, dg, x) ∈ ms.markedTriples → dg ∉ A → S dg = true →
    ains k (x.project S) (ms.projectOn A S) = ms.projectOn (dg :: A) S
  | .nil, _, _, h, _, _ => by simp [MMems.markedTriples] at h
  | .clear k' x' r, wf, nd, h, hA, hS => by
    simp only [MMems.WF] at wf
    simp only [MMems.marks] at nd
    simp only [MMems.markedTriples] at h
    have hlt : k' < k := MMems.keysGt_mem r k' wf.2.2.2.1 k (MMems.triple_key r h)
    simp only [MMems.projectOn]
    rw [ains_cons_lt _ _ _ hlt, projectOn_cons_mark A S k dg x r wf.2.2.2.2 nd h hA hS]
  | .marked k' dg' x' r, wf, nd, h, hA, hS => by
    simp only [MMems.WF] at wf
    simp only [MMems.marks, List.nodup_cons] at nd
    simp only [MMems.markedTriples, List.mem_cons, Prod.mk.injEq] at h
    rcases h with ⟨rfl, rfl, rfl⟩ | h
    · -- this member
      simp only [MMems.projectOn]
      rw [if_neg (fun hh => hA hh.1), if_pos ⟨by simp, hS⟩, projectOn_cons_other A S dg r (.inl nd.1)]
      exact ains_of_allGt (keysGt_projectOn A S k r wf.2.2.2.1)
    · have hlt : k' < k := MMems.keysGt_mem r k' wf.2.2.2.1 k (MMems.triple_key r h)
      have hne : dg' ≠ dg := fun e => nd.1 (e ▸ MMems.triple_mark r h)
      have : (dg' ∈ dg :: A ∧ S dg' = true) ↔ (dg' ∈ A ∧ S dg' = true) := by
        simp [hne]
      simp only [MMems.projectOn, this]
      split
      · rw [ains_cons_lt _ _ _ hlt, projectOn_cons_mark A S k dg x r wf.2.2.2.2 nd.2 h hA hS]
      · exact projectOn_cons_mark A S k dg x r wf.2.2.2.2 nd.2 h hA hS

/-! ### helper facts about one object's members -/

theorem triple_wf {k dg : String} {x : MJ} : (ms : MMems) → ms.WF → (k, dg, x) ∈ ms.markedTriples →
    k ≠ "_sd" ∧ k ≠ "..." ∧ x.WF
  | .nil, _, h => by simp [MMems.markedTriples] at h
  | .clear k' x' r, wf, h => by
    simp only [MMems.WF] at wf
    simp only [MMems.markedTriples] at h
    exact triple_wf r wf.2.2.2.2 h
  | .marked k' dg' x' r, wf, h => by
    simp only [MMems.WF] at wf
    simp only [MMems.markedTriples, List.mem_cons, Prod.mk.injEq] at h
    rcases h with ⟨rfl, rfl, rfl⟩ | h
    · exact ⟨wf.1, wf.2.1, wf.2.2.1⟩
    · exact triple_wf r wf.2.2.2.2 h

theorem triple_disc {k dg : String} {x : MJ} : (ms : MMems) → (k, dg, x) ∈ ms.markedTriples →
    (⟨dg, some k, x.payload⟩ : SDisc) ∈ ms.discs ∧ (∀ e ∈ x.discs, e ∈ ms.discs) ∧
    (∀ g ∈ x.deepStale, g ∈ ms.deepStale) ∧ (∀ g ∈ x.digests, g ∈ ms.digests)
  | .nil, h => by simp [MMems.markedTriples] at h
  | .clear k' x' r, h => by
    simp only [MMems.markedTriples] at h
    obtain ⟨h1, h2, h3, h4⟩ := triple_disc r h
    simp only [MMems.discs, MMems.deepStale, MMems.digests, List.mem_append]
    exact ⟨.inr h1, fun e he => .inr (h2 e he), fun g hg => .inr (h3 g hg), fun g hg => .inr (h4 g hg)⟩
  | .marked k' dg' x' r, h => by
    simp only [MMems.markedTriples, List.mem_cons, Prod.mk.injEq] at h
    simp only [MMems.discs, MMems.deepStale, MMems.digests, List.mem_cons, List.mem_append]
    rcases h with ⟨rfl, rfl, rfl⟩ | h
    · exact ⟨.inl rfl, fun e he => .inr (.inl he), fun g hg => .inl hg, fun g hg => .inl hg⟩
    · obtain ⟨h1, h2, h3, h4⟩ := triple_disc r h
      exact ⟨.inr (.inr h1), fun e he => .inr (.inr (h2 e he)), fun g hg => .inr (h3 g hg),
        fun g hg => .inr (h4 g hg)⟩

theorem need_triple (S : String → Bool) {k dg : String} {x : MJ} : (ms : MMems) →
    (k, dg, x) ∈ ms.markedTriples → S dg = true → x.need S ≤ ms.need S
  | .nil, h, _ => by simp [MMems.markedTriples] at h
  | .clear k' x' r, h, hS => by
    simp only [MMems.markedTriples] at h
    have := need_triple S r h hS
    simp only [MMems.need]; omega
  | .marked k' dg' x' r, h, hS => by
    simp only [MMems.markedTriples, List.mem_cons, Prod.mk.injEq] at h
    simp only [MMems.need]
    rcases h with ⟨rfl, rfl, rfl⟩ | h
    · simp only [hS, if_true]; omega
    · have := need_triple S r h hS; omega

theorem aget_projectOn_none (A : List String) (S : String → Bool) {k dg : String} {x : MJ} :
    (ms : MMems) → ms.WF → (k, dg, x) ∈ ms.markedTriples → dg ∉ A → aget k (ms.projectOn A S) = none
  | .nil, _, h, _ => by simp [MMems.markedTriples] at h
  | .clear k' x' r, wf, h, hA => by
    simp only [MMems.WF] at wf
    simp only [MMems.markedTriples] at h
    have hlt : k' < k := MMems.keysGt_mem r k' wf.2.2.2.1 k (MMems.triple_key r h)
    have hne : k ≠ k' := fun e => slt_irrefl k (e ▸ hlt)
    simp [MMems.projectOn, aget, hne, aget_projectOn_none A S r wf.2.2.2.2 h hA]
  | .marked k' dg' x' r, wf, h, hA => by
    simp only [MMems.WF] at wf
    simp only [MMems.markedTriples, List.mem_cons, Prod.mk.injEq] at h
    simp only [MMems.projectOn]
    rcases h with ⟨rfl, rfl, rfl⟩ | h
    · rw [if_neg (fun hh => hA hh.1)]
      exact aget_of_allGt (keysGt_projectOn A S k r wf.2.2.2.1)
    · have hlt : k' < k := MMems.keysGt_mem r k' wf.2.2.2.1 k (MMems.triple_key r h)
      have hne : k ≠ k' := fun e => slt_irrefl k (e ▸ hlt)
      split
      · simp [aget, hne, aget_projectOn_none A S r wf.2.2.2.2 h hA]
      · exact aget_projectOn_none A S r wf.2.2.2.2 h hA

theorem digestsOn_sub (A : List String) (S : String → Bool) : (ms : MMems) →
    ∀ g ∈ ms.digestsOn A S, g ∈ ms.digests
  | .nil, g, h => by simp [MMems.digestsOn] at h
  | .clear k x r, g, h => by
    simp only [MMems.digestsOn, List.mem_append] at h
    simp only [MMems.digests, List.mem_append]
    exact h.imp id (digestsOn_sub A S r g)
  | .marked k dg x r, g, h => by
    simp only [MMems.digestsOn, List.mem_append] at h
    simp only [MMems.digests, List.mem_append]
    rcases h with h | h
    · split at h
      · exact .inl h
      · simp at h
    · exact .inr (digestsOn_sub A S r g h)

/-- the digests inside a marked member not yet included are not among those of the included ones -/
theorem digestsOn_disj (A : List String) (S : String → Bool) {k dg : String} {x : MJ} :
    (ms : MMems) → ms.digests.Nodup → (k, dg, x) ∈ ms.markedTriples → dg ∉ A →
    ∀ g ∈ x.digests, g ∉ ms.digestsOn A S
  | .nil, _, h, _, _, _ => by simp [MMems.markedTriples] at h
  | .clear k' x' r, nd, h, hA, g, hg => by
    simp only [MMems.digests, List.nodup_append] at nd
    simp only [MMems.markedTriples] at h
    simp only [MMems.digestsOn, List.mem_append, not_or]
    exact ⟨fun hh => nd.2.2 g hh g ((triple_disc r h).2.2.2 g hg) rfl, digestsOn_disj A S r nd.2.1 h hA g hg⟩
  | .marked k' dg' x' r, nd, h, hA, g, hg => by
    simp only [MMems.digests, List.nodup_append] at nd
    simp only [MMems.markedTriples, List.mem_cons, Prod.mk.injEq] at h
    simp only [MMems.digestsOn, List.mem_append, not_or]
    rcases h with ⟨rfl, rfl, rfl⟩ | h
    · refine ⟨?_, fun hh => nd.2.2 g hg g (digestsOn_sub A S r g hh) rfl⟩
      rw [if_neg (fun hh => hA hh.1)]; simp
    · refine ⟨?_, digestsOn_disj A S r nd.2.1 h hA g hg⟩
      split
      · exact fun hh => nd.2.2 g hh g ((triple_disc r h).2.2.2 g hg) rfl
      · simp

/-- including one more member adds its digests -/
theorem digestsOn_cons (A : List String) (S : String → Bool) (g0 : String) : (ms : MMems) →
    ∀ g ∈ ms.digestsOn A S, g ∈ ms.digestsOn (g0 :: A) S
  | .nil, g, h => by simp [MMems.digestsOn] at h
  | .clear k x r, g, h => by
    simp only [MMems.digestsOn, List.mem_append] at h ⊢
    exact h.imp id (digestsOn_cons A S g0 r g)
  | .marked k dg x r, g, h => by
    simp only [MMems.digestsOn, List.mem_append] at h ⊢
    rcases h with h | h
    · split at h
      · rename_i hc
        left
        rw [if_pos ⟨by simp [hc.1], hc.2⟩]; exact h
      · simp at h
    · exact .inr (digestsOn_cons A S g0 r g h)

theorem digestsOn_cons_mark (A : List String) (S : String → Bool) {k dg : String} {x : MJ} :
    (ms : MMems) → (k, dg, x) ∈ ms.markedTriples → S dg = true →
    ∀ g ∈ x.digests, g ∈ ms.digestsOn (dg :: A) S
  | .nil, h, _, _, _ => by simp [MMems.markedTriples] at h
  | .clear k' x' r, h, hS, g, hg => by
    simp only [MMems.markedTriples] at h
    simp only [MMems.digestsOn, List.mem_append]
    exact .inr (digestsOn_cons_mark A S r h hS g hg)
  | .marked k' dg' x' r, h, hS, g, hg => by
    simp only [MMems.markedTriples, List.mem_cons, Prod.mk.injEq] at h
    simp only [MMems.digestsOn, List.mem_append]
    rcases h with ⟨rfl, rfl, rfl⟩ | h
    · left; rw [if_pos ⟨by simp, hS⟩]; exact hg
    · exact .inr (digestsOn_cons_mark A S r h hS g hg)

/-! ### the walk -/

/-- the state only grows by digests from `D` -/
def Grows (st st' : St) (D : List String) : Prop := ∀ g ∈ st'.seen, g ∈ st.seen ∨ g ∈ D

theorem Grows.refl (st : St) (D : List String) : Grows st st D := fun _ h => .inl h

theorem Grows.trans {a b c : St} {D1 D2 D : List String} (h1 : Grows a b D1) (h2 : Grows b c D2)
    (s1 : ∀ g ∈ D1, g ∈ D) (s2 : ∀ g ∈ D2, g ∈ D) : Grows a c D := by
  intro g hg
  rcases h2 g hg with h | h
  · rcases h1 g h with h' | h'
    · exact .inl h'
    · exact .inr (s1 g h')
  · exact .inr (s2 g h)

theorem aget_dots_hview (S : String → Bool) : (ms : MMems) → ms.WF → aget "..." (ms.hview S) = none
  | .nil, _ => rfl
  | .clear k x r, wf => by
    simp only [MMems.WF] at wf
    have : "..." ≠ k := fun e => wf.2.1 e.symm
    simp [MMems.hview, aget, this, aget_dots_hview S r wf.2.2.2.2]
  | .marked k g x r, wf => by
    simp only [MMems.WF] at wf
    have : "..." ≠ k := fun e => wf.2.1 e.symm
    simp only [MMems.hview]
    split
    · simp [aget, this, aget_dots_hview S r wf.2.2.2.2]
    · exact aget_dots_hview S r wf.2.2.2.2

/-- `members` does not look at `_sd` and keeps all names: it commutes with inserting `_sd` -/
theorem members_ains_sd (tbl : List (String × J)) (fuel : Nat) (v : J) :
    (l l' : List (String × J)) → (st st' : St) → (∀ p ∈ l, p.1 ≠ "_sd") →
    process.members tbl fuel l st = .ok (l', st') →
    process.members tbl fuel (ains "_sd" v l) st = .ok (ains "_sd" v l', st')
  | [], l', st, st', _, h => by
    simp only [process.members, Except.ok.injEq, Prod.mk.injEq] at h
    obtain ⟨rfl, rfl⟩ := h
    simp [ains, process.members]
  | (k, w) :: r, l', st, st', hk, h => by
    have hne : k ≠ "_sd" := hk (k, w) (by simp)
    simp only [process.members, hne, if_false] at h
    cases hp : process tbl fuel w st with
    | error e => simp [hp] at h
    | ok res =>
      obtain ⟨w', st1⟩ := res
      simp only [hp] at h
      cases hm : process.members tbl fuel r st1 with
      | error e => simp [hm] at h
      | ok res2 =>
        obtain ⟨r', st2⟩ := res2
        simp only [hm, Except.ok.injEq, Prod.mk.injEq] at h
        obtain ⟨rfl, rfl⟩ := h
        have ih := members_ains_sd tbl fuel v r r' st1 st2 (fun p hp' => hk p (by simp [hp'])) hm
        by_cases hlt : "_sd" < k
        · have e1 : ains "_sd" v ((k, w) :: r) = ("_sd", v) :: (k, w) :: r := by simp [ains, hlt]
          have e2 : ains "_sd" v ((k, w') :: r') = ("_sd", v) :: (k, w') :: r' := by simp [ains, hlt]
          rw [e1, e2]
          simp [process.members, hne, hp, hm]
        · have hne' : "_sd" ≠ k := fun e => hne e.symm
          have e1 : ains "_sd" v ((k, w) :: r) = (k, w) :: ains "_sd" v r := by simp [ains, hlt, hne']
          have e2 : ains "_sd" v ((k, w') :: r') = (k, w') :: ains "_sd" v r' := by simp [ains, hlt, hne']
          rw [e1, e2]
          simp [process.members, hne, hp, ih]

theorem seeDigest_ok (st : St) (g : String) (h : g ∉ st.seen) :
    seeDigest st g = .ok { st with seen := g :: st.seen } := by
  simp [seeDigest, h]

/-- the `_sd` phase of one object -/
theorem sdList_spec (tbl : List (String × J)) (f : Nat) (ms : MMems) (wf : ms.WF) (ndm : ms.marks.Nodup)
    (ndd : ms.digests.Nodup) (st0 : St)
    (IH : ∀ k dg x, (k, dg, x) ∈ ms.markedTriples → sel tbl dg = true → ∀ st : St,
      (∀ g ∈ x.digests, g ∉ st.seen) →
      ∃ st', process tbl f x.payload st = .ok (x.project (sel tbl), st') ∧ Grows st st' x.digests)
    (htbl : ∀ k dg x, (k, dg, x) ∈ ms.markedTriples → ∀ j, lookup tbl dg = some j →
      ∃ salt, j = .arr [salt, .str k, x.payload])
    (hbase : ∀ g ∈ ms.digests, g ∉ st0.seen) :
    (rest pre : List String) → (st : St) → (pre ++ rest).Nodup →
    (∀ g ∈ pre ++ rest, g ∉ ms.digests) → (∀ g ∈ rest, g ∉ st0.seen) →
    (∀ g ∈ rest, g ∉ ms.marks → lookup tbl g = none) →
    (∀ g ∈ st.seen, g ∈ st0.seen ∨ g ∈ pre ∨ g ∈ ms.digestsOn pre (sel tbl)) →
    ∃ st', process.sdList tbl f (rest.map .str) (ms.projectOn pre (sel tbl)) st =
        .ok (ms.projectOn (rest.reverse ++ pre) (sel tbl), st') ∧
      (∀ g ∈ st'.seen, g ∈ st0.seen ∨ g ∈ pre ++ rest ∨ g ∈ ms.digests)
  | [], pre, st, _, _, _, _, hseen => by
    refine ⟨st, by simp [process.sdList], ?_⟩
    intro g hg
    rcases hseen g hg with h | h | h
    · exact .inl h
    · exact .inr (.inl (by simpa using h))
    · exact .inr (.inr (digestsOn_sub pre _ ms g h))
  | g :: rest, pre, st, hnd, hsdm, hr0, hstale, hseen => by
    have hgpre : g ∉ pre := by
      intro hh
      have := (List.nodup_append.mp hnd).2.2 g hh g (by simp)
      exact this rfl
    have hgms : g ∉ ms.digests := hsdm g (by simp)
    have hgseen : g ∉ st.seen := by
      intro hh
      rcases hseen g hh with h | h | h
      · exact hr0 g (by simp) h
      · exact hgpre h
      · exact hgms (digestsOn_sub pre _ ms g h)
    have hnd' : ((g :: pre) ++ rest).Nodup := by
      have : ((g :: pre) ++ rest).Perm (pre ++ g :: rest) := by
        simp only [List.cons_append]
        exact List.perm_middle.symm
      exact this.symm.nodup hnd
    have hsdm' : ∀ h ∈ (g :: pre) ++ rest, h ∉ ms.digests := by
      intro h hh
      apply hsdm h
      simp only [List.cons_append, List.mem_cons, List.mem_append] at hh ⊢
      rcases hh with rfl | hh | hh
      · exact .inr (.inl rfl)
      · exact .inl hh
      · exact .inr (.inr hh)
    have hrev : (g :: rest).reverse ++ pre = rest.reverse ++ (g :: pre) := by simp
    simp only [List.map_cons, process.sdList, seeDigest_ok st g hgseen]
    rw [hrev]
    cases hl : lookup tbl g with
    | none =>
      -- no disclosure under this digest: ignored
      have hsel : sel tbl g = false := by simp [sel, hl]
      have hproj : ms.projectOn (g :: pre) (sel tbl) = ms.projectOn pre (sel tbl) :=
        projectOn_cons_other pre _ g ms (.inr hsel)
      simp only []
      rw [← hproj]
      obtain ⟨st', h1, h2⟩ := sdList_spec tbl f ms wf ndm ndd st0 IH htbl hbase rest (g :: pre)
        { st with seen := g :: st.seen } hnd' hsdm' (fun h hh => hr0 h (by simp [hh]))
        (fun h hh => hstale h (by simp [hh]))
        (by
          intro h hh
          simp only [List.mem_cons] at hh
          rcases hh with rfl | hh
          · exact .inr (.inl (by simp))
          · rcases hseen h hh with h' | h' | h'
            · exact .inl h'
            · exact .inr (.inl (by simp [h']))
            · exact .inr (.inr (digestsOn_cons pre _ g ms h h')))
      refine ⟨st', h1, ?_⟩
      intro h hh
      rcases h2 h hh with h' | h' | h'
      · exact .inl h'
      · refine .inr (.inl ?_)
        simp only [List.cons_append, List.mem_cons, List.mem_append] at h' ⊢
        rcases h' with rfl | h' | h'
        · exact .inr (.inl rfl)
        · exact .inl h'
        · exact .inr (.inr h')
      · exact .inr (.inr h')
    | some j =>
      have hmark : g ∈ ms.marks := by
        apply Classical.byContradiction
        intro hnm
        have := hstale g (by simp) hnm
        rw [hl] at this; cases this
      obtain ⟨k, x, htr⟩ := MMems.mark_triple ms hmark
      obtain ⟨salt, rfl⟩ := htbl k g x htr j hl
      have hsel : sel tbl g = true := by simp [sel, hl]
      obtain ⟨hk1, hk2, _⟩ := triple_wf ms wf htr
      have hres : ¬ (k = "_sd" ∨ k = "...") := by simp [hk1, hk2]
      have hag : aget k (ms.projectOn pre (sel tbl)) = none := aget_projectOn_none pre _ ms wf htr hgpre
      -- the member's value
      have hxdisj : ∀ h ∈ x.digests, h ∉ ({ st with seen := g :: st.seen, used := g :: st.used } : St).seen := by
        intro h hh hin
        have hxms : h ∈ ms.digests := (triple_disc ms htr).2.2.2 h hh
        simp only [List.mem_cons] at hin
        rcases hin with rfl | hin
        · exact hgms hxms
        · rcases hseen h hin with h' | h' | h'
          · exact hbase h hxms h'
          · exact hsdm h (by simp [h']) hxms
          · exact digestsOn_disj pre _ ms ndd htr hgpre h hh h'
      obtain ⟨st1, hp1, hg1⟩ := IH k g x htr hsel _ hxdisj
      simp only [hres, if_false, hag, Option.isSome_none, Bool.false_eq_true, hp1]
      rw [projectOn_cons_mark pre _ k g x ms wf ndm htr hgpre hsel]
      obtain ⟨st', h1, h2⟩ := sdList_spec tbl f ms wf ndm ndd st0 IH htbl hbase rest (g :: pre) st1 hnd' hsdm'
        (fun h hh => hr0 h (by simp [hh])) (fun h hh => hstale h (by simp [hh]))
        (by
          intro h hh
          rcases hg1 h hh with h' | h'
          · simp only [List.mem_cons] at h'
            rcases h' with rfl | h'
            · exact .inr (.inl (by simp))
            · rcases hseen h h' with h'' | h'' | h''
              · exact .inl h''
              · exact .inr (.inl (by simp [h'']))
              · exact .inr (.inr (digestsOn_cons pre _ g ms h h''))
          · exact .inr (.inr (digestsOn_cons_mark pre _ ms htr hsel h h')))
      refine ⟨st', h1, ?_⟩
      intro h hh
      rcases h2 h hh with h' | h' | h'
      · exact .inl h'
      · refine .inr (.inl ?_)
        simp only [List.cons_append, List.mem_cons, List.mem_append] at h' ⊢
        rcases h' with rfl | h' | h'
        · exact .inr (.inl rfl)
        · exact .inl h'
        · exact .inr (.inr h')
      · exact .inr (.inr h')

mutual
def _root_.MJ.sz : MJ → Nat
  | .leaf _ => 1
  | .arr xs => 1 + xs.sz
  | .obj ms _ => 1 + ms.sz
def _root_.MElems.sz : MElems → Nat
  | .nil => 0
  | .clear x r => 1 + x.sz + r.sz
  | .marked _ x r => 1 + x.sz + r.sz
  | .decoy _ r => 1 + r.sz
def _root_.MMems.sz : MMems → Nat
  | .nil => 0
  | .clear _ x r => 1 + x.sz + r.sz
  | .marked _ _ x r => 1 + x.sz + r.sz
end

theorem triple_sz {k dg : String} {x : MJ} : (ms : MMems) → (k, dg, x) ∈ ms.markedTriples → x.sz < ms.sz
  | .nil, h => by simp [MMems.markedTriples] at h
  | .clear k' x' r, h => by
    simp only [MMems.markedTriples] at h
    have := triple_sz r h
    simp only [MMems.sz]; omega
  | .marked k' dg' x' r, h => by
    simp only [MMems.markedTriples, List.mem_cons, Prod.mk.injEq] at h
    simp only [MMems.sz]
    rcases h with ⟨rfl, rfl, rfl⟩ | h
    · omega
    · have := triple_sz r h; omega

/-- table hypotheses on lists, so that they restrict to sub-trees -/
structure TblOn (ds : List SDisc) (stale : List String) (tbl : List (String × J)) : Prop where
  own : ∀ e ∈ ds, ∀ j, lookup tbl e.digest = some j → ∃ salt, j = discJ salt e
  stale : ∀ g ∈ stale, lookup tbl g = none

theorem TblOn.mono {ds ds' : List SDisc} {s s' : List String} {tbl : List (String × J)}
    (h : TblOn ds s tbl) (h1 : ∀ e ∈ ds', e ∈ ds) (h2 : ∀ g ∈ s', g ∈ s) : TblOn ds' s' tbl :=
  ⟨fun e he => h.own e (h1 e he), fun g hg => h.stale g (h2 g hg)⟩

/-- the payload of a clear element is not read as a placeholder -/
theorem clear_payload_dots (x : MJ) (wf : x.WF) : ∀ ms', x.payload = .obj ms' → aget "..." ms' = none := by
  intro ms' h
  cases x with
  | leaf j => simp only [MJ.WF] at wf; cases j <;> simp_all [MJ.payload, MJ.hview, J.scalar]
  | arr xs => simp [MJ.payload, MJ.hview] at h
  | obj ms sd =>
    simp only [MJ.WF] at wf
    simp only [MJ.payload, MJ.hview, J.obj.injEq] at h
    subst h
    rw [aget_withSd_ne sd "..." _ (by decide)]
    exact aget_dots_hview _ ms wf.1

theorem elems_clear (tbl : List (String × J)) (fuel : Nat) (j : J) (r : List J) (st : St)
    (h : ∀ ms, j = .obj ms → aget "..." ms = none) :
    process.elems tbl fuel (j :: r) st =
      match process tbl fuel j st with
      | .error e => .error e
      | .ok (x', st1) =>
        match process.elems tbl fuel r st1 with
        | .error e => .error e
        | .ok (r', st2) => .ok (x' :: r', st2) := by
  cases j with
  | obj ms => rw [process.elems.eq_2, h ms rfl]; rfl
  | null => rw [process.elems.eq_3] <;> first | rfl | (intro ms hh; cases hh)
  | bool b => rw [process.elems.eq_3] <;> first | rfl | (intro ms hh; cases hh)
  | num m e => rw [process.elems.eq_3] <;> first | rfl | (intro ms hh; cases hh)
  | str s => rw [process.elems.eq_3] <;> first | rfl | (intro ms hh; cases hh)
  | arr xs => rw [process.elems.eq_3] <;> first | rfl | (intro ms hh; cases hh)

theorem elems_placeholder (tbl : List (String × J)) (fuel : Nat) (dg : String) (r : List J) (st : St) :
    process.elems tbl fuel (placeholder dg :: r) st =
      match seeDigest st dg with
      | .error e => .error e
      | .ok st1 =>
        match lookup tbl dg with
        | none => process.elems tbl fuel r st1
        | some (.arr [_, v]) =>
          match process tbl fuel v { st1 with used := dg :: st1.used } with
          | .error e => .error e
          | .ok (v', st2) =>
            match process.elems tbl fuel r st2 with
            | .error e => .error e
            | .ok (r', st3) => .ok (v' :: r', st3)
        | some _ => .error .wrongPlace := by
  rw [placeholder, process.elems.eq_2]
  simp [aget]
  rfl

theorem hview_keys_ne_sd (S : String → Bool) : (ms : MMems) → ms.WF → ∀ p ∈ ms.hview S, p.1 ≠ "_sd"
  | .nil, _, p, h => by simp [MMems.hview] at h
  | .clear k x r, wf, p, h => by
    simp only [MMems.WF] at wf
    simp only [MMems.hview, List.mem_cons] at h
    rcases h with rfl | h
    · exact wf.1
    · exact hview_keys_ne_sd S r wf.2.2.2.2 p h
  | .marked k dg x r, wf, p, h => by
    simp only [MMems.WF] at wf
    simp only [MMems.hview] at h
    split at h
    · simp only [List.mem_cons] at h
      rcases h with rfl | h
      · exact wf.1
      · exact hview_keys_ne_sd S r wf.2.2.2.2 p h
    · exact hview_keys_ne_sd S r wf.2.2.2.2 p h

theorem nodup_of_triple {k dg : String} {x : MJ} : (ms : MMems) → ms.digests.Nodup →
    (k, dg, x) ∈ ms.markedTriples → x.digests.Nodup
  | .nil, _, h => by simp [MMems.markedTriples] at h
  | .clear k' x' r, nd, h => by
    simp only [MMems.digests, List.nodup_append] at nd
    simp only [MMems.markedTriples] at h
    exact nodup_of_triple r nd.2.1 h
  | .marked k' dg' x' r, nd, h => by
    simp only [MMems.digests, List.nodup_append] at nd
    simp only [MMems.markedTriples, List.mem_cons, Prod.mk.injEq] at h
    rcases h with ⟨rfl, rfl, rfl⟩ | h
    · exact nd.1
    · exact nodup_of_triple r nd.2.1 h

theorem aget_projectOn_sd (A : List String) (S : String → Bool) : (ms : MMems) → ms.WF →
    aget "_sd" (ms.projectOn A S) = none
  | .nil, _ => rfl
  | .clear k x r, wf => by
    simp only [MMems.WF] at wf
    have : "_sd" ≠ k := fun e => wf.1 e.symm
    simp [MMems.projectOn, aget, this, aget_projectOn_sd A S r wf.2.2.2.2]
  | .marked k dg x r, wf => by
    simp only [MMems.WF] at wf
    have : "_sd" ≠ k := fun e => wf.1 e.symm
    simp only [MMems.projectOn]
    split
    · simp [aget, this, aget_projectOn_sd A S r wf.2.2.2.2]
    · exact aget_projectOn_sd A S r wf.2.2.2.2

/-- **T-ref, the walk.** By induction on the size of the tree, for trees, element lists and
member lists at once. -/
theorem ref_all (tbl : List (String × J)) : ∀ n : Nat,
    (∀ T : MJ, T.sz ≤ n → ∀ (fuel : Nat) (st : St), T.WF → T.digests.Nodup → T.need (sel tbl) ≤ fuel →
      (∀ g ∈ T.digests, g ∉ st.seen) → TblOn T.discs T.deepStale tbl →
      ∃ st', process tbl fuel T.payload st = .ok (T.project (sel tbl), st') ∧ Grows st st' T.digests) ∧
    (∀ xs : MElems, xs.sz ≤ n → ∀ (fuel : Nat) (st : St), xs.WF → xs.digests.Nodup →
      xs.need (sel tbl) ≤ fuel → (∀ g ∈ xs.digests, g ∉ st.seen) → TblOn xs.discs xs.deepStale tbl →
      ∃ st', process.elems tbl fuel (xs.hview fun _ => false) st = .ok (xs.project (sel tbl), st') ∧
        Grows st st' xs.digests) ∧
    (∀ ms : MMems, ms.sz ≤ n → ∀ (fuel : Nat) (st : St), ms.WF → ms.digests.Nodup →
      ms.need (sel tbl) ≤ fuel → (∀ g ∈ ms.digests, g ∉ st.seen) → TblOn ms.discs ms.deepStale tbl →
      ∃ st', process.members tbl fuel (ms.hview fun _ => false) st =
          .ok (ms.projectOn [] (sel tbl), st') ∧ Grows st st' (ms.digestsOn [] (sel tbl)))
  | 0 => by
    refine ⟨?_, ?_, ?_⟩
    · intro T hsz
      cases T <;> simp [MJ.sz] at hsz
    · intro xs hsz fuel st _ _ _ _ _
      cases xs with
      | nil => exact ⟨st, by simp [MElems.hview, MElems.project, process.elems], Grows.refl _ _⟩
      | clear x r => simp [MElems.sz] at hsz
      | marked dg x r => simp [MElems.sz] at hsz
      | decoy dg r => simp [MElems.sz] at hsz
    · intro ms hsz fuel st _ _ _ _ _
      cases ms with
      | nil => exact ⟨st, by simp [MMems.hview, MMems.projectOn, process.members], Grows.refl _ _⟩
      | clear k x r => simp [MMems.sz] at hsz
      | marked k dg x r => simp [MMems.sz] at hsz
  | n+1 => by
    obtain ⟨ihJ, ihE, ihM⟩ := ref_all tbl n
    refine ⟨?_, ?_, ?_⟩
    · -- trees
      intro T hsz fuel st wf nd hfuel hdisj htbl
      cases T with
      | leaf j =>
        cases fuel with
        | zero => simp [MJ.need] at hfuel
        | succ f =>
          refine ⟨st, ?_, Grows.refl _ _⟩
          simp only [MJ.WF] at wf
          cases j <;> simp_all [MJ.payload, MJ.hview, MJ.project, process, J.scalar]
      | arr xs =>
        cases fuel with
        | zero => simp [MJ.need] at hfuel
        | succ f =>
          simp only [MJ.sz] at hsz
          simp only [MJ.WF] at wf
          simp only [MJ.digests] at nd hdisj
          simp only [MJ.need] at hfuel
          obtain ⟨st', h1, h2⟩ := ihE xs (by omega) f st wf nd (by omega) hdisj
            (htbl.mono (fun e he => he) (fun g hg => hg))
          exact ⟨st', by simp [MJ.payload, MJ.hview, MJ.project, process, h1], h2⟩
      | obj ms sd =>
        cases fuel with
        | zero => simp [MJ.need] at hfuel
        | succ f =>
          simp only [MJ.sz] at hsz
          simp only [MJ.WF] at wf
          simp only [MJ.digests, List.nodup_append] at nd
          simp only [MJ.digests, List.mem_append] at hdisj
          simp only [MJ.need] at hfuel
          have htblM : TblOn ms.discs ms.deepStale tbl :=
            htbl.mono (fun e he => he) (fun g hg => by simp [MJ.deepStale, hg])
          obtain ⟨st1, hm1, hg1⟩ := ihM ms (by omega) f st wf.1 nd.2.1 (by omega)
            (fun g hg => hdisj g (.inr hg)) htblM
          have hkeys : ∀ p ∈ ms.hview (fun _ => false), p.1 ≠ "_sd" :=
            hview_keys_ne_sd _ ms wf.1
          cases sd with
          | none =>
            -- no `_sd`: nothing is hidden here
            have hmarks : ∀ g ∈ ms.marks, g ∈ ([] : List String) := by
              intro g hg; simpa using wf.2.1 g hg
            refine ⟨st1, ?_, ?_⟩
            · simp [MJ.payload, MJ.hview, withSd, MJ.project, process, hm1,
                aget_sd_hview (fun _ => false) ms wf.1, projectOn_all _ [] ms hmarks]
            · exact fun g hg => (hg1 g hg).imp id (fun h => by
                simp [MJ.digests, digestsOn_sub [] _ ms g h])
          | some ds =>
            simp only [Option.getD_some] at nd hdisj wf
            have hm2 := members_ains_sd tbl f (.arr (ds.map .str)) _ _ st st1 hkeys hm1
            have hIH : ∀ k dg x, (k, dg, x) ∈ ms.markedTriples → sel tbl dg = true → ∀ st : St,
                (∀ g ∈ x.digests, g ∉ st.seen) →
                ∃ st', process tbl f x.payload st = .ok (x.project (sel tbl), st') ∧ Grows st st' x.digests := by
              intro k dg x htr hsel st2 hd2
              have hxsz := triple_sz ms htr
              obtain ⟨hd1, hd2', hd3, hd4⟩ := triple_disc ms htr
              have hxnd : x.digests.Nodup := nodup_of_triple ms nd.2.1 htr
              exact ihJ x (by omega) f st2 (triple_wf ms wf.1 htr).2.2 hxnd
                (by have := need_triple (sel tbl) ms htr hsel; omega) hd2
                (htblM.mono hd2' hd3)
            have htb : ∀ k dg x, (k, dg, x) ∈ ms.markedTriples → ∀ j, lookup tbl dg = some j →
                ∃ salt, j = .arr [salt, .str k, x.payload] := by
              intro k dg x htr j hj
              obtain ⟨salt, e⟩ := htblM.own _ (triple_disc ms htr).1 j hj
              exact ⟨salt, by simpa [discJ] using e⟩
            obtain ⟨st2, hs1, hs2⟩ := sdList_spec tbl f ms wf.1 wf.2.2 nd.2.1 st hIH htb
              (fun g hg => hdisj g (.inr hg)) ds [] st1 (by simpa using nd.1)
              (fun g hg hh => nd.2.2 g (by simpa using hg) g hh rfl)
              (fun g hg => hdisj g (.inl hg))
              (fun g hg hnm => htbl.stale g (by
                simp only [MJ.deepStale, Option.getD_some, List.mem_append, List.mem_filter]
                exact .inl ⟨hg, by simpa using hnm⟩))
              (fun g hg => (hg1 g hg).imp id .inr)
            have hfinal : ms.projectOn (ds.reverse ++ []) (sel tbl) = ms.project (sel tbl) :=
              projectOn_all _ _ ms (fun g hg => by simpa using wf.2.1 g hg)
            have hnosd : aget "_sd" (ms.projectOn [] (sel tbl)) = none :=
              aget_projectOn_sd [] _ ms wf.1
            refine ⟨st2, ?_, ?_⟩
            · simp only [MJ.payload, MJ.hview, withSd, MJ.project, process, hm2, aget_ains_self,
                adel_ains _ hnosd, hs1, hfinal]
            · intro g hg
              rcases hs2 g hg with h | h | h
              · exact .inl h
              · exact .inr (by simp only [MJ.digests, Option.getD_some, List.mem_append]; exact .inl (by simpa using h))
              · exact .inr (by simp only [MJ.digests, List.mem_append]; exact .inr h)
    · -- element lists
      intro xs hsz fuel st wf nd hfuel hdisj htbl
      cases xs with
      | nil => exact ⟨st, by simp [MElems.hview, MElems.project, process.elems], Grows.refl _ _⟩
      | clear x r =>
        simp only [MElems.sz] at hsz
        simp only [MElems.WF] at wf
        simp only [MElems.digests, List.nodup_append] at nd
        simp only [MElems.digests, List.mem_append] at hdisj
        simp only [MElems.need] at hfuel
        obtain ⟨st1, h1, g1⟩ := ihJ x (by omega) fuel st wf.1 nd.1 (by omega) (fun g hg => hdisj g (.inl hg))
          (htbl.mono (fun e he => by simp [MElems.discs, he]) (fun g hg => by simp [MElems.deepStale, hg]))
        obtain ⟨st2, h2, g2⟩ := ihE r (by omega) fuel st1 wf.2 nd.2.1 (by omega)
          (fun g hg hh => by
            rcases g1 g hh with h | h
            · exact hdisj g (.inr hg) h
            · exact nd.2.2 g h g hg rfl)
          (htbl.mono (fun e he => by simp [MElems.discs, he]) (fun g hg => by simp [MElems.deepStale, hg]))
        refine ⟨st2, ?_, g1.trans g2 (fun g hg => by simp [MElems.digests, hg]) (fun g hg => by simp [MElems.digests, hg])⟩
        have hcl := clear_payload_dots x wf.1
        simp only [MJ.payload] at hcl h1
        simp only [MElems.hview, MElems.project]
        rw [elems_clear tbl fuel _ _ st hcl]
        simp only [h1, h2]
      | marked dg x r =>
        simp only [MElems.sz] at hsz
        simp only [MElems.WF] at wf
        simp only [MElems.digests, List.nodup_cons, List.mem_append, not_or, List.nodup_append] at nd
        simp only [MElems.digests, List.mem_cons, List.mem_append] at hdisj
        simp only [MElems.need] at hfuel
        have hdgseen : dg ∉ st.seen := hdisj dg (.inl rfl)
        have htblr : TblOn r.discs r.deepStale tbl :=
          htbl.mono (fun e he => by simp [MElems.discs, he]) (fun g hg => by simp [MElems.deepStale, hg])
        simp only [MElems.hview, Bool.false_eq_true, if_false, MElems.project]
        rw [elems_placeholder, seeDigest_ok st dg hdgseen]
        cases hl : lookup tbl dg with
        | none =>
          have hsel : sel tbl dg = false := by simp [sel, hl]
          obtain ⟨st2, h2, g2⟩ := ihE r (by omega) fuel { st with seen := dg :: st.seen } wf.2 nd.2.2.1
            (by omega)
            (fun g hg hh => by
              simp only [List.mem_cons] at hh
              rcases hh with rfl | hh
              · exact nd.1.2 hg
              · exact hdisj g (.inr (.inr hg)) hh) htblr
          refine ⟨st2, by simp [hsel, h2], ?_⟩
          intro g hg
          rcases g2 g hg with h | h
          · simp only [List.mem_cons] at h
            rcases h with rfl | h
            · exact .inr (by simp [MElems.digests])
            · exact .inl h
          · exact .inr (by simp [MElems.digests, h])
        | some j =>
          have hsel : sel tbl dg = true := by simp [sel, hl]
          obtain ⟨salt, rfl⟩ := htbl.own ⟨dg, none, x.payload⟩ (by simp [MElems.discs]) j hl
          simp only [hsel, if_true] at hfuel
          obtain ⟨st1, h1, g1⟩ := ihJ x (by omega) fuel { st with seen := dg :: st.seen, used := dg :: st.used }
            wf.1 nd.2.1 (by omega)
            (fun g hg hh => by
              simp only [List.mem_cons] at hh
              rcases hh with rfl | hh
              · exact nd.1.1 hg
              · exact hdisj g (.inr (.inl hg)) hh)
            (htbl.mono (fun e he => by simp [MElems.discs, he]) (fun g hg => by simp [MElems.deepStale, hg]))
          obtain ⟨st2, h2, g2⟩ := ihE r (by omega) fuel st1 wf.2 nd.2.2.1 (by omega)
            (fun g hg hh => by
              rcases g1 g hh with h | h
              · simp only [List.mem_cons] at h
                rcases h with rfl | h
                · exact nd.1.2 hg
                · exact hdisj g (.inr (.inr hg)) h
              · exact nd.2.2.2 g h g hg rfl) htblr
          refine ⟨st2, by simp [discJ, hsel, h1, h2], ?_⟩
          intro g hg
          rcases g2 g hg with h | h
          · rcases g1 g h with h' | h'
            · simp only [List.mem_cons] at h'
              rcases h' with rfl | h'
              · exact .inr (by simp [MElems.digests])
              · exact .inl h'
            · exact .inr (by simp [MElems.digests, h'])
          · exact .inr (by simp [MElems.digests, h])
      | decoy dg r =>
        simp only [MElems.sz] at hsz
        simp only [MElems.WF] at wf
        simp only [MElems.digests, List.nodup_cons] at nd
        simp only [MElems.digests, List.mem_cons] at hdisj
        simp only [MElems.need] at hfuel
        have hdgseen : dg ∉ st.seen := hdisj dg (.inl rfl)
        have hl : lookup tbl dg = none := htbl.stale dg (by simp [MElems.deepStale])
        obtain ⟨st2, h2, g2⟩ := ihE r (by omega) fuel { st with seen := dg :: st.seen } wf nd.2 (by omega)
          (fun g hg hh => by
            simp only [List.mem_cons] at hh
            rcases hh with rfl | hh
            · exact nd.1 hg
            · exact hdisj g (.inr hg) hh)
          (htbl.mono (fun e he => by simpa [MElems.discs] using he) (fun g hg => by simp [MElems.deepStale, hg]))
        refine ⟨st2, by
          simp only [MElems.hview, MElems.project]
          rw [elems_placeholder, seeDigest_ok st dg hdgseen]
          simp [hl, h2], ?_⟩
        intro g hg
        rcases g2 g hg with h | h
        · simp only [List.mem_cons] at h
          rcases h with rfl | h
          · exact .inr (by simp [MElems.digests])
          · exact .inl h
        · exact .inr (by simp [MElems.digests, h])
    · -- member lists (the clear members; the marked ones are the `_sd` phase's business)
      intro ms hsz fuel st wf nd hfuel hdisj htbl
      cases ms with
      | nil => exact ⟨st, by simp [MMems.hview, MMems.projectOn, process.members], Grows.refl _ _⟩
      | clear k x r =>
        simp only [MMems.sz] at hsz
        simp only [MMems.WF] at wf
        simp only [MMems.digests, List.nodup_append] at nd
        simp only [MMems.digests, List.mem_append] at hdisj
        simp only [MMems.need] at hfuel
        obtain ⟨st1, h1, g1⟩ := ihJ x (by omega) fuel st wf.2.2.1 nd.1 (by omega) (fun g hg => hdisj g (.inl hg))
          (htbl.mono (fun e he => by simp [MMems.discs, he]) (fun g hg => by simp [MMems.deepStale, hg]))
        obtain ⟨st2, h2, g2⟩ := ihM r (by omega) fuel st1 wf.2.2.2.2 nd.2.1 (by omega)
          (fun g hg hh => by
            rcases g1 g hh with h | h
            · exact hdisj g (.inr hg) h
            · exact nd.2.2 g h g hg rfl)
          (htbl.mono (fun e he => by simp [MMems.discs, he]) (fun g hg => by simp [MMems.deepStale, hg]))
        refine ⟨st2, ?_, g1.trans g2 (fun g hg => by simp [MMems.digestsOn, hg]) (fun g hg => by simp [MMems.digestsOn, hg])⟩
        simp only [MJ.payload] at h1
        simp [MMems.hview, MMems.projectOn, process.members, wf.1, h1, h2]
      | marked k dg x r =>
        simp only [MMems.sz] at hsz
        simp only [MMems.WF] at wf
        simp only [MMems.digests, List.nodup_append] at nd
        simp only [MMems.digests, List.mem_append] at hdisj
        simp only [MMems.need] at hfuel
        obtain ⟨st2, h2, g2⟩ := ihM r (by omega) fuel st wf.2.2.2.2 nd.2.1 (by omega)
          (fun g hg => hdisj g (.inr hg))
          (htbl.mono (fun e he => by simp [MMems.discs, he]) (fun g hg => by simp [MMems.deepStale, hg]))
        refine ⟨st2, ?_, fun g hg => (g2 g hg).imp id (fun h => by simp [MMems.digestsOn, h])⟩
        simpa [MMems.hview, MMems.projectOn] using h2

/-! ### enough fuel -/

/-- total size of the values of the selected disclosures -/
def sumSel (S : String → Bool) : List SDisc → Nat
  | [] => 0
  | e :: r => (if S e.digest then jsize e.value else 0) + sumSel S r

theorem sumSel_append (S : String → Bool) : (a b : List SDisc) → sumSel S (a ++ b) = sumSel S a + sumSel S b
  | [], b => by simp [sumSel]
  | e :: r, b => by simp [sumSel, sumSel_append S r b]; omega

theorem sizeM_ains_ge (k : String) (v : J) : (l : List (String × J)) → aget k l = none →
    jsize.sizeM l ≤ jsize.sizeM (ains k v l)
  | [], _ => by simp [ains, jsize.sizeM]
  | (k', w) :: r, h => by
    simp only [aget] at h
    split at h
    · cases h
    · rename_i hne
      have := sizeM_ains_ge k v r h
      by_cases hlt : k < k'
      · simp only [ains, hlt, if_true, jsize.sizeM]; omega
      · simp only [ains, hlt, hne, if_false, jsize.sizeM]; omega

mutual
theorem MJ.need_le (S : String → Bool) : (T : MJ) → T.WF → T.need S ≤ jsize T.payload + sumSel S T.discs
  | .leaf j, wf => by
    simp only [MJ.WF] at wf
    cases j <;> simp_all [MJ.need, MJ.payload, MJ.hview, jsize, J.scalar]
  | .arr xs, wf => by
    simp only [MJ.WF] at wf
    have := MElems.need_le S xs wf
    simp only [MJ.need, MJ.payload, MJ.hview, jsize, MJ.discs]; omega
  | .obj ms sd, wf => by
    simp only [MJ.WF] at wf
    have h1 := MMems.need_le S ms wf.1
    have h2 : jsize.sizeM (ms.hview fun _ => false) ≤ jsize.sizeM (withSd sd (ms.hview fun _ => false)) := by
      cases sd with
      | none => exact Nat.le_refl _
      | some ds => exact sizeM_ains_ge _ _ _ (aget_sd_hview _ ms wf.1)
    simp only [MJ.need, MJ.payload, MJ.hview, jsize, MJ.discs]; omega
theorem MElems.need_le (S : String → Bool) : (xs : MElems) → xs.WF →
    xs.need S ≤ jsize.sizeL (xs.hview fun _ => false) + sumSel S xs.discs
  | .nil, _ => by simp [MElems.need]
  | .clear x r, wf => by
    simp only [MElems.WF] at wf
    have h1 := MJ.need_le S x wf.1
    have h2 := MElems.need_le S r wf.2
    simp only [MJ.payload] at h1
    simp only [MElems.need, MElems.hview, jsize.sizeL, MElems.discs, sumSel_append]; omega
  | .marked dg x r, wf => by
    simp only [MElems.WF] at wf
    have h1 := MJ.need_le S x wf.1
    have h2 := MElems.need_le S r wf.2
    simp only [MElems.need, MElems.hview, Bool.false_eq_true, if_false, jsize.sizeL, MElems.discs, sumSel,
      sumSel_append]
    split <;> omega
  | .decoy dg r, wf => by
    simp only [MElems.WF] at wf
    have h2 := MElems.need_le S r wf
    simp only [MElems.need, MElems.hview, jsize.sizeL, MElems.discs]; omega
theorem MMems.need_le (S : String → Bool) : (ms : MMems) → ms.WF →
    ms.need S ≤ jsize.sizeM (ms.hview fun _ => false) + sumSel S ms.discs
  | .nil, _ => by simp [MMems.need]
  | .clear k x r, wf => by
    simp only [MMems.WF] at wf
    have h1 := MJ.need_le S x wf.2.2.1
    have h2 := MMems.need_le S r wf.2.2.2.2
    simp only [MJ.payload] at h1
    simp only [MMems.need, MMems.hview, jsize.sizeM, MMems.discs, sumSel_append]; omega
  | .marked k dg x r, wf => by
    simp only [MMems.WF] at wf
    have h1 := MJ.need_le S x wf.2.2.1
    have h2 := MMems.need_le S r wf.2.2.2.2
    simp only [MMems.need, MMems.hview, Bool.false_eq_true, if_false, MMems.discs, sumSel, sumSel_append]
    split <;> omega
end

theorem jsize_discJ (salt : J) (e : SDisc) : jsize e.value ≤ jsize (discJ salt e) := by
  unfold discJ
  cases e.key <;> simp [jsize, jsize.sizeL] <;> omega

theorem sel_cons (g : String) (j : J) (r : List (String × J)) (h : String) :
    sel ((g, j) :: r) h = if h = g then true else sel r h := by
  simp only [sel, lookup]
  split <;> simp

/-- one table entry pays for at most one disclosure -/
theorem sumSel_cons_tbl (g : String) (j : J) (r : List (String × J)) : (E : List SDisc) →
    (E.map (·.digest)).Nodup →
    (∀ e ∈ E, e.digest = g → ∃ salt, j = discJ salt e) →
    sumSel (sel ((g, j) :: r)) E ≤
      (if g ∈ E.map (·.digest) then jsize j else 0) + sumSel (sel r) (E.filter (fun e => e.digest ≠ g))
  | [], _, _ => by simp [sumSel]
  | e :: E, nd, hown => by
    simp only [List.map_cons, List.nodup_cons] at nd
    have ih := sumSel_cons_tbl g j r E nd.2 (fun e' he' => hown e' (by simp [he']))
    by_cases he : e.digest = g
    · obtain ⟨salt, rfl⟩ := hown e (by simp) he
      have hg : g ∉ E.map (·.digest) := he ▸ nd.1
      have hf : (e :: E).filter (fun e => e.digest ≠ g) = E.filter (fun e => e.digest ≠ g) := by
        simp [List.filter_cons, he]
      have := jsize_discJ salt e
      simp only [sumSel, sel_cons, he, if_true, hf, List.map_cons, List.mem_cons, true_or]
      simp only [hg, if_false] at ih
      omega
    · have hf : (e :: E).filter (fun e => e.digest ≠ g) = e :: E.filter (fun e => e.digest ≠ g) := by
        simp [List.filter_cons, he]
      have hmem : (g ∈ (e :: E).map (·.digest)) ↔ (g ∈ E.map (·.digest)) := by
        simp only [List.map_cons, List.mem_cons]
        constructor
        · rintro (h | h)
          · exact absurd h.symm he
          · exact h
        · exact .inr
      simp only [sumSel, sel_cons, he, if_false, hf]
      by_cases hg : g ∈ E.map (·.digest)
      · simp only [hmem.mpr hg, hg, if_true] at ih ⊢; omega
      · have hg' : g ∉ (e :: E).map (·.digest) := fun hh => hg (hmem.mp hh)
        simp only [hg', hg, if_false] at ih ⊢; omega

/-- the selected disclosures' values are not larger than the table -/
theorem sumSel_le_tbl : (tbl : List (String × J)) → (E : List SDisc) → (E.map (·.digest)).Nodup →
    (∀ e ∈ E, ∀ j, lookup tbl e.digest = some j → ∃ salt, j = discJ salt e) →
    sumSel (sel tbl) E ≤ (tbl.map (fun p => jsize p.2)).sum
  | [], E, _, _ => by
    have : ∀ E : List SDisc, sumSel (sel []) E = 0 := by
      intro E
      induction E with
      | nil => rfl
      | cons e r ih => simp [sumSel, sel, lookup, ih]
    simp [this E]
  | (g, j) :: r, E, nd, hown => by
    have h1 := sumSel_cons_tbl g j r E nd (fun e he hg => hown e he j (by simp [lookup, hg]))
    have hnd' : ((E.filter (fun e => e.digest ≠ g)).map (·.digest)).Nodup :=
      (List.filter_sublist.map _).nodup nd
    have h2 := sumSel_le_tbl r (E.filter (fun e => e.digest ≠ g)) hnd' (by
      intro e he j' hj'
      simp only [List.mem_filter, decide_eq_true_eq] at he
      exact hown e he.1 j' (by simp [lookup, he.2, hj']))
    simp only [List.map_cons, List.sum_cons]
    split at h1 <;> omega

/-- a top-level `_sd_alg` member dropped -/
def dropAlgJ : J → J
  | .obj ms => .obj (adel "_sd_alg" ms)
  | j => j

/-- **T-ref.** The specification's verification algorithm (`Ref.verify`, non-strict), applied to
the payload of a conformant tree with pairwise distinct digests and a table in which every entry
under the digest of a marked node is that node's disclosure and no entry sits under a digest that
marks nothing, returns exactly the tree's claims with those marked nodes present whose own and
enclosing disclosures are in the table (top-level `_sd_alg` dropped).  The fuel `verify`
computes is shown to suffice. -/
theorem verify_project (T : MJ) (wf : T.WF) (nd : T.digests.Nodup) (ndm : T.allMarks.Nodup)
    (tbl : List (String × J)) (htbl : TblOn T.discs T.deepStale tbl)
    (hshape : shapesOk tbl = .ok ()) (hdup : dupFree tbl = true) :
    verify false T.payload tbl = .ok (dropAlgJ (T.project (sel tbl))) := by
  have hfuel : T.need (sel tbl) ≤ jsize T.payload + (tbl.map (fun p => jsize p.2)).sum + 2 := by
    have h1 := MJ.need_le (sel tbl) T wf
    have h2 := sumSel_le_tbl tbl T.discs (by rw [MJ.discs_digest]; exact ndm) htbl.own
    omega
  obtain ⟨st', hp, _⟩ := (ref_all tbl T.sz).1 T (Nat.le_refl _) _ ⟨[], []⟩ wf nd hfuel (by simp) htbl
  unfold verify
  simp only [hshape, hdup, Bool.not_true, Bool.false_eq_true, if_false, hp, Bool.false_and]
  cases T.project (sel tbl) <;> rfl

/-! ### tables made of a tree's own disclosures -/

/-- the table for a selection of disclosures, each with its salt -/
def tblOf (sub : List (SDisc × J)) : List (String × J) := sub.map (fun p => (p.1.digest, discJ p.2 p.1))

theorem lookup_tblOf_some : (sub : List (SDisc × J)) → (g : String) → (j : J) → lookup (tblOf sub) g = some j →
    ∃ p ∈ sub, p.1.digest = g ∧ j = discJ p.2 p.1
  | [], g, j, h => by simp [tblOf, lookup] at h
  | p :: r, g, j, h => by
    simp only [tblOf, List.map_cons, lookup] at h
    split at h
    · rename_i he
      simp only [Option.some.injEq] at h
      exact ⟨p, by simp, he.symm, h.symm⟩
    · obtain ⟨q, hq, h1, h2⟩ := lookup_tblOf_some r g j h
      exact ⟨q, by simp [hq], h1, h2⟩

theorem lookup_tblOf_none : (sub : List (SDisc × J)) → (g : String) → (∀ p ∈ sub, p.1.digest ≠ g) →
    lookup (tblOf sub) g = none
  | [], _, _ => rfl
  | p :: r, g, h => by
    have h1 : g ≠ p.1.digest := fun e => h p (by simp) e.symm
    simp only [tblOf, List.map_cons, lookup, h1, if_false]
    exact lookup_tblOf_none r g (fun q hq => h q (by simp [hq]))

theorem lookup_tblOf_mem : (sub : List (SDisc × J)) → (p : SDisc × J) → p ∈ sub →
    (lookup (tblOf sub) p.1.digest).isSome = true
  | [], p, h => by simp at h
  | q :: r, p, h => by
    simp only [tblOf, List.map_cons, lookup]
    split
    · rfl
    · simp only [List.mem_cons] at h
      rcases h with rfl | h
      · rename_i hne; exact absurd rfl hne
      · exact lookup_tblOf_mem r p h

/-- what a table of own disclosures selects -/
theorem sel_tblOf (sub : List (SDisc × J)) (g : String) :
    sel (tblOf sub) g = sub.any (fun p => p.1.digest = g) := by
  apply Bool.eq_iff_iff.mpr
  simp only [sel, List.any_eq_true, decide_eq_true_eq]
  constructor
  · intro h
    cases hl : lookup (tblOf sub) g with
    | none => simp [hl] at h
    | some j =>
      obtain ⟨p, hp, e, _⟩ := lookup_tblOf_some sub g j hl
      exact ⟨p, hp, e⟩
  · rintro ⟨p, hp, rfl⟩
    exact lookup_tblOf_mem sub p hp

mutual
/-- the names in the disclosures of a conformant tree are not reserved -/
theorem MJ.discs_key_ok : (T : MJ) → T.WF → ∀ e ∈ T.discs, ∀ k, e.key = some k → k ≠ "_sd" ∧ k ≠ "..."
  | .leaf _, _, e, h => by simp [MJ.discs] at h
  | .arr xs, wf, e, h => by
    simp only [MJ.WF] at wf
    exact MElems.discs_key_ok xs wf e (by simpa [MJ.discs] using h)
  | .obj ms _, wf, e, h => by
    simp only [MJ.WF] at wf
    exact MMems.discs_key_ok ms wf.1 e (by simpa [MJ.discs] using h)
theorem MElems.discs_key_ok : (xs : MElems) → xs.WF → ∀ e ∈ xs.discs, ∀ k, e.key = some k → k ≠ "_sd" ∧ k ≠ "..."
  | .nil, _, e, h => by simp [MElems.discs] at h
  | .clear x r, wf, e, h => by
    simp only [MElems.WF] at wf
    simp only [MElems.discs, List.mem_append] at h
    rcases h with h | h
    · exact MJ.discs_key_ok x wf.1 e h
    · exact MElems.discs_key_ok r wf.2 e h
  | .marked dg x r, wf, e, h => by
    simp only [MElems.WF] at wf
    simp only [MElems.discs, List.mem_cons, List.mem_append] at h
    rcases h with rfl | h | h
    · intro k hk; simp at hk
    · exact MJ.discs_key_ok x wf.1 e h
    · exact MElems.discs_key_ok r wf.2 e h
  | .decoy _ r, wf, e, h => by
    simp only [MElems.WF] at wf
    exact MElems.discs_key_ok r wf e (by simpa [MElems.discs] using h)
theorem MMems.discs_key_ok : (ms : MMems) → ms.WF → ∀ e ∈ ms.discs, ∀ k, e.key = some k → k ≠ "_sd" ∧ k ≠ "..."
  | .nil, _, e, h => by simp [MMems.discs] at h
  | .clear k' x r, wf, e, h => by
    simp only [MMems.WF] at wf
    simp only [MMems.discs, List.mem_append] at h
    rcases h with h | h
    · exact MJ.discs_key_ok x wf.2.2.1 e h
    · exact MMems.discs_key_ok r wf.2.2.2.2 e h
  | .marked k' dg x r, wf, e, h => by
    simp only [MMems.WF] at wf
    simp only [MMems.discs, List.mem_cons, List.mem_append] at h
    rcases h with rfl | h | h
    · intro k hk
      simp only [Option.some.injEq] at hk
      subst hk
      exact ⟨wf.1, wf.2.1⟩
    · exact MJ.discs_key_ok x wf.2.2.1 e h
    · exact MMems.discs_key_ok r wf.2.2.2.2 e h
end

theorem shapesOk_tblOf (T : MJ) (wf : T.WF) : (sub : List (SDisc × J)) → (∀ p ∈ sub, p.1 ∈ T.discs) →
    shapesOk (tblOf sub) = .ok ()
  | [], _ => rfl
  | p :: r, h => by
    have hr := shapesOk_tblOf T wf r (fun q hq => h q (by simp [hq]))
    have hp := h p (by simp)
    simp only [tblOf, List.map_cons, shapesOk]
    have hs : shapeOk (discJ p.2 p.1) = .ok () := by
      unfold discJ
      cases hk : p.1.key with
      | none => simp [shapeOk]
      | some k =>
        obtain ⟨h1, h2⟩ := MJ.discs_key_ok T wf p.1 hp k hk
        simp [shapeOk, h1, h2]
    rw [hs]
    exact hr

theorem dupFree_tblOf : (sub : List (SDisc × J)) → (sub.map (·.1.digest)).Nodup → dupFree (tblOf sub) = true
  | [], _ => rfl
  | p :: r, h => by
    simp only [List.map_cons, List.nodup_cons, List.mem_map, not_exists, not_and] at h
    simp only [tblOf, List.map_cons, dupFree, Bool.and_eq_true, Bool.not_eq_true', List.any_eq_false,
      List.mem_map, decide_eq_true_eq, forall_exists_index, and_imp, forall_apply_eq_imp_iff₂]
    refine ⟨?_, dupFree_tblOf r h.2⟩
    intro q hq e
    exact h.1 q hq e

/-- **T-ref for a selection of the tree's own disclosures.** For every conformant tree with
pairwise distinct digests and marks, and ANY selection `sub` of its disclosures (each with any
salt, none under a decoy's digest, no digest twice), in any order: the specification's algorithm
returns the tree's claims with exactly those marked nodes present whose own and enclosing
disclosures are selected. -/
theorem verify_own (T : MJ) (wf : T.WF) (nd : T.digests.Nodup) (ndm : T.allMarks.Nodup)
    (sub : List (SDisc × J)) (hsub : ∀ p ∈ sub, p.1 ∈ T.discs ∧ p.1.digest ∉ T.deepStale)
    (hnd : (sub.map (·.1.digest)).Nodup) :
    verify false T.payload (tblOf sub) =
      .ok (dropAlgJ (T.project (fun g => sub.any (fun p => p.1.digest = g)))) := by
  have hndd : (T.discs.map (·.digest)).Nodup := by rw [MJ.discs_digest]; exact ndm
  have htbl : TblOn T.discs T.deepStale (tblOf sub) := by
    constructor
    · intro e he j hj
      obtain ⟨p, hp, hd, rfl⟩ := lookup_tblOf_some sub _ j hj
      have : p.1 = e := nodup_map_inj (·.digest) T.discs hndd p.1 (hsub p hp).1 e he hd
      exact ⟨p.2, by rw [this]⟩
    · intro g hg
      exact lookup_tblOf_none sub g (fun p hp e => (hsub p hp).2 (e ▸ hg))
  have := verify_project T wf nd ndm (tblOf sub) htbl
    (shapesOk_tblOf T wf sub (fun p hp => (hsub p hp).1)) (dupFree_tblOf sub hnd)
  rw [this]
  have hfun : sel (tblOf sub) = fun g => sub.any (fun p => decide (p.1.digest = g)) :=
    funext (sel_tblOf sub)
  rw [hfun]

end Ref
