import SdJwt.Lemmas.EndToEnd
import SdJwt.Lemmas.RestoreAll
/-!
# Soundness at the level of the flows

Whatever string is presented: if `Verifier::verify` / `Holder::verify` return claims, these are
`remove_digests` of what the restorer made of the payload the JWT library returned, and of the
disclosure strings found in the presented string.  With T-restore: they are a projection of the
signed claims.
-/
open Assoc Spec
namespace Impl

theorem verifier_verifyRaw_inv (rt : Rt) (tok : String) (policy : Bool) (h c : J) (ds : List String)
    (hv : Verifier.verifyRaw rt tok policy = .ok (h, c, ds)) :
    ∃ parts, sdJwtParts tok.toList = .ok parts ∧ rt.jwtDecode (strOf parts.jwt) = .ok (h, c) ∧
      ds = parts.disclosures.map strOf := by
  unfold Verifier.verifyRaw at hv
  cases hp : sdJwtParts tok.toList with
  | panic => simp [hp] at hv
  | err e => simp [hp] at hv
  | ok parts =>
    simp only [hp] at hv
    cases hj : rt.jwtDecode (strOf parts.jwt) with
    | panic => simp [hj] at hv
    | err e => simp [hj] at hv
    | ok hc =>
      obtain ⟨h', c'⟩ := hc
      simp only [hj] at hv
      refine ⟨parts, rfl, ?_⟩
      split at hv
      · cases hv
      · split at hv
        · cases hv
        · cases ha : (jidx c' "_sd_alg").asStr with
          | none => simp [ha] at hv
          | some a =>
            simp only [ha] at hv
            cases hpa : parseHashAlg a with
            | panic => simp [hpa] at hv
            | err e => simp [hpa] at hv
            | ok alg =>
              simp only [hpa] at hv
              cases hk : parts.kb with
              | none =>
                simp only [hk, Outcome.ok.injEq, Prod.mk.injEq] at hv
                obtain ⟨rfl, rfl, rfl⟩ := hv
                exact ⟨hj, rfl⟩
              | some kb =>
                simp only [hk] at hv
                split at hv
                · cases hv
                · cases hkb : verifyKb rt (strOf kb) (jidx c' "cnf") with
                  | panic => simp [hkb] at hv
                  | err e => simp [hkb] at hv
                  | ok r =>
                    obtain ⟨_, kbClaims⟩ := r
                    simp only [hkb] at hv
                    cases hh : (jidx kbClaims "sd_hash").asStr with
                    | none => simp [hh] at hv
                    | some sh =>
                      simp only [hh] at hv
                      split at hv
                      · cases hv
                      · simp only [Outcome.ok.injEq, Prod.mk.injEq] at hv
                        obtain ⟨rfl, rfl, rfl⟩ := hv
                        exact ⟨hj, rfl⟩

/-- what `Verifier::verify` returns, when it returns -/
theorem verifier_verify_inv (rt : Rt) (tok : String) (policy : Bool) (h c : J)
    (hv : Verifier.verify rt tok policy = .ok (h, c)) :
    ∃ parts p alg c0 ps, sdJwtParts tok.toList = .ok parts ∧
      rt.jwtDecode (strOf parts.jwt) = .ok (h, p) ∧
      restoreAll (rt.env alg) p (parts.disclosures.map strOf) = .ok (c0, ps) ∧ c = removeDigests c0 := by
  unfold Verifier.verify at hv
  cases hr : Verifier.verifyRaw rt tok policy with
  | panic => simp [hr] at hv
  | err e => simp [hr] at hv
  | ok r =>
    obtain ⟨h', p, ds⟩ := r
    simp only [hr] at hv
    obtain ⟨parts, hp, hj, rfl⟩ := verifier_verifyRaw_inv rt tok policy h' p ds hr
    cases hpa : parseHashAlg ((jidx p "_sd_alg").asStr.getD "") with
    | panic => simp [hpa] at hv
    | err e => simp [hpa] at hv
    | ok alg =>
      simp only [hpa] at hv
      cases hres : restoreAll (rt.env alg) p (parts.disclosures.map strOf) with
      | panic => simp [hres] at hv
      | err e => simp [hres] at hv
      | ok r2 =>
        obtain ⟨c0, ps⟩ := r2
        simp only [hres, Outcome.ok.injEq, Prod.mk.injEq] at hv
        obtain ⟨rfl, rfl⟩ := hv
        exact ⟨parts, p, alg, c0, ps, hp, hj, hres, rfl⟩

theorem holder_verify_inv (rt : Rt) (tok : String) (h c : J) (ps : List PathEntry)
    (hv : Holder.verify rt tok = .ok (h, c, ps)) :
    ∃ parts p alg c0, sdJwtParts tok.toList = .ok parts ∧
      rt.jwtDecode (strOf parts.jwt) = .ok (h, p) ∧
      restoreAll (rt.env alg) p (parts.disclosures.map strOf) = .ok (c0, ps) ∧ c = removeDigests c0 := by
  unfold Holder.verify at hv
  cases hr : Holder.verifyRaw rt tok with
  | panic => simp [hr] at hv
  | err e => simp [hr] at hv
  | ok r =>
    obtain ⟨h', p, ds⟩ := r
    simp only [hr] at hv
    have hraw : ∃ parts, sdJwtParts tok.toList = .ok parts ∧
        rt.jwtDecode (strOf parts.jwt) = .ok (h', p) ∧ ds = parts.disclosures.map strOf := by
      unfold Holder.verifyRaw at hr
      cases hp : sdJwtParts tok.toList with
      | panic => simp [hp] at hr
      | err e => simp [hp] at hr
      | ok parts =>
        simp only [hp] at hr
        split at hr
        · cases hr
        · cases hj : rt.jwtDecode (strOf parts.jwt) with
          | panic => simp [hj] at hr
          | err e => simp [hj] at hr
          | ok hc =>
            obtain ⟨h2, c2⟩ := hc
            simp only [hj] at hr
            cases ha : (jidx c2 "_sd_alg").asStr with
            | none => simp [ha] at hr
            | some a =>
              simp only [ha] at hr
              cases hpa : parseHashAlg a with
              | panic => simp [hpa] at hr
              | err e => simp [hpa] at hr
              | ok alg =>
                simp only [hpa, Outcome.ok.injEq, Prod.mk.injEq] at hr
                obtain ⟨rfl, rfl, rfl⟩ := hr
                exact ⟨parts, rfl, hj, rfl⟩
    obtain ⟨parts, hp, hj, rfl⟩ := hraw
    cases hpa : parseHashAlg ((jidx p "_sd_alg").asStr.getD "") with
    | panic => simp [hpa] at hv
    | err e => simp [hpa] at hv
    | ok alg =>
      simp only [hpa] at hv
      cases hres : restoreAll (rt.env alg) p (parts.disclosures.map strOf) with
      | panic => simp [hres] at hv
      | err e => simp [hres] at hv
      | ok r2 =>
        obtain ⟨c0, ps0⟩ := r2
        simp only [hres, Outcome.ok.injEq, Prod.mk.injEq] at hv
        obtain ⟨rfl, rfl, rfl⟩ := hv
        exact ⟨parts, p, alg, c0, hp, hj, hres, rfl⟩

/-- **C03 at the level of the flows.** Let `T` be a conformant tree and suppose that whatever
the JWT library accepts carries the payload of `T` (unforgeability: the only validly signed
payload around is the issuer's), and that every decodable disclosure string is acceptable for
`T` (collision resistance).  Then for EVERY presented string — any disclosures, any order,
any garbage, with or without a key-binding JWT — if the verifier returns claims, they are the
claims of `T` with exactly those marked nodes present whose own and enclosing disclosures are
among the presented strings (minus a top-level `_sd_alg`): nothing the issuer did not sign. -/
theorem verifier_flow_sound (rt : Rt) (tok : String) (policy : Bool) (T : MJ) (inv : TreeInv T)
    (hsig : ∀ j h p, rt.jwtDecode j = .ok (h, p) → p = T.payload)
    (hacc : ∀ alg s d, fromBase64 (rt.env alg) s = .ok d → DOk T d) (h c : J)
    (hv : Verifier.verify rt tok policy = .ok (h, c)) :
    ∃ (alg : String) (strs : List String), c = dropAlg (T.project (fun g => strs.any (fun s => rt.hash alg s = g))) := by
  obtain ⟨parts, p, alg, c0, ps, _, hj, hres, rfl⟩ := verifier_verify_inv rt tok policy h c hv
  have hp := hsig _ _ _ hj
  subst hp
  refine ⟨alg, parts.disclosures.map strOf, ?_⟩
  rw [removeDigests_eq]
  rcases restoreAll_sound (rt.env alg) T _ inv (fun s _ d hf => hacc alg s d hf) with ⟨e, he⟩ | ⟨c', ps', h', hp'⟩
  · rw [he] at hres; cases hres
  · rw [h'] at hres
    simp only [Outcome.ok.injEq, Prod.mk.injEq] at hres
    obtain ⟨rfl, _⟩ := hres
    rw [hp']
    rfl

/-- the same for the holder -/
theorem holder_flow_sound (rt : Rt) (tok : String) (T : MJ) (inv : TreeInv T)
    (hsig : ∀ j h p, rt.jwtDecode j = .ok (h, p) → p = T.payload)
    (hacc : ∀ alg s d, fromBase64 (rt.env alg) s = .ok d → DOk T d) (h c : J) (ps : List PathEntry)
    (hv : Holder.verify rt tok = .ok (h, c, ps)) :
    ∃ (alg : String) (strs : List String), c = dropAlg (T.project (fun g => strs.any (fun s => rt.hash alg s = g))) := by
  obtain ⟨parts, p, alg, c0, _, hj, hres, rfl⟩ := holder_verify_inv rt tok h c ps hv
  have hp := hsig _ _ _ hj
  subst hp
  refine ⟨alg, parts.disclosures.map strOf, ?_⟩
  rw [removeDigests_eq]
  rcases restoreAll_sound (rt.env alg) T _ inv (fun s _ d hf => hacc alg s d hf) with ⟨e, he⟩ | ⟨c', ps', h', hp'⟩
  · rw [he] at hres; cases hres
  · rw [h'] at hres
    simp only [Outcome.ok.injEq, Prod.mk.injEq] at hres
    obtain ⟨rfl, _⟩ := hres
    rw [hp']
    rfl

end Impl
