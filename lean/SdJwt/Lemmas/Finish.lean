import SdJwt.Lemmas.MarkInv
/-!
# The tail of `Issuer::encode` at the level of marked trees

After the paths have been applied the issuer appends decoy digests to the top-level `_sd`, sets
`_sd_alg`, and (for a bound token) `cnf`.  On trees: `withDecoys`, `insTop`.  Each is shown to be
what the code does to the payload, and to preserve what restoration needs.
-/
open Assoc Spec
namespace Impl

/-- sorted insertion of a clear member whose name is not among the members -/
def _root_.MMems.insClear (k : String) (x : MJ) : MMems → MMems
  | .nil => .clear k x .nil
  | .clear k' x' r => if k < k' then .clear k x (.clear k' x' r) else .clear k' x' (r.insClear k x)
  | .marked k' dg x' r => if k < k' then .clear k x (.marked k' dg x' r) else .marked k' dg x' (r.insClear k x)

/-- a new clear top-level member -/
def _root_.MJ.insTop (k : String) (x : MJ) : MJ → MJ
  | .obj ms sd => .obj (ms.insClear k x) sd
  | t => t

/-- decoy digests appended to the top-level `_sd` -/
def _root_.MJ.withDecoys (l : List String) : MJ → MJ
  | .obj ms sd => .obj ms (some (sd.getD [] ++ l))
  | t => t

theorem keysGt_mono {k0 k1 : String} (h : k0 < k1) : (ms : MMems) → ms.keysGt k1 → ms.keysGt k0
  | .nil, _ => trivial
  | .clear k x r, hg => by
    simp only [MMems.keysGt] at hg ⊢
    exact ⟨slt_trans h hg.1, keysGt_mono h r hg.2⟩
  | .marked k dg x r, hg => by
    simp only [MMems.keysGt] at hg ⊢
    exact ⟨slt_trans h hg.1, keysGt_mono h r hg.2⟩

theorem lt_of_not_lt_ne {k k' : String} (h1 : ¬ k < k') (h2 : k ≠ k') : k' < k := by
  rcases slt_tri k k' with h | h | h
  · exact absurd h h1
  · exact absurd h h2
  · exact h

theorem keysGt_insClear {k0 k : String} (x : MJ) (h : k0 < k) :
    (ms : MMems) → ms.keysGt k0 → (ms.insClear k x).keysGt k0
  | .nil, _ => ⟨h, trivial⟩
  | .clear k' x' r, hg => by
    simp only [MMems.keysGt] at hg
    simp only [MMems.insClear]
    split
    · exact ⟨h, hg.1, hg.2⟩
    · exact ⟨hg.1, keysGt_insClear x h r hg.2⟩
  | .marked k' dg x' r, hg => by
    simp only [MMems.keysGt] at hg
    simp only [MMems.insClear]
    split
    · exact ⟨h, hg.1, hg.2⟩
    · exact ⟨hg.1, keysGt_insClear x h r hg.2⟩

theorem wf_insClear (k : String) (x : MJ) (h1 : k ≠ "_sd") (h2 : k ≠ "...") (hx : x.WF) :
    (ms : MMems) → ms.WF → k ∉ ms.keys → (ms.insClear k x).WF
  | .nil, _, _ => ⟨h1, h2, hx, trivial, trivial⟩
  | .clear k' x' r, wf, hk => by
    simp only [MMems.WF] at wf
    simp only [MMems.keys, List.mem_cons, not_or] at hk
    simp only [MMems.insClear]
    split
    · rename_i hlt
      exact ⟨h1, h2, hx, ⟨hlt, keysGt_mono hlt r wf.2.2.2.1⟩, wf⟩
    · rename_i hnlt
      have hlt := lt_of_not_lt_ne hnlt hk.1
      exact ⟨wf.1, wf.2.1, wf.2.2.1, keysGt_insClear x hlt r wf.2.2.2.1,
        wf_insClear k x h1 h2 hx r wf.2.2.2.2 hk.2⟩
  | .marked k' dg x' r, wf, hk => by
    simp only [MMems.WF] at wf
    simp only [MMems.keys, List.mem_cons, not_or] at hk
    simp only [MMems.insClear]
    split
    · rename_i hlt
      exact ⟨h1, h2, hx, ⟨hlt, keysGt_mono hlt r wf.2.2.2.1⟩, wf⟩
    · rename_i hnlt
      have hlt := lt_of_not_lt_ne hnlt hk.1
      exact ⟨wf.1, wf.2.1, wf.2.2.1, keysGt_insClear x hlt r wf.2.2.2.1,
        wf_insClear k x h1 h2 hx r wf.2.2.2.2 hk.2⟩

theorem marks_insClear (k : String) (x : MJ) : (ms : MMems) → (ms.insClear k x).marks = ms.marks
  | .nil => rfl
  | .clear k' x' r => by
    simp only [MMems.insClear]; split
    · rfl
    · simp [MMems.marks, marks_insClear k x r]
  | .marked k' dg x' r => by
    simp only [MMems.insClear]; split
    · rfl
    · simp [MMems.marks, marks_insClear k x r]

/-- a new clear member shows up in every view as a sorted insertion -/
theorem hview_insClear (S : String → Bool) (k : String) (x : MJ) :
    (ms : MMems) → ms.WF → k ∉ ms.keys → (ms.insClear k x).hview S = ains k (x.hview S) (ms.hview S)
  | .nil, _, _ => rfl
  | .clear k' x' r, wf, hk => by
    simp only [MMems.WF] at wf
    simp only [MMems.keys, List.mem_cons, not_or] at hk
    simp only [MMems.insClear]
    split
    · rename_i hlt; simp [MMems.hview, ains, hlt]
    · rename_i hnlt
      have hlt := lt_of_not_lt_ne hnlt hk.1
      simp only [MMems.hview, hview_insClear S k x r wf.2.2.2.2 hk.2]
      exact (ains_cons_lt _ _ _ hlt).symm
  | .marked k' dg x' r, wf, hk => by
    simp only [MMems.WF] at wf
    simp only [MMems.keys, List.mem_cons, not_or] at hk
    simp only [MMems.insClear]
    split
    · rename_i hlt
      have hgt : AllGt k (r.hview S) := keysGt_hview S k r (keysGt_mono hlt r wf.2.2.2.1)
      by_cases hs : S dg = true
      · simp [MMems.hview, hs, ains, hlt]
      · simp only [MMems.hview, hs, if_false, Bool.false_eq_true]
        exact (ains_of_allGt hgt).symm
    · rename_i hnlt
      have hlt := lt_of_not_lt_ne hnlt hk.1
      by_cases hs : S dg = true
      · simp only [MMems.hview, hs, if_true, hview_insClear S k x r wf.2.2.2.2 hk.2]
        exact (ains_cons_lt _ _ _ hlt).symm
      · simp only [MMems.hview, hs, if_false, Bool.false_eq_true, hview_insClear S k x r wf.2.2.2.2 hk.2]

theorem keysGt_project (S : String → Bool) (k0 : String) : (ms : MMems) → ms.keysGt k0 → AllGt k0 (ms.project S)
  | .nil, _ => trivial
  | .clear k x r, h => by
    simp only [MMems.keysGt] at h
    exact ⟨h.1, keysGt_project S k0 r h.2⟩
  | .marked k dg x r, h => by
    simp only [MMems.keysGt] at h
    simp only [MMems.project]
    split
    · exact ⟨h.1, keysGt_project S k0 r h.2⟩
    · exact keysGt_project S k0 r h.2

theorem project_insClear (S : String → Bool) (k : String) (x : MJ) :
    (ms : MMems) → ms.WF → k ∉ ms.keys →
    (ms.insClear k x).project S = ains k (x.project S) (ms.project S)
  | .nil, _, _ => rfl
  | .clear k' x' r, wf, hk => by
    simp only [MMems.WF] at wf
    simp only [MMems.keys, List.mem_cons, not_or] at hk
    simp only [MMems.insClear]
    split
    · rename_i hlt; simp [MMems.project, ains, hlt]
    · rename_i hnlt
      have hlt := lt_of_not_lt_ne hnlt hk.1
      simp only [MMems.project, project_insClear S k x r wf.2.2.2.2 hk.2]
      exact (ains_cons_lt _ _ _ hlt).symm
  | .marked k' dg x' r, wf, hk => by
    simp only [MMems.WF] at wf
    simp only [MMems.keys, List.mem_cons, not_or] at hk
    simp only [MMems.insClear]
    split
    · rename_i hlt
      have hgt : AllGt k (r.project S) := keysGt_project S k r (keysGt_mono hlt r wf.2.2.2.1)
      by_cases hs : S dg = true
      · simp [MMems.project, hs, ains, hlt]
      · simp only [MMems.project, hs, if_false, Bool.false_eq_true]
        exact (ains_of_allGt hgt).symm
    · rename_i hnlt
      have hlt := lt_of_not_lt_ne hnlt hk.1
      by_cases hs : S dg = true
      · simp only [MMems.project, hs, if_true, project_insClear S k x r wf.2.2.2.2 hk.2]
        exact (ains_cons_lt _ _ _ hlt).symm
      · simp only [MMems.project, hs, if_false, Bool.false_eq_true, project_insClear S k x r wf.2.2.2.2 hk.2]

/-! ### a member without digests adds nothing to the bookkeeping lists -/

theorem digests_insClear (k : String) (x : MJ) (hx : x.digests = []) :
    (ms : MMems) → (ms.insClear k x).digests = ms.digests
  | .nil => by simp [MMems.insClear, MMems.digests, hx]
  | .clear k' x' r => by
    simp only [MMems.insClear]; split
    · simp [MMems.digests, hx]
    · simp [MMems.digests, digests_insClear k x hx r]
  | .marked k' dg x' r => by
    simp only [MMems.insClear]; split
    · simp [MMems.digests, hx]
    · simp [MMems.digests, digests_insClear k x hx r]

theorem allMarks_insClear (k : String) (x : MJ) (hx : x.allMarks = []) :
    (ms : MMems) → (ms.insClear k x).allMarks = ms.allMarks
  | .nil => by simp [MMems.insClear, MMems.allMarks, hx]
  | .clear k' x' r => by
    simp only [MMems.insClear]; split
    · simp [MMems.allMarks, hx]
    · simp [MMems.allMarks, allMarks_insClear k x hx r]
  | .marked k' dg x' r => by
    simp only [MMems.insClear]; split
    · simp [MMems.allMarks, hx]
    · simp [MMems.allMarks, allMarks_insClear k x hx r]

theorem discs_insClear (k : String) (x : MJ) (hx : x.discs = []) :
    (ms : MMems) → (ms.insClear k x).discs = ms.discs
  | .nil => by simp [MMems.insClear, MMems.discs, hx]
  | .clear k' x' r => by
    simp only [MMems.insClear]; split
    · simp [MMems.discs, hx]
    · simp [MMems.discs, discs_insClear k x hx r]
  | .marked k' dg x' r => by
    simp only [MMems.insClear]; split
    · simp [MMems.discs, hx]
    · simp [MMems.discs, discs_insClear k x hx r]

theorem deepStale_insClear (k : String) (x : MJ) (hx : x.deepStale = []) :
    (ms : MMems) → (ms.insClear k x).deepStale = ms.deepStale
  | .nil => by simp [MMems.insClear, MMems.deepStale, hx]
  | .clear k' x' r => by
    simp only [MMems.insClear]; split
    · simp [MMems.deepStale, hx]
    · simp [MMems.deepStale, deepStale_insClear k x hx r]
  | .marked k' dg x' r => by
    simp only [MMems.insClear]; split
    · simp [MMems.deepStale, hx]
    · simp [MMems.deepStale, deepStale_insClear k x hx r]

/-- a conformant subtree without digests has no marks, no disclosures, nothing stale -/
theorem no_digests (x : MJ) (wf : x.WF) (hx : x.digests = []) :
    x.allMarks = [] ∧ x.discs = [] ∧ x.deepStale = [] := by
  have h1 : x.allMarks = [] := by
    apply List.eq_nil_iff_forall_not_mem.mpr
    intro g hg
    have := MJ.allMarks_sub_digests x wf g hg
    simp [hx] at this
  have h2 : x.discs = [] := by
    have := MJ.discs_digest x
    rw [h1] at this
    simpa using this
  have h3 : x.deepStale = [] := by
    apply List.eq_nil_iff_forall_not_mem.mpr
    intro g hg
    have := MJ.deepStale_sub_digests x g hg
    simp [hx] at this
  exact ⟨h1, h2, h3⟩

/-! ### what the code does to the payload -/

theorem ains_comm {α : Type} (k1 k2 : String) (v1 v2 : α) (l : List (String × α)) (hs : Sorted l)
    (hne : k1 ≠ k2) : ains k1 v1 (ains k2 v2 l) = ains k2 v2 (ains k1 v1 l) := by
  apply sorted_ext
  · exact sorted_ains _ _ _ (sorted_ains _ _ _ hs)
  · exact sorted_ains _ _ _ (sorted_ains _ _ _ hs)
  · intro q
    by_cases h1 : q = k1
    · subst h1
      rw [aget_ains_self, aget_ains_ne _ hne, aget_ains_self]
    · by_cases h2 : q = k2
      · subst h2
        rw [aget_ains_ne _ h1, aget_ains_self, aget_ains_self]
      · rw [aget_ains_ne _ h1, aget_ains_ne _ h2, aget_ains_ne _ h2, aget_ains_ne _ h1]

/-- `claims[k] = v` on the payload of an object is `insTop` on the tree -/
theorem setMember_payload (k : String) (x : MJ) (ms : MMems) (sd : Option (List String))
    (wf : ms.WF) (hk : k ∉ ms.keys) (hsd : k ≠ "_sd") :
    setMember k x.payload (MJ.obj ms sd).payload = .ok (MJ.insTop k x (MJ.obj ms sd)).payload := by
  simp only [MJ.payload, MJ.hview, MJ.insTop, setMember, hview_insClear _ k x ms wf hk]
  congr 2
  cases sd with
  | none => rfl
  | some ds =>
    simp only [withSd]
    exact ains_comm k "_sd" _ _ _ (sorted_hview _ ms wf) hsd

/-- `build_decoys` on the payload of an object is `withDecoys` on the tree -/
theorem addDecoys_payload (l : List String) (ms : MMems) (sd : Option (List String)) (wf : ms.WF) :
    addDecoys l (MJ.obj ms sd).payload = .ok ((MJ.obj ms sd).withDecoys l).payload := by
  have hnosd := aget_sd_hview noneShown ms wf
  cases sd with
  | none =>
    simp only [MJ.payload, MJ.hview, MJ.withDecoys, withSd, addDecoys]
    have : aget "_sd" (ms.hview fun _ => false) = none := hnosd
    simp [this]
  | some ds =>
    simp only [MJ.payload, MJ.hview, MJ.withDecoys, withSd, addDecoys, aget_ains_self, Option.getD_some]
    simp [ains_ains_same, List.map_append]

end Impl

namespace Impl

/-! ### the top-level shape survives marking -/

theorem keys_toMarked (k dg : String) : (ms : MMems) → (ms.toMarked k dg).keys = ms.keys
  | .nil => rfl
  | .clear k' x r => by
    simp only [MMems.toMarked]; split
    · rfl
    · simp [MMems.keys, keys_toMarked k dg r]
  | .marked k' dg' x r => by simp [MMems.toMarked, MMems.keys, keys_toMarked k dg r]

theorem keys_setClear (k : String) (y : MJ) : (ms : MMems) → (ms.setClear k y).keys = ms.keys
  | .nil => rfl
  | .clear k' x r => by
    simp only [MMems.setClear]; split
    · rfl
    · simp [MMems.keys, keys_setClear k y r]
  | .marked k' dg' x r => by simp [MMems.setClear, MMems.keys, keys_setClear k y r]

theorem mem_keys_insClear (k : String) (x : MJ) (q : String) :
    (ms : MMems) → (q ∈ (ms.insClear k x).keys ↔ q = k ∨ q ∈ ms.keys)
  | .nil => by simp [MMems.insClear, MMems.keys]
  | .clear k' x' r => by
    simp only [MMems.insClear]; split
    · simp [MMems.keys]
    · simp only [MMems.keys, List.mem_cons, mem_keys_insClear k x q r]
      constructor
      · rintro (h | h | h)
        · exact .inr (.inl h)
        · exact .inl h
        · exact .inr (.inr h)
      · rintro (h | h | h)
        · exact .inr (.inl h)
        · exact .inl h
        · exact .inr (.inr h)
  | .marked k' dg x' r => by
    simp only [MMems.insClear]; split
    · simp [MMems.keys]
    · simp only [MMems.keys, List.mem_cons, mem_keys_insClear k x q r]
      constructor
      · rintro (h | h | h)
        · exact .inr (.inl h)
        · exact .inl h
        · exact .inr (.inr h)
      · rintro (h | h | h)
        · exact .inr (.inl h)
        · exact .inl h
        · exact .inr (.inr h)

/-- the names of an object's members (empty for other nodes) -/
def _root_.MJ.topKeys : MJ → List String
  | .obj ms _ => ms.keys
  | _ => []

def _root_.MJ.isObj : MJ → Bool
  | .obj _ _ => true
  | _ => false

theorem markIn_top (mk : Option String → J → String) (last : String) (toks : List String)
    (T T' : MJ) (d : SDisc) (h : MJ.markIn pI pU mk toks last T = some (T', d)) :
    T'.isObj = T.isObj ∧ T'.topKeys = T.topKeys := by
  refine markIn_ind (fun T T' _ => T'.isObj = T.isObj ∧ T'.topKeys = T.topKeys) mk ?_ ?_ ?_ ?_ last toks T T' d h
  · intro ms sd last x _ _
    exact ⟨rfl, keys_toMarked _ _ ms⟩
  · intro xs i x _
    exact ⟨rfl, rfl⟩
  · intro ms sd t x x' d _ _
    exact ⟨rfl, keys_setClear _ _ ms⟩
  · intro xs i x x' d _ _
    exact ⟨rfl, rfl⟩

theorem markAll_top (mk : Nat → Option String → J → String) :
    (addr : List (List String × String)) → (i : Nat) → (T Tn : MJ) → (ds : List SDisc) →
    markAll mk i addr T = some (Tn, ds) → Tn.isObj = T.isObj ∧ Tn.topKeys = T.topKeys
  | [], i, T, Tn, ds, h => by
    simp only [markAll, Option.some.injEq, Prod.mk.injEq] at h
    rw [h.1]; exact ⟨rfl, rfl⟩
  | (toks, last) :: r, i, T, Tn, ds, h => by
    simp only [markAll] at h
    cases hm : MJ.markIn pI pU (mk i) toks last T with
    | none => simp [hm] at h
    | some res =>
      obtain ⟨T1, d⟩ := res
      simp only [hm] at h
      split at h
      · cases h
      · cases ha : markAll mk (i+1) r T1 with
        | none => simp [ha] at h
        | some res2 =>
          obtain ⟨T2, ds2⟩ := res2
          simp only [ha, Option.some.injEq, Prod.mk.injEq] at h
          obtain ⟨rfl, rfl⟩ := h
          have h1 := markIn_top (mk i) last toks T T1 d hm
          have h2 := markAll_top mk r (i+1) T1 T2 ds2 ha
          exact ⟨h2.1.trans h1.1, h2.2.trans h1.2⟩

theorem MJ.eq_obj_of_isObj (T : MJ) (h : T.isObj = true) : ∃ ms sd, T = .obj ms sd := by
  cases T with
  | obj ms sd => exact ⟨ms, sd, rfl⟩
  | leaf j => simp [MJ.isObj] at h
  | arr xs => simp [MJ.isObj] at h

/-! ### the finished tree -/

/-- decoys appended, if any were drawn -/
def decoyed (T : MJ) : Option (List String) → MJ
  | some l => T.withDecoys l
  | none => T

/-- `cnf` set, for a bound token -/
def cnfTop (T : MJ) : Option MJ → MJ
  | none => T
  | some X => MJ.insTop "cnf" X T

/-- the tree the issuer's payload stands for after the tail of `encode`: decoys appended,
`_sd_alg` set when there is a disclosure, `cnf` set for a bound token -/
def finish (Tn : MJ) (decoys : Option (List String)) (hasDs : Bool) (cnf : Option MJ) : MJ :=
  let T1 := decoyed Tn decoys
  let T2 := if hasDs then MJ.insTop "_sd_alg" (.leaf (.str "sha-256")) T1 else T1
  cnfTop T2 cnf

/-- **`Issuer::encode` at tree level.**  For a claims object `T`, a list of paths under which
marking is defined, any decoy digests and an optional holder key `X` (a plain value), provided the
claims do not themselves use the names `_sd_alg` / `cnf`: the issuer model's payload is the
payload of `finish Tn …` and its disclosures are those of the marked nodes. -/
theorem encode_tree (mk : Nat → Option String → J → String) (paths : List String)
    (addr : List (List String × String)) (ms : MMems) (sd : Option (List String)) (Tn : MJ)
    (ds : List SDisc) (decoys : Option (List String)) (cnf : Option MJ)
    (wf : (MJ.obj ms sd).WF) (hp : ParsedAll paths addr)
    (h : markAll mk 0 addr (.obj ms sd) = some (Tn, ds))
    (hk1 : "_sd_alg" ∉ ms.keys) (hk2 : "cnf" ∉ ms.keys) :
    encode (MJ.obj ms sd).payload paths mk decoys (cnf.map (·.payload)) =
      .ok ((finish Tn decoys (!ds.isEmpty) cnf).payload, ds.map toSrc) := by
  obtain ⟨hissue, wfn, _⟩ := applyPaths_markAll mk paths addr 0 (.obj ms sd) Tn ds wf hp h
  obtain ⟨hobj, hkeys⟩ := markAll_top mk addr 0 (.obj ms sd) Tn ds h
  obtain ⟨msn, sdn, rfl⟩ := MJ.eq_obj_of_isObj Tn (by rw [hobj]; rfl)
  simp only [MJ.topKeys] at hkeys
  simp only [MJ.WF] at wfn
  have hk1n : "_sd_alg" ∉ msn.keys := by rw [hkeys]; exact hk1
  have hk2n : "cnf" ∉ msn.keys := by rw [hkeys]; exact hk2
  have hempty : (ds.map toSrc).isEmpty = ds.isEmpty := by cases ds <;> rfl
  have hp1 : (MJ.leaf (.str "sha-256")).payload = .str "sha-256" := rfl
  -- the three steps of the tail, on an arbitrary `_sd` list
  have halg : ∀ sd1, setMember "_sd_alg" (.str "sha-256") (MJ.obj msn sd1).payload =
      .ok (MJ.insTop "_sd_alg" (.leaf (.str "sha-256")) (MJ.obj msn sd1)).payload := fun sd1 => by
    have := setMember_payload "_sd_alg" (.leaf (.str "sha-256")) msn sd1 wfn.1 hk1n (by decide)
    rwa [hp1] at this
  have hcnf0 : ∀ sd1 X, setMember "cnf" X.payload (MJ.obj msn sd1).payload =
      .ok (MJ.insTop "cnf" X (MJ.obj msn sd1)).payload := fun sd1 X =>
    setMember_payload "cnf" X msn sd1 wfn.1 hk2n (by decide)
  have hcnf1 : ∀ sd1 X, setMember "cnf" X.payload
        (MJ.insTop "_sd_alg" (.leaf (.str "sha-256")) (MJ.obj msn sd1)).payload =
      .ok (MJ.insTop "cnf" X (MJ.insTop "_sd_alg" (.leaf (.str "sha-256")) (MJ.obj msn sd1))).payload := by
    intro sd1 X
    have wf2 : (msn.insClear "_sd_alg" (.leaf (.str "sha-256"))).WF :=
      wf_insClear _ _ (by decide) (by decide) (by simp [MJ.WF, J.scalar]) msn wfn.1 hk1n
    have hk3 : "cnf" ∉ (msn.insClear "_sd_alg" (.leaf (.str "sha-256"))).keys := by
      rw [mem_keys_insClear]
      intro hh
      rcases hh with hh | hh
      · exact absurd hh (by decide)
      · exact hk2n hh
    exact setMember_payload "cnf" X _ sd1 wf2 hk3 (by decide)
  unfold encode
  cases decoys with
  | none =>
    cases hds : ds.isEmpty with
    | true =>
      cases cnf with
      | none => simp [hissue, hempty, hds, finish, decoyed, cnfTop]
      | some X => simp [hissue, hempty, hds, finish, decoyed, cnfTop, hcnf0]
    | false =>
      cases cnf with
      | none => simp [hissue, hempty, hds, finish, decoyed, cnfTop, halg]
      | some X => simp [hissue, hempty, hds, finish, decoyed, cnfTop, halg, hcnf1]
  | some l =>
    have hdec := addDecoys_payload l msn sdn wfn.1
    simp only [MJ.withDecoys] at hdec
    cases hds : ds.isEmpty with
    | true =>
      cases cnf with
      | none => simp [hissue, hempty, hds, finish, decoyed, cnfTop, hdec, MJ.withDecoys]
      | some X => simp [hissue, hempty, hds, finish, decoyed, cnfTop, hdec, MJ.withDecoys, hcnf0]
    | false =>
      cases cnf with
      | none => simp [hissue, hempty, hds, finish, decoyed, cnfTop, hdec, MJ.withDecoys, halg]
      | some X => simp [hissue, hempty, hds, finish, decoyed, cnfTop, hdec, MJ.withDecoys, halg, hcnf1]

end Impl

namespace Impl

/-! ### the finished tree keeps what restoration needs -/

theorem insTop_inv (ms : MMems) (sd : Option (List String)) (k : String) (x : MJ)
    (inv : TreeInv (.obj ms sd)) (hk : k ∉ ms.keys) (h1 : k ≠ "_sd") (h2 : k ≠ "...")
    (hx : x.WF) (hd : x.digests = []) :
    TreeInv (.obj (ms.insClear k x) sd) ∧ (MJ.obj (ms.insClear k x) sd).discs = (MJ.obj ms sd).discs ∧
      (MJ.obj (ms.insClear k x) sd).allMarks = (MJ.obj ms sd).allMarks ∧
      (MJ.obj (ms.insClear k x) sd).deepStale = (MJ.obj ms sd).deepStale ∧
      (MJ.obj (ms.insClear k x) sd).digests = (MJ.obj ms sd).digests := by
  obtain ⟨hm, hdi, hst⟩ := no_digests x hx hd
  have wf := inv.wf
  simp only [MJ.WF] at wf
  have e1 : (MJ.obj (ms.insClear k x) sd).digests = (MJ.obj ms sd).digests := by
    simp [MJ.digests, digests_insClear k x hd ms]
  have e2 : (MJ.obj (ms.insClear k x) sd).allMarks = (MJ.obj ms sd).allMarks := by
    simp [MJ.allMarks, allMarks_insClear k x hm ms]
  refine ⟨⟨?_, ?_, ?_⟩, ?_, e2, ?_, e1⟩
  · simp only [MJ.WF, marks_insClear]
    exact ⟨wf_insClear k x h1 h2 hx ms wf.1 hk, wf.2.1, wf.2.2⟩
  · rw [e1]; exact inv.nd
  · rw [e2]; exact inv.ndm
  · simp [MJ.discs, discs_insClear k x hdi ms]
  · simp [MJ.deepStale, deepStale_insClear k x hst ms, marks_insClear]

theorem withDecoys_inv (ms : MMems) (sd : Option (List String)) (l : List String)
    (inv : TreeInv (.obj ms sd)) (hl : l.Nodup) (hfresh : ∀ g ∈ l, g ∉ (MJ.obj ms sd).digests) :
    TreeInv (.obj ms (some (sd.getD [] ++ l))) ∧
      (∀ g ∈ (MJ.obj ms (some (sd.getD [] ++ l))).deepStale, g ∈ (MJ.obj ms sd).deepStale ∨ g ∈ l) := by
  have wf := inv.wf
  simp only [MJ.WF] at wf
  refine ⟨⟨?_, ?_, inv.ndm⟩, ?_⟩
  · simp only [MJ.WF, Option.getD_some]
    exact ⟨wf.1, fun g hg => List.mem_append_left _ (wf.2.1 g hg), wf.2.2⟩
  · have hnd := inv.nd
    simp only [MJ.digests, Option.getD_some] at hnd hfresh ⊢
    have hperm : ((sd.getD [] ++ l) ++ ms.digests).Perm (l ++ (sd.getD [] ++ ms.digests)) := by
      simp only [List.append_assoc]
      exact List.perm_append_comm_assoc _ _ _
    refine hperm.symm.nodup ?_
    rw [List.nodup_append]
    refine ⟨hl, hnd, ?_⟩
    intro a ha b hb e
    subst e
    exact hfresh a ha hb
  · intro g hg
    simp only [MJ.deepStale, Option.getD_some, List.filter_append, List.mem_append, List.mem_filter] at hg ⊢
    rcases hg with (⟨h1, h2⟩ | ⟨h1, _⟩) | h3
    · exact .inl (.inl ⟨h1, h2⟩)
    · exact .inr h1
    · exact .inl (.inr h3)

/-- restoration from disclosures of the tree itself: any selection, any order -/
theorem restore_own (env : Env) (T : MJ) (inv : TreeInv T) (strs : List String)
    (hstr : ∀ s ∈ strs, ∃ e ∈ T.discs, e.digest ∉ T.deepStale ∧
      fromBase64 env s = .ok ⟨s, e.digest, e.key, e.value⟩)
    (hnd : (strs.map env.hash).Nodup) :
    ∃ c ps, restoreAll env T.payload strs = .ok (c, ps) ∧
      removeAll c = T.project (fun g => strs.any (fun s => env.hash s = g)) := by
  have hndiscs : (T.discs.map (·.digest)).Nodup := by rw [MJ.discs_digest]; exact inv.ndm
  refine restoreAll_complete env T strs inv (fun s hs => ?_) hnd (fun s hs d hf => ?_)
  · obtain ⟨e, _, _, hf⟩ := hstr s hs
    exact ⟨_, hf⟩
  · obtain ⟨e, hein, hfr, hf'⟩ := hstr s hs
    rw [hf'] at hf
    cases hf
    refine ⟨⟨hfr, ?_⟩, MJ.discs_hiddenE T e hein⟩
    intro e' he' heq
    have := nodup_map_inj (·.digest) T.discs hndiscs e' he' e hein heq
    subst this
    exact ⟨rfl, rfl⟩

end Impl

namespace Impl

/-- `restore_own` with what is known of the reported paths -/
theorem restore_own_paths (env : Env) (T : MJ) (inv : TreeInv T) (strs : List String)
    (hstr : ∀ s ∈ strs, ∃ e ∈ T.discs, e.digest ∉ T.deepStale ∧
      fromBase64 env s = .ok ⟨s, e.digest, e.key, e.value⟩)
    (hnd : (strs.map env.hash).Nodup) :
    ∃ c ps L, restoreAll env T.payload strs = .ok (c, ps) ∧
      removeAll c = T.project (fun g => strs.any (fun s => env.hash s = g)) ∧
      (∀ d ∈ L, ∃ s ∈ strs, fromBase64 env s = .ok d) ∧
      (∀ s ∈ strs, ∃ d ∈ L, fromBase64 env s = .ok d) ∧ PathsOK T L ps := by
  have hndiscs : (T.discs.map (·.digest)).Nodup := by rw [MJ.discs_digest]; exact inv.ndm
  refine restoreAll_paths env T strs inv (fun s hs => ?_) hnd (fun s hs d hf => ?_)
  · obtain ⟨e, _, _, hf⟩ := hstr s hs
    exact ⟨_, hf⟩
  · obtain ⟨e, hein, hfr, hf'⟩ := hstr s hs
    rw [hf'] at hf
    cases hf
    refine ⟨⟨hfr, ?_⟩, MJ.discs_hiddenE T e hein⟩
    intro e' he' heq
    have := nodup_map_inj (·.digest) T.discs hndiscs e' he' e hein heq
    subst this
    exact ⟨rfl, rfl⟩

/-- a subtree without marks contributes no path -/
theorem paths_nil_of_no_marks (x : MJ) (p : String) (h : x.allMarks = []) : x.paths p = [] := by
  have := MJ.paths_snd x p
  rw [h] at this
  simpa using this

theorem paths_insClear (k : String) (x : MJ) (p : String) (hx : x.allMarks = []) :
    (ms : MMems) → (ms.insClear k x).paths p = ms.paths p
  | .nil => by simp [MMems.insClear, MMems.paths, paths_nil_of_no_marks x _ hx]
  | .clear k' x' r => by
    simp only [MMems.insClear]; split
    · simp [MMems.paths, paths_nil_of_no_marks x _ hx]
    · simp [MMems.paths, paths_insClear k x p hx r]
  | .marked k' dg x' r => by
    simp only [MMems.insClear]; split
    · simp [MMems.paths, paths_nil_of_no_marks x _ hx]
    · simp [MMems.paths, paths_insClear k x p hx r]

end Impl
