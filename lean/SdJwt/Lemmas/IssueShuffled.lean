import SdJwt.Lemmas.SdOrderInv
import SdJwt.Lemmas.MarkInv
/-!
# The issuer with all its shuffles, at tree level

The crate shuffles the digest lists of a value right before it hides the value (`build_disclosure`) and the
lists of the signed claims at the end (`encode`). A value that is about to be hidden is still in the clear,
so its lists are *visible* lists of the working tree: every such shuffle is a step `T.sdPermVis T'`
(`Lemmas/Shuffle.lean` shows `shuffle_digests` is one). `IssueRun` interleaves them with the marking steps of
`markAll`: permute, mark, permute, mark, …, permute. Whatever the permutations are, the result is a conformant
tree with pairwise distinct digests for the same claims, whose disclosures are those of the start tree plus
exactly the ones made on the way.
-/
open Spec
namespace Impl

/-- permute (visible lists), then mark the addressed node with a digest new to the tree — and so on; a last
permutation at the end -/
def IssueRun (mk : Nat → Option String → J → String) :
    Nat → List (List String × String) → MJ → MJ → List SDisc → Prop
  | _, [], T, Tn, ds => T.sdPermVis Tn ∧ ds = []
  | i, (toks, last) :: r, T, Tn, ds =>
    ∃ T1 T2 d ds', T.sdPermVis T1 ∧ MJ.markIn pI pU (mk i) toks last T1 = some (T2, d) ∧
      d.digest ∉ T1.digests ∧ IssueRun mk (i+1) r T2 Tn ds' ∧ ds = d :: ds'

theorem markOne (mk : Nat → Option String → J → String) (i : Nat) (toks : List String) (last : String)
    (T1 T2 : MJ) (d : SDisc) (h : MJ.markIn pI pU (mk i) toks last T1 = some (T2, d))
    (hf : d.digest ∉ T1.digests) : markAll mk i [(toks, last)] T1 = some (T2, [d]) := by
  simp [markAll, h, hf]

/-- **the issuer with all its shuffles**: invariants, claims and disclosures after any run -/
theorem issueRun_inv (mk : Nat → Option String → J → String) :
    (addr : List (List String × String)) → (i : Nat) → (T Tn : MJ) → (ds : List SDisc) →
    TreeInv T → IssueRun mk i addr T Tn ds →
    TreeInv Tn ∧ Tn.plain = T.plain ∧ Tn.discs.Perm (ds ++ T.discs) ∧
      Tn.allMarks.Perm (ds.map (·.digest) ++ T.allMarks) ∧ (∀ g ∈ Tn.deepStale, g ∈ T.deepStale)
  | [], i, T, Tn, ds, inv, h => by
    obtain ⟨hp, rfl⟩ := h
    refine ⟨TreeInv.sdPermVis hp inv, MJ.project_sdPermVis _ T Tn hp, ?_, ?_, ?_⟩
    · rw [MJ.discs_sdPermVis T Tn hp]; simp
    · rw [MJ.allMarks_sdPermVis T Tn hp]; simp
    · intro g hg; exact (MJ.deepStale_sdPermVis T Tn hp).mem_iff.mp hg
  | (toks, last) :: r, i, T, Tn, ds, inv, h => by
    obtain ⟨T1, T2, d, ds', hp, hm, hf, hrun, rfl⟩ := h
    have inv1 := TreeInv.sdPermVis hp inv
    have h1 := markOne mk i toks last T1 T2 d hm hf
    obtain ⟨inv2, st2, am2, dc2, _⟩ := markAll_inv mk [(toks, last)] i T1 T2 [d] inv1 h1
    have pl2 := markAll_plain mk [(toks, last)] i T1 T2 [d] h1
    obtain ⟨invn, pln, dcn, amn, stn⟩ := issueRun_inv mk r (i+1) T2 Tn ds' inv2 hrun
    refine ⟨invn, ?_, ?_, ?_, ?_⟩
    · rw [pln, pl2]; exact MJ.project_sdPermVis _ T T1 hp
    · rw [MJ.discs_sdPermVis T T1 hp] at dc2
      refine dcn.trans ?_
      refine (List.Perm.append_left ds' dc2).trans ?_
      simp only [List.singleton_append, List.cons_append]
      exact List.perm_middle
    · rw [MJ.allMarks_sdPermVis T T1 hp] at am2
      refine amn.trans ?_
      refine (List.Perm.append_left _ am2).trans ?_
      simp only [List.map_cons, List.map_nil, List.singleton_append, List.cons_append]
      exact List.perm_middle
    · intro g hg
      exact (MJ.deepStale_sdPermVis T T1 hp).mem_iff.mp (st2 g (stn g hg))

end Impl

namespace Impl

/-- T-issue ∘ T-restore for the issuer with all its shuffles: start from claims without digests; whatever
permutations were drawn on the way, the holder accepts any selection of the issuer's disclosures in any order
and what it returns strips to the issued tree's projection on the selection -/
theorem issueRun_restore (env : Env) (mk : Nat → Option String → J → String)
    (addr : List (List String × String)) (T Tn : MJ) (ds : List SDisc) (inv : TreeInv T)
    (hclean : T.deepStale = [])
    (h : IssueRun mk 0 addr T Tn ds) (strs : List String)
    (hstr : ∀ s ∈ strs, ∃ e ∈ ds, fromBase64 env s = .ok ⟨s, e.digest, e.key, e.value⟩)
    (hnd : (strs.map env.hash).Nodup) :
    ∃ c ps, restoreAll env Tn.payload strs = .ok (c, ps) ∧
      removeAll c = Tn.project (fun g => strs.any (fun s => env.hash s = g)) := by
  obtain ⟨invn, _, pdi, _, hst⟩ := issueRun_inv mk addr 0 T Tn ds inv h
  have hndiscs : (Tn.discs.map (·.digest)).Nodup := by rw [MJ.discs_digest]; exact invn.ndm
  refine restoreAll_complete env Tn strs invn (fun s hs => ?_) hnd (fun s hs d hf => ?_)
  · obtain ⟨e, _, hf⟩ := hstr s hs
    exact ⟨_, hf⟩
  · obtain ⟨e, he, hf'⟩ := hstr s hs
    rw [hf'] at hf
    cases hf
    have hein : e ∈ Tn.discs := pdi.symm.subset (by simp [he])
    refine ⟨⟨?_, ?_⟩, ?_⟩
    · intro hh
      have := hst _ hh
      rw [hclean] at this
      cases this
    · intro e' he' heq
      have := nodup_map_inj (·.digest) Tn.discs hndiscs e' he' e hein heq
      subst this
      exact ⟨rfl, rfl⟩
    · exact MJ.discs_hiddenE Tn e hein

end Impl
