import SdJwt.Spec.Marked
import SdJwt.Lemmas.Marks
/-!
# The order of the digests in the digest lists a recipient sees does not matter

`T.sdPermVis T'`: `T'` is `T` with the `_sd` lists that are *visible in the payload* (not inside a hidden
claim) permuted — what the issuer's final `shuffle_digests` does to the claims it signs. Everything the
holder and the verifier compute from a token is a function of the marked tree up to this relation.
-/
open Spec

def sdOptPerm : Option (List String) → Option (List String) → Prop
  | none, none => True
  | some a, some b => a.Perm b
  | _, _ => False

mutual
def MJ.sdPermVis : MJ → MJ → Prop
  | .leaf a, T' => T' = .leaf a
  | .arr xs, T' => ∃ ys, T' = .arr ys ∧ xs.sdPermVis ys
  | .obj ms sd, T' => ∃ ms' sd', T' = .obj ms' sd' ∧ ms.sdPermVis ms' ∧ sdOptPerm sd sd'
def MElems.sdPermVis : MElems → MElems → Prop
  | .nil, E' => E' = .nil
  | .clear x r, E' => ∃ y r', E' = .clear y r' ∧ x.sdPermVis y ∧ r.sdPermVis r'
  | .marked g x r, E' => ∃ r', E' = .marked g x r' ∧ r.sdPermVis r'
  | .decoy g r, E' => ∃ r', E' = .decoy g r' ∧ r.sdPermVis r'
def MMems.sdPermVis : MMems → MMems → Prop
  | .nil, M' => M' = .nil
  | .clear k x r, M' => ∃ y r', M' = .clear k y r' ∧ x.sdPermVis y ∧ r.sdPermVis r'
  | .marked k g x r, M' => ∃ r', M' = .marked k g x r' ∧ r.sdPermVis r'
end

mutual
theorem MJ.project_sdPermVis (S : String → Bool) : (T T' : MJ) → T.sdPermVis T' → T'.project S = T.project S
  | .leaf a, _, h => by simp [MJ.sdPermVis] at h; subst h; rfl
  | .arr xs, _, h => by
    obtain ⟨ys, rfl, h2⟩ := h
    simp [MJ.project, MElems.project_sdPermVis S xs ys h2]
  | .obj ms sd, _, h => by
    obtain ⟨ms', sd', rfl, h2, _⟩ := h
    simp [MJ.project, MMems.project_sdPermVis S ms ms' h2]
theorem MElems.project_sdPermVis (S : String → Bool) : (E E' : MElems) → E.sdPermVis E' → E'.project S = E.project S
  | .nil, _, h => by simp [MElems.sdPermVis] at h; subst h; rfl
  | .clear x r, _, h => by
    obtain ⟨y, r', rfl, h1, h2⟩ := h
    simp [MElems.project, MJ.project_sdPermVis S x y h1, MElems.project_sdPermVis S r r' h2]
  | .marked g x r, _, h => by
    obtain ⟨r', rfl, h2⟩ := h
    simp [MElems.project, MElems.project_sdPermVis S r r' h2]
  | .decoy g r, _, h => by
    obtain ⟨r', rfl, h2⟩ := h
    simp [MElems.project, MElems.project_sdPermVis S r r' h2]
theorem MMems.project_sdPermVis (S : String → Bool) : (M M' : MMems) → M.sdPermVis M' → M'.project S = M.project S
  | .nil, _, h => by simp [MMems.sdPermVis] at h; subst h; rfl
  | .clear k x r, _, h => by
    obtain ⟨y, r', rfl, h1, h2⟩ := h
    simp [MMems.project, MJ.project_sdPermVis S x y h1, MMems.project_sdPermVis S r r' h2]
  | .marked k g x r, _, h => by
    obtain ⟨r', rfl, h2⟩ := h
    simp [MMems.project, MMems.project_sdPermVis S r r' h2]
end

/-! ### one generic lemma: an observable that ignores visible `sd` lists is invariant -/

mutual
theorem MJ.discs_sdPermVis : (T T' : MJ) → T.sdPermVis T' → T'.discs = T.discs
  | .leaf a, _, h => by simp [MJ.sdPermVis] at h; subst h; rfl
  | .arr xs, _, h => by
    obtain ⟨ys, rfl, h2⟩ := h
    simp [MJ.discs, MElems.discs_sdPermVis xs ys h2]
  | .obj ms sd, _, h => by
    obtain ⟨ms', sd', rfl, h2, _⟩ := h
    simp [MJ.discs, MMems.discs_sdPermVis ms ms' h2]
theorem MElems.discs_sdPermVis : (E E' : MElems) → E.sdPermVis E' → E'.discs = E.discs
  | .nil, _, h => by simp [MElems.sdPermVis] at h; subst h; rfl
  | .clear x r, _, h => by
    obtain ⟨y, r', rfl, h1, h2⟩ := h
    simp [MElems.discs, MJ.discs_sdPermVis x y h1, MElems.discs_sdPermVis r r' h2]
  | .marked g x r, _, h => by
    obtain ⟨r', rfl, h2⟩ := h
    simp [MElems.discs, MElems.discs_sdPermVis r r' h2]
  | .decoy g r, _, h => by
    obtain ⟨r', rfl, h2⟩ := h
    simp [MElems.discs, MElems.discs_sdPermVis r r' h2]
theorem MMems.discs_sdPermVis : (M M' : MMems) → M.sdPermVis M' → M'.discs = M.discs
  | .nil, _, h => by simp [MMems.sdPermVis] at h; subst h; rfl
  | .clear k x r, _, h => by
    obtain ⟨y, r', rfl, h1, h2⟩ := h
    simp [MMems.discs, MJ.discs_sdPermVis x y h1, MMems.discs_sdPermVis r r' h2]
  | .marked k g x r, _, h => by
    obtain ⟨r', rfl, h2⟩ := h
    simp [MMems.discs, MMems.discs_sdPermVis r r' h2]
end

mutual
theorem MJ.allMarks_sdPermVis : (T T' : MJ) → T.sdPermVis T' → T'.allMarks = T.allMarks
  | .leaf a, _, h => by simp [MJ.sdPermVis] at h; subst h; rfl
  | .arr xs, _, h => by
    obtain ⟨ys, rfl, h2⟩ := h
    simp [MJ.allMarks, MElems.allMarks_sdPermVis xs ys h2]
  | .obj ms sd, _, h => by
    obtain ⟨ms', sd', rfl, h2, _⟩ := h
    simp [MJ.allMarks, MMems.allMarks_sdPermVis ms ms' h2]
theorem MElems.allMarks_sdPermVis : (E E' : MElems) → E.sdPermVis E' → E'.allMarks = E.allMarks
  | .nil, _, h => by simp [MElems.sdPermVis] at h; subst h; rfl
  | .clear x r, _, h => by
    obtain ⟨y, r', rfl, h1, h2⟩ := h
    simp [MElems.allMarks, MJ.allMarks_sdPermVis x y h1, MElems.allMarks_sdPermVis r r' h2]
  | .marked g x r, _, h => by
    obtain ⟨r', rfl, h2⟩ := h
    simp [MElems.allMarks, MElems.allMarks_sdPermVis r r' h2]
  | .decoy g r, _, h => by
    obtain ⟨r', rfl, h2⟩ := h
    simp [MElems.allMarks, MElems.allMarks_sdPermVis r r' h2]
theorem MMems.allMarks_sdPermVis : (M M' : MMems) → M.sdPermVis M' → M'.allMarks = M.allMarks
  | .nil, _, h => by simp [MMems.sdPermVis] at h; subst h; rfl
  | .clear k x r, _, h => by
    obtain ⟨y, r', rfl, h1, h2⟩ := h
    simp [MMems.allMarks, MJ.allMarks_sdPermVis x y h1, MMems.allMarks_sdPermVis r r' h2]
  | .marked k g x r, _, h => by
    obtain ⟨r', rfl, h2⟩ := h
    simp [MMems.allMarks, MMems.allMarks_sdPermVis r r' h2]
end

theorem sdOptPerm_getD {a b : Option (List String)} (h : sdOptPerm a b) : (b.getD []).Perm (a.getD []) := by
  cases a <;> cases b <;> simp_all [sdOptPerm]
  exact h.symm

mutual
theorem MJ.digests_sdPermVis : (T T' : MJ) → T.sdPermVis T' → T'.digests.Perm T.digests
  | .leaf a, _, h => by simp [MJ.sdPermVis] at h; subst h; exact List.Perm.refl _
  | .arr xs, _, h => by
    obtain ⟨ys, rfl, h2⟩ := h
    simpa [MJ.digests] using MElems.digests_sdPermVis xs ys h2
  | .obj ms sd, _, h => by
    obtain ⟨ms', sd', rfl, h2, h3⟩ := h
    simp only [MJ.digests]
    exact List.Perm.append (sdOptPerm_getD h3) (MMems.digests_sdPermVis ms ms' h2)
theorem MElems.digests_sdPermVis : (E E' : MElems) → E.sdPermVis E' → E'.digests.Perm E.digests
  | .nil, _, h => by simp [MElems.sdPermVis] at h; subst h; exact List.Perm.refl _
  | .clear x r, _, h => by
    obtain ⟨y, r', rfl, h1, h2⟩ := h
    simp only [MElems.digests]
    exact List.Perm.append (MJ.digests_sdPermVis x y h1) (MElems.digests_sdPermVis r r' h2)
  | .marked g x r, _, h => by
    obtain ⟨r', rfl, h2⟩ := h
    simp only [MElems.digests]
    exact List.Perm.cons _ (List.Perm.append (List.Perm.refl _) (MElems.digests_sdPermVis r r' h2))
  | .decoy g r, _, h => by
    obtain ⟨r', rfl, h2⟩ := h
    simp only [MElems.digests]
    exact List.Perm.cons _ (MElems.digests_sdPermVis r r' h2)
theorem MMems.digests_sdPermVis : (M M' : MMems) → M.sdPermVis M' → M'.digests.Perm M.digests
  | .nil, _, h => by simp [MMems.sdPermVis] at h; subst h; exact List.Perm.refl _
  | .clear k x r, _, h => by
    obtain ⟨y, r', rfl, h1, h2⟩ := h
    simp only [MMems.digests]
    exact List.Perm.append (MJ.digests_sdPermVis x y h1) (MMems.digests_sdPermVis r r' h2)
  | .marked k g x r, _, h => by
    obtain ⟨r', rfl, h2⟩ := h
    simp only [MMems.digests]
    exact List.Perm.append (List.Perm.refl _) (MMems.digests_sdPermVis r r' h2)
end

theorem MMems.marks_sdPermVis : (M M' : MMems) → M.sdPermVis M' → M'.marks = M.marks
  | .nil, _, h => by simp [MMems.sdPermVis] at h; subst h; rfl
  | .clear k x r, _, h => by
    obtain ⟨y, r', rfl, _, h2⟩ := h
    simp [MMems.marks, MMems.marks_sdPermVis r r' h2]
  | .marked k g x r, _, h => by
    obtain ⟨r', rfl, h2⟩ := h
    simp [MMems.marks, MMems.marks_sdPermVis r r' h2]

theorem MMems.keysGt_sdPermVis (k0 : String) : (M M' : MMems) → M.sdPermVis M' → M.keysGt k0 → M'.keysGt k0
  | .nil, _, h, _ => by simp [MMems.sdPermVis] at h; subst h; trivial
  | .clear k x r, _, h, hg => by
    obtain ⟨y, r', rfl, _, h2⟩ := h
    exact ⟨hg.1, MMems.keysGt_sdPermVis k0 r r' h2 hg.2⟩
  | .marked k g x r, _, h, hg => by
    obtain ⟨r', rfl, h2⟩ := h
    exact ⟨hg.1, MMems.keysGt_sdPermVis k0 r r' h2 hg.2⟩

mutual
theorem MJ.WF_sdPermVis : (T T' : MJ) → T.sdPermVis T' → T.WF → T'.WF
  | .leaf a, _, h, wf => by simp [MJ.sdPermVis] at h; subst h; exact wf
  | .arr xs, _, h, wf => by
    obtain ⟨ys, rfl, h2⟩ := h
    exact MElems.WF_sdPermVis xs ys h2 wf
  | .obj ms sd, _, h, wf => by
    obtain ⟨ms', sd', rfl, h2, h3⟩ := h
    obtain ⟨w1, w2, w3⟩ := wf
    refine ⟨MMems.WF_sdPermVis ms ms' h2 w1, ?_, ?_⟩
    · intro g hg
      rw [MMems.marks_sdPermVis ms ms' h2] at hg
      exact (sdOptPerm_getD h3).mem_iff.mpr (w2 g hg)
    · rw [MMems.marks_sdPermVis ms ms' h2]; exact w3
theorem MElems.WF_sdPermVis : (E E' : MElems) → E.sdPermVis E' → E.WF → E'.WF
  | .nil, _, h, _ => by simp [MElems.sdPermVis] at h; subst h; trivial
  | .clear x r, _, h, wf => by
    obtain ⟨y, r', rfl, h1, h2⟩ := h
    exact ⟨MJ.WF_sdPermVis x y h1 wf.1, MElems.WF_sdPermVis r r' h2 wf.2⟩
  | .marked g x r, _, h, wf => by
    obtain ⟨r', rfl, h2⟩ := h
    exact ⟨wf.1, MElems.WF_sdPermVis r r' h2 wf.2⟩
  | .decoy g r, _, h, wf => by
    obtain ⟨r', rfl, h2⟩ := h
    exact MElems.WF_sdPermVis r r' h2 wf
theorem MMems.WF_sdPermVis : (M M' : MMems) → M.sdPermVis M' → M.WF → M'.WF
  | .nil, _, h, _ => by simp [MMems.sdPermVis] at h; subst h; trivial
  | .clear k x r, _, h, wf => by
    obtain ⟨y, r', rfl, h1, h2⟩ := h
    obtain ⟨a, b, c, d, e⟩ := wf
    exact ⟨a, b, MJ.WF_sdPermVis x y h1 c, MMems.keysGt_sdPermVis k r r' h2 d, MMems.WF_sdPermVis r r' h2 e⟩
  | .marked k g x r, _, h, wf => by
    obtain ⟨r', rfl, h2⟩ := h
    obtain ⟨a, b, c, d, e⟩ := wf
    exact ⟨a, b, c, MMems.keysGt_sdPermVis k r r' h2 d, MMems.WF_sdPermVis r r' h2 e⟩
end

mutual
theorem MJ.deepStale_sdPermVis : (T T' : MJ) → T.sdPermVis T' → T'.deepStale.Perm T.deepStale
  | .leaf a, _, h => by simp [MJ.sdPermVis] at h; subst h; exact List.Perm.refl _
  | .arr xs, _, h => by
    obtain ⟨ys, rfl, h2⟩ := h
    simpa [MJ.deepStale] using MElems.deepStale_sdPermVis xs ys h2
  | .obj ms sd, _, h => by
    obtain ⟨ms', sd', rfl, h2, h3⟩ := h
    simp only [MJ.deepStale, MMems.marks_sdPermVis ms ms' h2]
    exact List.Perm.append ((sdOptPerm_getD h3).filter _) (MMems.deepStale_sdPermVis ms ms' h2)
theorem MElems.deepStale_sdPermVis : (E E' : MElems) → E.sdPermVis E' → E'.deepStale.Perm E.deepStale
  | .nil, _, h => by simp [MElems.sdPermVis] at h; subst h; exact List.Perm.refl _
  | .clear x r, _, h => by
    obtain ⟨y, r', rfl, h1, h2⟩ := h
    simp only [MElems.deepStale]
    exact List.Perm.append (MJ.deepStale_sdPermVis x y h1) (MElems.deepStale_sdPermVis r r' h2)
  | .marked g x r, _, h => by
    obtain ⟨r', rfl, h2⟩ := h
    simp only [MElems.deepStale]
    exact List.Perm.append (List.Perm.refl _) (MElems.deepStale_sdPermVis r r' h2)
  | .decoy g r, _, h => by
    obtain ⟨r', rfl, h2⟩ := h
    simp only [MElems.deepStale]
    exact List.Perm.cons _ (MElems.deepStale_sdPermVis r r' h2)
theorem MMems.deepStale_sdPermVis : (M M' : MMems) → M.sdPermVis M' → M'.deepStale.Perm M.deepStale
  | .nil, _, h => by simp [MMems.sdPermVis] at h; subst h; exact List.Perm.refl _
  | .clear k x r, _, h => by
    obtain ⟨y, r', rfl, h1, h2⟩ := h
    simp only [MMems.deepStale]
    exact List.Perm.append (MJ.deepStale_sdPermVis x y h1) (MMems.deepStale_sdPermVis r r' h2)
  | .marked k g x r, _, h => by
    obtain ⟨r', rfl, h2⟩ := h
    simp only [MMems.deepStale]
    exact List.Perm.append (List.Perm.refl _) (MMems.deepStale_sdPermVis r r' h2)
end

mutual
theorem MJ.hiddenE_sdPermVis : (T T' : MJ) → T.sdPermVis T' → T'.hiddenE = T.hiddenE
  | .leaf a, _, h => by simp [MJ.sdPermVis] at h; subst h; rfl
  | .arr xs, _, h => by
    obtain ⟨ys, rfl, h2⟩ := h
    simp [MJ.hiddenE, MElems.hiddenE_sdPermVis xs ys h2]
  | .obj ms sd, _, h => by
    obtain ⟨ms', sd', rfl, h2, _⟩ := h
    simp [MJ.hiddenE, MMems.hiddenE_sdPermVis ms ms' h2]
theorem MElems.hiddenE_sdPermVis : (E E' : MElems) → E.sdPermVis E' → E'.hiddenE = E.hiddenE
  | .nil, _, h => by simp [MElems.sdPermVis] at h; subst h; rfl
  | .clear x r, _, h => by
    obtain ⟨y, r', rfl, h1, h2⟩ := h
    simp [MElems.hiddenE, MJ.hiddenE_sdPermVis x y h1, MElems.hiddenE_sdPermVis r r' h2]
  | .marked g x r, _, h => by
    obtain ⟨r', rfl, h2⟩ := h
    simp [MElems.hiddenE, MElems.hiddenE_sdPermVis r r' h2]
  | .decoy g r, _, h => by
    obtain ⟨r', rfl, h2⟩ := h
    simp [MElems.hiddenE, MElems.hiddenE_sdPermVis r r' h2]
theorem MMems.hiddenE_sdPermVis : (M M' : MMems) → M.sdPermVis M' → M'.hiddenE = M.hiddenE
  | .nil, _, h => by simp [MMems.sdPermVis] at h; subst h; rfl
  | .clear k x r, _, h => by
    obtain ⟨y, r', rfl, h1, h2⟩ := h
    simp [MMems.hiddenE, MJ.hiddenE_sdPermVis x y h1, MMems.hiddenE_sdPermVis r r' h2]
  | .marked k g x r, _, h => by
    obtain ⟨r', rfl, h2⟩ := h
    simp [MMems.hiddenE, MMems.hiddenE_sdPermVis r r' h2]
end

/-! ### the relation is reflexive, and permuting inside a clear child is permuting in the parent -/

theorem sdOptPerm_refl (a : Option (List String)) : sdOptPerm a a := by
  cases a <;> simp [sdOptPerm]

mutual
theorem MJ.sdPermVis_refl : (T : MJ) → T.sdPermVis T
  | .leaf _ => rfl
  | .arr xs => ⟨xs, rfl, MElems.sdPermVis_refl xs⟩
  | .obj ms sd => ⟨ms, sd, rfl, MMems.sdPermVis_refl ms, sdOptPerm_refl sd⟩
theorem MElems.sdPermVis_refl : (E : MElems) → E.sdPermVis E
  | .nil => rfl
  | .clear x r => ⟨x, r, rfl, MJ.sdPermVis_refl x, MElems.sdPermVis_refl r⟩
  | .marked g x r => ⟨r, rfl, MElems.sdPermVis_refl r⟩
  | .decoy g r => ⟨r, rfl, MElems.sdPermVis_refl r⟩
theorem MMems.sdPermVis_refl : (M : MMems) → M.sdPermVis M
  | .nil => rfl
  | .clear k x r => ⟨x, r, rfl, MJ.sdPermVis_refl x, MMems.sdPermVis_refl r⟩
  | .marked k g x r => ⟨r, rfl, MMems.sdPermVis_refl r⟩
end
