import SdJwt.Impl.Flows
import SdJwt.Lemmas.Total
/-! `decode` comes first: helper lemmas for C04. -/
open Impl Assoc
namespace Impl

theorem holder_verifyRaw_err (rt : Rt) (tok : String)
    (h : ∀ jwt, ∃ e, rt.jwtDecode jwt = .err e) : ∃ e, Holder.verifyRaw rt tok = .err e := by
  unfold Holder.verifyRaw
  have hnp := sdJwtParts_noPanic tok.toList
  cases hp : sdJwtParts tok.toList with
  | panic => exact absurd hp hnp
  | err e => exact ⟨e, by simp⟩
  | ok parts =>
    obtain ⟨e, he⟩ := h (strOf parts.jwt)
    by_cases hk : parts.kb.isSome = true
    · exact ⟨.rejected, by simp [hk]⟩
    · exact ⟨e, by simp [hk, he]⟩

theorem verifier_verifyRaw_err (rt : Rt) (tok : String) (policy : Bool)
    (h : ∀ jwt, ∃ e, rt.jwtDecode jwt = .err e) : ∃ e, Verifier.verifyRaw rt tok policy = .err e := by
  unfold Verifier.verifyRaw
  have hnp := sdJwtParts_noPanic tok.toList
  cases hp : sdJwtParts tok.toList with
  | panic => exact absurd hp hnp
  | err e => exact ⟨e, by simp⟩
  | ok parts =>
    obtain ⟨e, he⟩ := h (strOf parts.jwt)
    exact ⟨e, by simp [he]⟩


end Impl
