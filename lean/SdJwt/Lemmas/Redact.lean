import SdJwt.Lemmas.Ancestry
import SdJwt.Lemmas.Kept
import SdJwt.Lemmas.EndToEnd
/-!
# What the holder keeps, in terms of the tree

`Holder::build` filters its path list by string tests.  For the path list the holder has of a
conformant tree, these tests say: keep the disclosure of a marked node iff its pointer is not
redacted and it does not lie inside a marked node whose pointer is redacted.  What the verifier
then returns is the claims minus exactly the marked nodes whose pointer is redacted (and
everything inside them).
-/
open Assoc Spec Path
namespace Impl

/-- the marked node `g` is not redacted: no pointer of a node marked `g` is in `R` -/
def notRedacted (T : MJ) (R : List String) (g : String) : Bool :=
  (T.paths "").all (fun q => q.2 != g || !R.contains q.1)

/-- the holder's list: one entry per marked node, pointer + disclosure -/
def HolderList (T : MJ) (ps : List PathEntry) : Prop :=
  (ps.map (fun e => (e.1, e.2.digest))).Perm (T.paths "")

theorem HolderList.mem {T : MJ} {ps : List PathEntry} (h : HolderList T ps) {pe : PathEntry}
    (hpe : pe ∈ ps) : (pe.1, pe.2.digest) ∈ T.paths "" :=
  h.subset (List.mem_map_of_mem (f := fun e : PathEntry => (e.1, e.2.digest)) hpe)

theorem HolderList.exists {T : MJ} {ps : List PathEntry} (h : HolderList T ps) {q : String × String}
    (hq : q ∈ T.paths "") : ∃ pe ∈ ps, pe.1 = q.1 ∧ pe.2.digest = q.2 := by
  obtain ⟨pe, hpe, e⟩ := List.mem_map.mp (h.symm.subset hq)
  exact ⟨pe, hpe, by rw [← e], by rw [← e]⟩

/-- **What `Holder::build` keeps.** -/
theorem kept_iff_tree (T : MJ) (wf : T.WF) (nd : T.allMarks.Nodup) (ps : List PathEntry)
    (hps : HolderList T ps) (R : List String) (pe : PathEntry) :
    pe ∈ keptEntries ps R ↔
      pe ∈ ps ∧ pe.1 ∉ R ∧ ∀ q ∈ ps, q.1 ∈ R → pe.2.digest ∉ T.under q.2.digest := by
  rw [mem_keptEntries]
  constructor
  · rintro ⟨h1, h2, h3⟩
    refine ⟨h1, h2, fun q hq hr hu => h3 q hq hr ?_⟩
    exact (starts_with_iff_under T wf nd q.1 q.2.digest pe.1 pe.2.digest (hps.mem hq) (hps.mem h1)).mpr hu
  · rintro ⟨h1, h2, h3⟩
    refine ⟨h1, h2, fun q hq hr hp => h3 q hq hr ?_⟩
    exact (starts_with_iff_under T wf nd q.1 q.2.digest pe.1 pe.2.digest (hps.mem hq) (hps.mem h1)).mp hp

/-- in a tree with pairwise distinct marks a digest has one pointer -/
theorem ptr_unique (T : MJ) (nd : T.allMarks.Nodup) (q q' : String × String)
    (h : q ∈ T.paths "") (h' : q' ∈ T.paths "") (e : q.2 = q'.2) : q = q' :=
  inj_of_nodup_map (·.2) (T.paths "") (by rw [MJ.paths_snd]; exact nd) q h q' h' e

theorem notRedacted_iff (T : MJ) (nd : T.allMarks.Nodup) (R : List String) (q : String × String)
    (hq : q ∈ T.paths "") : notRedacted T R q.2 = true ↔ q.1 ∉ R := by
  unfold notRedacted
  simp only [List.all_eq_true, Bool.or_eq_true, bne_iff_ne, ne_eq, Bool.not_eq_true',
    List.contains_eq_mem, decide_eq_false_iff_not]
  constructor
  · intro h
    rcases h q hq with h1 | h1
    · exact absurd rfl h1
    · exact h1
  · intro h q' hq'
    by_cases e : q'.2 = q.2
    · right
      rw [ptr_unique T nd q' q hq' hq e]; exact h
    · left; exact e

/-- **The verifier sees the original minus the redacted claims and everything inside them.**
Projecting on the digests the holder keeps = projecting on "pointer not redacted". -/
theorem kept_project (T : MJ) (wf : T.WF) (nd : T.allMarks.Nodup) (ps : List PathEntry)
    (hps : HolderList T ps) (R : List String) :
    T.project (fun g => (keptEntries ps R).any (fun pe => pe.2.digest = g)) =
      T.project (notRedacted T R) := by
  apply MJ.project_inside (notRedacted T R) _ T nd
  intro g hg
  rw [← MJ.paths_snd T ""] at hg
  obtain ⟨q, hq, rfl⟩ := List.mem_map.mp hg
  obtain ⟨pe, hpe, hp1, hp2⟩ := hps.exists hq
  by_cases hkept : pe ∈ keptEntries ps R
  · -- kept: both selections show it
    left
    have h0 : notRedacted T R q.2 = true :=
      (notRedacted_iff T nd R q hq).mpr (hp1 ▸ ((kept_iff_tree T wf nd ps hps R pe).mp hkept).2.1)
    rw [h0]
    simp only [List.any_eq_true, decide_eq_true_eq]
    exact ⟨pe, hkept, hp2⟩
  · have h1 : ((keptEntries ps R).any fun pe => decide (pe.2.digest = q.2)) = false := by
      cases hany : (keptEntries ps R).any fun pe => decide (pe.2.digest = q.2) with
      | false => rfl
      | true =>
        exfalso
        simp only [List.any_eq_true, decide_eq_true_eq] at hany
        obtain ⟨pe', hk', hd'⟩ := hany
        have hin' := hps.mem ((kept_iff_tree T wf nd ps hps R pe').mp hk').1
        have : (pe'.1, pe'.2.digest) = q := ptr_unique T nd _ q hin' hq hd'
        have hpe' : pe' ∈ ps := ((kept_iff_tree T wf nd ps hps R pe').mp hk').1
        -- `pe'` and `pe` have the same pointer and digest; membership in `keptEntries` depends
        -- on those only
        apply hkept
        rw [kept_iff_tree T wf nd ps hps R] at hk' ⊢
        refine ⟨hpe, ?_, ?_⟩
        · rw [hp1, ← congrArg Prod.fst this]; exact hk'.2.1
        · intro q0 hq0 hr0
          rw [hp2, ← congrArg Prod.snd this]; exact hk'.2.2 q0 hq0 hr0
    rw [h1]
    by_cases hr : q.1 ∈ R
    · left
      have : notRedacted T R q.2 = false := by
        cases hn : notRedacted T R q.2 with
        | false => rfl
        | true => exact absurd hr ((notRedacted_iff T nd R q hq).mp hn)
      rw [this]
    · -- not redacted itself, yet not kept: it lies inside a redacted node
      right
      have : ¬ (pe ∈ ps ∧ pe.1 ∉ R ∧ ∀ q0 ∈ ps, q0.1 ∈ R → pe.2.digest ∉ T.under q0.2.digest) :=
        fun hh => hkept ((kept_iff_tree T wf nd ps hps R pe).mpr hh)
      have hex : ∃ q0 ∈ ps, q0.1 ∈ R ∧ pe.2.digest ∈ T.under q0.2.digest := by
        apply Classical.byContradiction
        intro hne
        apply this
        refine ⟨hpe, hp1 ▸ hr, fun q0 hq0 hr0 hu => hne ⟨q0, hq0, hr0, hu⟩⟩
      obtain ⟨q0, hq0, hr0, hu⟩ := hex
      refine ⟨q0.2.digest, hp2 ▸ hu, ?_, ?_⟩
      · cases hn : notRedacted T R q0.2.digest with
        | false => rfl
        | true =>
          have := (notRedacted_iff T nd R (q0.1, q0.2.digest) (hps.mem hq0)).mp hn
          exact absurd hr0 this
      · cases hany : (keptEntries ps R).any fun pe => decide (pe.2.digest = q0.2.digest) with
        | false => rfl
        | true =>
          exfalso
          simp only [List.any_eq_true, decide_eq_true_eq] at hany
          obtain ⟨pe', hk', hd'⟩ := hany
          have hk'' := (kept_iff_tree T wf nd ps hps R pe').mp hk'
          have : (pe'.1, pe'.2.digest) = (q0.1, q0.2.digest) :=
            ptr_unique T nd _ _ (hps.mem hk''.1) (hps.mem hq0) hd'
          exact hk''.2.1 ((congrArg Prod.fst this) ▸ hr0)

end Impl

namespace Impl

theorem fromBase64_str (env : Env) (s : String) (d : Disc) (h : fromBase64 env s = .ok d) : d.str = s := by
  unfold fromBase64 at h
  split at h
  · cases h
  · cases h; rfl
  · split at h
    · split at h
      · cases h
      · cases h; rfl
    · cases h
  · cases h

/-- **Issuer → holder → redaction → verifier.**  The holder receives the issued token, gets its
path list `ps`, redacts ANY list `R` of strings; what `Holder::build` keeps
(`keptDisclosures ps R`) is accepted by the verifier, which returns the issued claims minus
exactly the marked nodes whose pointer is in `R`, and everything inside them. -/
theorem redact_verify_issued (rt : Rt) (mk : Nat → Option String → J → String)
    (paths : List String) (addr : List (List String × String)) (ms : MMems) (Tn : MJ)
    (ds : List SDisc) (decoys : Option (List String)) (jwt : String) (header : J)
    (strs : List String) (R : List String) (policy : Bool)
    (wf : (MJ.obj ms none).WF) (hplain : (MJ.obj ms none).digests = [])
    (hk1 : "_sd_alg" ∉ ms.keys) (hk2 : "cnf" ∉ ms.keys)
    (hp : ParsedAll paths addr) (h : markAll mk 0 addr (.obj ms none) = some (Tn, ds)) (hne : ds ≠ [])
    (hdec : ∀ l, decoys = some l → l.Nodup ∧ (∀ g ∈ l, g ∉ Tn.digests))
    (hsig : ∀ payload dsrc,
      encode (MJ.obj ms none).payload paths mk decoys none = .ok (payload, dsrc) →
      rt.jwtDecode jwt = .ok (header, payload))
    (hstr : ∀ s ∈ strs, ∃ e ∈ ds,
      fromBase64 (rt.env "sha-256") s = .ok ⟨s, e.digest, e.key, e.value⟩)
    (hnd : (strs.map (rt.hash "sha-256")).Nodup)
    (hall : ∀ e ∈ ds, ∃ s ∈ strs, rt.hash "sha-256" s = e.digest)
    (hj : '~' ∉ jwt.toList) (hs : ∀ s ∈ strs, '~' ∉ s.toList) :
    ∃ ps, Holder.verify rt (assemble jwt strs) = .ok (header, expectedClaims ms none, ps) ∧
      Verifier.verify rt (assemble jwt (keptDisclosures ps R)) policy =
        .ok (header, Tn.project (notRedacted Tn R)) := by
  obtain ⟨hm0, _, _⟩ := no_digests _ wf hplain
  have inv : TreeInv (.obj ms none) := ⟨wf, by rw [hplain]; exact List.nodup_nil, by rw [hm0]; exact List.nodup_nil⟩
  obtain ⟨invn, _, _, _, _⟩ := markAll_inv mk addr 0 (.obj ms none) Tn ds inv h
  obtain ⟨ps, hver, hperm, hfrom⟩ := holder_verify_issued rt mk paths addr ms Tn ds decoys none jwt header
    strs wf hplain hk1 hk2 hp h hne hdec (by simp) hsig hstr hnd hall hj hs
  refine ⟨ps, hver, ?_⟩
  have hlist : HolderList Tn ps := hperm
  -- every entry's disclosure is the decoding of one of the received strings, which it records
  have hentry : ∀ pe ∈ ps, pe.2.str ∈ strs ∧ rt.hash "sha-256" pe.2.str = pe.2.digest ∧
      fromBase64 (rt.env "sha-256") pe.2.str = .ok pe.2 := by
    intro pe hpe
    obtain ⟨s, hs', hf⟩ := hfrom pe hpe
    have e := fromBase64_str _ s pe.2 hf
    rw [e]
    exact ⟨hs', (fromBase64_digest _ s pe.2 hf).symm, hf⟩
  have hsub : ∀ pe ∈ keptEntries ps R, pe ∈ ps := fun pe hpe => (mem_keptEntries ps R pe).mp hpe |>.1
  have hkeptStr : ∀ s ∈ keptDisclosures ps R, s ∈ strs := by
    intro s hs'
    rw [keptDisclosures_eq] at hs'
    obtain ⟨pe, hpe, rfl⟩ := List.mem_map.mp hs'
    exact (hentry pe (hsub pe hpe)).1
  have hmapdig : (keptDisclosures ps R).map (rt.hash "sha-256") = (keptEntries ps R).map (·.2.digest) := by
    rw [keptDisclosures_eq, List.map_map]
    apply List.map_congr_left
    intro pe hpe
    exact (hentry pe (hsub pe hpe)).2.1
  have hndps : (ps.map (·.2.digest)).Nodup := by
    have : (ps.map (fun e => (e.1, e.2.digest))).map (·.2) = ps.map (·.2.digest) := by
      rw [List.map_map]; rfl
    rw [← this]
    exact (hperm.map (·.2)).symm.nodup (by rw [MJ.paths_snd]; exact invn.ndm)
  have hndk : ((keptDisclosures ps R).map (rt.hash "sha-256")).Nodup := by
    rw [hmapdig]
    have hsl : (keptEntries ps R).Sublist ps := by
      unfold keptEntries
      exact List.filter_sublist.trans List.filter_sublist
    exact (hsl.map _).nodup hndps
  have hv := verifier_verify_issued rt mk paths addr ms Tn ds decoys jwt header (keptDisclosures ps R)
    policy wf hplain hk1 hk2 hp h hne hdec hsig (fun s hs' => hstr s (hkeptStr s hs')) hndk hj
    (fun s hs' => hs s (hkeptStr s hs'))
  rw [hv]
  congr 2
  rw [← kept_project Tn invn.wf invn.ndm ps hlist R]
  congr 1
  funext g
  rw [keptDisclosures_eq, List.any_map]
  apply Bool.eq_iff_iff.mpr
  simp only [List.any_eq_true, Function.comp, decide_eq_true_eq]
  constructor
  · rintro ⟨pe, hpe, e⟩
    exact ⟨pe, hpe, by rw [← (hentry pe (hsub pe hpe)).2.1]; exact e⟩
  · rintro ⟨pe, hpe, e⟩
    exact ⟨pe, hpe, by rw [(hentry pe (hsub pe hpe)).2.1]; exact e⟩

end Impl

namespace Impl

/-- **`Holder::presentation` and `Holder::build` in the chain.**  If the unverified reading of
the JWT's claims segment (`decode_claims_no_verification`) yields the payload the JWT library
returns on verification, then `Holder::presentation` of the issued token succeeds with the
same path list `ps` as `Holder::verify`, and `Holder::build` after `redact(R)` emits exactly
`jwt~kept…~` for `kept = keptDisclosures ps R` (unbound token: no key-binding JWT). -/
theorem holder_presentation_build (rt : Rt) (jwt : String) (strs : List String) (header payload c : J)
    (ps : List PathEntry) (R : List String) (a b sig : List Char) (nonce : String) (now : Int)
    (hj : '~' ∉ jwt.toList) (hs : ∀ s ∈ strs, '~' ∉ s.toList)
    (hseg : splitOn '.' jwt.toList = [a, b, sig])
    (hclaims : rt.decodeClaims (strOf b) = some payload)
    (halg : (jidx payload "_sd_alg").asStr = some "sha-256")
    (hcnf : jget? payload "cnf" = none)
    (hr : restoreAll (rt.env "sha-256") payload strs = .ok (c, ps)) :
    Holder.presentation rt (assemble jwt strs) = .ok { sdJwt := jwt, paths := ps } ∧
    Holder.build rt { sdJwt := jwt, paths := ps } R none nonce now =
      .ok (assemble jwt (keptDisclosures ps R), none) := by
  have hparts := sdJwtParts_assemble jwt strs hj hs
  have hstrs : (strs.map (·.toList)).map strOf = strs := by
    simp [List.map_map, Function.comp_def, strOf, String.ofList_toList]
  have hpart : getJwtPart jwt.toList .claims = .ok b := by simp [getJwtPart, hseg]
  have hclaims' : rt.decodeClaims (String.ofList b) = some payload := hclaims
  have hstrs' : List.map (strOf ∘ fun x : String => x.toList) strs = strs := by
    rw [← List.map_map]; exact hstrs
  constructor
  · simp [Holder.presentation, hparts, hpart, hclaims', halg, parseHashAlg, hstrs', hr, strOf,
      String.ofList_toList]
  · simp [Holder.build, hpart, hclaims', hcnf, strOf]

end Impl
