import SdJwt.Lemmas.SdOrder
import SdJwt.Lemmas.Complete
/-! Invariants of restoration carried over a permutation of the visible digest lists. -/
open Spec
namespace Impl

theorem TreeInv.sdPermVis {T T' : MJ} (h : T.sdPermVis T') (inv : TreeInv T) : TreeInv T' :=
  ⟨MJ.WF_sdPermVis T T' h inv.wf,
   (MJ.digests_sdPermVis T T' h).nodup_iff.mpr inv.nd,
   by rw [MJ.allMarks_sdPermVis T T' h]; exact inv.ndm⟩

theorem DOk.sdPermVis {T T' : MJ} (h : T.sdPermVis T') {d : Disc} (ok : DOk T d) : DOk T' d :=
  ⟨fun hm => ok.fresh ((MJ.deepStale_sdPermVis T T' h).mem_iff.mp hm),
   by rw [MJ.discs_sdPermVis T T' h]; exact ok.mat⟩

end Impl
