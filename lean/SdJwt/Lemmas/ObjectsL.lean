import SdJwt.Impl.Objects
import SdJwt.Lemmas.Assoc
/-! Histories of the `Issuer` and `Holder` objects. -/
open Assoc
namespace Impl

/-! ## Issuer -/

theorem IssuerObj.run_drop_encodes (ops : List IssuerOp) : ∀ s : IssuerObj,
    s.run ops = s.run (ops.filter (fun o => !o.isEncode)) := by
  induction ops with
  | nil => intro s; rfl
  | cons o r ih =>
    intro s
    cases o <;> simp [IssuerObj.run, IssuerOp.isEncode, IssuerObj.step] <;> exact ih _

theorem IssuerObj.run_append (s : IssuerObj) (a b : List IssuerOp) : s.run (a ++ b) = (s.run a).run b := by
  simp [IssuerObj.run, List.foldl_append]

/-- the paths held after a history: those held before, then every `disclosable` call in call order -/
def pathsOf : List IssuerOp → List String
  | [] => []
  | .disclosable p :: r => p :: pathsOf r
  | _ :: r => pathsOf r

theorem IssuerObj.run_paths (ops : List IssuerOp) : ∀ s : IssuerObj, (s.run ops).paths = s.paths ++ pathsOf ops := by
  induction ops with
  | nil => intro s; simp [IssuerObj.run, pathsOf]
  | cons o r ih =>
    intro s
    have h := ih (s.step o)
    cases o <;> simp_all [IssuerObj.run, IssuerObj.step, pathsOf]

/-- the last `header` call decides, if there is one -/
def lastHeader : List IssuerOp → Option J
  | [] => none
  | .header h :: r => (lastHeader r).orElse (fun _ => some h)
  | _ :: r => lastHeader r

theorem IssuerObj.run_header (ops : List IssuerOp) : ∀ s : IssuerObj,
    (s.run ops).header = (lastHeader ops).getD s.header := by
  induction ops with
  | nil => intro s; rfl
  | cons o r ih =>
    intro s
    have h := ih (s.step o)
    cases o <;> simp_all [IssuerObj.run, IssuerObj.step, lastHeader]

def lastDecoy : List IssuerOp → Option Int
  | [] => none
  | .decoy n :: r => (lastDecoy r).orElse (fun _ => some n)
  | _ :: r => lastDecoy r

theorem IssuerObj.run_decoy (ops : List IssuerOp) : ∀ s : IssuerObj,
    (s.run ops).maxDecoys = (lastDecoy ops).orElse (fun _ => s.maxDecoys) := by
  induction ops with
  | nil => intro s; simp [IssuerObj.run, lastDecoy]
  | cons o r ih =>
    intro s
    have h := ih (s.step o)
    cases o <;> simp_all [IssuerObj.run, IssuerObj.step, lastDecoy]

def lastCnf : List IssuerOp → Option J
  | [] => none
  | .requireKb k :: r => (lastCnf r).orElse (fun _ => some k)
  | _ :: r => lastCnf r

theorem IssuerObj.run_cnf (ops : List IssuerOp) : ∀ s : IssuerObj,
    (s.run ops).cnf = (lastCnf ops).orElse (fun _ => s.cnf) := by
  induction ops with
  | nil => intro s; simp [IssuerObj.run, lastCnf]
  | cons o r ih =>
    intro s
    have h := ih (s.step o)
    cases o <;> simp_all [IssuerObj.run, IssuerObj.step, lastCnf]

/-- the last expiry request decides the `exp` that is recorded -/
def lastExp : List IssuerOp → Option Int
  | [] => none
  | .expiresIn n now :: r => (lastExp r).orElse (fun _ => some (now + n))
  | _ :: r => lastExp r

/-- inserting twice under one key: the later value stands -/
theorem ains_twice (k : String) (v v' : J) : (l : List (String × J)) → ains k v (ains k v' l) = ains k v l
  | [] => by simp [ains, slt_irrefl]
  | (k', w) :: r => by
    by_cases h1 : k < k'
    · simp [ains, h1, slt_irrefl]
    · by_cases h2 : k = k'
      · subst h2; simp [ains, slt_irrefl]
      · simp [ains, h1, h2, ains_twice k v v' r]

theorem setExp_setExp (a b : Int) (c : J) : setExp b (setExp a c) = setExp b c := by
  cases c <;> simp [setExp, ains_twice]

theorem IssuerObj.run_claims (ops : List IssuerOp) : ∀ s : IssuerObj,
    (s.run ops).claims = match lastExp ops with
      | some v => setExp v s.claims
      | none => s.claims := by
  induction ops with
  | nil => intro s; rfl
  | cons o r ih =>
    intro s
    have h := ih (s.step o)
    cases o <;> simp_all [IssuerObj.run, IssuerObj.step, lastExp]
    cases lastExp r <;> simp [setExp_setExp]

/-! ## Holder -/

theorem HolderObj.run_drop_builds (ops : List HolderOp) : ∀ h : HolderObj,
    h.run ops = h.run (ops.filter (fun o => !o.isBuild)) := by
  induction ops with
  | nil => intro h; rfl
  | cons o r ih =>
    intro h
    cases o <;> simp [HolderObj.run, HolderOp.isBuild, HolderObj.step] <;> exact ih _

def redactsOf : List HolderOp → List String
  | [] => []
  | .redact p :: r => p :: redactsOf r
  | _ :: r => redactsOf r

def lastKb : List HolderOp → Option KbParams
  | [] => none
  | .keyBinding a g :: r => (lastKb r).orElse (fun _ => some ⟨a, g⟩)
  | _ :: r => lastKb r

theorem HolderObj.run_state (ops : List HolderOp) : ∀ h : HolderObj,
    (h.run ops).st = h.st ∧ (h.run ops).redacted = h.redacted ++ redactsOf ops ∧
    (h.run ops).kb = (lastKb ops).orElse (fun _ => h.kb) := by
  induction ops with
  | nil => intro h; simp [HolderObj.run, redactsOf, lastKb]
  | cons o r ih =>
    intro h
    have := ih (h.step o)
    cases o <;> simp_all [HolderObj.run, HolderObj.step, redactsOf, lastKb]

/-- what `build` keeps depends on the *set* of redacted paths only: not on the order of the
`redact` calls, not on repetitions -/
theorem keptDisclosures_set (paths : List PathEntry) (r1 r2 : List String)
    (h : ∀ p, p ∈ r1 ↔ p ∈ r2) : keptDisclosures paths r1 = keptDisclosures paths r2 := by
  have hc : ∀ p, r1.contains p = r2.contains p := by
    intro p
    by_cases h1 : p ∈ r1
    · simp [h1, (h p).mp h1]
    · have h2 : p ∉ r2 := fun x => h1 ((h p).mpr x)
      simp [h1, h2]
  simp only [keptDisclosures, hc]

end Impl
