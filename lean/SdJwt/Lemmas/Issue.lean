import SdJwt.Spec.Marking
import SdJwt.Impl.Issuer
import SdJwt.Lemmas.View
/-!
T-issue: the issuer model's in-place hiding of one path (`updateAt (hideIn …)` on JSON) is the
specification's marking (`markIn`) on the marked tree whose payload the JSON is.
-/
open Assoc Spec
namespace Impl

/-! ### members -/

theorem getClear_props (k : String) : (ms : MMems) → ms.WF → ∀ x, ms.getClear k = some x →
    aget k (ms.hview noneShown) = some (x.hview noneShown) ∧ k ≠ "_sd" ∧ k ≠ "..." ∧ x.WF
  | .nil, _, _, h => by simp [MMems.getClear] at h
  | .clear k' x' r, wf, x, h => by
    simp only [MMems.WF] at wf
    simp only [MMems.getClear] at h
    by_cases hk : k' = k
    · subst hk
      simp at h; subst h
      exact ⟨by simp [MMems.hview, aget], wf.1, wf.2.1, wf.2.2.1⟩
    · simp only [hk, if_false] at h
      obtain ⟨h1, h2, h3, h4⟩ := getClear_props k r wf.2.2.2.2 x h
      have : k ≠ k' := fun e => hk e.symm
      exact ⟨by simp [MMems.hview, aget, this, h1], h2, h3, h4⟩
  | .marked k' dg x' r, wf, x, h => by
    simp only [MMems.WF] at wf
    simp only [MMems.getClear] at h
    obtain ⟨h1, h2, h3, h4⟩ := getClear_props k r wf.2.2.2.2 x h
    exact ⟨by simpa [MMems.hview] using h1, h2, h3, h4⟩

theorem getClear_keysGt {k k0 : String} : (ms : MMems) → ms.keysGt k0 → ∀ x, ms.getClear k = some x → k0 < k
  | .nil, _, _, h => by simp [MMems.getClear] at h
  | .clear k' x' r, hk, x, h => by
    simp only [MMems.keysGt] at hk
    simp only [MMems.getClear] at h
    by_cases e : k' = k
    · subst e; exact hk.1
    · simp only [e, if_false] at h; exact getClear_keysGt r hk.2 x h
  | .marked k' dg x' r, hk, x, h => by
    simp only [MMems.keysGt] at hk
    simp only [MMems.getClear] at h
    exact getClear_keysGt r hk.2 x h

theorem hview_setClear (k : String) (y : MJ) : (ms : MMems) → ms.WF → ∀ x, ms.getClear k = some x →
    (ms.setClear k y).hview noneShown = ains k (y.hview noneShown) (ms.hview noneShown)
  | .nil, _, _, h => by simp [MMems.getClear] at h
  | .clear k' x' r, wf, x, h => by
    simp only [MMems.WF] at wf
    simp only [MMems.getClear] at h
    by_cases hk : k' = k
    · subst hk
      have hg := keysGt_hview noneShown k' r wf.2.2.2.1
      simp only [MMems.setClear, if_true, MMems.hview]
      cases hr : r.hview noneShown with
      | nil => simp [ains, slt_irrefl]
      | cons a t =>
        obtain ⟨ka, va⟩ := a
        simp [ains, slt_irrefl]
    · simp only [hk, if_false] at h
      have hlt : k' < k := getClear_keysGt r wf.2.2.2.1 x h
      simp only [MMems.setClear, hk, if_false, MMems.hview, hview_setClear k y r wf.2.2.2.2 x h]
      rw [ains_cons_lt _ _ _ hlt]
  | .marked k' dg x' r, wf, x, h => by
    simp only [MMems.WF] at wf
    simp only [MMems.getClear] at h
    simp only [MMems.setClear, MMems.hview, Bool.false_eq_true, if_false]
    exact hview_setClear k y r wf.2.2.2.2 x h

theorem hview_toMarked (k dg : String) : (ms : MMems) → ms.WF → ∀ x, ms.getClear k = some x →
    (ms.toMarked k dg).hview noneShown = adel k (ms.hview noneShown)
  | .nil, _, _, h => by simp [MMems.getClear] at h
  | .clear k' x' r, wf, x, h => by
    simp only [MMems.WF] at wf
    simp only [MMems.getClear] at h
    by_cases hk : k' = k
    · subst hk
      simp [MMems.toMarked, MMems.hview, adel]
    · simp only [hk, if_false] at h
      have : k ≠ k' := fun e => hk e.symm
      simp [MMems.toMarked, hk, MMems.hview, adel, this, hview_toMarked k dg r wf.2.2.2.2 x h]
  | .marked k' dg' x' r, wf, x, h => by
    simp only [MMems.WF] at wf
    simp only [MMems.getClear] at h
    simp only [MMems.toMarked, MMems.hview, Bool.false_eq_true, if_false]
    exact hview_toMarked k dg r wf.2.2.2.2 x h

theorem adel_ains_ne {α : Type} (k k' : String) (v : α) (l : List (String × α)) (hs : Sorted l)
    (hne : k ≠ k') : adel k (ains k' v l) = ains k' v (adel k l) := by
  apply sorted_ext
  · exact sorted_adel _ _ (sorted_ains _ _ _ hs)
  · exact sorted_ains _ _ _ (sorted_adel _ _ hs)
  · intro q
    by_cases h1 : q = k
    · subst h1
      rw [aget_adel_self _ (sorted_ains _ _ _ hs), aget_ains_ne _ hne, aget_adel_self _ hs]
    · by_cases h2 : q = k'
      · subst h2
        rw [aget_adel_ne h1, aget_ains_self, aget_ains_self]
      · rw [aget_adel_ne h1, aget_ains_ne _ h2, aget_ains_ne _ h2, aget_adel_ne h1]

theorem ains_ains_same {α : Type} (k : String) (v v' : α) : (l : List (String × α)) →
    ains k v (ains k v' l) = ains k v l
  | [] => by simp [ains, slt_irrefl]
  | (k', w) :: r => by
    by_cases h1 : k < k'
    · simp [ains, h1, slt_irrefl]
    · by_cases h2 : k = k'
      · subst h2; simp [ains, slt_irrefl]
      · simp [ains, h1, h2, ains_ains_same k v v' r]

/-! ### elements -/

theorem getClearAt_props : (i : Nat) → (xs : MElems) → xs.WF → ∀ x, xs.getClearAt i = some x →
    (xs.hview noneShown)[i]? = some (x.hview noneShown) ∧ x.WF
  | _, .nil, _, _, h => by simp [MElems.getClearAt] at h
  | 0, .clear x' r, wf, x, h => by
    simp only [MElems.WF] at wf
    simp [MElems.getClearAt] at h; subst h
    exact ⟨by simp [MElems.hview], wf.1⟩
  | 0, .marked dg x' r, _, _, h => by simp [MElems.getClearAt] at h
  | 0, .decoy dg r, _, _, h => by simp [MElems.getClearAt] at h
  | i+1, .clear x' r, wf, x, h => by
    simp only [MElems.WF] at wf
    simpa [MElems.getClearAt, MElems.hview] using getClearAt_props i r wf.2 x (by simpa [MElems.getClearAt] using h)
  | i+1, .marked dg x' r, wf, x, h => by
    simp only [MElems.WF] at wf
    simpa [MElems.getClearAt, MElems.hview] using getClearAt_props i r wf.2 x (by simpa [MElems.getClearAt] using h)
  | i+1, .decoy dg r, wf, x, h => by
    simp only [MElems.WF] at wf
    simpa [MElems.getClearAt, MElems.hview] using getClearAt_props i r wf x (by simpa [MElems.getClearAt] using h)

theorem hview_setClearAt (y : MJ) : (i : Nat) → (xs : MElems) → ∀ x, xs.getClearAt i = some x →
    (xs.setClearAt y i).hview noneShown = (xs.hview noneShown).set i (y.hview noneShown)
  | _, .nil, _, h => by simp [MElems.getClearAt] at h
  | 0, .clear x' r, x, _ => by simp [MElems.setClearAt, MElems.hview]
  | 0, .marked dg x' r, _, h => by simp [MElems.getClearAt] at h
  | 0, .decoy dg r, _, h => by simp [MElems.getClearAt] at h
  | i+1, .clear x' r, x, h => by
    simp [MElems.setClearAt, MElems.hview, hview_setClearAt y i r x (by simpa [MElems.getClearAt] using h)]
  | i+1, .marked dg x' r, x, h => by
    simp [MElems.setClearAt, MElems.hview, hview_setClearAt y i r x (by simpa [MElems.getClearAt] using h)]
  | i+1, .decoy dg r, x, h => by
    simp [MElems.setClearAt, MElems.hview, hview_setClearAt y i r x (by simpa [MElems.getClearAt] using h)]

theorem hview_toMarkedAt (dg : String) : (i : Nat) → (xs : MElems) → ∀ x, xs.getClearAt i = some x →
    (xs.toMarkedAt dg i).hview noneShown = (xs.hview noneShown).set i (placeholder dg)
  | _, .nil, _, h => by simp [MElems.getClearAt] at h
  | 0, .clear x' r, x, _ => by simp [MElems.toMarkedAt, MElems.hview]
  | 0, .marked dg' x' r, _, h => by simp [MElems.getClearAt] at h
  | 0, .decoy dg' r, _, h => by simp [MElems.getClearAt] at h
  | i+1, .clear x' r, x, h => by
    simp [MElems.toMarkedAt, MElems.hview, hview_toMarkedAt dg i r x (by simpa [MElems.getClearAt] using h)]
  | i+1, .marked dg' x' r, x, h => by
    simp [MElems.toMarkedAt, MElems.hview, hview_toMarkedAt dg i r x (by simpa [MElems.getClearAt] using h)]
  | i+1, .decoy dg' r, x, h => by
    simp [MElems.toMarkedAt, MElems.hview, hview_toMarkedAt dg i r x (by simpa [MElems.getClearAt] using h)]

/-! ### one path -/

/-- the model's readers of array indices -/
def pI : String → Option Nat := fun t => parseIndex t.toList
def pU : String → Option Nat := fun t => parseUsize t.toList

theorem aget_withSd_ne (sd : Option (List String)) (k : String) (l : List (String × J)) (hk : k ≠ "_sd") :
    aget k (withSd sd l) = aget k l := by
  cases sd with
  | none => rfl
  | some ds => exact aget_ains_ne _ hk l

/-- marking the child `last` of a node = the body of `build_disclosure` on that node's payload -/
theorem hideIn_markChild (mk : Option String → J → String) (last : String) (T T' : MJ) (d : SDisc)
    (wf : T.WF) (h : T.markChild pU mk last = some (T', d)) :
    hideIn mk last T.payload = .ok (T'.payload, ⟨d.key, d.value, d.digest⟩) := by
  cases T with
  | leaf j => simp [MJ.markChild] at h
  | arr xs =>
    simp only [MJ.WF] at wf
    simp only [MJ.markChild] at h
    cases hp : pU last with
    | none => simp [hp] at h
    | some i =>
      simp only [hp] at h
      cases hg : xs.getClearAt i with
      | none => simp [hg] at h
      | some x =>
        simp only [hg, Option.some.injEq, Prod.mk.injEq] at h
        obtain ⟨rfl, rfl⟩ := h
        obtain ⟨h1, _⟩ := getClearAt_props i xs wf x hg
        have hp' : parseUsize last.toList = some i := hp
        simp [MJ.payload, MJ.hview, hideIn, hp', h1, hview_toMarkedAt _ i xs x hg]
  | obj ms sd =>
    simp only [MJ.WF] at wf
    simp only [MJ.markChild] at h
    by_cases hr : last = "_sd" ∨ last = "..."
    · simp [hr] at h
    · simp only [hr, if_false] at h
      cases hg : ms.getClear last with
      | none => simp [hg] at h
      | some x =>
        simp only [hg, Option.some.injEq, Prod.mk.injEq] at h
        obtain ⟨rfl, rfl⟩ := h
        obtain ⟨h1, h2, _, _⟩ := getClear_props last ms wf.1 x hg
        have hsorted := sorted_hview noneShown ms wf.1
        have hnosd := aget_sd_hview noneShown ms wf.1
        have hlast : aget last (withSd sd (ms.hview noneShown)) = some (x.hview noneShown) := by
          rw [aget_withSd_ne sd last _ h2]; exact h1
        cases sd with
        | none =>
          have hsd' : aget "_sd" (adel last (ms.hview noneShown)) = none := by
            rw [aget_adel_ne (fun e => h2 e.symm)]; exact hnosd
          simp [MJ.payload, MJ.hview, withSd, hideIn, h1, hr, hsd', hview_toMarked last _ ms wf.1 x hg]
        | some ds =>
          have hadel : adel last (ains "_sd" (J.arr (ds.map .str)) (ms.hview noneShown)) =
              ains "_sd" (J.arr (ds.map .str)) (adel last (ms.hview noneShown)) :=
            adel_ains_ne last "_sd" _ _ hsorted h2
          simp only [withSd] at hlast
          simp [MJ.payload, MJ.hview, withSd, hideIn, hlast, hr, hadel, aget_ains_self, ains_ains_same,
            hview_toMarked last _ ms wf.1 x hg]

theorem child_props (t : String) (T : MJ) (wf : T.WF) (x : MJ) (h : T.child pI t = some x) : x.WF := by
  cases T with
  | leaf j => simp [MJ.child] at h
  | arr xs =>
    simp only [MJ.WF] at wf
    simp only [MJ.child] at h
    cases hp : pI t with
    | none => simp [hp] at h
    | some i => simp only [hp, Option.bind_some] at h; exact (getClearAt_props i xs wf x h).2
  | obj ms sd =>
    simp only [MJ.WF] at wf
    exact (getClear_props t ms wf.1 x h).2.2.2

/-- **T-issue, one path.** If the specification's marking of `last` below `toks` is defined on the
tree `T`, the issuer model's update of `T`'s payload yields the payload of the marked tree, and
the disclosure it records is the disclosure of the marked node. -/
theorem updateAt_markIn (mk : Option String → J → String) (last : String) :
    (toks : List String) → (T T' : MJ) → (d : SDisc) → T.WF →
    MJ.markIn pI pU mk toks last T = some (T', d) →
    updateAt (hideIn mk last) toks T.payload = .ok (T'.payload, ⟨d.key, d.value, d.digest⟩)
  | [], T, T', d, wf, h => by
    simp only [MJ.markIn] at h
    simpa [updateAt] using hideIn_markChild mk last T T' d wf h
  | t :: r, T, T', d, wf, h => by
    simp only [MJ.markIn] at h
    cases hc : T.child pI t with
    | none => simp [hc] at h
    | some x =>
      simp only [hc] at h
      cases hm : MJ.markIn pI pU mk r last x with
      | none => simp [hm] at h
      | some res =>
        obtain ⟨x', d'⟩ := res
        simp only [hm, Option.some.injEq, Prod.mk.injEq] at h
        obtain ⟨rfl, rfl⟩ := h
        have wfx := child_props t T wf x hc
        have ih := updateAt_markIn mk last r x x' d' wfx hm
        cases T with
        | leaf j => simp [MJ.child] at hc
        | arr xs =>
          simp only [MJ.WF] at wf
          simp only [MJ.child] at hc
          cases hp : pI t with
          | none => simp [hp] at hc
          | some i =>
            simp only [hp, Option.bind_some] at hc
            obtain ⟨h1, _⟩ := getClearAt_props i xs wf x hc
            have hp' : parseIndex t.toList = some i := hp
            simp only [MJ.payload] at ih
            simp [MJ.payload, MJ.hview, updateAt, hp', h1, ih, MJ.setChild, hp, hview_setClearAt x' i xs x hc]
        | obj ms sd =>
          simp only [MJ.WF] at wf
          simp only [MJ.child] at hc
          obtain ⟨h1, h2, _, _⟩ := getClear_props t ms wf.1 x hc
          have hsorted := sorted_hview noneShown ms wf.1
          have hget : aget t (withSd sd (ms.hview noneShown)) = some (x.hview noneShown) := by
            rw [aget_withSd_ne sd t _ h2]; exact h1
          simp only [MJ.payload] at ih
          cases sd with
          | none =>
            simp only [withSd] at hget
            simp [MJ.payload, MJ.hview, withSd, updateAt, hget, ih, MJ.setChild, hview_setClear t x' ms wf.1 x hc]
          | some ds =>
            simp only [withSd] at hget
            simp [MJ.payload, MJ.hview, withSd, updateAt, hget, ih, MJ.setChild, hview_setClear t x' ms wf.1 x hc,
              ains_comm _ _ _ _ _ hsorted h2]

end Impl

namespace Impl

/-! ### marking preserves the claims -/

theorem project_setClear (S : String → Bool) (k : String) (y : MJ) : (ms : MMems) → ∀ x, ms.getClear k = some x →
    y.project S = x.project S → (ms.setClear k y).project S = ms.project S
  | .nil, _, h, _ => by simp [MMems.getClear] at h
  | .clear k' x' r, x, h, hy => by
    simp only [MMems.getClear] at h
    by_cases hk : k' = k
    · subst hk; simp at h; subst h
      simp [MMems.setClear, MMems.project, hy]
    · simp only [hk, if_false] at h
      simp [MMems.setClear, hk, MMems.project, project_setClear S k y r x h hy]
  | .marked k' dg x' r, x, h, hy => by
    simp only [MMems.getClear] at h
    simp [MMems.setClear, MMems.project, project_setClear S k y r x h hy]

theorem project_toMarked (k dg : String) : (ms : MMems) → ∀ x, ms.getClear k = some x →
    (ms.toMarked k dg).project (fun _ => true) = ms.project (fun _ => true)
  | .nil, _, h => by simp [MMems.getClear] at h
  | .clear k' x' r, x, h => by
    simp only [MMems.getClear] at h
    by_cases hk : k' = k
    · simp [MMems.toMarked, hk, MMems.project]
    · simp only [hk, if_false] at h
      simp [MMems.toMarked, hk, MMems.project, project_toMarked k dg r x h]
  | .marked k' dg' x' r, x, h => by
    simp only [MMems.getClear] at h
    simp [MMems.toMarked, MMems.project, project_toMarked k dg r x h]

theorem project_setClearAt (S : String → Bool) (y : MJ) : (i : Nat) → (xs : MElems) → ∀ x, xs.getClearAt i = some x →
    y.project S = x.project S → (xs.setClearAt y i).project S = xs.project S
  | _, .nil, _, h, _ => by simp [MElems.getClearAt] at h
  | 0, .clear x' r, x, h, hy => by
    simp [MElems.getClearAt] at h; subst h
    simp [MElems.setClearAt, MElems.project, hy]
  | 0, .marked dg x' r, _, h, _ => by simp [MElems.getClearAt] at h
  | 0, .decoy dg r, _, h, _ => by simp [MElems.getClearAt] at h
  | i+1, .clear x' r, x, h, hy => by
    simp [MElems.setClearAt, MElems.project, project_setClearAt S y i r x (by simpa [MElems.getClearAt] using h) hy]
  | i+1, .marked dg x' r, x, h, hy => by
    simp [MElems.setClearAt, MElems.project, project_setClearAt S y i r x (by simpa [MElems.getClearAt] using h) hy]
  | i+1, .decoy dg r, x, h, hy => by
    simp [MElems.setClearAt, MElems.project, project_setClearAt S y i r x (by simpa [MElems.getClearAt] using h) hy]

theorem project_toMarkedAt (dg : String) : (i : Nat) → (xs : MElems) → ∀ x, xs.getClearAt i = some x →
    (xs.toMarkedAt dg i).project (fun _ => true) = xs.project (fun _ => true)
  | _, .nil, _, h => by simp [MElems.getClearAt] at h
  | 0, .clear x' r, x, _ => by simp [MElems.toMarkedAt, MElems.project]
  | 0, .marked dg' x' r, _, h => by simp [MElems.getClearAt] at h
  | 0, .decoy dg' r, _, h => by simp [MElems.getClearAt] at h
  | i+1, .clear x' r, x, h => by
    simp [MElems.toMarkedAt, MElems.project, project_toMarkedAt dg i r x (by simpa [MElems.getClearAt] using h)]
  | i+1, .marked dg' x' r, x, h => by
    simp [MElems.toMarkedAt, MElems.project, project_toMarkedAt dg i r x (by simpa [MElems.getClearAt] using h)]
  | i+1, .decoy dg' r, x, h => by
    simp [MElems.toMarkedAt, MElems.project, project_toMarkedAt dg i r x (by simpa [MElems.getClearAt] using h)]

/-- marking a node does not change the claims the tree stands for -/
theorem markIn_plain (mk : Option String → J → String) (last : String) :
    (toks : List String) → (T T' : MJ) → (d : SDisc) →
    MJ.markIn pI pU mk toks last T = some (T', d) → T'.plain = T.plain
  | [], T, T', d, h => by
    simp only [MJ.markIn] at h
    cases T with
    | leaf j => simp [MJ.markChild] at h
    | arr xs =>
      simp only [MJ.markChild] at h
      cases hp : pU last with
      | none => simp [hp] at h
      | some i =>
        simp only [hp] at h
        cases hg : xs.getClearAt i with
        | none => simp [hg] at h
        | some x =>
          simp only [hg, Option.some.injEq, Prod.mk.injEq] at h
          obtain ⟨rfl, _⟩ := h
          simp [MJ.plain, MJ.project, project_toMarkedAt _ i xs x hg]
    | obj ms sd =>
      simp only [MJ.markChild] at h
      by_cases hr : last = "_sd" ∨ last = "..."
      · simp [hr] at h
      · simp only [hr, if_false] at h
        cases hg : ms.getClear last with
        | none => simp [hg] at h
        | some x =>
          simp only [hg, Option.some.injEq, Prod.mk.injEq] at h
          obtain ⟨rfl, _⟩ := h
          simp [MJ.plain, MJ.project, project_toMarked last _ ms x hg]
  | t :: r, T, T', d, h => by
    simp only [MJ.markIn] at h
    cases hc : T.child pI t with
    | none => simp [hc] at h
    | some x =>
      simp only [hc] at h
      cases hm : MJ.markIn pI pU mk r last x with
      | none => simp [hm] at h
      | some res =>
        obtain ⟨x', d'⟩ := res
        simp only [hm, Option.some.injEq, Prod.mk.injEq] at h
        obtain ⟨rfl, _⟩ := h
        have ih := markIn_plain mk last r x x' d' hm
        simp only [MJ.plain] at ih
        cases T with
        | leaf j => simp [MJ.child] at hc
        | arr xs =>
          simp only [MJ.child] at hc
          cases hp : pI t with
          | none => simp [hp] at hc
          | some i =>
            simp only [hp, Option.bind_some] at hc
            simp [MJ.plain, MJ.setChild, hp, MJ.project, project_setClearAt _ x' i xs x hc ih]
        | obj ms sd =>
          simp only [MJ.child] at hc
          simp [MJ.plain, MJ.setChild, MJ.project, project_setClear _ t x' ms x hc ih]

end Impl

namespace Impl

/-! ### marking preserves well-formedness (for a digest that is new to the tree) -/

theorem keysGt_setClear (k k0 : String) (y : MJ) : (ms : MMems) → ms.keysGt k0 → (ms.setClear k y).keysGt k0
  | .nil, _ => trivial
  | .clear k' x r, h => by
    simp only [MMems.keysGt] at h
    simp only [MMems.setClear]
    split
    · exact ⟨h.1, h.2⟩
    · exact ⟨h.1, keysGt_setClear k k0 y r h.2⟩
  | .marked k' dg x r, h => by
    simp only [MMems.keysGt] at h
    exact ⟨h.1, keysGt_setClear k k0 y r h.2⟩

theorem keysGt_toMarked (k dg k0 : String) : (ms : MMems) → ms.keysGt k0 → (ms.toMarked k dg).keysGt k0
  | .nil, _ => trivial
  | .clear k' x r, h => by
    simp only [MMems.keysGt] at h
    simp only [MMems.toMarked]
    split
    · exact ⟨h.1, h.2⟩
    · exact ⟨h.1, keysGt_toMarked k dg k0 r h.2⟩
  | .marked k' dg' x r, h => by
    simp only [MMems.keysGt] at h
    exact ⟨h.1, keysGt_toMarked k dg k0 r h.2⟩

theorem marks_setClear (k : String) (y : MJ) : (ms : MMems) → (ms.setClear k y).marks = ms.marks
  | .nil => rfl
  | .clear k' x r => by
    simp only [MMems.setClear]
    split
    · simp [MMems.marks]
    · simp [MMems.marks, marks_setClear k y r]
  | .marked k' dg x r => by simp [MMems.setClear, MMems.marks, marks_setClear k y r]

theorem wf_setClear (k : String) (y : MJ) (hy : y.WF) : (ms : MMems) → ms.WF → (ms.setClear k y).WF
  | .nil, _ => trivial
  | .clear k' x r, wf => by
    simp only [MMems.WF] at wf
    simp only [MMems.setClear]
    split
    · exact ⟨wf.1, wf.2.1, hy, wf.2.2.2.1, wf.2.2.2.2⟩
    · exact ⟨wf.1, wf.2.1, wf.2.2.1, keysGt_setClear k k' y r wf.2.2.2.1, wf_setClear k y hy r wf.2.2.2.2⟩
  | .marked k' dg x r, wf => by
    simp only [MMems.WF] at wf
    exact ⟨wf.1, wf.2.1, wf.2.2.1, keysGt_setClear k k' y r wf.2.2.2.1, wf_setClear k y hy r wf.2.2.2.2⟩

theorem wf_toMarked (k dg : String) : (ms : MMems) → ms.WF → (ms.toMarked k dg).WF
  | .nil, _ => trivial
  | .clear k' x r, wf => by
    simp only [MMems.WF] at wf
    simp only [MMems.toMarked]
    split
    · exact ⟨wf.1, wf.2.1, wf.2.2.1, wf.2.2.2.1, wf.2.2.2.2⟩
    · exact ⟨wf.1, wf.2.1, wf.2.2.1, keysGt_toMarked k dg k' r wf.2.2.2.1, wf_toMarked k dg r wf.2.2.2.2⟩
  | .marked k' dg' x r, wf => by
    simp only [MMems.WF] at wf
    exact ⟨wf.1, wf.2.1, wf.2.2.1, keysGt_toMarked k dg k' r wf.2.2.2.1, wf_toMarked k dg r wf.2.2.2.2⟩

theorem marks_toMarked (k dg : String) : (ms : MMems) → ∀ g ∈ (ms.toMarked k dg).marks, g = dg ∨ g ∈ ms.marks
  | .nil, g, h => by simp [MMems.toMarked, MMems.marks] at h
  | .clear k' x r, g, h => by
    simp only [MMems.toMarked] at h
    split at h
    · simp only [MMems.marks, List.mem_cons] at h ⊢; exact h
    · simp only [MMems.marks] at h ⊢; exact marks_toMarked k dg r g h
  | .marked k' dg' x r, g, h => by
    simp only [MMems.toMarked, MMems.marks, List.mem_cons] at h ⊢
    rcases h with h | h
    · right; left; exact h
    · rcases marks_toMarked k dg r g h with h1 | h1
      · left; exact h1
      · right; right; exact h1

theorem marks_toMarked_nodup (k dg : String) : (ms : MMems) → ms.marks.Nodup → dg ∉ ms.marks →
    (ms.toMarked k dg).marks.Nodup
  | .nil, _, _ => by simp [MMems.toMarked, MMems.marks]
  | .clear k' x r, nd, hd => by
    simp only [MMems.marks] at nd hd
    simp only [MMems.toMarked]
    split
    · simp only [MMems.marks, List.nodup_cons]; exact ⟨hd, nd⟩
    · simp only [MMems.marks]; exact marks_toMarked_nodup k dg r nd hd
  | .marked k' dg' x r, nd, hd => by
    simp only [MMems.marks, List.nodup_cons, List.mem_cons, not_or] at nd hd
    simp only [MMems.toMarked, MMems.marks, List.nodup_cons]
    refine ⟨?_, marks_toMarked_nodup k dg r nd.2 hd.2⟩
    intro hm
    rcases marks_toMarked k dg r dg' hm with h1 | h1
    · exact hd.1 h1.symm
    · exact nd.1 h1

theorem wf_setClearAt (y : MJ) (hy : y.WF) : (i : Nat) → (xs : MElems) → xs.WF → (xs.setClearAt y i).WF
  | 0, .nil, _ => trivial
  | _+1, .nil, _ => trivial
  | 0, .clear x r, wf => by simp only [MElems.WF] at wf; exact ⟨hy, wf.2⟩
  | 0, .marked dg x r, wf => wf
  | 0, .decoy dg r, wf => wf
  | i+1, .clear x r, wf => by simp only [MElems.WF] at wf; exact ⟨wf.1, wf_setClearAt y hy i r wf.2⟩
  | i+1, .marked dg x r, wf => by simp only [MElems.WF] at wf; exact ⟨wf.1, wf_setClearAt y hy i r wf.2⟩
  | i+1, .decoy dg r, wf => by simp only [MElems.WF] at wf; exact wf_setClearAt y hy i r wf

theorem wf_toMarkedAt (dg : String) : (i : Nat) → (xs : MElems) → xs.WF → (xs.toMarkedAt dg i).WF
  | 0, .nil, _ => trivial
  | _+1, .nil, _ => trivial
  | 0, .clear x r, wf => by simp only [MElems.WF] at wf; exact ⟨wf.1, wf.2⟩
  | 0, .marked dg' x r, wf => wf
  | 0, .decoy dg' r, wf => wf
  | i+1, .clear x r, wf => by simp only [MElems.WF] at wf; exact ⟨wf.1, wf_toMarkedAt dg i r wf.2⟩
  | i+1, .marked dg' x r, wf => by simp only [MElems.WF] at wf; exact ⟨wf.1, wf_toMarkedAt dg i r wf.2⟩
  | i+1, .decoy dg' r, wf => by simp only [MElems.WF] at wf; exact wf_toMarkedAt dg i r wf

theorem getClear_digests (t : String) : (ms : MMems) → (x : MJ) → ms.getClear t = some x →
    ∀ g ∈ x.digests, g ∈ ms.digests
  | .nil, _, h, _, _ => by simp [MMems.getClear] at h
  | .clear k' x' r, x, h, g, hg => by
    simp only [MMems.getClear] at h
    by_cases hk : k' = t
    · simp [hk] at h; subst h; simp [MMems.digests, hg]
    · simp only [hk, if_false] at h; simp [MMems.digests, getClear_digests t r x h g hg]
  | .marked k' dg x' r, x, h, g, hg => by
    simp only [MMems.getClear] at h
    simp [MMems.digests, getClear_digests t r x h g hg]

theorem getClearAt_digests : (i : Nat) → (xs : MElems) → (x : MJ) → xs.getClearAt i = some x →
    ∀ g ∈ x.digests, g ∈ xs.digests
  | _, .nil, _, h, _, _ => by simp [MElems.getClearAt] at h
  | 0, .clear x' r, x, h, g, hg => by simp [MElems.getClearAt] at h; subst h; simp [MElems.digests, hg]
  | 0, .marked dg x' r, _, h, _, _ => by simp [MElems.getClearAt] at h
  | 0, .decoy dg r, _, h, _, _ => by simp [MElems.getClearAt] at h
  | i+1, .clear x' r, x, h, g, hg => by
    simp [MElems.digests, getClearAt_digests i r x (by simpa [MElems.getClearAt] using h) g hg]
  | i+1, .marked dg x' r, x, h, g, hg => by
    simp [MElems.digests, getClearAt_digests i r x (by simpa [MElems.getClearAt] using h) g hg]
  | i+1, .decoy dg r, x, h, g, hg => by
    simp [MElems.digests, getClearAt_digests i r x (by simpa [MElems.getClearAt] using h) g hg]

/-- the digests of the members' marks are listed in `sd`, hence among the tree's digests -/
theorem markIn_wf (mk : Option String → J → String) (last : String) :
    (toks : List String) → (T T' : MJ) → (d : SDisc) → T.WF →
    MJ.markIn pI pU mk toks last T = some (T', d) →
    (∀ g, g = d.digest → g ∉ T.digests) → T'.WF
  | [], T, T', d, wf, h, hfresh => by
    simp only [MJ.markIn] at h
    cases T with
    | leaf j => simp [MJ.markChild] at h
    | arr xs =>
      simp only [MJ.WF] at wf
      simp only [MJ.markChild] at h
      cases hp : pU last with
      | none => simp [hp] at h
      | some i =>
        simp only [hp] at h
        cases hg : xs.getClearAt i with
        | none => simp [hg] at h
        | some x =>
          simp only [hg, Option.some.injEq, Prod.mk.injEq] at h
          obtain ⟨rfl, _⟩ := h
          simpa [MJ.WF] using wf_toMarkedAt _ i xs wf
    | obj ms sd =>
      simp only [MJ.WF] at wf
      simp only [MJ.markChild] at h
      by_cases hr : last = "_sd" ∨ last = "..."
      · simp [hr] at h
      · simp only [hr, if_false] at h
        cases hg : ms.getClear last with
        | none => simp [hg] at h
        | some x =>
          simp only [hg, Option.some.injEq, Prod.mk.injEq] at h
          obtain ⟨rfl, rfl⟩ := h
          have hnew : mk (some last) x.payload ∉ ms.marks := by
            intro hm
            exact hfresh _ rfl (by simp [MJ.digests, wf.2.1 _ hm])
          simp only [MJ.WF, Option.getD_some]
          refine ⟨wf_toMarked last _ ms wf.1, ?_, marks_toMarked_nodup last _ ms wf.2.2 hnew⟩
          intro g hgm
          rcases marks_toMarked last _ ms g hgm with h1 | h1
          · simp [h1]
          · simp [wf.2.1 g h1]
  | t :: r, T, T', d, wf, h, hfresh => by
    simp only [MJ.markIn] at h
    cases hc : T.child pI t with
    | none => simp [hc] at h
    | some x =>
      simp only [hc] at h
      cases hm : MJ.markIn pI pU mk r last x with
      | none => simp [hm] at h
      | some res =>
        obtain ⟨x', d'⟩ := res
        simp only [hm, Option.some.injEq, Prod.mk.injEq] at h
        obtain ⟨rfl, rfl⟩ := h
        have wfx := child_props t T wf x hc
        cases T with
        | leaf j => simp [MJ.child] at hc
        | arr xs =>
          simp only [MJ.WF] at wf
          simp only [MJ.child] at hc
          cases hp : pI t with
          | none => simp [hp] at hc
          | some i =>
            simp only [hp, Option.bind_some] at hc
            have hsubd : ∀ g ∈ x.digests, g ∈ xs.digests := getClearAt_digests i xs x hc
            have ih := markIn_wf mk last r x x' d' wfx hm
              (fun g hg hin => hfresh g hg (by simpa [MJ.digests] using hsubd g hin))
            simpa [MJ.setChild, hp, MJ.WF] using wf_setClearAt x' ih i xs wf
        | obj ms sd =>
          simp only [MJ.WF] at wf
          simp only [MJ.child] at hc
          have hsubd : ∀ g ∈ x.digests, g ∈ ms.digests := getClear_digests t ms x hc
          have ih := markIn_wf mk last r x x' d' wfx hm
            (fun g hg hin => hfresh g hg (by simp [MJ.digests, hsubd g hin]))
          simp only [MJ.setChild, MJ.WF, marks_setClear]
          exact ⟨wf_setClear t x' ih ms wf.1, wf.2.1, wf.2.2⟩

end Impl
