import SdJwt.Impl.Flows
import SdJwt.Lemmas.Strings
/-! Key-binding lemmas: the shape of `assemble`, and the verifier's ladder. -/
open Assoc
namespace Impl

theorem toList_assemble_foldl (ds : List String) (acc : String) :
    (ds.foldl (fun a d => a ++ "~" ++ d) acc).toList =
      acc.toList ++ (ds.map (fun d => '~' :: d.toList)).flatten := by
  induction ds generalizing acc with
  | nil => simp
  | cons d r ih =>
    simp only [List.foldl_cons, List.map_cons, List.flatten_cons]
    rw [ih]
    simp [String.toList_append]

/-- the assembled presentation ends in `~` -/
theorem toList_assemble (jwt : String) (ds : List String) :
    (assemble jwt ds).toList = (jwt.toList ++ (ds.map (fun d => '~' :: d.toList)).flatten) ++ ['~'] := by
  unfold assemble
  rw [String.toList_append, toList_assemble_foldl]
  rfl

end Impl
