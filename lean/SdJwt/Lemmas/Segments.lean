import SdJwt.Lemmas.IssueAll
import SdJwt.Lemmas.YamlParse
/-!
# Pointers as lists of segments: `q ++ "/"` is a prefix of `q'` iff `q'` goes through `q`

`format_path` renders a list of escaped segments; escaped segments contain no `/`, so the string
test `Holder::build` uses ("does the path start with a redacted path followed by `/`") is the
list test "the segments of the redacted path are a proper prefix of the segments of the path".
-/
open Assoc Spec Path
namespace Impl

theorem prefix_seg : (s t u v : List Char) → '/' ∉ s → '/' ∉ t → (v = [] ∨ ∃ w, v = '/' :: w) →
    (s ++ '/' :: u) <+: (t ++ v) → s = t ∧ ('/' :: u) <+: v
  | [], [], u, v, _, _, _, h => ⟨rfl, by simpa using h⟩
  | [], c :: t, u, v, _, ht, _, h => by
    simp only [List.nil_append, List.cons_append] at h
    have := (List.cons_prefix_cons.mp h).1
    exact absurd this.symm (by intro e; exact ht (by simp [e]))
  | a :: s, [], u, v, hs, _, hv, h => by
    rcases hv with rfl | ⟨w, rfl⟩
    · simp at h
    · simp only [List.cons_append, List.nil_append] at h
      have := (List.cons_prefix_cons.mp h).1
      exact absurd this (by intro e; exact hs (by simp [e]))
  | a :: s, c :: t, u, v, hs, ht, hv, h => by
    simp only [List.cons_append] at h
    obtain ⟨hac, h'⟩ := List.cons_prefix_cons.mp h
    obtain ⟨e, r⟩ := prefix_seg s t u v (fun x => hs (by simp [x])) (fun x => ht (by simp [x])) hv h'
    exact ⟨by rw [hac, e], r⟩

theorem renderL_append : (a b : List (List Char)) → renderL (a ++ b) = renderL a ++ renderL b
  | [], _ => rfl
  | e :: r, b => by simp [renderL, renderL_append r b]

theorem renderL_sep_form (a : List (List Char)) : ∃ w, renderL a ++ ['/'] = '/' :: w := by
  cases a with
  | nil => exact ⟨[], rfl⟩
  | cons e r => exact ⟨e ++ renderL r ++ ['/'], by simp [renderL]⟩

/-- the string test is the list test -/
theorem renderL_prefix : (a b : List (List Char)) → (∀ e ∈ a, '/' ∉ e) → (∀ e ∈ b, '/' ∉ e) →
    ((renderL a ++ ['/']) <+: renderL b ↔ ∃ x c, b = a ++ x :: c)
  | [], b, _, _ => by
    constructor
    · intro h
      cases b with
      | nil => simp [renderL] at h
      | cons x c => exact ⟨x, c, rfl⟩
    · rintro ⟨x, c, rfl⟩
      simp [renderL]
  | s :: a, [], _, _ => by
    constructor
    · intro h; simp [renderL] at h
    · rintro ⟨x, c, h⟩; simp at h
  | s :: a, t :: b, ha, hb => by
    have ih := renderL_prefix a b (fun e he => ha e (by simp [he])) (fun e he => hb e (by simp [he]))
    constructor
    · intro h
      simp only [renderL, List.cons_append] at h
      have h' := (List.cons_prefix_cons.mp h).2
      obtain ⟨w, hw⟩ := renderL_sep_form a
      rw [List.append_assoc, hw] at h'
      have hv : renderL b = [] ∨ ∃ w', renderL b = '/' :: w' := by
        cases b with
        | nil => exact .inl rfl
        | cons e r => exact .inr ⟨e ++ renderL r, rfl⟩
      obtain ⟨est, hrest⟩ := prefix_seg s t w (renderL b) (ha s (by simp)) (hb t (by simp)) hv h'
      rw [← hw] at hrest
      obtain ⟨x, c, rfl⟩ := ih.mp hrest
      exact ⟨x, c, by rw [est]; rfl⟩
    · rintro ⟨x, c, h⟩
      simp only [List.cons_append, List.cons.injEq] at h
      obtain ⟨rfl, rfl⟩ := h
      have := ih.mpr ⟨x, c, rfl⟩
      simp only [renderL, List.cons_append, List.append_assoc]
      exact List.cons_prefix_cons.mpr ⟨rfl, (List.prefix_append_right_inj _).mpr (by simpa using this)⟩

theorem toList_joinPath_aux (segs : List String) (acc : String) :
    (segs.foldl (fun a s => a ++ "/" ++ s) acc).toList = acc.toList ++ renderL (segs.map (·.toList)) := by
  induction segs generalizing acc with
  | nil => simp [renderL]
  | cons s r ih =>
    simp only [List.foldl_cons, List.map_cons, renderL]
    rw [ih]
    simp [String.toList_append]

theorem toList_joinPath (segs : List String) : (joinPath segs).toList = renderL (segs.map (·.toList)) := by
  unfold joinPath
  rw [toList_joinPath_aux]
  simp

theorem map_toList_inj : (a b : List String) → a.map (·.toList) = b.map (·.toList) → a = b
  | [], [], _ => rfl
  | [], _ :: _, h => by simp at h
  | _ :: _, [], h => by simp at h
  | x :: a, y :: b, h => by
    simp only [List.map_cons, List.cons.injEq] at h
    rw [String.toList_inj.mp h.1, map_toList_inj a b h.2]

/-- **`starts_with(q + "/")` on rendered pointers = proper extension of the segment list** -/
theorem joinPath_prefix (a b : List String) (ha : ∀ s ∈ a, '/' ∉ s.toList) (hb : ∀ s ∈ b, '/' ∉ s.toList) :
    ((joinPath a ++ "/").toList.isPrefixOf (joinPath b).toList = true) ↔ ∃ x c, b = a ++ x :: c := by
  rw [List.isPrefixOf_iff_prefix, String.toList_append, toList_joinPath, toList_joinPath]
  have : ("/" : String).toList = ['/'] := rfl
  rw [this, renderL_prefix _ _ (by
      intro e he; obtain ⟨s, hs, rfl⟩ := List.mem_map.mp he; exact ha s hs) (by
      intro e he; obtain ⟨s, hs, rfl⟩ := List.mem_map.mp he; exact hb s hs)]
  constructor
  · rintro ⟨x, c, h⟩
    obtain ⟨l1, l2, rfl, h1, h2⟩ := List.map_eq_append_iff.mp h
    obtain ⟨y, c', rfl, _, _⟩ := List.map_eq_cons_iff.mp h2
    rw [map_toList_inj l1 a h1]
    exact ⟨y, c', rfl⟩
  · rintro ⟨x, c, rfl⟩
    exact ⟨x.toList, c.map (·.toList), by simp⟩

end Impl
