import SdJwt.Lemmas.Prepass
import SdJwt.Lemmas.Hidden
import SdJwt.Lemmas.RestoreAll
/-! T-restore, acceptance: own disclosures of a conformant tree, pairwise different, in any order,
are accepted. -/
open Assoc Spec
namespace Impl

/-- `L` and `E` run in parallel: each disclosure is the disclosure of the paired marked node -/
def Pairs : List Disc → List (String × MJ) → Prop
  | [], [] => True
  | d :: L, e :: E => d.digest = e.1 ∧ d.value = e.2.payload ∧ Pairs L E
  | _, _ => False

theorem checkValues_pairs : (L : List Disc) → (E : List (String × MJ)) → (seen : List String) →
    Pairs L E → (∀ e ∈ E, e.2.WF) → (seen ++ hiddenFlat E).Nodup →
    checkValues L seen = .ok (seen ++ hiddenFlat E)
  | [], [], seen, _, _, _ => by simp [checkValues, hiddenFlat]
  | [], _ :: _, _, h, _, _ => by simp [Pairs] at h
  | _ :: _, [], _, h, _, _ => by simp [Pairs] at h
  | d :: L, e :: E, seen, hp, hwf, hnd => by
    simp only [Pairs] at hp
    obtain ⟨_, hv, hrest⟩ := hp
    obtain ⟨h1, h2, h3⟩ := MJ.prepass_view e.2 (hwf e (by simp))
    rw [hiddenFlat_cons, ← List.append_assoc] at hnd
    have hc := checkDigests_complete (e.2.hview noneShown) seen h2 h3 (by
      rw [h1]; exact (List.nodup_append.mp hnd).1)
    rw [h1] at hc
    have ih := checkValues_pairs L E (seen ++ e.2.vdigests) hrest (fun x hx => hwf x (by simp [hx])) hnd
    simp only [checkValues, hv, MJ.payload, hc, ih, hiddenFlat_cons, List.append_assoc]

theorem pairs_exist (H : List (String × MJ)) : (L : List Disc) →
    (∀ d ∈ L, ∃ x, (d.digest, x) ∈ H ∧ d.value = x.payload) →
    ∃ E, Pairs L E ∧ (∀ e ∈ E, e ∈ H) ∧ E.map (·.1) = L.map (·.digest)
  | [], _ => ⟨[], trivial, by simp, rfl⟩
  | d :: L, h => by
    obtain ⟨x, hx, hv⟩ := h d (by simp)
    obtain ⟨E, hp, hs, hm⟩ := pairs_exist H L (fun d' hd' => h d' (by simp [hd']))
    refine ⟨(d.digest, x) :: E, ⟨rfl, hv, hp⟩, ?_, by simp [hm]⟩
    intro e he
    simp only [List.mem_cons] at he
    rcases he with he | he
    · rw [he]; exact hx
    · exact hs e he

theorem distinct_nodup (L : List Disc) (h : Distinct L) : (L.map (·.digest)).Nodup := by
  unfold Distinct at h
  rw [List.nodup_iff_pairwise_ne, List.pairwise_map]
  exact h

/-- the validating pre-pass succeeds on the payload of a conformant tree and the values of own
disclosures with pairwise different digests -/
theorem prepass_ok (T : MJ) (inv : TreeInv T) (L : List Disc) (hdist : Distinct L)
    (hown : ∀ d ∈ L, ∃ x, (d.digest, x) ∈ T.hiddenE ∧ d.value = x.payload) :
    ∃ seen s, checkDigests T.payload [] = .ok seen ∧ checkValues L seen = .ok s := by
  obtain ⟨E, hp, hsub, hmap⟩ := pairs_exist T.hiddenE L hown
  have hall := MJ.nodup_visible_hidden T inv.nd
  have hsel := nodup_select T.vdigests E T.hiddenE (by rw [MJ.hiddenE_fst]; exact inv.ndm) hsub
    (by rw [hmap]; exact distinct_nodup L hdist) hall
  obtain ⟨h1, h2, h3⟩ := MJ.prepass_view T inv.wf
  have hc := checkDigests_complete (T.hview noneShown) [] h2 h3 (by
    rw [h1]; simpa using (List.nodup_append.mp hsel).1)
  rw [h1, List.nil_append] at hc
  refine ⟨T.vdigests, T.vdigests ++ hiddenFlat E, hc, ?_⟩
  exact checkValues_pairs L E T.vdigests hp (fun e he => MJ.hiddenE_wf T inv.wf e (hsub e he)) hsel

/-- **T-restore, acceptance.** Own disclosures of a conformant tree (decoded, pairwise different
digests, each acceptable) are accepted whatever their order — nested ones before or after the
enclosing ones — and the claims strip to the projection. -/
theorem restoreDecoded_complete (T : MJ) (inv : TreeInv T) (L : List Disc) (hdist : Distinct L)
    (hok : ∀ d ∈ L, DOk T d)
    (hown : ∀ d ∈ L, ∃ x, (d.digest, x) ∈ T.hiddenE ∧ d.value = x.payload) :
    ∃ c ps, restoreDecoded T.payload L = .ok (c, ps) ∧
      removeAll c = T.project (fun h => L.any (fun d => d.digest = h)) := by
  obtain ⟨seen, s, h1, h2⟩ := prepass_ok T inv L hdist hown
  obtain ⟨c, ps, hr, hp⟩ := rounds_project T L inv hok hdist
  refine ⟨c, ps, ?_, hp⟩
  simp only [restoreDecoded, h1, h2]
  exact hr

end Impl

namespace Impl

theorem decodeAll_complete (env : Env) : (ss : List String) → (acc : List Disc) →
    (∀ s ∈ ss, ∃ d, fromBase64 env s = .ok d) →
    (∀ s ∈ ss, ∀ a ∈ acc, a.digest ≠ env.hash s) → (ss.map env.hash).Nodup →
    ∃ ds, decodeAll env ss acc = .ok ds
  | [], acc, _, _, _ => ⟨acc.reverse, by simp [decodeAll]⟩
  | s :: r, acc, hdec, hacc, hnd => by
    obtain ⟨d, hd⟩ := hdec s (by simp)
    have hdig := fromBase64_digest env s d hd
    simp only [List.map_cons, List.nodup_cons] at hnd
    have hnot : ¬ (acc.any (fun d' => d'.digest = d.digest) = true) := by
      simp only [List.any_eq_true, decide_eq_true_eq, not_exists, not_and]
      intro a ha e
      exact hacc s (by simp) a ha (by rw [e, hdig])
    obtain ⟨ds, h⟩ := decodeAll_complete env r (d :: acc) (fun s' hs' => hdec s' (by simp [hs']))
      (by
        intro s' hs' a ha
        simp only [List.mem_cons] at ha
        rcases ha with ha | ha
        · subst ha
          rw [hdig]
          intro e
          exact hnd.1 (by rw [e]; exact List.mem_map_of_mem hs')
        · exact hacc s' (by simp [hs']) a ha)
      hnd.2
    exact ⟨ds, by simp [decodeAll, hd, hnot, h]⟩

/-- **T-restore, acceptance, from the presented strings.** -/
theorem restoreAll_complete (env : Env) (T : MJ) (strs : List String) (inv : TreeInv T)
    (hdec : ∀ s ∈ strs, ∃ d, fromBase64 env s = .ok d)
    (hnd : (strs.map env.hash).Nodup)
    (hacc : ∀ s ∈ strs, ∀ d, fromBase64 env s = .ok d →
      DOk T d ∧ ∃ x, (d.digest, x) ∈ T.hiddenE ∧ d.value = x.payload) :
    ∃ c ps, restoreAll env T.payload strs = .ok (c, ps) ∧
      removeAll c = T.project (fun h => strs.any (fun s => env.hash s = h)) := by
  obtain ⟨L, hL⟩ := decodeAll_complete env strs [] hdec (by simp) hnd
  obtain ⟨hdist, hfrom, hto, _⟩ := decodeAll_ok env strs [] L hL (by simp [Distinct])
  have hprops : ∀ d ∈ L, DOk T d ∧ ∃ x, (d.digest, x) ∈ T.hiddenE ∧ d.value = x.payload := by
    intro d hd
    rcases hfrom d hd with h | ⟨s, hs, hf⟩
    · simp at h
    · exact hacc s hs d hf
  obtain ⟨c, ps, hr, _⟩ := restoreDecoded_complete T inv L hdist (fun d hd => (hprops d hd).1)
    (fun d hd => (hprops d hd).2)
  have hres : restoreAll env T.payload strs = .ok (c, ps) := by simp [restoreAll, hL, hr]
  rcases restoreAll_sound env T strs inv (fun s hs d hf => (hacc s hs d hf).1) with ⟨e, he⟩ | ⟨c', ps', h', hp'⟩
  · rw [he] at hres; cases hres
  · rw [h'] at hres; cases hres
    exact ⟨c, ps, h', hp'⟩

end Impl

namespace Impl

/-- acceptance, claims and paths for decoded disclosures -/
theorem restoreDecoded_paths (T : MJ) (inv : TreeInv T) (L : List Disc) (hdist : Distinct L)
    (hok : ∀ d ∈ L, DOk T d)
    (hown : ∀ d ∈ L, ∃ x, (d.digest, x) ∈ T.hiddenE ∧ d.value = x.payload) :
    ∃ c ps, restoreDecoded T.payload L = .ok (c, ps) ∧
      removeAll c = T.project (fun h => L.any (fun d => d.digest = h)) ∧ PathsOK T L ps := by
  obtain ⟨c, ps, hr, hp⟩ := restoreDecoded_complete T inv L hdist hok hown
  obtain ⟨seen, s, h1, h2⟩ := prepass_ok T inv L hdist hown
  obtain ⟨c', ps', hr', hpaths⟩ := rounds_paths T L inv hok hdist
  have : restoreDecoded T.payload L = .ok (c', ps') := by
    simp only [restoreDecoded, h1, h2]
    exact hr'
  rw [this] at hr
  simp only [Outcome.ok.injEq, Prod.mk.injEq] at hr
  obtain ⟨rfl, rfl⟩ := hr
  exact ⟨_, _, this, hp, hpaths⟩

/-- **T-restore, acceptance, claims and paths, from the presented strings.** -/
theorem restoreAll_paths (env : Env) (T : MJ) (strs : List String) (inv : TreeInv T)
    (hdec : ∀ s ∈ strs, ∃ d, fromBase64 env s = .ok d)
    (hnd : (strs.map env.hash).Nodup)
    (hacc : ∀ s ∈ strs, ∀ d, fromBase64 env s = .ok d →
      DOk T d ∧ ∃ x, (d.digest, x) ∈ T.hiddenE ∧ d.value = x.payload) :
    ∃ c ps L, restoreAll env T.payload strs = .ok (c, ps) ∧
      removeAll c = T.project (fun h => strs.any (fun s => env.hash s = h)) ∧
      (∀ d ∈ L, ∃ s ∈ strs, fromBase64 env s = .ok d) ∧
      (∀ s ∈ strs, ∃ d ∈ L, fromBase64 env s = .ok d) ∧ PathsOK T L ps := by
  obtain ⟨L, hL⟩ := decodeAll_complete env strs [] hdec (by simp) hnd
  obtain ⟨hdist, hfrom, hto, _⟩ := decodeAll_ok env strs [] L hL (by simp [Distinct])
  have hfrom' : ∀ d ∈ L, ∃ s ∈ strs, fromBase64 env s = .ok d := by
    intro d hd
    rcases hfrom d hd with h | h
    · simp at h
    · exact h
  have hprops : ∀ d ∈ L, DOk T d ∧ ∃ x, (d.digest, x) ∈ T.hiddenE ∧ d.value = x.payload := by
    intro d hd
    obtain ⟨s, hs, hf⟩ := hfrom' d hd
    exact hacc s hs d hf
  obtain ⟨c, ps, hr, _, hpaths⟩ := restoreDecoded_paths T inv L hdist (fun d hd => (hprops d hd).1)
    (fun d hd => (hprops d hd).2)
  have hres : restoreAll env T.payload strs = .ok (c, ps) := by simp [restoreAll, hL, hr]
  obtain ⟨c2, ps2, h2, hp2⟩ := restoreAll_complete env T strs inv hdec hnd hacc
  rw [hres] at h2
  simp only [Outcome.ok.injEq, Prod.mk.injEq] at h2
  obtain ⟨rfl, rfl⟩ := h2
  exact ⟨_, _, L, hres, hp2, hfrom', hto, hpaths⟩

end Impl
