import SdJwt.Lemmas.Segments
import SdJwt.Lemmas.Paths
import SdJwt.Lemmas.MarkInv
/-!
# A pointer goes through another pointer iff the node lies inside the other node

`T.spaths segs` lists (segments, digest) of every marked node; `T.under g` lists the marks
strictly inside the node marked `g`.  For a conformant tree with pairwise distinct marks, the
segment list of `e` properly extends that of `e'` exactly when `e` lies inside `e'`.
-/
open Assoc Spec Path
namespace Impl

mutual
/-- (segments from the root, digest) of every marked node -/
def _root_.MJ.spaths (segs : List String) : MJ → List (List String × String)
  | .leaf _ => []
  | .arr xs => xs.spaths segs 0
  | .obj ms _ => ms.spaths segs
def _root_.MElems.spaths (segs : List String) (i : Nat) : MElems → List (List String × String)
  | .nil => []
  | .clear x r => x.spaths (segs ++ [toString i]) ++ r.spaths segs (i+1)
  | .marked dg x r => (segs ++ [toString i], dg) :: (x.spaths (segs ++ [toString i]) ++ r.spaths segs (i+1))
  | .decoy _ r => r.spaths segs (i+1)
def _root_.MMems.spaths (segs : List String) : MMems → List (List String × String)
  | .nil => []
  | .clear k x r => x.spaths (segs ++ [escapeSeg k]) ++ r.spaths segs
  | .marked k dg x r => (segs ++ [escapeSeg k], dg) :: (x.spaths (segs ++ [escapeSeg k]) ++ r.spaths segs)
end

mutual
/-- the marks strictly inside the node(s) marked `g` -/
def _root_.MJ.under (g : String) : MJ → List String
  | .leaf _ => []
  | .arr xs => xs.under g
  | .obj ms _ => ms.under g
def _root_.MElems.under (g : String) : MElems → List String
  | .nil => []
  | .clear x r => x.under g ++ r.under g
  | .marked dg x r => (if dg = g then x.allMarks else x.under g) ++ r.under g
  | .decoy _ r => r.under g
def _root_.MMems.under (g : String) : MMems → List String
  | .nil => []
  | .clear _ x r => x.under g ++ r.under g
  | .marked _ dg x r => (if dg = g then x.allMarks else x.under g) ++ r.under g
end

/-- `v` goes properly through `u` -/
def ProperExt (u v : List String) : Prop := ∃ x c, v = u ++ x :: c

theorem ProperExt.prefix {u v : List String} (h : ProperExt u v) : u <+: v := by
  obtain ⟨x, c, rfl⟩ := h; exact List.prefix_append _ _

theorem ProperExt.length {u v : List String} (h : ProperExt u v) : u.length < v.length := by
  obtain ⟨x, c, rfl⟩ := h; simp

theorem ProperExt.irrefl (u : List String) : ¬ ProperExt u u := fun h => by have := h.length; omega

theorem properExt_of_prefix {p u : List String} (h1 : p <+: u) (h2 : p.length < u.length) : ProperExt p u := by
  obtain ⟨t, rfl⟩ := h1
  cases t with
  | nil => simp at h2
  | cons x c => exact ⟨x, c, rfl⟩

theorem ProperExt.trans_prefix {p u v : List String} (h1 : ProperExt p u) (h2 : u <+: v) : ProperExt p v :=
  properExt_of_prefix (h1.prefix.trans h2) (by have := h1.length; have := h2.length_le; omega)

/-- two paths through different children of the same node do not go through each other -/
theorem sep {segs u v : List String} {a b : String} (hab : a ≠ b)
    (hu : (segs ++ [a]) <+: u) (hv : (segs ++ [b]) <+: v) : ¬ u <+: v := by
  intro h
  have h1 : (segs ++ [a]) <+: v := hu.trans h
  have := List.prefix_of_prefix_length_le h1 hv (by simp)
  have := List.IsPrefix.eq_of_length this (by simp)
  simp at this
  exact hab this

theorem toString_nat_inj {i j : Nat} (h : toString i = toString j) : i = j := by
  have h' : i.repr = j.repr := h
  have := congrArg String.toList h'
  rw [Nat.toList_repr, Nat.toList_repr] at this
  have h2 := congrArg (fun l => Nat.ofDigitChars 10 l 0) this
  simpa [Nat.ofDigitChars_ten_toDigits] using h2

theorem escapeSeg_inj {k k' : String} (h : escapeSeg k = escapeSeg k') : k = k' := by
  unfold escapeSeg at h
  have := congrArg String.toList h
  simp only [String.toList_ofList] at this
  have h2 := congrArg unescapeTok this
  rw [unescape_escape, unescape_escape] at h2
  exact String.toList_inj.mp h2

/-! ### every entry lies properly below the base, within one child -/

mutual
theorem MJ.spaths_ext : (T : MJ) → (p : List String) → ∀ e ∈ T.spaths p, ProperExt p e.1
  | .leaf _, _, e, h => by simp [MJ.spaths] at h
  | .arr xs, p, e, h => by
    obtain ⟨j, _, hj⟩ := MElems.spaths_ext xs p 0 e (by simpa [MJ.spaths] using h)
    exact properExt_of_prefix ((List.prefix_append _ _).trans hj) (by have := hj.length_le; simp at this; omega)
  | .obj ms _, p, e, h => by
    obtain ⟨k, _, hk⟩ := MMems.spaths_ext ms p e (by simpa [MJ.spaths] using h)
    exact properExt_of_prefix ((List.prefix_append _ _).trans hk) (by have := hk.length_le; simp at this; omega)
theorem MElems.spaths_ext : (xs : MElems) → (p : List String) → (i : Nat) →
    ∀ e ∈ xs.spaths p i, ∃ j, i ≤ j ∧ (p ++ [toString j]) <+: e.1
  | .nil, _, _, e, h => by simp [MElems.spaths] at h
  | .clear x r, p, i, e, h => by
    simp only [MElems.spaths, List.mem_append] at h
    rcases h with h | h
    · exact ⟨i, Nat.le_refl _, (MJ.spaths_ext x _ e h).prefix⟩
    · obtain ⟨j, hj, hp⟩ := MElems.spaths_ext r p (i+1) e h
      exact ⟨j, by omega, hp⟩
  | .marked dg x r, p, i, e, h => by
    simp only [MElems.spaths, List.mem_cons, List.mem_append] at h
    rcases h with rfl | h | h
    · exact ⟨i, Nat.le_refl _, List.prefix_refl _⟩
    · exact ⟨i, Nat.le_refl _, (MJ.spaths_ext x _ e h).prefix⟩
    · obtain ⟨j, hj, hp⟩ := MElems.spaths_ext r p (i+1) e h
      exact ⟨j, by omega, hp⟩
  | .decoy _ r, p, i, e, h => by
    simp only [MElems.spaths] at h
    obtain ⟨j, hj, hp⟩ := MElems.spaths_ext r p (i+1) e h
    exact ⟨j, by omega, hp⟩
theorem MMems.spaths_ext : (ms : MMems) → (p : List String) →
    ∀ e ∈ ms.spaths p, ∃ k ∈ ms.keys, (p ++ [escapeSeg k]) <+: e.1
  | .nil, _, e, h => by simp [MMems.spaths] at h
  | .clear k x r, p, e, h => by
    simp only [MMems.spaths, List.mem_append] at h
    rcases h with h | h
    · exact ⟨k, by simp [MMems.keys], (MJ.spaths_ext x _ e h).prefix⟩
    · obtain ⟨k', hk', hp⟩ := MMems.spaths_ext r p e h
      exact ⟨k', by simp [MMems.keys, hk'], hp⟩
  | .marked k dg x r, p, e, h => by
    simp only [MMems.spaths, List.mem_cons, List.mem_append] at h
    rcases h with rfl | h | h
    · exact ⟨k, by simp [MMems.keys], List.prefix_refl _⟩
    · exact ⟨k, by simp [MMems.keys], (MJ.spaths_ext x _ e h).prefix⟩
    · obtain ⟨k', hk', hp⟩ := MMems.spaths_ext r p e h
      exact ⟨k', by simp [MMems.keys, hk'], hp⟩
end

mutual
theorem MJ.spaths_snd : (T : MJ) → (p : List String) → (T.spaths p).map (·.2) = T.allMarks
  | .leaf _, _ => rfl
  | .arr xs, p => by simpa [MJ.spaths, MJ.allMarks] using MElems.spaths_snd xs p 0
  | .obj ms _, p => by simpa [MJ.spaths, MJ.allMarks] using MMems.spaths_snd ms p
theorem MElems.spaths_snd : (xs : MElems) → (p : List String) → (i : Nat) →
    (xs.spaths p i).map (·.2) = xs.allMarks
  | .nil, _, _ => rfl
  | .clear x r, p, i => by simp [MElems.spaths, MElems.allMarks, MJ.spaths_snd x, MElems.spaths_snd r p (i+1)]
  | .marked dg x r, p, i => by simp [MElems.spaths, MElems.allMarks, MJ.spaths_snd x, MElems.spaths_snd r p (i+1)]
  | .decoy _ r, p, i => by simpa [MElems.spaths, MElems.allMarks] using MElems.spaths_snd r p (i+1)
theorem MMems.spaths_snd : (ms : MMems) → (p : List String) → (ms.spaths p).map (·.2) = ms.allMarks
  | .nil, _ => rfl
  | .clear k x r, p => by simp [MMems.spaths, MMems.allMarks, MJ.spaths_snd x, MMems.spaths_snd r p]
  | .marked k dg x r, p => by simp [MMems.spaths, MMems.allMarks, MJ.spaths_snd x, MMems.spaths_snd r p]
end

theorem MJ.mem_spaths_mark {T : MJ} {p : List String} {e : List String × String} (h : e ∈ T.spaths p) :
    e.2 ∈ T.allMarks := by rw [← MJ.spaths_snd T p]; exact List.mem_map_of_mem h
theorem MElems.mem_spaths_mark {xs : MElems} {p : List String} {i : Nat} {e : List String × String}
    (h : e ∈ xs.spaths p i) : e.2 ∈ xs.allMarks := by rw [← MElems.spaths_snd xs p i]; exact List.mem_map_of_mem h
theorem MMems.mem_spaths_mark {ms : MMems} {p : List String} {e : List String × String} (h : e ∈ ms.spaths p) :
    e.2 ∈ ms.allMarks := by rw [← MMems.spaths_snd ms p]; exact List.mem_map_of_mem h

/-! ### `under` lists marks of the tree, and nothing for a digest that marks nothing -/

mutual
theorem MJ.under_sub (g : String) : (T : MJ) → ∀ h ∈ T.under g, h ∈ T.allMarks
  | .leaf _, h, hh => by simp [MJ.under] at hh
  | .arr xs, h, hh => by simpa [MJ.allMarks] using MElems.under_sub g xs h (by simpa [MJ.under] using hh)
  | .obj ms _, h, hh => by simpa [MJ.allMarks] using MMems.under_sub g ms h (by simpa [MJ.under] using hh)
theorem MElems.under_sub (g : String) : (xs : MElems) → ∀ h ∈ xs.under g, h ∈ xs.allMarks
  | .nil, h, hh => by simp [MElems.under] at hh
  | .clear x r, h, hh => by
    simp only [MElems.under, List.mem_append] at hh
    simp only [MElems.allMarks, List.mem_append]
    exact hh.imp (MJ.under_sub g x h) (MElems.under_sub g r h)
  | .marked dg x r, h, hh => by
    simp only [MElems.under, List.mem_append] at hh
    simp only [MElems.allMarks, List.mem_cons, List.mem_append]
    rcases hh with hh | hh
    · by_cases hd : dg = g
      · simp only [hd, if_true] at hh; exact .inr (.inl hh)
      · simp only [hd, if_false] at hh; exact .inr (.inl (MJ.under_sub g x h hh))
    · exact .inr (.inr (MElems.under_sub g r h hh))
  | .decoy _ r, h, hh => by
    simp only [MElems.under] at hh
    simpa [MElems.allMarks] using MElems.under_sub g r h hh
theorem MMems.under_sub (g : String) : (ms : MMems) → ∀ h ∈ ms.under g, h ∈ ms.allMarks
  | .nil, h, hh => by simp [MMems.under] at hh
  | .clear k x r, h, hh => by
    simp only [MMems.under, List.mem_append] at hh
    simp only [MMems.allMarks, List.mem_append]
    exact hh.imp (MJ.under_sub g x h) (MMems.under_sub g r h)
  | .marked k dg x r, h, hh => by
    simp only [MMems.under, List.mem_append] at hh
    simp only [MMems.allMarks, List.mem_cons, List.mem_append]
    rcases hh with hh | hh
    · by_cases hd : dg = g
      · simp only [hd, if_true] at hh; exact .inr (.inl hh)
      · simp only [hd, if_false] at hh; exact .inr (.inl (MJ.under_sub g x h hh))
    · exact .inr (.inr (MMems.under_sub g r h hh))
end

mutual
theorem MJ.under_nil (g : String) : (T : MJ) → g ∉ T.allMarks → T.under g = []
  | .leaf _, _ => rfl
  | .arr xs, h => by simpa [MJ.under] using MElems.under_nil g xs (by simpa [MJ.allMarks] using h)
  | .obj ms _, h => by simpa [MJ.under] using MMems.under_nil g ms (by simpa [MJ.allMarks] using h)
theorem MElems.under_nil (g : String) : (xs : MElems) → g ∉ xs.allMarks → xs.under g = []
  | .nil, _ => rfl
  | .clear x r, h => by
    simp only [MElems.allMarks, List.mem_append, not_or] at h
    simp [MElems.under, MJ.under_nil g x h.1, MElems.under_nil g r h.2]
  | .marked dg x r, h => by
    simp only [MElems.allMarks, List.mem_cons, List.mem_append, not_or] at h
    have hd : dg ≠ g := fun e => h.1 e.symm
    simp [MElems.under, hd, MJ.under_nil g x h.2.1, MElems.under_nil g r h.2.2]
  | .decoy _ r, h => by
    simpa [MElems.under] using MElems.under_nil g r (by simpa [MElems.allMarks] using h)
theorem MMems.under_nil (g : String) : (ms : MMems) → g ∉ ms.allMarks → ms.under g = []
  | .nil, _ => rfl
  | .clear k x r, h => by
    simp only [MMems.allMarks, List.mem_append, not_or] at h
    simp [MMems.under, MJ.under_nil g x h.1, MMems.under_nil g r h.2]
  | .marked k dg x r, h => by
    simp only [MMems.allMarks, List.mem_cons, List.mem_append, not_or] at h
    have hd : dg ≠ g := fun e => h.1 e.symm
    simp [MMems.under, hd, MJ.under_nil g x h.2.1, MMems.under_nil g r h.2.2]
end

end Impl

namespace Impl

theorem _root_.MMems.keysGt_mem : (ms : MMems) → (k0 : String) → ms.keysGt k0 → ∀ k' ∈ ms.keys, k0 < k'
  | .nil, _, _, k', h => by simp [MMems.keys] at h
  | .clear k x r, k0, hg, k', h => by
    simp only [MMems.keysGt] at hg
    simp only [MMems.keys, List.mem_cons] at h
    rcases h with rfl | h
    · exact hg.1
    · exact MMems.keysGt_mem r k0 hg.2 k' h
  | .marked k dg x r, k0, hg, k', h => by
    simp only [MMems.keysGt] at hg
    simp only [MMems.keys, List.mem_cons] at h
    rcases h with rfl | h
    · exact hg.1
    · exact MMems.keysGt_mem r k0 hg.2 k' h

/-- on the entries `l`, going properly through = lying inside -/
def AncOK (l : List (List String × String)) (under : String → List String) : Prop :=
  ∀ e' ∈ l, ∀ e ∈ l, (ProperExt e'.1 e.1 ↔ e.2 ∈ under e'.2)

/-- two zones (two children of one node) whose entries do not go through each other -/
theorem anc_append (lX lR : List (List String × String)) (uX uR : String → List String)
    (mX mR : List String) (hX : AncOK lX uX) (hR : AncOK lR uR)
    (hmX : ∀ e ∈ lX, e.2 ∈ mX) (hmR : ∀ e ∈ lR, e.2 ∈ mR)
    (huX : ∀ g, ∀ h ∈ uX g, h ∈ mX) (huR : ∀ g, ∀ h ∈ uR g, h ∈ mR)
    (hnX : ∀ g, g ∉ mX → uX g = []) (hnR : ∀ g, g ∉ mR → uR g = [])
    (hdisj : ∀ g ∈ mX, g ∉ mR)
    (hsep : ∀ e' ∈ lX, ∀ e ∈ lR, ¬ e'.1 <+: e.1 ∧ ¬ e.1 <+: e'.1) :
    AncOK (lX ++ lR) (fun g => uX g ++ uR g) := by
  intro e' he' e he
  simp only [List.mem_append] at he' he
  rcases he' with he' | he' <;> rcases he with he | he
  · have : uR e'.2 = [] := hnR _ (hdisj _ (hmX e' he'))
    simp [this, hX e' he' e he]
  · have h1 : uR e'.2 = [] := hnR _ (hdisj _ (hmX e' he'))
    constructor
    · intro hp; exact absurd hp.prefix (hsep e' he' e he).1
    · intro hh
      simp only [h1, List.append_nil] at hh
      exact absurd (hmR e he) (hdisj _ (huX _ _ hh))
  · have h1 : uX e'.2 = [] := hnX _ (fun hh => hdisj _ hh (hmR e' he'))
    constructor
    · intro hp; exact absurd hp.prefix (hsep e he e' he').2
    · intro hh
      simp only [h1, List.nil_append] at hh
      exact absurd (huR _ _ hh) (hdisj _ (hmX e he))
  · have : uX e'.2 = [] := hnX _ (fun hh => hdisj _ hh (hmR e' he'))
    simp [this, hR e' he' e he]

/-- a marked node in front of the entries inside it -/
theorem anc_own (p : List String) (dg : String) (lX : List (List String × String))
    (uX : String → List String) (mX : List String) (hX : AncOK lX uX)
    (hext : ∀ e ∈ lX, ProperExt p e.1) (hm : ∀ e ∈ lX, e.2 ∈ mX) (hdg : dg ∉ mX)
    (huX : ∀ g, ∀ h ∈ uX g, h ∈ mX) :
    AncOK ((p, dg) :: lX) (fun g => if dg = g then mX else uX g) := by
  intro e' he' e he
  simp only [List.mem_cons] at he' he
  rcases he' with rfl | he' <;> rcases he with rfl | he
  · simp only [if_true]
    exact ⟨fun h => absurd h (ProperExt.irrefl _), fun h => absurd h hdg⟩
  · simp only [if_true]
    exact ⟨fun _ => hm e he, fun _ => hext e he⟩
  · have hne : dg ≠ e'.2 := fun e0 => hdg (e0 ▸ hm e' he')
    simp only [hne, if_false]
    constructor
    · intro hp
      have h1 := (hext e' he').length
      have h2 := hp.length
      omega
    · intro hh; exact absurd (huX _ _ hh) hdg
  · have hne : dg ≠ e'.2 := fun e0 => hdg (e0 ▸ hm e' he')
    simp only [hne, if_false]
    exact hX e' he' e he

mutual
/-- **Going through a pointer = lying inside the node.** -/
theorem MJ.anc : (T : MJ) → (p : List String) → T.WF → T.allMarks.Nodup → AncOK (T.spaths p) T.under
  | .leaf _, _, _, _ => by intro e' he'; simp [MJ.spaths] at he'
  | .arr xs, p, wf, nd => by
    simp only [MJ.WF] at wf
    simp only [MJ.allMarks] at nd
    have := MElems.anc xs p 0 wf nd
    simpa [MJ.spaths, MJ.under] using this
  | .obj ms _, p, wf, nd => by
    simp only [MJ.WF] at wf
    simp only [MJ.allMarks] at nd
    have := MMems.anc ms p wf.1 nd
    simpa [MJ.spaths, MJ.under] using this
theorem MElems.anc : (xs : MElems) → (p : List String) → (i : Nat) → xs.WF → xs.allMarks.Nodup →
    AncOK (xs.spaths p i) xs.under
  | .nil, _, _, _, _ => by intro e' he'; simp [MElems.spaths] at he'
  | .clear x r, p, i, wf, nd => by
    simp only [MElems.WF] at wf
    simp only [MElems.allMarks, List.nodup_append] at nd
    have hX := MJ.anc x (p ++ [toString i]) wf.1 nd.1
    have hR := MElems.anc r p (i+1) wf.2 nd.2.1
    have := anc_append _ _ x.under r.under x.allMarks r.allMarks hX hR
      (fun e he => MJ.mem_spaths_mark he) (fun e he => MElems.mem_spaths_mark he)
      (fun g => MJ.under_sub g x) (fun g => MElems.under_sub g r)
      (fun g => MJ.under_nil g x) (fun g => MElems.under_nil g r)
      (fun g hg hg' => nd.2.2 g hg g hg' rfl)
      (by
        intro e' he' e he
        obtain ⟨j, hj, hpj⟩ := MElems.spaths_ext r p (i+1) e he
        have hpi := (MJ.spaths_ext x _ e' he').prefix
        have hne : toString i ≠ toString j := fun e0 => by have := toString_nat_inj e0; omega
        exact ⟨sep hne hpi hpj, sep (Ne.symm hne) hpj hpi⟩)
    simpa [MElems.spaths, MElems.under] using this
  | .marked dg x r, p, i, wf, nd => by
    simp only [MElems.WF] at wf
    simp only [MElems.allMarks, List.nodup_cons, List.mem_append, not_or, List.nodup_append] at nd
    have hX := MJ.anc x (p ++ [toString i]) wf.1 nd.2.1
    have hR := MElems.anc r p (i+1) wf.2 nd.2.2.1
    have hO := anc_own (p ++ [toString i]) dg _ x.under x.allMarks hX (MJ.spaths_ext x _)
      (fun e he => MJ.mem_spaths_mark he) nd.1.1 (fun g => MJ.under_sub g x)
    have := anc_append _ _ (fun g => if dg = g then x.allMarks else x.under g) r.under
      (dg :: x.allMarks) r.allMarks hO hR
      (by
        intro e he
        simp only [List.mem_cons] at he ⊢
        rcases he with rfl | he
        · exact .inl rfl
        · exact .inr (MJ.mem_spaths_mark he))
      (fun e he => MElems.mem_spaths_mark he)
      (by
        intro g h hh
        simp only [List.mem_cons]
        by_cases hd : dg = g
        · simp only [hd, if_true] at hh; exact .inr hh
        · simp only [hd, if_false] at hh; exact .inr (MJ.under_sub g x h hh))
      (fun g => MElems.under_sub g r)
      (by
        intro g hg
        simp only [List.mem_cons, not_or] at hg
        have hd : dg ≠ g := fun e0 => hg.1 e0.symm
        simp [hd, MJ.under_nil g x hg.2])
      (fun g => MElems.under_nil g r)
      (by
        intro g hg hg'
        simp only [List.mem_cons] at hg
        rcases hg with rfl | hg
        · exact nd.1.2 hg'
        · exact nd.2.2.2 g hg g hg' rfl)
      (by
        intro e' he' e he
        obtain ⟨j, hj, hpj⟩ := MElems.spaths_ext r p (i+1) e he
        have hpi : (p ++ [toString i]) <+: e'.1 := by
          simp only [List.mem_cons] at he'
          rcases he' with rfl | he'
          · exact List.prefix_refl _
          · exact (MJ.spaths_ext x _ e' he').prefix
        have hne : toString i ≠ toString j := fun e0 => by have := toString_nat_inj e0; omega
        exact ⟨sep hne hpi hpj, sep (Ne.symm hne) hpj hpi⟩)
    simpa [MElems.spaths, MElems.under] using this
  | .decoy _ r, p, i, wf, nd => by
    simp only [MElems.WF] at wf
    simp only [MElems.allMarks] at nd
    simpa [MElems.spaths, MElems.under] using MElems.anc r p (i+1) wf nd
theorem MMems.anc : (ms : MMems) → (p : List String) → ms.WF → ms.allMarks.Nodup →
    AncOK (ms.spaths p) ms.under
  | .nil, _, _, _ => by intro e' he'; simp [MMems.spaths] at he'
  | .clear k x r, p, wf, nd => by
    simp only [MMems.WF] at wf
    simp only [MMems.allMarks, List.nodup_append] at nd
    have hX := MJ.anc x (p ++ [escapeSeg k]) wf.2.2.1 nd.1
    have hR := MMems.anc r p wf.2.2.2.2 nd.2.1
    have hkeys : ∀ k' ∈ r.keys, k ≠ k' := fun k' hk' e0 => by
      have := MMems.keysGt_mem r k wf.2.2.2.1 k' hk'
      exact slt_irrefl k (e0 ▸ this)
    have := anc_append _ _ x.under r.under x.allMarks r.allMarks hX hR
      (fun e he => MJ.mem_spaths_mark he) (fun e he => MMems.mem_spaths_mark he)
      (fun g => MJ.under_sub g x) (fun g => MMems.under_sub g r)
      (fun g => MJ.under_nil g x) (fun g => MMems.under_nil g r)
      (fun g hg hg' => nd.2.2 g hg g hg' rfl)
      (by
        intro e' he' e he
        obtain ⟨k', hk', hpk⟩ := MMems.spaths_ext r p e he
        have hpi := (MJ.spaths_ext x _ e' he').prefix
        have hne : escapeSeg k ≠ escapeSeg k' := fun e0 => hkeys k' hk' (escapeSeg_inj e0)
        exact ⟨sep hne hpi hpk, sep (Ne.symm hne) hpk hpi⟩)
    simpa [MMems.spaths, MMems.under] using this
  | .marked k dg x r, p, wf, nd => by
    simp only [MMems.WF] at wf
    simp only [MMems.allMarks, List.nodup_cons, List.mem_append, not_or, List.nodup_append] at nd
    have hX := MJ.anc x (p ++ [escapeSeg k]) wf.2.2.1 nd.2.1
    have hR := MMems.anc r p wf.2.2.2.2 nd.2.2.1
    have hkeys : ∀ k' ∈ r.keys, k ≠ k' := fun k' hk' e0 => by
      have := MMems.keysGt_mem r k wf.2.2.2.1 k' hk'
      exact slt_irrefl k (e0 ▸ this)
    have hO := anc_own (p ++ [escapeSeg k]) dg _ x.under x.allMarks hX (MJ.spaths_ext x _)
      (fun e he => MJ.mem_spaths_mark he) nd.1.1 (fun g => MJ.under_sub g x)
    have := anc_append _ _ (fun g => if dg = g then x.allMarks else x.under g) r.under
      (dg :: x.allMarks) r.allMarks hO hR
      (by
        intro e he
        simp only [List.mem_cons] at he ⊢
        rcases he with rfl | he
        · exact .inl rfl
        · exact .inr (MJ.mem_spaths_mark he))
      (fun e he => MMems.mem_spaths_mark he)
      (by
        intro g h hh
        simp only [List.mem_cons]
        by_cases hd : dg = g
        · simp only [hd, if_true] at hh; exact .inr hh
        · simp only [hd, if_false] at hh; exact .inr (MJ.under_sub g x h hh))
      (fun g => MMems.under_sub g r)
      (by
        intro g hg
        simp only [List.mem_cons, not_or] at hg
        have hd : dg ≠ g := fun e0 => hg.1 e0.symm
        simp [hd, MJ.under_nil g x hg.2])
      (fun g => MMems.under_nil g r)
      (by
        intro g hg hg'
        simp only [List.mem_cons] at hg
        rcases hg with rfl | hg
        · exact nd.1.2 hg'
        · exact nd.2.2.2 g hg g hg' rfl)
      (by
        intro e' he' e he
        obtain ⟨k', hk', hpk⟩ := MMems.spaths_ext r p e he
        have hpi : (p ++ [escapeSeg k]) <+: e'.1 := by
          simp only [List.mem_cons] at he'
          rcases he' with rfl | he'
          · exact List.prefix_refl _
          · exact (MJ.spaths_ext x _ e' he').prefix
        have hne : escapeSeg k ≠ escapeSeg k' := fun e0 => hkeys k' hk' (escapeSeg_inj e0)
        exact ⟨sep hne hpi hpk, sep (Ne.symm hne) hpk hpi⟩)
    simpa [MMems.spaths, MMems.under] using this
end

end Impl

namespace Impl

/-! ### rendered pointers -/

mutual
theorem MJ.paths_eq_spaths : (T : MJ) → (segs : List String) →
    T.paths (joinPath segs) = (T.spaths segs).map (fun e => (joinPath e.1, e.2))
  | .leaf _, _ => rfl
  | .arr xs, segs => by simpa [MJ.paths, MJ.spaths] using MElems.paths_eq_spaths xs segs 0
  | .obj ms _, segs => by simpa [MJ.paths, MJ.spaths] using MMems.paths_eq_spaths ms segs
theorem MElems.paths_eq_spaths : (xs : MElems) → (segs : List String) → (i : Nat) →
    xs.paths (joinPath segs) i = (xs.spaths segs i).map (fun e => (joinPath e.1, e.2))
  | .nil, _, _ => rfl
  | .clear x r, segs, i => by
    simp only [MElems.paths, MElems.spaths, List.map_append, fmtPath_joinPath, escapeSeg_index,
      MJ.paths_eq_spaths x, MElems.paths_eq_spaths r segs (i+1)]
  | .marked dg x r, segs, i => by
    simp only [MElems.paths, MElems.spaths, List.map_cons, List.map_append, fmtPath_joinPath, escapeSeg_index,
      MJ.paths_eq_spaths x, MElems.paths_eq_spaths r segs (i+1)]
  | .decoy _ r, segs, i => by
    simpa [MElems.paths, MElems.spaths] using MElems.paths_eq_spaths r segs (i+1)
theorem MMems.paths_eq_spaths : (ms : MMems) → (segs : List String) →
    ms.paths (joinPath segs) = (ms.spaths segs).map (fun e => (joinPath e.1, e.2))
  | .nil, _ => rfl
  | .clear k x r, segs => by
    simp only [MMems.paths, MMems.spaths, List.map_append, fmtPath_joinPath,
      MJ.paths_eq_spaths x, MMems.paths_eq_spaths r segs]
  | .marked k dg x r, segs => by
    simp only [MMems.paths, MMems.spaths, List.map_cons, List.map_append, fmtPath_joinPath,
      MJ.paths_eq_spaths x, MMems.paths_eq_spaths r segs]
end

theorem noslash_index (i : Nat) : '/' ∉ (toString i).toList := by
  have : (toString i).toList = Nat.toDigits 10 i := Nat.toList_repr
  rw [this]
  intro h
  have := Nat.isDigit_of_mem_toDigits (by omega) (by omega) h
  revert this; decide

theorem noslash_escapeSeg (k : String) : '/' ∉ (escapeSeg k).toList := by
  unfold escapeSeg
  rw [String.toList_ofList]
  exact escapeL_no_slash _

mutual
theorem MJ.spaths_noslash : (T : MJ) → (p : List String) → (∀ s ∈ p, '/' ∉ s.toList) →
    ∀ e ∈ T.spaths p, ∀ s ∈ e.1, '/' ∉ s.toList
  | .leaf _, _, _, e, h => by simp [MJ.spaths] at h
  | .arr xs, p, hp, e, h => MElems.spaths_noslash xs p 0 hp e (by simpa [MJ.spaths] using h)
  | .obj ms _, p, hp, e, h => MMems.spaths_noslash ms p hp e (by simpa [MJ.spaths] using h)
theorem MElems.spaths_noslash : (xs : MElems) → (p : List String) → (i : Nat) → (∀ s ∈ p, '/' ∉ s.toList) →
    ∀ e ∈ xs.spaths p i, ∀ s ∈ e.1, '/' ∉ s.toList
  | .nil, _, _, _, e, h => by simp [MElems.spaths] at h
  | .clear x r, p, i, hp, e, h => by
    have hp' : ∀ s ∈ p ++ [toString i], '/' ∉ s.toList := by
      intro s hs
      simp only [List.mem_append, List.mem_singleton] at hs
      rcases hs with hs | rfl
      · exact hp s hs
      · exact noslash_index i
    simp only [MElems.spaths, List.mem_append] at h
    rcases h with h | h
    · exact MJ.spaths_noslash x _ hp' e h
    · exact MElems.spaths_noslash r p (i+1) hp e h
  | .marked dg x r, p, i, hp, e, h => by
    have hp' : ∀ s ∈ p ++ [toString i], '/' ∉ s.toList := by
      intro s hs
      simp only [List.mem_append, List.mem_singleton] at hs
      rcases hs with hs | rfl
      · exact hp s hs
      · exact noslash_index i
    simp only [MElems.spaths, List.mem_cons, List.mem_append] at h
    rcases h with rfl | h | h
    · exact hp'
    · exact MJ.spaths_noslash x _ hp' e h
    · exact MElems.spaths_noslash r p (i+1) hp e h
  | .decoy _ r, p, i, hp, e, h => by
    simp only [MElems.spaths] at h
    exact MElems.spaths_noslash r p (i+1) hp e h
theorem MMems.spaths_noslash : (ms : MMems) → (p : List String) → (∀ s ∈ p, '/' ∉ s.toList) →
    ∀ e ∈ ms.spaths p, ∀ s ∈ e.1, '/' ∉ s.toList
  | .nil, _, _, e, h => by simp [MMems.spaths] at h
  | .clear k x r, p, hp, e, h => by
    have hp' : ∀ s ∈ p ++ [escapeSeg k], '/' ∉ s.toList := by
      intro s hs
      simp only [List.mem_append, List.mem_singleton] at hs
      rcases hs with hs | rfl
      · exact hp s hs
      · exact noslash_escapeSeg k
    simp only [MMems.spaths, List.mem_append] at h
    rcases h with h | h
    · exact MJ.spaths_noslash x _ hp' e h
    · exact MMems.spaths_noslash r p hp e h
  | .marked k dg x r, p, hp, e, h => by
    have hp' : ∀ s ∈ p ++ [escapeSeg k], '/' ∉ s.toList := by
      intro s hs
      simp only [List.mem_append, List.mem_singleton] at hs
      rcases hs with hs | rfl
      · exact hp s hs
      · exact noslash_escapeSeg k
    simp only [MMems.spaths, List.mem_cons, List.mem_append] at h
    rcases h with rfl | h | h
    · exact hp'
    · exact MJ.spaths_noslash x _ hp' e h
    · exact MMems.spaths_noslash r p hp e h
end

/-- **The holder's string test is the tree's ancestry.** For two marked nodes of a conformant
tree with pointers `q'`, `q` (as `format_path` renders them) and digests `g'`, `g`:
`q` starts with `q' + "/"` iff the node `g` lies strictly inside the node `g'`. -/
theorem starts_with_iff_under (T : MJ) (wf : T.WF) (nd : T.allMarks.Nodup)
    (q' g' q g : String) (h' : (q', g') ∈ T.paths "") (h : (q, g) ∈ T.paths "") :
    ((q' ++ "/").toList.isPrefixOf q.toList = true) ↔ g ∈ T.under g' := by
  have hp : T.paths "" = (T.spaths []).map (fun e => (joinPath e.1, e.2)) := by
    simpa [joinPath] using MJ.paths_eq_spaths T []
  rw [hp] at h' h
  obtain ⟨e', he', heq'⟩ := List.mem_map.mp h'
  obtain ⟨e, he, heq⟩ := List.mem_map.mp h
  simp only [Prod.mk.injEq] at heq' heq
  obtain ⟨rfl, rfl⟩ := heq'
  obtain ⟨rfl, rfl⟩ := heq
  rw [joinPath_prefix e'.1 e.1 (MJ.spaths_noslash T [] (by simp) e' he')
    (MJ.spaths_noslash T [] (by simp) e he)]
  exact MJ.anc T [] wf nd e' he' e he

/-! ### dropping a node drops everything inside it: two selections that differ only inside
dropped nodes project alike -/

mutual
theorem MJ.project_inside (S0 S1 : String → Bool) : (T : MJ) → T.allMarks.Nodup →
    (∀ g ∈ T.allMarks, S1 g = S0 g ∨ ∃ a, g ∈ T.under a ∧ S0 a = false ∧ S1 a = false) →
    T.project S1 = T.project S0
  | .leaf _, _, _ => rfl
  | .arr xs, nd, h => by
    simp only [MJ.allMarks] at nd h
    simp only [MJ.under] at h
    simp [MJ.project, MElems.project_inside S0 S1 xs nd h]
  | .obj ms _, nd, h => by
    simp only [MJ.allMarks] at nd h
    simp only [MJ.under] at h
    simp [MJ.project, MMems.project_inside S0 S1 ms nd h]
theorem MElems.project_inside (S0 S1 : String → Bool) : (xs : MElems) → xs.allMarks.Nodup →
    (∀ g ∈ xs.allMarks, S1 g = S0 g ∨ ∃ a, g ∈ xs.under a ∧ S0 a = false ∧ S1 a = false) →
    xs.project S1 = xs.project S0
  | .nil, _, _ => rfl
  | .clear x r, nd, h => by
    simp only [MElems.allMarks, List.nodup_append] at nd
    have hx : ∀ g ∈ x.allMarks, S1 g = S0 g ∨ ∃ a, g ∈ x.under a ∧ S0 a = false ∧ S1 a = false := by
      intro g hg
      rcases h g (by simp [MElems.allMarks, hg]) with h1 | ⟨a, ha, h2⟩
      · exact .inl h1
      · simp only [MElems.under, List.mem_append] at ha
        rcases ha with ha | ha
        · exact .inr ⟨a, ha, h2⟩
        · exact absurd rfl (nd.2.2 g hg g (MElems.under_sub a r g ha))
    have hr : ∀ g ∈ r.allMarks, S1 g = S0 g ∨ ∃ a, g ∈ r.under a ∧ S0 a = false ∧ S1 a = false := by
      intro g hg
      rcases h g (by simp [MElems.allMarks, hg]) with h1 | ⟨a, ha, h2⟩
      · exact .inl h1
      · simp only [MElems.under, List.mem_append] at ha
        rcases ha with ha | ha
        · exact absurd rfl (nd.2.2 g (MJ.under_sub a x g ha) g hg)
        · exact .inr ⟨a, ha, h2⟩
    simp [MElems.project, MJ.project_inside S0 S1 x nd.1 hx, MElems.project_inside S0 S1 r nd.2.1 hr]
  | .marked dg x r, nd, h => by
    simp only [MElems.allMarks, List.nodup_cons, List.mem_append, not_or, List.nodup_append] at nd
    -- the node itself is not inside anything here: both selections agree on it
    have hdg : S1 dg = S0 dg := by
      rcases h dg (by simp [MElems.allMarks]) with h1 | ⟨a, ha, _⟩
      · exact h1
      · exfalso
        simp only [MElems.under, List.mem_append] at ha
        rcases ha with ha | ha
        · by_cases hd : dg = a
          · simp only [hd, if_true] at ha; exact nd.1.1 (hd ▸ ha)
          · simp only [hd, if_false] at ha; exact nd.1.1 (MJ.under_sub a x dg ha)
        · exact nd.1.2 (MElems.under_sub a r dg ha)
    have hr : ∀ g ∈ r.allMarks, S1 g = S0 g ∨ ∃ a, g ∈ r.under a ∧ S0 a = false ∧ S1 a = false := by
      intro g hg
      rcases h g (by simp [MElems.allMarks, hg]) with h1 | ⟨a, ha, h2⟩
      · exact .inl h1
      · simp only [MElems.under, List.mem_append] at ha
        rcases ha with ha | ha
        · exfalso
          have : g ∈ x.allMarks := by
            by_cases hd : dg = a
            · simpa [hd] using ha
            · simp only [hd, if_false] at ha; exact MJ.under_sub a x g ha
          exact nd.2.2.2 g this g hg rfl
        · exact .inr ⟨a, ha, h2⟩
    have ihr := MElems.project_inside S0 S1 r nd.2.2.1 hr
    cases hs : S0 dg with
    | false => simp [MElems.project, hdg, hs, ihr]
    | true =>
      have hx : ∀ g ∈ x.allMarks, S1 g = S0 g ∨ ∃ a, g ∈ x.under a ∧ S0 a = false ∧ S1 a = false := by
        intro g hg
        rcases h g (by simp [MElems.allMarks, hg]) with h1 | ⟨a, ha, h2⟩
        · exact .inl h1
        · simp only [MElems.under, List.mem_append] at ha
          rcases ha with ha | ha
          · by_cases hd : dg = a
            · subst hd; rw [hs] at h2; exact absurd h2.1 (by simp)
            · simp only [hd, if_false] at ha; exact .inr ⟨a, ha, h2⟩
          · exact absurd rfl (nd.2.2.2 g hg g (MElems.under_sub a r g ha))
      simp [MElems.project, hdg, hs, ihr, MJ.project_inside S0 S1 x nd.2.1 hx]
  | .decoy _ r, nd, h => by
    simp only [MElems.allMarks] at nd h
    simp only [MElems.under] at h
    simp [MElems.project, MElems.project_inside S0 S1 r nd h]
theorem MMems.project_inside (S0 S1 : String → Bool) : (ms : MMems) → ms.allMarks.Nodup →
    (∀ g ∈ ms.allMarks, S1 g = S0 g ∨ ∃ a, g ∈ ms.under a ∧ S0 a = false ∧ S1 a = false) →
    ms.project S1 = ms.project S0
  | .nil, _, _ => rfl
  | .clear k x r, nd, h => by
    simp only [MMems.allMarks, List.nodup_append] at nd
    have hx : ∀ g ∈ x.allMarks, S1 g = S0 g ∨ ∃ a, g ∈ x.under a ∧ S0 a = false ∧ S1 a = false := by
      intro g hg
      rcases h g (by simp [MMems.allMarks, hg]) with h1 | ⟨a, ha, h2⟩
      · exact .inl h1
      · simp only [MMems.under, List.mem_append] at ha
        rcases ha with ha | ha
        · exact .inr ⟨a, ha, h2⟩
        · exact absurd rfl (nd.2.2 g hg g (MMems.under_sub a r g ha))
    have hr : ∀ g ∈ r.allMarks, S1 g = S0 g ∨ ∃ a, g ∈ r.under a ∧ S0 a = false ∧ S1 a = false := by
      intro g hg
      rcases h g (by simp [MMems.allMarks, hg]) with h1 | ⟨a, ha, h2⟩
      · exact .inl h1
      · simp only [MMems.under, List.mem_append] at ha
        rcases ha with ha | ha
        · exact absurd rfl (nd.2.2 g (MJ.under_sub a x g ha) g hg)
        · exact .inr ⟨a, ha, h2⟩
    simp [MMems.project, MJ.project_inside S0 S1 x nd.1 hx, MMems.project_inside S0 S1 r nd.2.1 hr]
  | .marked k dg x r, nd, h => by
    simp only [MMems.allMarks, List.nodup_cons, List.mem_append, not_or, List.nodup_append] at nd
    have hdg : S1 dg = S0 dg := by
      rcases h dg (by simp [MMems.allMarks]) with h1 | ⟨a, ha, _⟩
      · exact h1
      · exfalso
        simp only [MMems.under, List.mem_append] at ha
        rcases ha with ha | ha
        · by_cases hd : dg = a
          · simp only [hd, if_true] at ha; exact nd.1.1 (hd ▸ ha)
          · simp only [hd, if_false] at ha; exact nd.1.1 (MJ.under_sub a x dg ha)
        · exact nd.1.2 (MMems.under_sub a r dg ha)
    have hr : ∀ g ∈ r.allMarks, S1 g = S0 g ∨ ∃ a, g ∈ r.under a ∧ S0 a = false ∧ S1 a = false := by
      intro g hg
      rcases h g (by simp [MMems.allMarks, hg]) with h1 | ⟨a, ha, h2⟩
      · exact .inl h1
      · simp only [MMems.under, List.mem_append] at ha
        rcases ha with ha | ha
        · exfalso
          have : g ∈ x.allMarks := by
            by_cases hd : dg = a
            · simpa [hd] using ha
            · simp only [hd, if_false] at ha; exact MJ.under_sub a x g ha
          exact nd.2.2.2 g this g hg rfl
        · exact .inr ⟨a, ha, h2⟩
    have ihr := MMems.project_inside S0 S1 r nd.2.2.1 hr
    cases hs : S0 dg with
    | false => simp [MMems.project, hdg, hs, ihr]
    | true =>
      have hx : ∀ g ∈ x.allMarks, S1 g = S0 g ∨ ∃ a, g ∈ x.under a ∧ S0 a = false ∧ S1 a = false := by
        intro g hg
        rcases h g (by simp [MMems.allMarks, hg]) with h1 | ⟨a, ha, h2⟩
        · exact .inl h1
        · simp only [MMems.under, List.mem_append] at ha
          rcases ha with ha | ha
          · by_cases hd : dg = a
            · subst hd; rw [hs] at h2; exact absurd h2.1 (by simp)
            · simp only [hd, if_false] at ha; exact .inr ⟨a, ha, h2⟩
          · exact absurd rfl (nd.2.2.2 g hg g (MMems.under_sub a r g ha))
      simp [MMems.project, hdg, hs, ihr, MJ.project_inside S0 S1 x nd.2.1 hx]
end

end Impl
