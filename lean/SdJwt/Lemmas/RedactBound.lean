import SdJwt.Lemmas.Redact
/-!
# Issuer → holder → redaction → key binding → verifier, for a token bound to a holder key

The chain of `redact_verify_issued` for a bound token: the presentation `Holder::build` makes
after `redact(R)` is followed by a key-binding JWT; if the JWT library accepts that JWT under the
bound key, it is typed `kb+jwt` and its `sd_hash` is the hash of the presentation up to its last
`~` (which is what `Holder::build` puts there: `holder_build_bound`), then the verifier accepts
and returns the issued claims minus exactly the redacted claims and everything inside them, plus
`cnf`.
-/
open Assoc Spec Path
namespace Impl

theorem redact_verify_issued_bound (rt : Rt) (mk : Nat → Option String → J → String)
    (paths : List String) (addr : List (List String × String)) (ms : MMems) (Tn : MJ)
    (ds : List SDisc) (decoys : Option (List String)) (X : MJ) (jwt : String) (header : J)
    (strs : List String) (R : List String)
    (wf : (MJ.obj ms none).WF) (hplain : (MJ.obj ms none).digests = [])
    (hk1 : "_sd_alg" ∉ ms.keys) (hk2 : "cnf" ∉ ms.keys)
    (hp : ParsedAll paths addr) (h : markAll mk 0 addr (.obj ms none) = some (Tn, ds)) (hne : ds ≠ [])
    (hdec : ∀ l, decoys = some l → l.Nodup ∧ (∀ g ∈ l, g ∉ Tn.digests))
    (hX : X.WF ∧ X.digests = [])
    (hsig : ∀ payload dsrc,
      encode (MJ.obj ms none).payload paths mk decoys (some X.payload) = .ok (payload, dsrc) →
      rt.jwtDecode jwt = .ok (header, payload))
    (hstr : ∀ s ∈ strs, ∃ e ∈ ds,
      fromBase64 (rt.env "sha-256") s = .ok ⟨s, e.digest, e.key, e.value⟩)
    (hnd : (strs.map (rt.hash "sha-256")).Nodup)
    (hall : ∀ e ∈ ds, ∃ s ∈ strs, rt.hash "sha-256" s = e.digest)
    (hj : '~' ∉ jwt.toList) (hs : ∀ s ∈ strs, '~' ∉ s.toList)
    (hkty : (jidx X.payload "kty").asStr = some "RSA")
    (he : (jidx X.payload "e").asStr.isSome = true) (hn : (jidx X.payload "n").asStr.isSome = true) :
    ∃ ps, Holder.verify rt (assemble jwt strs) = .ok (header, expectedClaims ms (some X), ps) ∧
      ∀ (kb : String) (kh kc : J), '~' ∉ kb.toList → kb.toList ≠ [] →
        rt.kbDecode kb X.payload = .ok (kh, kc) →
        (jidx kh "typ").asStr = some "kb+jwt" →
        (jidx kc "sd_hash").asStr = some (rt.hash "sha-256" (assemble jwt (keptDisclosures ps R))) →
        ∃ msn sdn, Tn = .obj msn sdn ∧
          Verifier.verify rt (assemble jwt (keptDisclosures ps R) ++ kb) true =
            .ok (header, .obj (ains "cnf" X.plain (msn.project (notRedacted Tn R)))) := by
  obtain ⟨hm0, _, _⟩ := no_digests _ wf hplain
  have inv : TreeInv (.obj ms none) := ⟨wf, by rw [hplain]; exact List.nodup_nil, by rw [hm0]; exact List.nodup_nil⟩
  obtain ⟨invn, _, _, _, _⟩ := markAll_inv mk addr 0 (.obj ms none) Tn ds inv h
  obtain ⟨ps, hver, hperm, hfrom⟩ := holder_verify_issued rt mk paths addr ms Tn ds decoys (some X) jwt header
    strs wf hplain hk1 hk2 hp h hne hdec (by intro X' hX'; cases hX'; exact hX) hsig hstr hnd hall hj hs
  refine ⟨ps, hver, ?_⟩
  intro kb kh kc hkb hkbne hkbdec htyp hhash
  have hlist : HolderList Tn ps := hperm
  have hentry : ∀ pe ∈ ps, pe.2.str ∈ strs ∧ rt.hash "sha-256" pe.2.str = pe.2.digest ∧
      fromBase64 (rt.env "sha-256") pe.2.str = .ok pe.2 := by
    intro pe hpe
    obtain ⟨s, hs', hf⟩ := hfrom pe hpe
    have e := fromBase64_str _ s pe.2 hf
    rw [e]
    exact ⟨hs', (fromBase64_digest _ s pe.2 hf).symm, hf⟩
  have hsub : ∀ pe ∈ keptEntries ps R, pe ∈ ps := fun pe hpe => (mem_keptEntries ps R pe).mp hpe |>.1
  have hkeptStr : ∀ s ∈ keptDisclosures ps R, s ∈ strs := by
    intro s hs'
    rw [keptDisclosures_eq] at hs'
    obtain ⟨pe, hpe, rfl⟩ := List.mem_map.mp hs'
    exact (hentry pe (hsub pe hpe)).1
  have hmapdig : (keptDisclosures ps R).map (rt.hash "sha-256") = (keptEntries ps R).map (·.2.digest) := by
    rw [keptDisclosures_eq, List.map_map]
    apply List.map_congr_left
    intro pe hpe
    exact (hentry pe (hsub pe hpe)).2.1
  have hndps : (ps.map (·.2.digest)).Nodup := by
    have : (ps.map (fun e => (e.1, e.2.digest))).map (·.2) = ps.map (·.2.digest) := by
      rw [List.map_map]; rfl
    rw [← this]
    exact (hperm.map (·.2)).symm.nodup (by rw [MJ.paths_snd]; exact invn.ndm)
  have hndk : ((keptDisclosures ps R).map (rt.hash "sha-256")).Nodup := by
    rw [hmapdig]
    have hsl : (keptEntries ps R).Sublist ps := by
      unfold keptEntries
      exact List.filter_sublist.trans List.filter_sublist
    exact (hsl.map _).nodup hndps
  obtain ⟨msn, sdn, hTn, hv⟩ := verifier_verify_issued_bound rt mk paths addr ms Tn ds decoys X jwt header
    (keptDisclosures ps R) kb kh kc wf hplain hk1 hk2 hp h hne hdec hX hsig
    (fun s hs' => hstr s (hkeptStr s hs')) hndk hj (fun s hs' => hs s (hkeptStr s hs')) hkb hkbne hkty he hn
    hkbdec htyp hhash
  refine ⟨msn, sdn, hTn, ?_⟩
  rw [hv]
  -- the selection predicate "hash of a kept string" is "not redacted", on the tree's marks
  have hsel : (fun g => (keptDisclosures ps R).any fun s => decide (rt.hash "sha-256" s = g)) =
      (fun g => (keptEntries ps R).any (fun pe => pe.2.digest = g)) := by
    funext g
    rw [keptDisclosures_eq, List.any_map]
    apply Bool.eq_iff_iff.mpr
    simp only [List.any_eq_true, Function.comp, decide_eq_true_eq]
    constructor
    · rintro ⟨pe, hpe, e⟩
      exact ⟨pe, hpe, by rw [← (hentry pe (hsub pe hpe)).2.1]; exact e⟩
    · rintro ⟨pe, hpe, e⟩
      exact ⟨pe, hpe, by rw [(hentry pe (hsub pe hpe)).2.1]; exact e⟩
  rw [hsel]
  have hkp := kept_project Tn invn.wf invn.ndm ps hlist R
  rw [hTn] at hkp
  simp only [MJ.project, J.obj.injEq] at hkp
  have hXm : X.allMarks = [] := by
    apply List.eq_nil_iff_forall_not_mem.mpr
    intro g hg
    have := MJ.allMarks_sub_digests X hX.1 g hg
    rw [hX.2] at this
    cases this
  rw [project_plain_of_no_marks _ X hXm, hkp, hTn]

/-- what `Holder::build` makes of a bound token with key-binding parameters: the kept
presentation, and a key-binding JWT content whose `sd_hash` is the hash of exactly that string -/
theorem holder_build_bound (rt : Rt) (jwt : String) (ps : List PathEntry) (R : List String)
    (p : KbParams) (nonce : String) (now : Int) (a b sig : List Char) (payload : J)
    (hseg : splitOn '.' jwt.toList = [a, b, sig])
    (hclaims : rt.decodeClaims (strOf b) = some payload)
    (halg : (jidx payload "_sd_alg").asStr = some "sha-256")
    (hcnf : (jget? payload "cnf").isSome = true) :
    Holder.build rt { sdJwt := jwt, paths := ps } R (some p) nonce now =
      .ok (assemble jwt (keptDisclosures ps R),
           some { typ := "kb+jwt", alg := p.alg, aud := p.aud, nonce := nonce, iat := now,
                  sdHash := rt.hash "sha-256" (assemble jwt (keptDisclosures ps R)) }) := by
  have hpart : getJwtPart jwt.toList .claims = .ok b := by simp [getJwtPart, hseg]
  have hclaims' : rt.decodeClaims (String.ofList b) = some payload := hclaims
  simp [Holder.build, hpart, strOf, hclaims', hcnf, halg, parseHashAlg]

end Impl
